import Mathlib.Data.List.Perm.Basic
import Mathlib.Data.List.Sort
import E3fpVerif.Lemmas.Rigid
import E3fpVerif.Lemmas.Relabel
/-!
# Hypothesis (S) for geometries that come from coordinates (over ℝ)

`stereoIndicators` receives the neighbours of a centre as `(bond code, identifier, centred vector)`,
sorted by `(code, identifier)`; ties are ordered by atom index, which a renumbering changes.  This file
shows that the multiset of `(code, identifier, stereo code)` does not depend on the order of ties.

* `stereoBody_eq_map`: the codes are one function `codeFn y z isY` applied to every neighbour.
* `pickZRaw_perm`, `pickZ_perm`: `pickZ` is a function of the multiset of candidates (the selected
  candidate is the one whose `(truncated long angle, bond code)` is unique and least, `ZSpec`; the guard
  against a projection shorter than `EPS` looks at the selected vector only).
* `mean_perm`, `keys_eq_of_perm`: the y axis is the same for two key-sorted orders (unique key: same
  position, same neighbour; no unique key: the mean), except under the two-neighbour rule.
* `stereo_F_of_not_two`: hence, unless there are exactly two neighbours and they have the same key,
  both orders are `map F` for one `F` — **no hypothesis on the vectors at all**.
* `stereo_two`, `triples_two`: with exactly two neighbours of equal key the y axis is the *first*
  neighbour, the two orders use different axes, and the code pairs agree for a `GoodPair` of vectors
  (collinear neighbours included: then `pickZ` returns nothing, and the other neighbour lies in the
  polar cone, `cone_of_proj_zero`).
* `triples_perm`: (S) for `stereoIndicators`.
* `GenPos`, `stereoSym_ofCoords`, `Geo.guard`, `ofCoords_guard_relabels`, `runFp_guard`: transport to
  `Geo.ofCoords` and to the run (`Props/C03.lean`: `fingerprint_relabel_coords`).
* `two_rule_zero_vector`, `not_stereoSym_ofCoords`, `not_relabels_ofCoords`: `StereoSym` quantified over
  *all* tuple lists (including lists that contain the centre) is false for coordinates.
* `two_rule_tiny_projection`, `not_triples_perm_of_proper`: the condition on the projections in
  `GoodPair` cannot be dropped.
-/
namespace E3fpVerif
namespace Stereo
open RealScalar E3fpVerif.V3 E3fpVerif.Rigid

/-- a neighbour as `stereoIndicators` sees it -/
abbrev Nbr := Nat × Int × V3 ℝ

/-- the `(bond code, identifier)` key of a neighbour -/
def key (t : Nbr) : Nat × Int := (t.1, t.2.1)

/-! ## list helpers -/

theorem range_filterMap_getElem? {β γ : Type} (l : List β) (h : β → Option γ) :
    (List.range l.length).filterMap (fun i => (l[i]?).bind h) = l.filterMap h := by
  have h1 : (List.range l.length).map (fun i => l[i]?) = l.map some := by
    apply List.ext_getElem
    · simp
    · intro i h1 h2
      simp at h1
      simp [h1]
  have h2 : (List.range l.length).filterMap (fun i => (l[i]?).bind h)
      = ((List.range l.length).map (fun i => l[i]?)).filterMap (fun o => o.bind h) := by
    rw [List.filterMap_map]; rfl
  rw [h2, h1, List.filterMap_map]
  rfl

theorem filterMap_ite {β γ : Type} (l : List β) (p : β → Bool) (g : β → γ) :
    l.filterMap (fun t => if p t then some (g t) else none) = (l.filter p).map g := by
  induction l with
  | nil => rfl
  | cons a as ih =>
    by_cases h : p a <;> simp [h, ih]

/-- in a list mapped to keys, an element whose key occurs once is determined by its key -/
theorem eq_of_count_map_eq_one {β κ : Type} [DecidableEq κ] (f : β → κ) :
    ∀ (l : List β) (a b : β), a ∈ l → b ∈ l → f a = f b → (l.map f).count (f a) = 1 → a = b
  | [], a, _, ha, _, _, _ => by simp at ha
  | x :: xs, a, b, ha, hb, hab, hc => by
    rw [List.map_cons, List.count_cons] at hc
    rcases List.mem_cons.1 ha with rfl | ha' <;> rcases List.mem_cons.1 hb with rfl | hb'
    · rfl
    · have : 0 < (xs.map f).count (f a) := List.count_pos_iff.2 (by rw [hab]; exact List.mem_map_of_mem hb')
      simp at hc
      omega
    · have : 0 < (xs.map f).count (f a) := List.count_pos_iff.2 (List.mem_map_of_mem ha')
      rw [hab] at hc this
      simp at hc
      omega
    · have : 0 < (xs.map f).count (f a) := List.count_pos_iff.2 (List.mem_map_of_mem ha')
      have hne : ¬ (f x == f a) = true := by
        intro h
        rw [if_pos h] at hc
        omega
      rw [if_neg hne, Nat.add_zero] at hc
      exact eq_of_count_map_eq_one f xs a b ha' hb' hab hc

/-! ## `firstUnique` -/

theorem firstUnique_some {κ : Type} [DecidableEq κ] (keys : List κ) (i : Nat) (h : firstUnique keys = some i) :
    ∃ hi : i < keys.length, keys.count keys[i] = 1 ∧ ∀ j (hj : j < i), keys.count (keys[j]'(by omega)) ≠ 1 := by
  unfold firstUnique at h
  simp only [Option.map_eq_some_iff] at h
  obtain ⟨p, hp, rfl⟩ := h
  rw [List.find?_eq_some_iff_getElem] at hp
  obtain ⟨hc, j, hj, hjp, hbefore⟩ := hp
  simp only [List.length_zipIdx] at hj
  simp only [List.getElem_zipIdx, Nat.zero_add] at hjp
  subst hjp
  refine ⟨hj, by simpa using hc, ?_⟩
  intro j' hj'
  have := hbefore j' hj'
  simpa using this

theorem firstUnique_none {κ : Type} [DecidableEq κ] (keys : List κ) (h : firstUnique keys = none) :
    ∀ k ∈ keys, keys.count k ≠ 1 := by
  unfold firstUnique at h
  simp only [Option.map_eq_none_iff, List.find?_eq_none, beq_iff_eq] at h
  intro k hk
  obtain ⟨i, hi, rfl⟩ := List.getElem_of_mem hk
  exact h (keys[i], i) (List.mem_zipIdx_iff_getElem?.2 (by simp [hi]))

/-! ## the stereo codes as a function applied to each neighbour -/

/-- long angle of `v` against the axis `y` (snapped) -/
noncomputable def laFn (y v : V3 ℝ) : ℝ :=
  let a := Scalar.sub (Scalar.div Scalar.pi Scalar.two) (V3.angle v y)
  if Scalar.lt (Scalar.abs a) Scalar.eps then Scalar.zero else a

/-- long sign -/
noncomputable def lsFn (a : ℝ) : Int := let s := Scalar.sign a; if s = 0 then 1 else s

/-- the `pickZ` candidate made from a neighbour -/
noncomputable def candFn (y : V3 ℝ) (t : Nbr) : Nat × Int × V3 ℝ × ℝ :=
  (t.1, t.2.1, t.2.2, Scalar.abs (laFn y t.2.2))

/-- the `pickZ` candidates: neighbours that do not sit on the centre and are not the y atom -/
noncomputable def candL (nbrs : List Nbr) (y : V3 ℝ) (isY : Nbr → Bool) : List (Nat × Int × V3 ℝ × ℝ) :=
  (nbrs.filter (fun t => !(V3.isZero t.2.2) && !(isY t))).map (candFn y)

/-- the quadrant number of `v` -/
noncomputable def qFn (y z v : V3 ℝ) (isy : Bool) : Int :=
  let lat := V3.projectToPlane v y
  let afz := if isy then Scalar.zero else V3.signedAngle lat z y
  let latAngle := V3.mod2pi (Scalar.add afz (Scalar.div Scalar.pi (Scalar.ofNat 4)))
  2 + (Scalar.truncNat (Scalar.div (Scalar.mul latAngle (Scalar.ofNat 4)) (Scalar.mul Scalar.two Scalar.pi)) : Nat)

/-- the stereo code of one neighbour, given the axes -/
noncomputable def codeFn (y : V3 ℝ) (zopt : Option (V3 ℝ)) (isY : Nbr → Bool) (t : Nbr) : Int :=
  if V3.isZero t.2.2 then 0
  else if Scalar.lt (Scalar.sub (Scalar.div Scalar.pi Scalar.two) (Scalar.abs (laFn y t.2.2)))
      (Scalar.div Scalar.pi (Scalar.ofNat Gen.POLAR_CONE_DEN)) then lsFn (laFn y t.2.2)
  else match zopt with
    | none => 0
    | some z => qFn y z t.2.2 (isY t) * lsFn (laFn y t.2.2)

theorem candOf_eq (nbrs : List Nbr) (y : V3 ℝ) (yInd : Option Nat) (isY : Nbr → Bool)
    (hY : ∀ i (h : i < nbrs.length), (yInd = some i) ↔ isY nbrs[i] = true) :
    candOf nbrs ((nbrs.map (·.2.2)).map V3.isZero) yInd ((laOf (nbrs.map (·.2.2)) y).map Scalar.abs)
      = candL nbrs y isY := by
  unfold candOf candL
  rw [← filterMap_ite, ← range_filterMap_getElem? nbrs]
  apply List.filterMap_congr
  intro i hi
  have hi' : i < nbrs.length := by simpa using hi
  have hy : (yInd != some i) = !(isY nbrs[i]) := by
    rw [Bool.eq_iff_iff]
    simp only [bne_iff_ne, ne_eq, Bool.not_eq_true', ← Bool.not_eq_true]
    exact not_congr (hY i hi')
  simp only [List.getD_eq_getElem?_getD, List.getElem?_map, List.getElem?_range hi', Option.map_some,
    Option.getD_some, List.getElem?_eq_getElem hi', Option.bind_some, laOf, hy, candFn, laFn]

/-- **the stereo codes are one function applied to every neighbour**; the function depends on the axis
`y`, on which neighbours are the y atom, and on the list only through the `pickZ` result -/
theorem stereoBody_eq_map (nbrs : List Nbr) (y : V3 ℝ) (yInd : Option Nat) (isY : Nbr → Bool)
    (hY : ∀ i (h : i < nbrs.length), (yInd = some i) ↔ isY nbrs[i] = true) :
    stereoBody nbrs y yInd = nbrs.map (codeFn y (pickZ (candL nbrs y isY) y) isY) := by
  unfold stereoBody
  simp only [candOf_eq nbrs y yInd isY hY]
  generalize pickZ (candL nbrs y isY) y = zopt
  apply List.ext_getElem
  · simp
  · intro i h1 h2
    have hi : i < nbrs.length := by simpa using h2
    have hy : (yInd = some i) ↔ isY nbrs[i] = true := hY i hi
    cases zopt with
    | none =>
      simp only [List.getElem_map, List.getElem_range, List.getD_eq_getElem?_getD, List.getElem?_map,
        List.getElem?_eq_getElem hi, Option.map_some, Option.getD_some, laOf, codeFn, quadOf, lsFn, laFn,
        List.getElem?_replicate, hi, if_true]
      rfl
    | some z =>
      by_cases hyi : yInd = some i
      · have hyt : isY nbrs[i] = true := hy.1 hyi
        simp only [List.getElem_map, List.getElem_range, List.getD_eq_getElem?_getD, List.getElem?_map,
          List.getElem?_eq_getElem hi, Option.map_some, Option.getD_some, laOf, codeFn, quadOf, lsFn, laFn,
          List.getElem?_range hi, qFn, hyi, hyt, if_true]
        rfl
      · have hyt : isY nbrs[i] = false := by
          cases h : isY nbrs[i]
          · rfl
          · exact absurd (hy.2 h) hyi
        simp only [List.getElem_map, List.getElem_range, List.getD_eq_getElem?_getD, List.getElem?_map,
          List.getElem?_eq_getElem hi, Option.map_some, Option.getD_some, laOf, codeFn, quadOf, lsFn, laFn,
          List.getElem?_range hi, qFn, hyi, hyt, if_false, Bool.false_eq_true]
        rfl

/-! ## `pickZ` does not depend on the order of the candidates -/

abbrev Cand := Nat × Int × V3 ℝ × ℝ

/-- `(truncated long angle, bond code)`: the key `pickZ` requires to be unique -/
noncomputable def tag (c : Cand) : Nat × Nat := (Scalar.truncNat (Scalar.div c.2.2.2 Scalar.zPrec), c.1)

def ltTag (a b : Nat × Nat) : Prop := a.1 < b.1 ∨ (a.1 = b.1 ∧ a.2 < b.2)

theorem lt4_irrefl (a : Nat × Nat × Int × Nat) : lt4 a a = false := by
  simp [lt4]

theorem lt4_trans (a b c : Nat × Nat × Int × Nat) (h1 : lt4 a b = true) (h2 : lt4 b c = true) : lt4 a c = true := by
  simp only [lt4, Bool.or_eq_true, Bool.and_eq_true, decide_eq_true_eq, beq_iff_eq] at *
  omega

theorem lt4_of_ltTag (a b : Nat × Nat × Int × Nat) (h : ltTag (a.1, a.2.1) (b.1, b.2.1)) : lt4 a b = true := by
  simp only [lt4, ltTag, Bool.or_eq_true, Bool.and_eq_true, decide_eq_true_eq, beq_iff_eq] at *
  omega

/-- number of occurrences (with the `BEq` instance `firstUnique` uses) -/
abbrev cnt (l : List (Nat × Nat)) (k : Nat × Nat) : Nat := @List.count _ instBEqOfDecidableEq k l

theorem cnt_perm {l l' : List (Nat × Nat)} (hp : l.Perm l') (k : Nat × Nat) : cnt l k = cnt l' k :=
  @List.Perm.count_eq _ instBEqOfDecidableEq _ _ hp k

theorem cnt_pos {l : List (Nat × Nat)} {k : Nat × Nat} : 0 < cnt l k ↔ k ∈ l :=
  @List.count_pos_iff _ instBEqOfDecidableEq _ _ _

/-- the candidate `pickZRaw` (hence `pickZ`) selects: its tag occurs once, and is the least such tag -/
def ZSpec (cand : List Cand) (c : Cand) : Prop :=
  c ∈ cand ∧ cnt (cand.map tag) (tag c) = 1 ∧
    ∀ c' ∈ cand, cnt (cand.map tag) (tag c') = 1 → ¬ ltTag (tag c') (tag c)

theorem ZSpec.perm {cand cand' : List Cand} (hp : cand.Perm cand') {c : Cand} (h : ZSpec cand c) : ZSpec cand' c := by
  obtain ⟨h1, h2, h3⟩ := h
  have hc : ∀ k, cnt (cand'.map tag) k = cnt (cand.map tag) k := fun k => cnt_perm (hp.map tag).symm k
  refine ⟨hp.mem_iff.1 h1, by rw [hc]; exact h2, ?_⟩
  intro c' hc' hcnt
  rw [hc] at hcnt
  exact h3 c' (hp.mem_iff.2 hc') hcnt

theorem ZSpec.unique {cand : List Cand} {c c' : Cand} (h : ZSpec cand c) (h' : ZSpec cand c') : c = c' := by
  obtain ⟨h1, h2, h3⟩ := h
  obtain ⟨h1', h2', h3'⟩ := h'
  have hn1 := h3 c' h1' h2'
  have hn2 := h3' c h1 h2
  have ht : tag c = tag c' := by
    unfold ltTag at hn1 hn2
    apply Prod.ext <;> omega
  exact eq_of_count_map_eq_one tag cand c c' h1 h1' ht h2

/-- the tagged, sorted list inside `pickZRaw` -/
noncomputable def zSorted (cand : List Cand) : List (Nat × Nat × Int × Nat) :=
  sortByLt lt4 (cand.zipIdx.map (fun p => (Scalar.truncNat (Scalar.div p.1.2.2.2 Scalar.zPrec), p.1.1, p.1.2.1, p.2)))

theorem pickZRaw_eq (cand : List Cand) (y : V3 ℝ) :
    pickZRaw cand y = match firstUnique ((zSorted cand).map (fun t => (t.1, t.2.1))) with
      | some k => some (V3.projectToPlane
          ((cand.getD ((zSorted cand).getD k (0, 0, 0, 0)).2.2.2 (0, 0, V3.vzero, Scalar.zero)).2.2.1) y)
      | none => none := rfl

theorem zSorted_keys_perm (cand : List Cand) :
    ((zSorted cand).map (fun t => (t.1, t.2.1))).Perm (cand.map tag) := by
  unfold zSorted
  refine ((sortByLt_perm lt4 _).map _).trans ?_
  rw [List.map_map]
  apply List.Perm.of_eq
  conv_rhs => rw [← List.zipIdx_map_fst 0 cand, List.map_map]
  rfl

theorem zSorted_mem (cand : List Cand) (t : Nat × Nat × Int × Nat) (ht : t ∈ zSorted cand) :
    ∃ h : t.2.2.2 < cand.length, tag cand[t.2.2.2] = (t.1, t.2.1) := by
  unfold zSorted at ht
  rw [mem_sortByLt, List.mem_map] at ht
  obtain ⟨p, hp, rfl⟩ := ht
  have := List.mem_zipIdx hp
  simp only [Nat.zero_add, Nat.sub_zero] at this
  obtain ⟨_, h2, h3⟩ := this
  refine ⟨h2, ?_⟩
  simp only [tag, h3]

theorem pickZRaw_some (cand : List Cand) (y w : V3 ℝ) (h : pickZRaw cand y = some w) :
    ∃ c, ZSpec cand c ∧ w = V3.projectToPlane c.2.2.1 y := by
  rw [pickZRaw_eq] at h
  cases hf : firstUnique ((zSorted cand).map (fun t => (t.1, t.2.1))) with
  | none => rw [hf] at h; cases h
  | some k =>
    rw [hf] at h
    simp only [Option.some.injEq] at h
    obtain ⟨hk, hcnt, hbefore⟩ := firstUnique_some _ k hf
    have hk' : k < (zSorted cand).length := by simpa using hk
    have hperm := zSorted_keys_perm cand
    obtain ⟨hzi, htag⟩ := zSorted_mem cand _ (List.getElem_mem hk')
    have hgetD : (zSorted cand).getD k (0, 0, 0, 0) = (zSorted cand)[k] := by
      simp [List.getD_eq_getElem?_getD, hk']
    rw [hgetD] at h
    have hgetD2 : cand.getD (zSorted cand)[k].2.2.2 (0, 0, V3.vzero, Scalar.zero) = cand[(zSorted cand)[k].2.2.2] := by
      simp [List.getD_eq_getElem?_getD, hzi]
    rw [hgetD2] at h
    refine ⟨cand[(zSorted cand)[k].2.2.2], ⟨List.getElem_mem hzi, ?_, ?_⟩, h.symm⟩
    · rw [← cnt_perm hperm, htag]
      simpa using hcnt
    · intro c' hc' hcnt' hlt
      rw [← cnt_perm hperm] at hcnt'
      have hmem : tag c' ∈ (zSorted cand).map (fun t => (t.1, t.2.1)) := by
        apply cnt_pos.1; omega
      obtain ⟨j, hj, hje⟩ := List.getElem_of_mem hmem
      have hj' : j < (zSorted cand).length := by simpa using hj
      rw [List.getElem_map] at hje
      rcases Nat.lt_trichotomy j k with hjk | hjk | hjk
      · apply hbefore j hjk
        rw [List.getElem_map, hje]; exact hcnt'
      · subst hjk
        rw [htag, hje] at hlt
        unfold ltTag at hlt
        omega
      · have hs : SortedBy lt4 (zSorted cand) := sortByLt_sorted lt4 lt4_irrefl lt4_trans _
        unfold SortedBy at hs
        have := List.pairwise_iff_getElem.1 hs k j hk' hj' hjk
        rw [htag, ← hje] at hlt
        rw [lt4_of_ltTag _ _ hlt] at this
        cases this

theorem pickZRaw_none (cand : List Cand) (y : V3 ℝ) (h : pickZRaw cand y = none) :
    ∀ c ∈ cand, cnt (cand.map tag) (tag c) ≠ 1 := by
  rw [pickZRaw_eq] at h
  cases hf : firstUnique ((zSorted cand).map (fun t => (t.1, t.2.1))) with
  | some k => rw [hf] at h; cases h
  | none =>
    intro c hc hcnt
    have hperm := zSorted_keys_perm cand
    rw [← cnt_perm hperm] at hcnt
    exact firstUnique_none _ hf (tag c) (cnt_pos.1 (by omega)) hcnt

/-- **`pickZRaw` is a function of the multiset of candidates** -/
theorem pickZRaw_perm (cand cand' : List Cand) (hp : cand.Perm cand') (y : V3 ℝ) : pickZRaw cand y = pickZRaw cand' y := by
  cases h : pickZRaw cand y with
  | none =>
    cases h' : pickZRaw cand' y with
    | none => rfl
    | some w' =>
      obtain ⟨c', hs', _⟩ := pickZRaw_some cand' y w' h'
      have hs := hs'.perm hp.symm
      exact absurd hs.2.1 (pickZRaw_none cand y h c' hs.1)
  | some w =>
    obtain ⟨c, hs, hw⟩ := pickZRaw_some cand y w h
    cases h' : pickZRaw cand' y with
    | none =>
      have hs' := hs.perm hp
      exact absurd hs'.2.1 (pickZRaw_none cand' y h' c hs'.1)
    | some w' =>
      obtain ⟨c', hs', hw'⟩ := pickZRaw_some cand' y w' h'
      have := (hs.perm hp).unique hs'
      rw [hw, hw', this]

/-- **`pickZ` is a function of the multiset of candidates**: the raw selection is, and the guard looks at
the selected vector only -/
theorem pickZ_perm (cand cand' : List Cand) (hp : cand.Perm cand') (y : V3 ℝ) : pickZ cand y = pickZ cand' y := by
  rw [pickZ_eq_raw, pickZ_eq_raw, pickZRaw_perm cand cand' hp y]

/-- `pickZ` returns a vector only if the raw selection does, and then the same one -/
theorem pickZ_some (cand : List Cand) (y w : V3 ℝ) (h : pickZ cand y = some w) :
    pickZRaw cand y = some w ∧ ¬ (Scalar.lt (V3.norm w) Scalar.eps = true) := by
  rw [pickZ_eq_raw] at h
  cases hr : pickZRaw cand y with
  | none => rw [hr] at h; cases h
  | some z =>
    rw [hr, Option.bind_some] at h
    split at h
    · cases h
    · rename_i hg
      cases h
      exact ⟨rfl, hg⟩

/-- `pickZ` returns nothing iff the raw selection does, or selects a vector shorter than `EPS` -/
theorem pickZ_none_iff (cand : List Cand) (y : V3 ℝ) :
    pickZ cand y = none ↔
      pickZRaw cand y = none ∨ ∃ z, pickZRaw cand y = some z ∧ Scalar.lt (V3.norm z) Scalar.eps = true := by
  rw [pickZ_eq_raw]
  cases pickZRaw cand y with
  | none => simp
  | some z =>
    simp only [Option.bind_some, reduceCtorEq, Option.some.injEq, exists_eq_left', false_or]
    split <;> simp_all

/-! ## lists sorted by key that are permutations of each other -/

/-- the strict order on `(code, identifier)` -/
def ltKey (a b : Nat × Int) : Prop := a.1 < b.1 ∨ (a.1 = b.1 ∧ a.2 < b.2)

/-- sorted by `(code, identifier)`, ties in any order -/
def KeySorted (nbrs : List Nbr) : Prop := nbrs.Pairwise (fun a b => ¬ ltKey (key b) (key a))

theorem keys_eq_of_perm {nbrs nbrs' : List Nbr} (hp : nbrs'.Perm nbrs) (hs : KeySorted nbrs) (hs' : KeySorted nbrs') :
    nbrs'.map key = nbrs.map key := by
  refine List.Perm.eq_of_pairwise (le := fun a b => ¬ ltKey b a) ?_ ?_ ?_ (hp.map key)
  · intro a b _ _ h1 h2
    unfold ltKey at h1 h2
    apply Prod.ext <;> omega
  · exact List.pairwise_map.2 hs'
  · exact List.pairwise_map.2 hs

theorem idx_eq_of_count_one {κ : Type} [DecidableEq κ] : ∀ (l : List κ) (i j : Nat) (hi : i < l.length) (hj : j < l.length),
    l.count l[i] = 1 → l[j] = l[i] → j = i
  | [], i, _, hi, _, _, _ => by simp at hi
  | x :: xs, 0, 0, _, _, _, _ => rfl
  | x :: xs, 0, j + 1, _, hj, hc, he => by
    simp only [List.getElem_cons_zero, List.getElem_cons_succ] at hc he
    have : 0 < xs.count x := List.count_pos_iff.2 (he ▸ List.getElem_mem _)
    rw [List.count_cons_self] at hc
    omega
  | x :: xs, i + 1, 0, hi, _, hc, he => by
    have hi' : i < xs.length := by simpa using hi
    simp only [List.getElem_cons_zero, List.getElem_cons_succ] at hc he
    have : 0 < xs.count xs[i] := List.count_pos_iff.2 (List.getElem_mem _)
    rw [← he, List.count_cons_self] at hc
    rw [← he] at this
    omega
  | x :: xs, i + 1, j + 1, hi, hj, hc, he => by
    have hi' : i < xs.length := by simpa using hi
    simp only [List.getElem_cons_succ] at hc he
    rw [List.count_cons] at hc
    have hpos : 0 < xs.count xs[i] := List.count_pos_iff.2 (List.getElem_mem _)
    have hc' : xs.count xs[i] = 1 := by omega
    have := idx_eq_of_count_one xs i j (by simpa using hi) (by simpa using hj) hc' he
    omega

theorem zip_map_self {β γ : Type} (l : List β) (F : β → γ) : l.zip (l.map F) = l.map (fun t => (t, F t)) := by
  induction l with
  | nil => rfl
  | cons a as ih => simp [ih]

/-- the `(code, identifier, stereo code)` triples of a neighbour list -/
noncomputable def triples (nbrs : List Nbr) : List (Nat × Int × Int) :=
  (nbrs.zip (stereoIndicators nbrs)).map (fun p => (p.1.1, p.1.2.1, p.2))

theorem triples_of_map (nbrs : List Nbr) (F : Nbr → Int) (h : stereoIndicators nbrs = nbrs.map F) :
    triples nbrs = nbrs.map (fun t => (t.1, t.2.1, F t)) := by
  unfold triples
  rw [h, zip_map_self, List.map_map]
  rfl

/-! ## the y axis -/

theorem add_right_comm' (a b c : V3 ℝ) : V3.add (V3.add a b) c = V3.add (V3.add a c) b := by
  apply v3_ext <;> simp only [V3.add, add_def] <;> ring

theorem mean_perm {vs vs' : List (V3 ℝ)} (hp : vs'.Perm vs) : V3.mean vs' = V3.mean vs := by
  unfold V3.mean
  rw [hp.length_eq]
  congr 1
  have : RightCommutative (V3.add (α := ℝ)) := ⟨add_right_comm'⟩
  exact hp.foldl_eq _

theorem pickY_some_idx (keys : List (Nat × Int)) (cent : List (V3 ℝ)) (i : Nat) (h : firstUnique keys = some i) :
    pickY keys cent = some (cent.getD i V3.vzero, some i) := by
  unfold pickY; rw [h]

theorem pickY_none_two (keys : List (Nat × Int)) (cent : List (V3 ℝ)) (h : firstUnique keys = none)
    (h2 : keys.length = 2) : pickY keys cent = some (cent.getD 0 V3.vzero, some 0) := by
  unfold pickY; rw [h]; simp only [h2, if_true]

theorem pickY_none_mean (keys : List (Nat × Int)) (cent : List (V3 ℝ)) (h : firstUnique keys = none)
    (h2 : keys.length ≠ 2) :
    pickY keys cent = if Scalar.lt (V3.norm (V3.mean cent)) Scalar.yPrec then none else some (V3.mean cent, none) := by
  unfold pickY; rw [h]; simp only [h2, if_false]

/-! ## the codes when the axis and the y atom are the same for both orders -/

theorem body_perm (nbrs nbrs' : List Nbr) (hp : nbrs'.Perm nbrs) (y : V3 ℝ) (yInd : Option Nat) (isY : Nbr → Bool)
    (hY : ∀ i (h : i < nbrs.length), (yInd = some i) ↔ isY nbrs[i] = true)
    (hY' : ∀ i (h : i < nbrs'.length), (yInd = some i) ↔ isY nbrs'[i] = true) :
    ∃ F : Nbr → Int, stereoBody nbrs y yInd = nbrs.map F ∧ stereoBody nbrs' y yInd = nbrs'.map F := by
  refine ⟨codeFn y (pickZ (candL nbrs y isY) y) isY, stereoBody_eq_map nbrs y yInd isY hY, ?_⟩
  rw [stereoBody_eq_map nbrs' y yInd isY hY']
  have : pickZ (candL nbrs' y isY) y = pickZ (candL nbrs y isY) y :=
    pickZ_perm _ _ ((hp.filter _).map _) y
  rw [this]

/-- **no geometry needed**: unless there are exactly two neighbours and they have the same key, the
stereo codes of two key-sorted orders of the same neighbours are one function `F` of the neighbour -/
theorem stereo_F_of_not_two (nbrs nbrs' : List Nbr) (hp : nbrs'.Perm nbrs) (hk : nbrs'.map key = nbrs.map key)
    (h2 : ¬ (firstUnique (nbrs.map key) = none ∧ nbrs.length = 2)) :
    ∃ F : Nbr → Int, stereoIndicators nbrs = nbrs.map F ∧ stereoIndicators nbrs' = nbrs'.map F := by
  rw [stereoIndicators_eq, stereoIndicators_eq]
  have hlen := hp.length_eq
  by_cases h0 : nbrs.length = 0
  · have e := List.length_eq_zero_iff.1 h0
    subst e
    have e' := hp.eq_nil
    subst e'
    exact ⟨fun _ => 0, rfl, rfl⟩
  · rw [if_neg h0, if_neg (by omega)]
    change ∃ F : Nbr → Int,
      (match pickY (nbrs.map key) (nbrs.map (·.2.2)) with
        | none => List.replicate nbrs.length 0
        | some (y, yInd) => stereoBody nbrs y yInd) = nbrs.map F ∧
      (match pickY (nbrs'.map key) (nbrs'.map (·.2.2)) with
        | none => List.replicate nbrs'.length 0
        | some (y, yInd) => stereoBody nbrs' y yInd) = nbrs'.map F
    rw [hk]
    cases hf : firstUnique (nbrs.map key) with
    | some i =>
      obtain ⟨hi, hcnt, _⟩ := firstUnique_some _ i hf
      have hi1 : i < nbrs.length := by simpa using hi
      have hi2 : i < nbrs'.length := by omega
      rw [List.getElem_map] at hcnt
      have hkj : ∀ j (h : j < nbrs.length), key (nbrs'[j]'(by omega)) = key nbrs[j] := by
        intro j h
        have := List.getElem_of_eq hk (i := j) (by simpa using (by omega : j < nbrs'.length))
        simpa using this
      have hel : nbrs'[i] = nbrs[i] :=
        eq_of_count_map_eq_one key nbrs _ _ (hp.mem_iff.1 (List.getElem_mem hi2)) (List.getElem_mem hi1) (hkj i hi1)
          (by rw [hkj i hi1]; exact hcnt)
      rw [pickY_some_idx _ _ i hf, pickY_some_idx _ _ i hf]
      have hy1 : (nbrs.map (·.2.2)).getD i V3.vzero = nbrs[i].2.2 := by
        simp [List.getD_eq_getElem?_getD, hi1]
      have hy2 : (nbrs'.map (·.2.2)).getD i V3.vzero = nbrs[i].2.2 := by
        simp [List.getD_eq_getElem?_getD, hi2, hel]
      simp only [hy1, hy2]
      have hY : ∀ j (h : j < nbrs.length), (some i = some j) ↔ decide (key nbrs[j] = key nbrs[i]) = true := by
        intro j h
        rw [decide_eq_true_iff]
        constructor
        · intro e; cases e; rfl
        · intro e
          have := idx_eq_of_count_one (nbrs.map key) i j hi (by simpa using h)
            (by rw [List.getElem_map]; exact hcnt) (by simpa using e)
          rw [this]
      refine body_perm nbrs nbrs' hp nbrs[i].2.2 (some i) (fun t => decide (key t = key nbrs[i])) hY ?_
      intro j h
      have hj : j < nbrs.length := by omega
      rw [hkj j hj]
      exact hY j hj
    | none =>
      have hne : (nbrs.map key).length ≠ 2 := by
        intro h; apply h2; exact ⟨hf, by simpa using h⟩
      rw [pickY_none_mean _ _ hf hne, pickY_none_mean _ _ hf hne]
      have hm : V3.mean (nbrs'.map (·.2.2)) = V3.mean (nbrs.map (·.2.2)) := mean_perm (hp.map _)
      rw [hm]
      by_cases hlt : Scalar.lt (V3.norm (V3.mean (nbrs.map (·.2.2)))) Scalar.yPrec = true
      · rw [if_pos hlt]
        refine ⟨fun _ => 0, ?_, ?_⟩
        · simp
        · simp
      · rw [if_neg hlt]
        exact body_perm nbrs nbrs' hp _ none (fun _ => false) (fun _ _ => by simp) (fun _ _ => by simp)

/-! ## geometry for the two-neighbour rule -/

/-- not shorter than `√EPS` (`as_unit` normalises the vector) -/
def Proper (v : V3 ℝ) : Prop := (Scalar.eps : ℝ) ≤ V3.dot v v

/-- zero, or not shorter than `√EPS`: `as_unit` does not leave it as a short non-zero vector -/
def NotTiny (w : V3 ℝ) : Prop := V3.isZero w = true ∨ Proper w

theorem dot_self_nonneg (v : V3 ℝ) : 0 ≤ V3.dot v v := by
  simp only [V3.dot, add_def, mul_def]
  nlinarith [mul_self_nonneg v.x, mul_self_nonneg v.y, mul_self_nonneg v.z]

theorem Proper.pos {v : V3 ℝ} (h : Proper v) : 0 < V3.dot v v := lt_of_lt_of_le eps_pos h

theorem asUnit_proper {v : V3 ℝ} (h : Proper v) : V3.asUnit v = V3.sdiv v (Real.sqrt (V3.dot v v)) := by
  unfold V3.asUnit
  simp only []
  rw [if_neg]
  · rfl
  · rw [lt_def]; exact not_lt.2 h

theorem asUnit_zero {v : V3 ℝ} (h : V3.isZero v = true) : V3.asUnit v = v := by
  unfold V3.asUnit
  simp only []
  rw [if_pos]
  rw [lt_def]
  obtain ⟨hx, hy, hz⟩ := (isZero_iff v).1 h
  simp only [V3.dot, hx, hy, hz, add_def, mul_def]
  have := eps_pos
  simpa using this

theorem dot_asUnit_self {v : V3 ℝ} (h : Proper v) : V3.dot (V3.asUnit v) (V3.asUnit v) = 1 := by
  rw [asUnit_proper h]
  have hs := h.pos
  have hq : Real.sqrt (V3.dot v v) * Real.sqrt (V3.dot v v) = V3.dot v v := Real.mul_self_sqrt hs.le
  have hq0 : Real.sqrt (V3.dot v v) ≠ 0 := (Real.sqrt_pos.2 hs).ne'
  simp only [V3.dot, V3.sdiv, add_def, mul_def, div_def] at *
  generalize Real.sqrt (v.x * v.x + v.y * v.y + v.z * v.z) = r at *
  have e : v.x / r * (v.x / r) + v.y / r * (v.y / r) + v.z / r * (v.z / r)
      = (v.x * v.x + v.y * v.y + v.z * v.z) / (r * r) := by
    field_simp
  rw [e, hq]
  exact div_self hs.ne'

theorem isZero_asUnit_proper {v : V3 ℝ} (h : Proper v) : V3.isZero (V3.asUnit v) = false := by
  cases hz : V3.isZero (V3.asUnit v) with
  | false => rfl
  | true =>
    obtain ⟨hx, hy, hzz⟩ := (isZero_iff _).1 hz
    have := dot_asUnit_self h
    simp only [V3.dot, hx, hy, hzz, add_def, mul_def] at this
    norm_num at this

theorem clip1_one : Scalar.clip1 (1 : ℝ) = 1 := by
  unfold Scalar.clip1
  rw [if_neg, if_neg]
  · rw [lt_def]; simp
  · rw [lt_def]; simp

theorem angle_self {v : V3 ℝ} (h : Proper v) : V3.angle v v = 0 := by
  unfold V3.angle
  simp only [isZero_asUnit_proper h, dot_asUnit_self h, clip1_one, acos_def, Real.arccos_one]
  simp

theorem dot_comm (u v : V3 ℝ) : V3.dot u v = V3.dot v u := by
  simp only [V3.dot, add_def, mul_def]; ring

theorem angle_comm {a b : V3 ℝ} (ha : Proper a) (hb : Proper b) : V3.angle a b = V3.angle b a := by
  unfold V3.angle
  simp only [isZero_asUnit_proper ha, isZero_asUnit_proper hb, dot_comm (V3.asUnit a)]

theorem cross_self (u : V3 ℝ) (n : V3 ℝ) : V3.dot n (V3.cross u u) = 0 := by
  simp only [V3.dot, V3.cross, add_def, mul_def, sub_def]; ring

theorem sign_zero : Scalar.sign (0 : ℝ) = 0 := by
  unfold Scalar.sign
  rw [if_neg, if_neg] <;> simp

theorem mod2pi_two_pi : V3.mod2pi (Scalar.add (0 : ℝ) (Scalar.mul Scalar.two Scalar.pi)) = 0 := by
  unfold V3.mod2pi
  simp only [add_def, mul_def, two_def, pi_def, zero_add, sub_def]
  rw [if_pos]
  · ring
  · rw [le_def]

/-- the signed angle of a vector against itself is 0, unless the vector is short and non-zero -/
theorem signedAngle_self {w : V3 ℝ} (h : NotTiny w) (n : V3 ℝ) : V3.signedAngle w w n = 0 := by
  unfold V3.signedAngle
  simp only [cross_self, sign_zero]
  have hang : (if V3.isZero (V3.asUnit w) = true then (Scalar.zero : ℝ)
      else Scalar.acos (Scalar.clip1 (V3.dot (V3.asUnit w) (V3.asUnit w)))) = 0 := by
    rcases h with h | h
    · rw [asUnit_zero h, if_pos h]; simp
    · rw [if_neg (by rw [isZero_asUnit_proper h]; simp), dot_asUnit_self h, clip1_one]
      simp
  rw [hang]
  simp only [show ((0 : Int) = -1) = False by simp, if_false]
  exact mod2pi_two_pi

theorem isZero_proper {v : V3 ℝ} (h : Proper v) : V3.isZero v = false := by
  cases hz : V3.isZero v with
  | false => rfl
  | true =>
    obtain ⟨hx, hy, hzz⟩ := (isZero_iff _).1 hz
    have := h.pos
    simp only [V3.dot, hx, hy, hzz, add_def, mul_def] at this
    norm_num at this

theorem abs_of_nonneg' {a : ℝ} (h : 0 ≤ a) : Scalar.abs a = a := by
  unfold Scalar.abs
  rw [if_neg]
  rw [lt_def, zero_def]
  exact not_lt.2 h

theorem laFn_self {a : V3 ℝ} (h : Proper a) : laFn a a = Real.pi / 2 := by
  unfold laFn
  simp only [angle_self h, sub_def, div_def, pi_def, two_def, sub_zero]
  have hpi : (0 : ℝ) ≤ Real.pi / 2 := by have := Real.pi_pos; linarith
  rw [abs_of_nonneg' hpi, if_neg]
  rw [lt_def, eps_def]
  have := Real.two_le_pi
  linarith

theorem lsFn_half_pi : lsFn (Real.pi / 2) = 1 := by
  unfold lsFn Scalar.sign
  have hpi : (0 : ℝ) < Real.pi / 2 := by have := Real.pi_pos; linarith
  have h1 : Scalar.lt (Scalar.zero : ℝ) (Real.pi / 2) = true := by rw [lt_def, zero_def]; exact hpi
  simp only [h1, if_true]
  simp

/-- the y atom itself lies in the polar cone, on the positive side -/
theorem codeFn_yatom {a : V3 ℝ} (h : Proper a) (zopt : Option (V3 ℝ)) (isY : Nbr → Bool) (t : Nbr) (ht : t.2.2 = a) :
    codeFn a zopt isY t = 1 := by
  unfold codeFn
  have hpi : (0 : ℝ) ≤ Real.pi / 2 := by have := Real.pi_pos; linarith
  rw [ht, isZero_proper h, laFn_self h, abs_of_nonneg' hpi, lsFn_half_pi]
  simp only [Bool.false_eq_true, if_false]
  rw [if_pos]
  rw [lt_def]
  simp only [sub_def, div_def, pi_def, two_def, ofNat_def, sub_self]
  exact div_pos Real.pi_pos (by norm_num [Gen.POLAR_CONE_DEN])

theorem dot_proj_unit (v u : V3 ℝ) (hu : V3.dot u u = 1) :
    V3.dot (V3.sub v (V3.smul (V3.dot v u) u)) (V3.sub v (V3.smul (V3.dot v u) u)) = V3.dot v v - (V3.dot v u) ^ 2 := by
  simp only [V3.dot, V3.sub, V3.smul, add_def, mul_def, sub_def] at *
  linear_combination (v.x * u.x + v.y * u.y + v.z * u.z) ^ 2 * hu

/-- squared length of the component of `v` orthogonal to `n` -/
theorem dot_projectToPlane {v n : V3 ℝ} (hn : Proper n) :
    V3.dot (V3.projectToPlane v n) (V3.projectToPlane v n) = V3.dot v v - (V3.dot v n) ^ 2 / V3.dot n n := by
  unfold V3.projectToPlane
  simp only []
  rw [dot_proj_unit v _ (dot_asUnit_self hn), asUnit_proper hn]
  have hs := hn.pos
  have hq : Real.sqrt (V3.dot n n) * Real.sqrt (V3.dot n n) = V3.dot n n := Real.mul_self_sqrt hs.le
  have hq0 : Real.sqrt (V3.dot n n) ≠ 0 := (Real.sqrt_pos.2 hs).ne'
  have e : V3.dot v (V3.sdiv n (Real.sqrt (V3.dot n n))) = V3.dot v n / Real.sqrt (V3.dot n n) := by
    simp only [V3.dot, V3.sdiv, add_def, mul_def, div_def]
    ring
  rw [e, div_pow, sq (Real.sqrt _), hq]

/-- the guard of `pickZ`: a vector shorter than `EPS` does not define a direction -/
noncomputable def zGuard (z : V3 ℝ) : Option (V3 ℝ) := if Scalar.lt (V3.norm z) Scalar.eps then none else some z

/-- shorter than `EPS` ⇔ squared length below `EPS²` -/
theorem norm_lt_eps_iff (w : V3 ℝ) : Scalar.lt (V3.norm w) Scalar.eps = true ↔ V3.dot w w < (Scalar.eps : ℝ) ^ 2 := by
  rw [lt_def]
  unfold V3.norm
  rw [sqrt_def]
  exact Real.sqrt_lt' eps_pos

theorem eps_sq_le_eps : (Scalar.eps : ℝ) ^ 2 ≤ Scalar.eps := by rw [eps_def]; norm_num

theorem dot_self_of_isZero {w : V3 ℝ} (h : V3.isZero w = true) : V3.dot w w = 0 := by
  obtain ⟨hx, hy, hz⟩ := (isZero_iff w).1 h
  simp [V3.dot, hx, hy, hz]

theorem zGuard_zero {w : V3 ℝ} (h : V3.isZero w = true) : zGuard w = none := by
  unfold zGuard
  rw [if_pos]
  rw [norm_lt_eps_iff, dot_self_of_isZero h]
  have := eps_pos
  positivity

/-- squared length at least `EPS²` (a fortiori: at least `EPS`): the guard lets the vector through -/
theorem zGuard_of_le {w : V3 ℝ} (h : (Scalar.eps : ℝ) ^ 2 ≤ V3.dot w w) : zGuard w = some w := by
  unfold zGuard
  rw [if_neg]
  rw [norm_lt_eps_iff]
  exact not_lt.2 h

theorem zGuard_proper {w : V3 ℝ} (h : Proper w) : zGuard w = some w := zGuard_of_le (le_trans eps_sq_le_eps h)

/-- under `NotTiny` the guard fires exactly on the zero vector -/
theorem zGuard_notTiny {w : V3 ℝ} (h : NotTiny w) : zGuard w = if V3.isZero w then none else some w := by
  rcases h with h | h
  · rw [zGuard_zero h, if_pos h]
  · rw [zGuard_proper h, isZero_proper h]; rfl

/-! ### a neighbour on the y axis lies in the polar cone -/

theorem abs_def (a : ℝ) : Scalar.abs a = |a| := by
  unfold Scalar.abs
  split
  · rename_i h
    rw [lt_def, zero_def] at h
    rw [abs_of_neg h]; rfl
  · rename_i h
    rw [lt_def, zero_def, not_lt] at h
    rw [abs_of_nonneg h]

theorem clip1_neg_one : Scalar.clip1 (-1 : ℝ) = -1 := by
  unfold Scalar.clip1
  rw [if_neg, if_neg]
  · rw [lt_def]; norm_num
  · rw [lt_def]; simp

theorem dot_asUnit_asUnit {a b : V3 ℝ} (ha : Proper a) (hb : Proper b) :
    V3.dot (V3.asUnit b) (V3.asUnit a) = V3.dot b a / (Real.sqrt (V3.dot b b) * Real.sqrt (V3.dot a a)) := by
  rw [asUnit_proper ha, asUnit_proper hb]
  generalize Real.sqrt (V3.dot b b) = rb
  generalize Real.sqrt (V3.dot a a) = ra
  simp only [V3.dot, V3.sdiv, add_def, mul_def, div_def]
  ring

/-- the component of `b` orthogonal to `a` vanishes: the angle between them is 0 or π -/
theorem angle_of_proj_zero {a b : V3 ℝ} (ha : Proper a) (hb : Proper b)
    (hz : V3.isZero (V3.projectToPlane b a) = true) : V3.angle b a = 0 ∨ V3.angle b a = Real.pi := by
  have h0 := dot_self_of_isZero hz
  rw [dot_projectToPlane ha] at h0
  have hpa := ha.pos
  have hpb := hb.pos
  have hsq : (V3.dot b a) ^ 2 = V3.dot b b * V3.dot a a := by
    have h1 : (V3.dot b a) ^ 2 / V3.dot a a = V3.dot b b := by linarith
    rw [div_eq_iff hpa.ne'] at h1
    exact h1
  have hc2 : (V3.dot b a / (Real.sqrt (V3.dot b b) * Real.sqrt (V3.dot a a))) ^ 2 = 1 := by
    rw [div_pow, mul_pow, Real.sq_sqrt hpb.le, Real.sq_sqrt hpa.le, hsq]
    exact div_self (mul_pos hpb hpa).ne'
  have hc := sq_eq_one_iff.1 hc2
  unfold V3.angle
  simp only [isZero_asUnit_proper hb, dot_asUnit_asUnit ha hb, Bool.false_eq_true, if_false, acos_def]
  rcases hc with h | h
  · left; rw [h, clip1_one, Real.arccos_one]
  · right; rw [h, clip1_neg_one, Real.arccos_neg_one]

/-- … so its long angle is ±π/2, inside the polar cone: its code does not involve the z axis -/
theorem cone_of_proj_zero {a b : V3 ℝ} (ha : Proper a) (hb : Proper b)
    (hz : V3.isZero (V3.projectToPlane b a) = true) :
    Scalar.lt (Scalar.sub (Scalar.div Scalar.pi Scalar.two) (Scalar.abs (laFn a b)))
      (Scalar.div Scalar.pi (Scalar.ofNat Gen.POLAR_CONE_DEN)) = true := by
  have hpi := Real.pi_pos
  have h2pi := Real.two_le_pi
  have habs : Scalar.abs (laFn a b) = Real.pi / 2 := by
    unfold laFn
    simp only [abs_def, sub_def, div_def, pi_def, two_def, zero_def]
    rcases angle_of_proj_zero ha hb hz with h | h
    · have e : |Real.pi / 2| = Real.pi / 2 := abs_of_pos (by linarith)
      rw [h, sub_zero, e, if_neg (by rw [lt_def, eps_def]; linarith), e]
    · have e : |Real.pi / 2 - Real.pi| = Real.pi / 2 := by
        rw [abs_of_neg (by linarith)]; ring
      rw [h, e, if_neg (by rw [lt_def, eps_def]; linarith), e]
  rw [lt_def, habs]
  simp only [sub_def, div_def, pi_def, two_def, ofNat_def, sub_self]
  exact div_pos Real.pi_pos (by norm_num [Gen.POLAR_CONE_DEN])

/-- inside the polar cone the code is the long sign, whatever the z axis -/
theorem codeFn_cone {y : V3 ℝ} (zopt : Option (V3 ℝ)) (isY : Nbr → Bool) (t : Nbr) (hnz : V3.isZero t.2.2 = false)
    (hcone : Scalar.lt (Scalar.sub (Scalar.div Scalar.pi Scalar.two) (Scalar.abs (laFn y t.2.2)))
      (Scalar.div Scalar.pi (Scalar.ofNat Gen.POLAR_CONE_DEN)) = true) :
    codeFn y zopt isY t = lsFn (laFn y t.2.2) := by
  unfold codeFn
  rw [hnz, if_neg (by simp), if_pos hcone]

/-- the code of the other neighbour, as a function of its long angle only -/
noncomputable def otherCode (la : ℝ) : Int :=
  if Scalar.lt (Scalar.sub (Scalar.div Scalar.pi Scalar.two) (Scalar.abs la))
      (Scalar.div Scalar.pi (Scalar.ofNat Gen.POLAR_CONE_DEN)) then lsFn la
  else (2 + (Scalar.truncNat (Scalar.div (Scalar.mul (V3.mod2pi (Scalar.add (0 : ℝ) (Scalar.div Scalar.pi (Scalar.ofNat 4))))
      (Scalar.ofNat 4)) (Scalar.mul Scalar.two Scalar.pi)) : Nat)) * lsFn la

theorem codeFn_other {a b : V3 ℝ} (hb : Proper b) (hp : NotTiny (V3.projectToPlane b a)) (isY : Nbr → Bool) (t : Nbr)
    (ht : t.2.2 = b) (hy : isY t = false) :
    codeFn a (some (V3.projectToPlane b a)) isY t = otherCode (laFn a b) := by
  unfold codeFn otherCode qFn
  rw [ht, hy, isZero_proper hb]
  simp only [Bool.false_eq_true, if_false, signedAngle_self hp]

theorem laFn_comm {a b : V3 ℝ} (ha : Proper a) (hb : Proper b) : laFn a b = laFn b a := by
  unfold laFn
  rw [angle_comm ha hb]

theorem firstUnique_pair {κ : Type} [DecidableEq κ] (k : κ) : firstUnique [k, k] = none := by
  simp [firstUnique, List.zipIdx]

open Classical in
/-- two different neighbours with the same key, first one `A` (the y atom): its code is 1, the z axis
is the other neighbour projected - unless that projection is shorter than `EPS` (`B` on the y axis) -/
theorem stereo_two_gen (A B : Nbr) (hk : key A = key B) (hne : B ≠ A) (ha : Proper A.2.2) (hb : Proper B.2.2) :
    stereoIndicators [A, B]
      = [1, codeFn A.2.2 (zGuard (V3.projectToPlane B.2.2 A.2.2)) (fun t => decide (t = A)) B] := by
  rw [stereoIndicators_eq]
  rw [if_neg (by simp)]
  have hf : firstUnique ([A, B].map (fun t => (t.1, t.2.1))) = none := by
    change firstUnique [key A, key B] = none
    rw [hk]; exact firstUnique_pair _
  rw [pickY_none_two _ _ hf (by simp)]
  change stereoBody [A, B] A.2.2 (some 0) = _
  rw [stereoBody_eq_map [A, B] A.2.2 (some 0) (fun t => decide (t = A))]
  · have hc : candL [A, B] A.2.2 (fun t => decide (t = A)) = [candFn A.2.2 B] := by
      unfold candL
      simp [isZero_proper hb, hne]
    rw [hc, pickZ_singleton]
    simp only [List.map_cons, List.map_nil]
    rw [codeFn_yatom ha _ _ A rfl]
    rfl
  · intro i hi
    have : i = 0 ∨ i = 1 := by simp at hi; omega
    rcases this with rfl | rfl
    · simp
    · simp [hne]

theorem otherCode_cone {la : ℝ}
    (hcone : Scalar.lt (Scalar.sub (Scalar.div Scalar.pi Scalar.two) (Scalar.abs la))
      (Scalar.div Scalar.pi (Scalar.ofNat Gen.POLAR_CONE_DEN)) = true) : otherCode la = lsFn la := by
  unfold otherCode
  rw [if_pos hcone]

open Classical in
/-- … and the other neighbour's code is `otherCode` of its long angle, when its projection is not a
short non-zero vector.  Two cases: the projection is at least `√EPS` long and defines the z axis
(quadrant of the neighbour against itself); or it is the zero vector (`B` on the y axis), there is no z
axis, and `B` lies in the polar cone, where `otherCode` is the long sign as well. -/
theorem stereo_two (A B : Nbr) (hk : key A = key B) (hne : B ≠ A) (ha : Proper A.2.2) (hb : Proper B.2.2)
    (hp : NotTiny (V3.projectToPlane B.2.2 A.2.2)) :
    stereoIndicators [A, B] = [1, otherCode (laFn A.2.2 B.2.2)] := by
  rw [stereo_two_gen A B hk hne ha hb]
  rcases hp with hz | hpr
  · have hcone := cone_of_proj_zero ha hb hz
    rw [codeFn_cone _ _ B (isZero_proper hb) hcone, otherCode_cone hcone]
  · rw [zGuard_proper hpr, codeFn_other hb (Or.inr hpr) _ B rfl (by simp [hne])]

/-- what the two-neighbour rule needs of the two centred vectors: neither is shorter than `√EPS`, and
the component of each orthogonal to the other is zero or not shorter than `√EPS` -/
def GoodPair (a b : V3 ℝ) : Prop :=
  Proper a ∧ Proper b ∧ NotTiny (V3.projectToPlane b a) ∧ NotTiny (V3.projectToPlane a b)

theorem GoodPair.symm {a b : V3 ℝ} (h : GoodPair a b) : GoodPair b a := ⟨h.2.1, h.1, h.2.2.2, h.2.2.1⟩

theorem triples_two (A B : Nbr) (hk : key A = key B) (hne : B ≠ A) (hg : GoodPair A.2.2 B.2.2) :
    triples [B, A] = triples [A, B] := by
  unfold triples
  rw [stereo_two A B hk hne hg.1 hg.2.1 hg.2.2.1, stereo_two B A hk.symm (Ne.symm hne) hg.2.1 hg.1 hg.2.2.2,
    laFn_comm hg.2.1 hg.1]
  have h1 : A.1 = B.1 := by have := congrArg Prod.fst hk; exact this
  have h2 : A.2.1 = B.2.1 := by have := congrArg Prod.snd hk; exact this
  simp [h1, h2]

theorem perm_pair {β : Type} {l : List β} {a b : β} (h : l.Perm [a, b]) : l = [a, b] ∨ l = [b, a] := by
  have hl := h.length_eq
  match l, hl with
  | [c, d], _ =>
    have hc : c ∈ [a, b] := h.mem_iff.1 (by simp)
    simp only [List.mem_cons, List.not_mem_nil, or_false] at hc
    rcases hc with rfl | rfl
    · have := (List.perm_cons c).1 h
      have := List.perm_singleton.1 this
      left; rw [this]
    · have h' : [c, d].Perm [c, a] := h.trans (List.Perm.swap _ _ _)
      have := (List.perm_cons c).1 h'
      have := List.perm_singleton.1 this
      right; rw [this]

/-- **(S) for `stereoIndicators`**: two orders of the same neighbours, both sorted by
`(code, identifier)`, give the same multiset of `(code, identifier, stereo code)` — with no
hypothesis at all unless there are exactly two neighbours and they have the same key, in which case
the two centred vectors are required to be a `GoodPair` -/
theorem triples_perm (nbrs nbrs' : List Nbr) (hp : nbrs'.Perm nbrs) (hs : KeySorted nbrs) (hs' : KeySorted nbrs')
    (hg : ∀ A B, nbrs = [A, B] → key A = key B → B ≠ A → GoodPair A.2.2 B.2.2) :
    (triples nbrs').Perm (triples nbrs) := by
  have hk := keys_eq_of_perm hp hs hs'
  by_cases h2 : firstUnique (nbrs.map key) = none ∧ nbrs.length = 2
  · obtain ⟨hf, hl⟩ := h2
    match nbrs, hl with
    | [A, B], _ =>
      have hkk : key A = key B := by
        by_contra hne
        have := firstUnique_none _ hf (key A) (by simp)
        apply this
        simp [hne]
      rcases perm_pair hp with h | h
      · rw [h]
      · by_cases hAB : B = A
        · rw [h, hAB]
        · rw [h, triples_two A B hkk hAB (hg A B rfl hkk hAB)]
  · obtain ⟨F, h1, h1'⟩ := stereo_F_of_not_two nbrs nbrs' hp hk h2
    rw [triples_of_map _ F h1, triples_of_map _ F h1']
    exact hp.map _

/-! ### checking `Proper` and `NotTiny` without square roots -/

theorem eps_le_one : (Scalar.eps : ℝ) ≤ 1 := by rw [eps_def]; norm_num

/-- at least unit length is more than enough -/
theorem proper_of_one_le {v : V3 ℝ} (h : 1 ≤ V3.dot v v) : Proper v := le_trans eps_le_one h

/-- `|v|²|n|² − (v·n)² ≥ EPS |n|²`: the component of `v` orthogonal to `n` is at least `√EPS` long -/
theorem notTiny_proj_of {v n : V3 ℝ} (hn : Proper n)
    (h : Scalar.eps * V3.dot n n ≤ V3.dot v v * V3.dot n n - (V3.dot v n) ^ 2) : NotTiny (V3.projectToPlane v n) := by
  right
  unfold Proper
  rw [dot_projectToPlane hn]
  have hs := hn.pos
  rw [le_sub_iff_add_le, ← le_sub_iff_add_le', div_le_iff₀ hs]
  linarith

theorem notTiny_proj_of' {v n : V3 ℝ} (hn : Proper n)
    (h : V3.dot n n ≤ V3.dot v v * V3.dot n n - (V3.dot v n) ^ 2) : NotTiny (V3.projectToPlane v n) := by
  apply notTiny_proj_of hn
  have := mul_le_mul_of_nonneg_right eps_le_one hn.pos.le
  linarith

/-! ## transport to `Geo.ofCoords` -/

/-- a neighbour tuple with its centred coordinate -/
noncomputable def toNbr (X : Nat → V3 ℝ) (c : Nat) (t : Nat × Int × Nat) : Nbr := (t.1, t.2.1, V3.sub (X t.2.2) (X c))

theorem stereoTriples_ofCoords (mult : ℝ) (X : Nat → V3 ℝ) (c : Nat) (l : List (Nat × Int × Nat)) :
    stereoTriples (Geo.ofCoords mult X) c l = triples (l.map (toNbr X c)) := by
  unfold stereoTriples triples
  change (l.zip (stereoIndicators (l.map (toNbr X c)))).map _ = _
  rw [List.zip_map_left, List.map_map]
  rfl

theorem keySorted_toNbr (X : Nat → V3 ℝ) (c : Nat) (l : List (Nat × Int × Nat)) (h : SortedBy lt2 l) :
    KeySorted (l.map (toNbr X c)) := by
  unfold KeySorted
  rw [List.pairwise_map]
  unfold SortedBy at h
  refine h.imp ?_
  intro a b hab
  simp only [lt2, Bool.or_eq_false_iff, Bool.and_eq_false_iff, decide_eq_false_iff_not, beq_eq_false_iff_ne, ne_eq] at hab
  simp only [ltKey, key, toNbr]
  omega

/-- **general position**, for the atoms `S` the fingerprinter works on: two different atoms are at
least `√EPS` apart, and seen from an atom `c`, the component of the vector to an atom `q` orthogonal to
the vector to another atom `p` is zero (`c, p, q` collinear) or at least `√EPS` long -/
structure GenPos (X : Nat → V3 ℝ) (S : List Nat) : Prop where
  apart : ∀ c ∈ S, ∀ p ∈ S, p ≠ c → Proper (V3.sub (X p) (X c))
  offline : ∀ c ∈ S, ∀ p ∈ S, ∀ q ∈ S, p ≠ c → q ≠ c → p ≠ q →
    NotTiny (V3.projectToPlane (V3.sub (X q) (X c)) (V3.sub (X p) (X c)))

/-- the tuple lists the fingerprinter passes to the stereo step for centre `c`: atoms of `S` other
than `c` -/
def Legit (S : List Nat) (c : Nat) (l : List (Nat × Int × Nat)) : Prop :=
  c ∈ S ∧ ∀ t ∈ l, t.2.2 ∈ S ∧ t.2.2 ≠ c

instance (S : List Nat) (c : Nat) (l : List (Nat × Int × Nat)) : Decidable (Legit S c l) := by
  unfold Legit; infer_instance

/-- **(S) for coordinates**, on the tuple lists the fingerprinter produces -/
theorem stereoSym_ofCoords (mult : ℝ) (X X' : Nat → V3 ℝ) (π : Nat → Nat) (hX : ∀ a, X' (π a) = X a)
    (S : List Nat) (hgp : GenPos X S) (c : Nat) (l l' : List (Nat × Int × Nat)) (hl : Legit S c l)
    (hp : l'.Perm (l.map (relTuple π))) (hs : SortedBy lt2 l) (hs' : SortedBy lt2 l') :
    (stereoTriples (Geo.ofCoords mult X') (π c) l').Perm (stereoTriples (Geo.ofCoords mult X) c l) := by
  rw [stereoTriples_ofCoords, stereoTriples_ofCoords]
  have hmap : (l.map (relTuple π)).map (toNbr X' (π c)) = l.map (toNbr X c) := by
    rw [List.map_map]
    apply List.map_congr_left
    intro t _
    simp only [Function.comp, toNbr, relTuple, hX]
  have hp' : (l'.map (toNbr X' (π c))).Perm (l.map (toNbr X c)) := by
    rw [← hmap]; exact hp.map _
  apply triples_perm _ _ hp' (keySorted_toNbr X c l hs) (keySorted_toNbr X' (π c) l' hs')
  intro A B hAB _ hne
  match l, hl, hAB with
  | [t1, t2], hl, hAB =>
    simp only [List.map_cons, List.map_nil, List.cons.injEq, and_true] at hAB
    obtain ⟨rfl, rfl⟩ := hAB
    obtain ⟨hc, hmem⟩ := hl
    obtain ⟨h1S, h1c⟩ := hmem t1 (by simp)
    obtain ⟨h2S, h2c⟩ := hmem t2 (by simp)
    have hpq : t1.2.2 ≠ t2.2.2 := by
      intro e
      apply hne
      simp only [toNbr, e]
      have := ‹key (toNbr X c t1) = key (toNbr X c t2)›
      simp only [key, toNbr, Prod.mk.injEq] at this
      rw [this.1, this.2]
    exact ⟨hgp.apart c hc _ h1S h1c, hgp.apart c hc _ h2S h2c,
      hgp.offline c hc _ h1S _ h2S h1c h2c hpq, hgp.offline c hc _ h2S _ h1S h2c h1c (Ne.symm hpq)⟩

/-! ## the geometry restricted to the tuple lists the fingerprinter produces -/

/-- `g` with the stereo step restricted to legitimate inputs (centre in `S`, neighbours in `S` and
different from the centre); elsewhere all codes are 0.  The fingerprinter run on the atoms `S` never
leaves the legitimate inputs (`runFp_guard`). -/
def _root_.E3fpVerif.Geo.guard (S : List Nat) (g : Geo) : Geo where
  within := g.within
  stereo c l := if Legit S c l then g.stereo c l else l.map (fun _ => 0)

theorem stereoTriples_guard_pos (S : List Nat) (g : Geo) (c : Nat) (l : List (Nat × Int × Nat)) (h : Legit S c l) :
    stereoTriples (g.guard S) c l = stereoTriples g c l := by
  unfold stereoTriples Geo.guard
  simp only [if_pos h]

theorem stereoTriples_guard_neg (S : List Nat) (g : Geo) (c : Nat) (l : List (Nat × Int × Nat)) (h : ¬ Legit S c l) :
    stereoTriples (g.guard S) c l = l.map (fun t => (t.1, t.2.1, 0)) := by
  unfold stereoTriples Geo.guard
  simp only [if_neg h]
  rw [zip_map_self, List.map_map]
  rfl

theorem legit_relabel (π : Nat → Nat) (hinj : ∀ a b, π a = π b → a = b) (S S' : List Nat)
    (hS : ∀ a, π a ∈ S' ↔ a ∈ S) (c : Nat) (l l' : List (Nat × Int × Nat)) (hp : l'.Perm (l.map (relTuple π))) :
    Legit S' (π c) l' ↔ Legit S c l := by
  unfold Legit
  rw [hS]
  apply and_congr_right
  intro _
  constructor
  · intro h t ht
    have := h (relTuple π t) (hp.mem_iff.2 (List.mem_map_of_mem ht))
    simp only [relTuple, hS] at this
    exact ⟨this.1, fun e => this.2 (by rw [e])⟩
  · intro h t' ht'
    obtain ⟨t, ht, rfl⟩ := List.mem_map.1 (hp.mem_iff.1 ht')
    have := h t ht
    simp only [relTuple, hS]
    exact ⟨this.1, fun e => this.2 (hinj _ _ e)⟩

/-- **hypothesis (S) discharged for coordinates**: the geometry of the renumbered conformer relabels
the geometry of the original one (on the inputs the fingerprinter produces) -/
theorem ofCoords_guard_relabels (mult : ℝ) (X X' : Nat → V3 ℝ) (π : Nat → Nat) (hinj : ∀ a b, π a = π b → a = b)
    (hX : ∀ a, X' (π a) = X a) (S S' : List Nat) (hS : ∀ a, π a ∈ S' ↔ a ∈ S) (hgp : GenPos X S) :
    Geo.Relabels π ((Geo.ofCoords mult X).guard S) ((Geo.ofCoords mult X').guard S') := by
  refine ⟨?_, StereoSym2.toSym ?_⟩
  · intro k a b
    show Scalar.le (V3.dist (X' (π a)) (X' (π b))) _ = Scalar.le (V3.dist (X a) (X b)) _
    rw [hX, hX]
  · intro c l l' hp hs hs'
    have hleg := legit_relabel π hinj S S' hS c l l' hp
    by_cases hl : Legit S c l
    · rw [stereoTriples_guard_pos S _ c l hl, stereoTriples_guard_pos S' _ (π c) l' (hleg.2 hl)]
      exact stereoSym_ofCoords mult X X' π hX S hgp c l l' hl hp hs hs'
    · rw [stereoTriples_guard_neg S _ c l hl, stereoTriples_guard_neg S' _ (π c) l' (fun h => hl (hleg.1 h))]
      refine (hp.map _).trans ?_
      rw [List.map_map]
      exact List.Perm.of_eq rfl

/-! ## the run never leaves the legitimate inputs -/

theorem atomTuples_guard (o : Opts) (m : MolG) (g : Geo) (S : List Nat) (prev : List GShell) (a : Nat) (nb : List Nat)
    (ha : a ∈ S) (hnb : ∀ b ∈ nb, b ∈ S ∧ b ≠ a) :
    atomTuples o m (g.guard S) prev a nb = atomTuples o m g prev a nb := by
  unfold atomTuples
  have hl : Legit S a (sortByLt lt3 (nb.map (fun b => (conn m a b, (shellOf prev b).ident, b)))) := by
    refine ⟨ha, ?_⟩
    intro t ht
    rw [mem_sortByLt, List.mem_map] at ht
    obtain ⟨b, hb, rfl⟩ := ht
    exact hnb b hb
  simp only [Geo.guard, if_pos hl]

theorem genLevel_guard (o : Opts) (m : MolG) (g : Geo) (S : List Nat) (prev : List GShell) (k : Nat) (t : Intern) :
    genLevel o m (g.guard S) S prev k t = genLevel o m g S prev k t := by
  unfold genLevel
  apply foldl_congr_mem
  intro acc a ha
  have hw : (g.guard S).within = g.within := rfl
  simp only [hw]
  have hid : shellIdent o m (g.guard S) prev k a
        (S.filter (fun b => b != a && g.within k a b && (o.includeDisconnected || bonded m a b)))
      = shellIdent o m g prev k a
        (S.filter (fun b => b != a && g.within k a b && (o.includeDisconnected || bonded m a b))) := by
    unfold shellIdent
    rw [atomTuples_guard o m g S prev a _ ha]
    intro b hb
    rw [List.mem_filter] at hb
    refine ⟨hb.1, ?_⟩
    have := hb.2
    simp only [Bool.and_eq_true, bne_iff_ne, ne_eq] at this
    exact this.1.1
  rw [hid]

theorem stepState_guard (o : Opts) (m : MolG) (g : Geo) (S : List Nat) (s : FState) :
    stepState o m (g.guard S) S s = stepState o m g S s := by
  unfold stepState
  simp only [genLevel_guard]

theorem iterate_guard (o : Opts) (m : MolG) (g : Geo) (S : List Nat) (n : Nat) (s : FState) :
    iterate o m (g.guard S) S n s = iterate o m g S n s := by
  induction n generalizing s with
  | zero => rfl
  | succ n ih =>
    simp only [iterate, stepState_guard]
    cases stepState o m g S s with
    | none => rfl
    | some s' => exact ih s'

/-- the run with the geometry restricted to legitimate stereo inputs is the run -/
theorem runFp_guard (o : Opts) (m : MolG) (g : Geo) : runFp o m (g.guard (retained o m)) = runFp o m g := by
  unfold runFp
  simp only [iterate_guard]

/-! ## what goes wrong without the restriction: a neighbour on the centre

With exactly two neighbours of equal key the y axis is the first one.  If one of the two sits on the
centre (centred vector 0), the two orders give different multisets of codes: `{0, 2}` against `{1, 0}`.
So `StereoSym π (Geo.ofCoords ..) (Geo.ofCoords ..)`, which also quantifies over tuple lists containing
the centre itself, fails (`not_stereoSym_ofCoords`); the fingerprinter never produces such a list. -/

theorem dot_zero_right (u : V3 ℝ) {z : V3 ℝ} (hz : V3.isZero z = true) : V3.dot u z = 0 := by
  obtain ⟨hx, hy, hzz⟩ := (isZero_iff z).1 hz
  simp [V3.dot, hx, hy, hzz]

theorem projectToPlane_zero (b : V3 ℝ) {z : V3 ℝ} (hz : V3.isZero z = true) : V3.projectToPlane b z = b := by
  unfold V3.projectToPlane
  simp only [asUnit_zero hz, dot_zero_right b hz]
  apply v3_ext <;> simp [V3.sub, V3.smul]

theorem clip1_zero : Scalar.clip1 (0 : ℝ) = 0 := by
  unfold Scalar.clip1
  rw [if_neg, if_neg] <;> simp

theorem laFn_zero_axis {b z : V3 ℝ} (hb : Proper b) (hz : V3.isZero z = true) : laFn z b = 0 := by
  unfold laFn V3.angle
  simp only [isZero_asUnit_proper hb, asUnit_zero hz, dot_zero_right _ hz, clip1_zero, acos_def, Real.arccos_zero,
    sub_def, div_def, pi_def, two_def, sub_self, Bool.false_eq_true, if_false]
  rw [abs_of_nonneg' le_rfl, if_pos]
  · simp
  · rw [lt_def]; exact eps_pos

theorem quadrant_zero :
    ((2 : Int) + (Scalar.truncNat (Scalar.div (Scalar.mul (V3.mod2pi (Scalar.add (0 : ℝ) (Scalar.div Scalar.pi (Scalar.ofNat 4))))
      (Scalar.ofNat 4)) (Scalar.mul Scalar.two Scalar.pi)) : Nat)) = 2 := by
  have hpi := Real.pi_pos
  have hm : V3.mod2pi (Scalar.add (0 : ℝ) (Scalar.div Scalar.pi (Scalar.ofNat 4))) = Real.pi / 4 := by
    unfold V3.mod2pi
    simp only [add_def, mul_def, two_def, pi_def, zero_add, sub_def, div_def, ofNat_def, zero_def]
    rw [if_neg, if_neg]
    · norm_num
    · rw [lt_def]; push_cast; linarith
    · rw [le_def]; push_cast; linarith
  rw [hm]
  simp only [truncNat_def, div_def, mul_def, two_def, pi_def, ofNat_def]
  have : ⌊Real.pi / 4 * ((4 : ℕ) : ℝ) / (2 * Real.pi)⌋₊ = 0 := by
    rw [Nat.floor_eq_zero]
    have : Real.pi / 4 * ((4 : ℕ) : ℝ) / (2 * Real.pi) = 1 / 2 := by
      push_cast; field_simp
    rw [this]; norm_num
  rw [this]; simp

theorem otherCode_zero : otherCode 0 = 2 := by
  unfold otherCode
  rw [if_neg, quadrant_zero]
  · have : lsFn (0 : ℝ) = 1 := by unfold lsFn; simp [sign_zero]
    rw [this]; rfl
  · rw [lt_def, abs_of_nonneg' le_rfl]
    simp only [sub_def, div_def, pi_def, two_def, ofNat_def, sub_zero, not_lt]
    have hpi := Real.pi_pos
    have : Real.pi / ((Gen.POLAR_CONE_DEN : ℕ) : ℝ) = Real.pi / 36 := by norm_num [Gen.POLAR_CONE_DEN]
    rw [this]; linarith

open Classical in
/-- **the two-neighbour rule with a neighbour on the centre is not symmetric** -/
theorem two_rule_zero_vector (k : Nat) (i : Int) (b z : V3 ℝ) (hb : Proper b) (hz : V3.isZero z = true) :
    stereoIndicators [(k, i, z), (k, i, b)] = [0, 2] ∧ stereoIndicators [(k, i, b), (k, i, z)] = [1, 0] := by
  have hne : ((k, i, b) : Nbr) ≠ (k, i, z) := by
    intro e
    have hbz : b = z := by injection e with _ e; injection e
    have := isZero_proper hb
    rw [hbz, hz] at this; cases this
  have hf : ∀ A B : Nbr, key A = key B → firstUnique ([A, B].map (fun t => (t.1, t.2.1))) = none := by
    intro A B hk
    change firstUnique [key A, key B] = none
    rw [hk]; exact firstUnique_pair _
  constructor
  · rw [stereoIndicators_eq, if_neg (by simp), pickY_none_two _ _ (hf (k, i, z) (k, i, b) rfl) (by simp)]
    change stereoBody [(k, i, z), (k, i, b)] z (some 0) = _
    rw [stereoBody_eq_map _ z (some 0) (fun t => decide (t = ((k, i, z) : Nbr)))]
    · have hc : candL [((k, i, z) : Nbr), (k, i, b)] z (fun t => decide (t = ((k, i, z) : Nbr))) = [candFn z (k, i, b)] := by
        unfold candL
        simp [isZero_proper hb, hne]
      have h2 : (candFn z ((k, i, b) : Nbr)).2.2.1 = b := rfl
      have hg : (if Scalar.lt (V3.norm (V3.projectToPlane b z)) Scalar.eps then none
          else some (V3.projectToPlane b z)) = some (V3.projectToPlane b z) := by
        change zGuard (V3.projectToPlane b z) = _
        apply zGuard_proper
        rw [projectToPlane_zero b hz]; exact hb
      rw [hc, pickZ_singleton, h2, hg]
      simp only [List.map_cons, List.map_nil]
      have h1 : codeFn z (some (V3.projectToPlane b z))
          (fun t => decide (t = ((k, i, z) : Nbr))) (k, i, z) = 0 := by
        unfold codeFn; simp [hz]
      rw [h1, codeFn_other hb (by rw [projectToPlane_zero b hz]; exact Or.inr hb) _ (k, i, b) rfl (by simp [hne]),
        laFn_zero_axis hb hz, otherCode_zero]
    · intro j hj
      have : j = 0 ∨ j = 1 := by simp at hj; omega
      rcases this with rfl | rfl
      · simp
      · simp [hne]
  · rw [stereoIndicators_eq, if_neg (by simp), pickY_none_two _ _ (hf (k, i, b) (k, i, z) rfl) (by simp)]
    change stereoBody [(k, i, b), (k, i, z)] b (some 0) = _
    rw [stereoBody_eq_map _ b (some 0) (fun t => decide (t = ((k, i, b) : Nbr)))]
    · simp only [List.map_cons, List.map_nil]
      rw [codeFn_yatom hb _ _ (k, i, b) rfl]
      have h1 : ∀ zopt, codeFn b zopt (fun t => decide (t = ((k, i, b) : Nbr))) (k, i, z) = 0 := by
        intro zopt; unfold codeFn; simp [hz]
      rw [h1]
    · intro j hj
      have : j = 0 ∨ j = 1 := by simp at hj; omega
      rcases this with rfl | rfl
      · simp
      · simp [Ne.symm hne]

theorem isZero_sub_self (v : V3 ℝ) : V3.isZero (V3.sub v v) = true := by
  rw [isZero_iff]; simp [V3.sub]

/-- **`StereoSym` as stated (over all tuple lists) fails for coordinates**: whenever the renumbering
reverses the order of two atoms `c < q` that are at least `√EPS` apart, the tuple list
`[(1, 0, c), (1, 0, q)]` for centre `c` (the centre among its own neighbours) violates it -/
theorem not_stereoSym_ofCoords (mult : ℝ) (X X' : Nat → V3 ℝ) (π : Nat → Nat) (hX : ∀ a, X' (π a) = X a)
    (c q : Nat) (hcq : c < q) (hπ : π q < π c) (hb : Proper (V3.sub (X q) (X c))) :
    ¬ StereoSym π (Geo.ofCoords mult X) (Geo.ofCoords mult X') := by
  intro h
  have hs : SortedBy lt3 [((1 : Nat), (0 : Int), c), (1, 0, q)] := by
    unfold SortedBy
    simp [lt3]; omega
  have hs' : SortedBy lt3 [((1 : Nat), (0 : Int), π q), (1, 0, π c)] := by
    unfold SortedBy
    simp [lt3]; omega
  have hp : [((1 : Nat), (0 : Int), π q), (1, 0, π c)].Perm
      ([((1 : Nat), (0 : Int), c), (1, 0, q)].map (relTuple π)) := List.Perm.swap _ _ _
  have := h c _ _ hp hs hs'
  rw [stereoTriples_ofCoords, stereoTriples_ofCoords] at this
  simp only [List.map_cons, List.map_nil, toNbr, hX] at this
  unfold triples at this
  obtain ⟨h1, h2⟩ := two_rule_zero_vector 1 0 _ _ hb (isZero_sub_self (X c))
  rw [h1, h2] at this
  have hm := this.mem_iff (a := ((1 : Nat), (0 : Int), (1 : Int)))
  simp at hm

/-- … hence `Geo.Relabels` between the unrestricted coordinate geometries fails as well -/
theorem not_relabels_ofCoords (mult : ℝ) (X X' : Nat → V3 ℝ) (π : Nat → Nat) (hX : ∀ a, X' (π a) = X a)
    (c q : Nat) (hcq : c < q) (hπ : π q < π c) (hb : Proper (V3.sub (X q) (X c))) :
    ¬ Geo.Relabels π (Geo.ofCoords mult X) (Geo.ofCoords mult X') :=
  fun h => not_stereoSym_ofCoords mult X X' π hX c q hcq hπ hb h.stereo

/-! ## what goes wrong without `NotTiny`: a short non-zero projection

`as_unit` leaves vectors of squared length below `EPS` as they are, so the "angle of a vector with
itself" is `arccos |w|² ≈ π/2` instead of 0 for such a vector.  With two neighbours of equal key, both
at least `√EPS` from the centre, but one of them so close that its component orthogonal to the other
is shorter than `√EPS`, the two orders give the codes `{1, 3}` and `{1, 2}`. -/

theorem lsFn_of_nonneg {la : ℝ} (h : 0 ≤ la) : lsFn la = 1 := by
  unfold lsFn
  rcases h.lt_or_eq with h | h
  · have : Scalar.sign la = 1 := by
      unfold Scalar.sign
      rw [if_pos (by rw [lt_def, zero_def]; exact h)]
    simp [this]
  · rw [← h]; simp [sign_zero]

/-- `otherCode` with the lateral angle of the neighbour against the z axis as a parameter -/
noncomputable def otherCodeGen (afz la : ℝ) : Int :=
  if Scalar.lt (Scalar.sub (Scalar.div Scalar.pi Scalar.two) (Scalar.abs la))
      (Scalar.div Scalar.pi (Scalar.ofNat Gen.POLAR_CONE_DEN)) then lsFn la
  else (2 + (Scalar.truncNat (Scalar.div (Scalar.mul (V3.mod2pi (Scalar.add afz (Scalar.div Scalar.pi (Scalar.ofNat 4))))
      (Scalar.ofNat 4)) (Scalar.mul Scalar.two Scalar.pi)) : Nat)) * lsFn la

theorem otherCode_eq_gen (la : ℝ) : otherCode la = otherCodeGen 0 la := rfl

theorem codeFn_other_gen {a b : V3 ℝ} (hb : Proper b) (isY : Nbr → Bool) (t : Nbr) (ht : t.2.2 = b)
    (hy : isY t = false) :
    codeFn a (some (V3.projectToPlane b a)) isY t
      = otherCodeGen (V3.signedAngle (V3.projectToPlane b a) (V3.projectToPlane b a) a) (laFn a b) := by
  unfold codeFn otherCodeGen qFn
  rw [ht, hy, isZero_proper hb]
  simp only [Bool.false_eq_true, if_false]

/-- outside the polar cone, on the positive side, in quadrant `n` -/
theorem otherCodeGen_eval {afz la : ℝ} (h0 : 0 ≤ la) (h1 : la ≤ Real.pi / 4) (n : Nat)
    (hlo : n * (Real.pi / 2) ≤ afz + Real.pi / 4) (hhi : afz + Real.pi / 4 < (n + 1) * (Real.pi / 2))
    (h2 : afz + Real.pi / 4 < 2 * Real.pi) : otherCodeGen afz la = 2 + n := by
  have hpi := Real.pi_pos
  have hx0 : 0 ≤ afz + Real.pi / 4 := le_trans (by positivity) hlo
  unfold otherCodeGen
  rw [if_neg, lsFn_of_nonneg h0]
  · have hm : V3.mod2pi (Scalar.add afz (Scalar.div Scalar.pi (Scalar.ofNat 4))) = afz + Real.pi / 4 := by
      unfold V3.mod2pi
      simp only [add_def, mul_def, two_def, pi_def, sub_def, div_def, ofNat_def, zero_def]
      rw [if_neg, if_neg]
      · norm_num
      · rw [lt_def]; push_cast; linarith
      · rw [le_def]; push_cast; linarith
    rw [hm]
    simp only [truncNat_def, div_def, mul_def, two_def, pi_def, ofNat_def]
    have : ⌊(afz + Real.pi / 4) * ((4 : ℕ) : ℝ) / (2 * Real.pi)⌋₊ = n := by
      have e : (afz + Real.pi / 4) * ((4 : ℕ) : ℝ) / (2 * Real.pi) = (afz + Real.pi / 4) / (Real.pi / 2) := by
        push_cast; field_simp; ring
      rw [e, Nat.floor_eq_iff (div_nonneg hx0 (by positivity))]
      constructor
      · rw [le_div_iff₀ (by positivity)]; exact hlo
      · rw [div_lt_iff₀ (by positivity)]; exact hhi
    rw [this]; simp
  · rw [lt_def, abs_of_nonneg' h0]
    simp only [sub_def, div_def, pi_def, two_def, ofNat_def, not_lt]
    have : Real.pi / ((Gen.POLAR_CONE_DEN : ℕ) : ℝ) = Real.pi / 36 := by norm_num [Gen.POLAR_CONE_DEN]
    rw [this]; linarith

theorem clip1_id {x : ℝ} (h1 : -1 ≤ x) (h2 : x ≤ 1) : Scalar.clip1 x = x := by
  unfold Scalar.clip1
  rw [if_neg, if_neg]
  · rw [lt_def, one_def]; exact not_lt.2 h2
  · rw [lt_def, neg_def, one_def]; exact not_lt.2 h1

/-- the signed angle of a short non-zero vector against itself is `arccos |w|²`, not 0 -/
theorem signedAngle_self_tiny {w : V3 ℝ} (hnz : V3.isZero w = false) (ht : V3.dot w w < Scalar.eps) (n : V3 ℝ) :
    V3.signedAngle w w n = Real.arccos (V3.dot w w) := by
  have hu : V3.asUnit w = w := by
    unfold V3.asUnit
    simp only []
    rw [if_pos (by rw [lt_def]; exact ht)]
  unfold V3.signedAngle
  simp only [cross_self, sign_zero, hu, hnz, Bool.false_eq_true, if_false]
  rw [clip1_id (by linarith [dot_self_nonneg w]) (by linarith [eps_le_one])]
  simp only [show ((0 : Int) = -1) = False by simp, if_false, acos_def]
  unfold V3.mod2pi
  simp only [add_def, mul_def, two_def, pi_def, sub_def]
  rw [if_pos]
  · ring
  · rw [le_def]; linarith [Real.arccos_nonneg (V3.dot w w)]

theorem pi_div_four_lt_arccos {x : ℝ} (h : x < 3 / 5 + 1 / 10) : Real.pi / 4 < Real.arccos x := by
  rw [← not_le, Real.arccos_le_pi_div_four, not_le]
  have : (7 / 5 : ℝ) < Real.sqrt 2 := by
    rw [Real.lt_sqrt (by norm_num)]; norm_num
  linarith

/-- **the two-neighbour rule with a short non-zero projection is not symmetric**: `a = (1,0,0)`,
`b = u·(3,4,0)` with `EPS ≤ 25u²` (so `b` is not short) but `16u² < EPS` (its component orthogonal to
`a` is) -/
theorem two_rule_tiny_projection (k : Nat) (i : Int) (u : ℝ) (hu : 0 < u) (h1 : Scalar.eps ≤ 25 * u ^ 2)
    (h2 : 16 * u ^ 2 < Scalar.eps) :
    stereoIndicators [(k, i, ⟨1, 0, 0⟩), (k, i, ⟨3 * u, 4 * u, 0⟩)] = [1, 3] ∧
    stereoIndicators [(k, i, ⟨3 * u, 4 * u, 0⟩), (k, i, ⟨1, 0, 0⟩)] = [1, 2] := by
  have hpi := Real.pi_pos
  have hE : (Scalar.eps : ℝ) ≤ 1 / 2 := by rw [eps_def]; norm_num
  have hda : V3.dot (⟨1, 0, 0⟩ : V3 ℝ) ⟨1, 0, 0⟩ = 1 := by simp [V3.dot]
  have hdb : V3.dot (⟨3 * u, 4 * u, 0⟩ : V3 ℝ) ⟨3 * u, 4 * u, 0⟩ = 25 * u ^ 2 := by
    simp only [V3.dot, add_def, mul_def]; ring
  have hdab : V3.dot (⟨3 * u, 4 * u, 0⟩ : V3 ℝ) ⟨1, 0, 0⟩ = 3 * u := by simp [V3.dot]
  have ha : Proper (⟨1, 0, 0⟩ : V3 ℝ) := by unfold Proper; rw [hda]; exact eps_le_one
  have hb : Proper (⟨3 * u, 4 * u, 0⟩ : V3 ℝ) := by unfold Proper; rw [hdb]; exact h1
  have hne : ((k, i, (⟨3 * u, 4 * u, 0⟩ : V3 ℝ)) : Nbr) ≠ (k, i, ⟨1, 0, 0⟩) := by
    intro e
    have : (⟨3 * u, 4 * u, 0⟩ : V3 ℝ) = ⟨1, 0, 0⟩ := by injection e with _ e; injection e
    have := congrArg V3.y this
    simp at this
    exact hu.ne' this
  -- the angle between the two
  have hsq : Real.sqrt (25 * u ^ 2) = 5 * u := by
    rw [show 25 * u ^ 2 = (5 * u) ^ 2 by ring, Real.sqrt_sq (by positivity)]
  have hang : V3.angle (⟨3 * u, 4 * u, 0⟩ : V3 ℝ) ⟨1, 0, 0⟩ = Real.arccos (3 / 5) := by
    unfold V3.angle
    rw [if_neg (by rw [isZero_asUnit_proper hb]; simp)]
    simp only [asUnit_proper ha, asUnit_proper hb, hda, hdb, hsq, Real.sqrt_one, acos_def]
    have : V3.dot (V3.sdiv (⟨3 * u, 4 * u, 0⟩ : V3 ℝ) (5 * u)) (V3.sdiv ⟨1, 0, 0⟩ 1) = 3 / 5 := by
      simp only [V3.dot, V3.sdiv, add_def, mul_def, div_def]
      field_simp; ring
    rw [this, clip1_id (by norm_num) (by norm_num)]
  have hα1 : Real.pi / 4 < Real.arccos (3 / 5) := pi_div_four_lt_arccos (by norm_num)
  have hα2 : Real.arccos (3 / 5) < Real.pi / 2 := Real.arccos_lt_pi_div_two.2 (by norm_num)
  have hla : 0 ≤ laFn (⟨1, 0, 0⟩ : V3 ℝ) ⟨3 * u, 4 * u, 0⟩ ∧ laFn (⟨1, 0, 0⟩ : V3 ℝ) ⟨3 * u, 4 * u, 0⟩ ≤ Real.pi / 4 := by
    unfold laFn
    simp only [hang, sub_def, div_def, pi_def, two_def]
    split
    · simp only [zero_def]; constructor <;> linarith
    · constructor <;> linarith
  constructor
  · have hw : V3.dot (V3.projectToPlane (⟨3 * u, 4 * u, 0⟩ : V3 ℝ) ⟨1, 0, 0⟩)
        (V3.projectToPlane (⟨3 * u, 4 * u, 0⟩ : V3 ℝ) ⟨1, 0, 0⟩) = 16 * u ^ 2 := by
      rw [dot_projectToPlane ha, hdb, hdab, hda]; ring
    -- short (below `√EPS`), but far above `EPS`: the guard of `pickZ` lets it through
    have hgd : zGuard (V3.projectToPlane (⟨3 * u, 4 * u, 0⟩ : V3 ℝ) ⟨1, 0, 0⟩)
        = some (V3.projectToPlane (⟨3 * u, 4 * u, 0⟩ : V3 ℝ) ⟨1, 0, 0⟩) := by
      apply zGuard_of_le
      rw [hw]
      have := eps_pos
      nlinarith
    rw [stereo_two_gen (k, i, ⟨1, 0, 0⟩) (k, i, ⟨3 * u, 4 * u, 0⟩) rfl hne ha hb, hgd,
      codeFn_other_gen hb _ (k, i, ⟨3 * u, 4 * u, 0⟩) rfl (by simp [hne])]
    have hwnz : V3.isZero (V3.projectToPlane (⟨3 * u, 4 * u, 0⟩ : V3 ℝ) ⟨1, 0, 0⟩) = false := by
      cases hz : V3.isZero (V3.projectToPlane (⟨3 * u, 4 * u, 0⟩ : V3 ℝ) ⟨1, 0, 0⟩) with
      | false => rfl
      | true =>
        have := dot_zero_right (V3.projectToPlane (⟨3 * u, 4 * u, 0⟩ : V3 ℝ) ⟨1, 0, 0⟩) hz
        rw [hw] at this
        have : 0 < 16 * u ^ 2 := by positivity
        linarith
    rw [signedAngle_self_tiny hwnz (by rw [hw]; exact h2), hw]
    have hβ1 : Real.pi / 4 < Real.arccos (16 * u ^ 2) :=
      pi_div_four_lt_arccos (by linarith)
    have hβ2 : Real.arccos (16 * u ^ 2) ≤ Real.pi / 2 := Real.arccos_le_pi_div_two.2 (by positivity)
    have := otherCodeGen_eval hla.1 hla.2 1 (afz := Real.arccos (16 * u ^ 2)) (by push_cast; linarith)
      (by push_cast; linarith) (by linarith)
    rw [this]; rfl
  · have hp : NotTiny (V3.projectToPlane (⟨1, 0, 0⟩ : V3 ℝ) ⟨3 * u, 4 * u, 0⟩) := by
      apply notTiny_proj_of hb
      rw [hda, hdb, dot_comm, hdab]
      nlinarith [mul_nonneg (sub_nonneg.2 hE) (sq_nonneg u)]
    rw [stereo_two (k, i, ⟨3 * u, 4 * u, 0⟩) (k, i, ⟨1, 0, 0⟩) rfl (Ne.symm hne) hb ha hp,
      ← laFn_comm ha hb, otherCode_eq_gen]
    have := otherCodeGen_eval hla.1 hla.2 0 (afz := 0) (by push_cast; linarith) (by push_cast; linarith) (by linarith)
    rw [this]; rfl

/-- so `Proper` alone (atoms at least `√EPS` apart) does not give (S): some condition on the
projections, such as `NotTiny`, is needed -/
theorem not_triples_perm_of_proper : ∃ a b : V3 ℝ, Proper a ∧ Proper b ∧
    ¬ (triples [((1 : Nat), (0 : Int), b), (1, 0, a)]).Perm (triples [((1 : Nat), (0 : Int), a), (1, 0, b)]) := by
  have hu : (0 : ℝ) < 1 / 4500000 := by norm_num
  have h1 : (Scalar.eps : ℝ) ≤ 25 * (1 / 4500000 : ℝ) ^ 2 := by rw [eps_def]; norm_num
  have h2 : 16 * (1 / 4500000 : ℝ) ^ 2 < (Scalar.eps : ℝ) := by rw [eps_def]; norm_num
  obtain ⟨e1, e2⟩ := two_rule_tiny_projection 1 0 (1 / 4500000) hu h1 h2
  refine ⟨⟨1, 0, 0⟩, ⟨3 * (1 / 4500000), 4 * (1 / 4500000), 0⟩, ?_, ?_, ?_⟩
  · unfold Proper; simp only [V3.dot, add_def, mul_def]; have := eps_le_one; linarith
  · unfold Proper
    have : V3.dot (⟨3 * (1 / 4500000), 4 * (1 / 4500000), 0⟩ : V3 ℝ) ⟨3 * (1 / 4500000), 4 * (1 / 4500000), 0⟩
        = 25 * (1 / 4500000 : ℝ) ^ 2 := by simp only [V3.dot, add_def, mul_def]; ring
    rw [this]; exact h1
  · unfold triples
    rw [e1, e2]
    intro h
    have hm := h.mem_iff (a := ((1 : Nat), (0 : Int), (2 : Int)))
    simp at hm

end Stereo
end E3fpVerif
