import Mathlib.Analysis.SpecialFunctions.Trigonometric.Inverse
import Mathlib.Analysis.SpecialFunctions.Sqrt
import Mathlib.Algebra.Order.Floor.Ring
import Mathlib.Tactic.Ring
import Mathlib.Tactic.Linarith
import Mathlib.Tactic.LinearCombination
import Mathlib.Tactic.NormNum
import E3fpVerif.Model.Geom
/-!
# The real-number instance of `Scalar`

The geometry of `Model/Geom.lean` is written once over `Scalar α`.  This file instantiates it at
`α := ℝ` (exact arithmetic, `Real.sqrt`, `Real.arccos`, classical comparisons, `⌊·⌋₊`), which is the
instance the invariance theorems of `Props/C01.lean` are about.
-/
namespace E3fpVerif

open Classical in
noncomputable instance instScalarReal : Scalar ℝ where
  add a b := a + b
  sub a b := a - b
  mul a b := a * b
  div a b := a / b
  neg a := -a
  sqrt := Real.sqrt
  acos := Real.arccos
  ofNat n := (n : ℝ)
  lt a b := decide (a < b)
  le a b := decide (a ≤ b)
  beq a b := decide (a = b)
  truncNat a := ⌊a⌋₊
  pi := Real.pi
  eps := (Gen.EPS_Q.1 : ℝ) / (Gen.EPS_Q.2 : ℝ)
  yPrec := (Gen.Y_AXIS_PRECISION_Q.1 : ℝ) / (Gen.Y_AXIS_PRECISION_Q.2 : ℝ)
  zPrec := (Gen.Z_AXIS_PRECISION_Q.1 : ℝ) / (Gen.Z_AXIS_PRECISION_Q.2 : ℝ)

namespace RealScalar

@[simp] theorem add_def (a b : ℝ) : Scalar.add a b = a + b := rfl
@[simp] theorem sub_def (a b : ℝ) : Scalar.sub a b = a - b := rfl
@[simp] theorem mul_def (a b : ℝ) : Scalar.mul a b = a * b := rfl
@[simp] theorem div_def (a b : ℝ) : Scalar.div a b = a / b := rfl
@[simp] theorem neg_def (a : ℝ) : Scalar.neg a = -a := rfl
@[simp] theorem sqrt_def (a : ℝ) : Scalar.sqrt a = Real.sqrt a := rfl
@[simp] theorem acos_def (a : ℝ) : Scalar.acos a = Real.arccos a := rfl
@[simp] theorem ofNat_def (n : Nat) : (Scalar.ofNat n : ℝ) = (n : ℝ) := rfl
@[simp] theorem lt_def (a b : ℝ) : (Scalar.lt a b = true) ↔ a < b := by
  show decide (a < b) = true ↔ a < b
  simp
@[simp] theorem le_def (a b : ℝ) : (Scalar.le a b = true) ↔ a ≤ b := by
  show decide (a ≤ b) = true ↔ a ≤ b
  simp
@[simp] theorem beq_def (a b : ℝ) : (Scalar.beq a b = true) ↔ a = b := by
  show decide (a = b) = true ↔ a = b
  simp
@[simp] theorem truncNat_def (a : ℝ) : Scalar.truncNat a = ⌊a⌋₊ := rfl
@[simp] theorem pi_def : (Scalar.pi : ℝ) = Real.pi := rfl
theorem eps_def : (Scalar.eps : ℝ) = 1 / 1000000000000 := by
  show ((Gen.EPS_Q.1 : ℕ) : ℝ) / ((Gen.EPS_Q.2 : ℕ) : ℝ) = _
  norm_num [Gen.EPS_Q]
theorem yPrec_def : (Scalar.yPrec : ℝ) = 1 / 10 := by
  show ((Gen.Y_AXIS_PRECISION_Q.1 : ℕ) : ℝ) / ((Gen.Y_AXIS_PRECISION_Q.2 : ℕ) : ℝ) = _
  norm_num [Gen.Y_AXIS_PRECISION_Q]
theorem zPrec_def : (Scalar.zPrec : ℝ) = 1 / 100 := by
  show ((Gen.Z_AXIS_PRECISION_Q.1 : ℕ) : ℝ) / ((Gen.Z_AXIS_PRECISION_Q.2 : ℕ) : ℝ) = _
  norm_num [Gen.Z_AXIS_PRECISION_Q]
@[simp] theorem zero_def : (Scalar.zero : ℝ) = 0 := by
  show ((0 : ℕ) : ℝ) = 0
  simp
@[simp] theorem one_def : (Scalar.one : ℝ) = 1 := by
  show ((1 : ℕ) : ℝ) = 1
  simp
@[simp] theorem two_def : (Scalar.two : ℝ) = 2 := by
  show ((2 : ℕ) : ℝ) = 2
  simp

/-- the tolerance is a positive real (used nowhere in the invariance proofs, recorded for sanity) -/
theorem eps_pos : (0 : ℝ) < Scalar.eps := by rw [eps_def]; norm_num

end RealScalar
end E3fpVerif
