import E3fpVerif.Model.Fprinter
import E3fpVerif.Lemmas.SortBy
import E3fpVerif.Lemmas.Uniq
import E3fpVerif.Lemmas.EnumOrder
/-!
# Auxiliary facts for the relabelling proof (C03)

`Lemmas/Fprinter.lean` cannot be imported together with `Lemmas/SortBy.lean` (both declare
`E3fpVerif.sortByLt_perm` …), and `Props/C03.lean` builds on `SortBy`/`EnumOrder`.  The facts about
`unionShells`, `dedupShells` and `shellOf` needed here are therefore restated in the namespace
`E3fpVerif.Rl`.
-/
namespace E3fpVerif.Rl
open E3fpVerif

theorem getLastD_eq_getD {α} (L : List α) (d : α) : L.getLastD d = L.getD (L.length - 1) d := by
  cases L with
  | nil => rfl
  | cons a l => simp [List.getLast?_eq_getElem?, List.getD_eq_getElem?_getD]

theorem getD_append_lt {α} (L : List α) (x d : α) (k : Nat) (h : k < L.length) :
    (L ++ [x]).getD k d = L.getD k d := by
  simp [List.getD_eq_getElem?_getD, List.getElem?_append_left h]

theorem getD_append_eq {α} (L : List α) (x d : α) : (L ++ [x]).getD L.length d = x := by
  simp [List.getD_eq_getElem?_getD]
/-! ## `unionShells` -/

theorem unionShells_nil (old : List GShell) : unionShells old [] = old := rfl

theorem unionShells_cons (old : List GShell) (s : GShell) (rest : List GShell) :
    unionShells old (s :: rest)
      = unionShells (if old.any (fun x => x.sid == s.sid) then old else old ++ [s]) rest := rfl

theorem unionShells_prefix (old new : List GShell) : old <+: unionShells old new := by
  induction new generalizing old with
  | nil => exact List.prefix_refl _
  | cons s rest ih =>
    rw [unionShells_cons]
    split
    · exact ih old
    · exact (List.prefix_append old [s]).trans (ih _)

theorem unionShells_mem_of_mem_old (old new : List GShell) : ∀ s ∈ old, s ∈ unionShells old new :=
  fun _ hs => (unionShells_prefix old new).subset hs

theorem unionShells_length_ge (old new : List GShell) : old.length ≤ (unionShells old new).length :=
  (unionShells_prefix old new).length_le

theorem unionShells_mem (old new : List GShell) (x : GShell) (h : x ∈ unionShells old new) :
    x ∈ old ∨ x ∈ new := by
  induction new generalizing old with
  | nil => exact Or.inl h
  | cons s rest ih =>
    rw [unionShells_cons] at h
    rcases ih _ h with h | h
    · split at h
      · exact Or.inl h
      · rcases List.mem_append.1 h with h | h
        · exact Or.inl h
        · simp only [List.mem_singleton] at h; subst h; exact Or.inr (by simp)
    · exact Or.inr (List.mem_cons_of_mem _ h)
/-! ## `dedupShells` -/

/-- explicit recursive characterisation of the accepted shells of `dedupShells` -/
def dedupSpec (past : List (List Nat)) : List GShell → List GShell
  | [] => []
  | s :: rest =>
    if past.contains s.sub then dedupSpec past rest else s :: dedupSpec (past ++ [s.sub]) rest

theorem dedup_foldl (past : List (List Nat)) (acc cands : List GShell) :
    cands.foldl (fun (acc : List (List Nat) × List GShell) s =>
      if acc.1.contains s.sub then acc else (acc.1 ++ [s.sub], acc.2 ++ [s])) (past, acc)
    = (past ++ (dedupSpec past cands).map (·.sub), acc ++ dedupSpec past cands) := by
  induction cands generalizing past acc with
  | nil => simp [dedupSpec]
  | cons s rest ih =>
    rw [List.foldl_cons]
    unfold dedupSpec
    by_cases h : past.contains s.sub = true
    · simp only [h, if_true]; exact ih past acc
    · simp only [h]; rw [ih]; simp

theorem dedupShells_eq (past : List (List Nat)) (cands : List GShell) :
    dedupShells past cands = (past ++ (dedupSpec past cands).map (·.sub), dedupSpec past cands) := by
  unfold dedupShells; rw [dedup_foldl]; simp

theorem dedupSpec_cons_pos (past : List (List Nat)) (s : GShell) (rest : List GShell)
    (h : past.contains s.sub = true) : dedupSpec past (s :: rest) = dedupSpec past rest := by
  rw [dedupSpec, if_pos h]

theorem dedupSpec_cons_neg (past : List (List Nat)) (s : GShell) (rest : List GShell)
    (h : ¬ past.contains s.sub = true) :
    dedupSpec past (s :: rest) = s :: dedupSpec (past ++ [s.sub]) rest := by
  rw [dedupSpec, if_neg h]

theorem dedupSpec_sublist (past : List (List Nat)) (cands : List GShell) :
    (dedupSpec past cands).Sublist cands := by
  induction cands generalizing past with
  | nil => exact List.Sublist.slnil
  | cons s rest ih =>
    unfold dedupSpec
    split
    · exact (ih past).cons _
    · exact (ih _).cons_cons _

/-- the accepted substructures are not in `past` -/
theorem dedupSpec_not_past (past : List (List Nat)) (cands : List GShell) :
    ∀ x ∈ dedupSpec past cands, x.sub ∉ past := by
  induction cands generalizing past with
  | nil => intro x hx; simp [dedupSpec] at hx
  | cons s rest ih =>
    intro x hx
    unfold dedupSpec at hx
    split at hx
    · exact ih past x hx
    · rename_i hc
      rcases List.mem_cons.1 hx with rfl | hx
      · simpa using hc
      · have := ih _ x hx
        intro hp; exact this (List.mem_append_left _ hp)

/-- the accepted substructures are pairwise distinct -/
theorem dedupSpec_nodup (past : List (List Nat)) (cands : List GShell) :
    ((dedupSpec past cands).map (·.sub)).Nodup := by
  induction cands generalizing past with
  | nil => simp [dedupSpec]
  | cons s rest ih =>
    unfold dedupSpec
    split
    · exact ih past
    · rw [List.map_cons, List.nodup_cons]
      refine ⟨?_, ih _⟩
      intro hm
      rcases List.mem_map.1 hm with ⟨x, hx, hxs⟩
      exact dedupSpec_not_past _ rest x hx (by rw [hxs]; simp)

/-- every candidate has its substructure in `past` or among the accepted ones -/
theorem dedupSpec_covers (past : List (List Nat)) (cands : List GShell) :
    ∀ x ∈ cands, x.sub ∈ past ++ (dedupSpec past cands).map (·.sub) := by
  induction cands generalizing past with
  | nil => intro x hx; cases hx
  | cons s rest ih =>
    intro x hx
    unfold dedupSpec
    split
    · rename_i hc
      rcases List.mem_cons.1 hx with rfl | hx
      · exact List.mem_append_left _ (by simpa using hc)
      · exact ih past x hx
    · rcases List.mem_cons.1 hx with rfl | hx
      · simp
      · have := ih (past ++ [s.sub]) x hx
        simp only [List.mem_append, List.map_cons, List.mem_cons,
          List.not_mem_nil, or_false] at this ⊢
        rcases this with (h | h) | h
        · exact Or.inl h
        · exact Or.inr (Or.inl h)
        · exact Or.inr (Or.inr h)

/-- `dedupSpec` only looks at which substructures are in `past` -/
theorem dedupSpec_congr (p₁ p₂ : List (List Nat)) (cands : List GShell) (h : ∀ x, x ∈ p₁ ↔ x ∈ p₂) :
    dedupSpec p₁ cands = dedupSpec p₂ cands := by
  induction cands generalizing p₁ p₂ with
  | nil => rfl
  | cons s rest ih =>
    unfold dedupSpec
    have hc : p₁.contains s.sub = p₂.contains s.sub := by
      rw [Bool.eq_iff_iff]; simp [h]
    rw [hc]
    split
    · exact ih _ _ h
    · rw [ih (p₁ ++ [s.sub]) (p₂ ++ [s.sub])]
      intro x; simp [h]

theorem dedupSpec_append (past : List (List Nat)) (pre post : List GShell) :
    dedupSpec past (pre ++ post)
      = dedupSpec past pre ++ dedupSpec (past ++ (dedupSpec past pre).map (·.sub)) post := by
  induction pre generalizing past with
  | nil => simp [dedupSpec]
  | cons s rest ih =>
    rw [List.cons_append]
    by_cases h : past.contains s.sub = true
    · rw [dedupSpec_cons_pos _ _ _ h, dedupSpec_cons_pos _ _ _ h]; exact ih past
    · rw [dedupSpec_cons_neg _ _ _ h, dedupSpec_cons_neg _ _ _ h, ih]; simp

theorem mem_past_dedupSpec (past : List (List Nat)) (pre : List GShell) (x : List Nat) :
    x ∈ past ++ (dedupSpec past pre).map (·.sub) ↔ x ∈ past ∨ x ∈ pre.map (·.sub) := by
  constructor
  · intro h
    rcases List.mem_append.1 h with h | h
    · exact Or.inl h
    · rcases List.mem_map.1 h with ⟨y, hy, rfl⟩
      exact Or.inr (List.mem_map.2 ⟨y, (dedupSpec_sublist _ _).subset hy, rfl⟩)
  · rintro (h | h)
    · exact List.mem_append_left _ h
    · rcases List.mem_map.1 h with ⟨y, hy, rfl⟩
      exact dedupSpec_covers past pre y hy
theorem shellOf_mem_or_default (l : List GShell) (a : Nat) : shellOf l a ∈ l ∨ shellOf l a = default := by
  unfold shellOf
  cases h : l.find? (fun s => s.atom = a) with
  | none => exact Or.inr rfl
  | some x => exact Or.inl (List.mem_of_find?_eq_some h)

theorem shellOf_atom (l : List GShell) (a : Nat) (h : a ∈ l.map (·.atom)) :
    shellOf l a ∈ l ∧ (shellOf l a).atom = a := by
  unfold shellOf
  cases hf : l.find? (fun s => s.atom = a) with
  | none =>
    rcases List.mem_map.1 h with ⟨x, hx, hxa⟩
    have := List.find?_eq_none.1 hf x hx
    simp [hxa] at this
  | some x =>
    exact ⟨List.mem_of_find?_eq_some hf, by simpa using List.find?_some hf⟩
theorem getLastD_mem_or_nil {α} (L : List (List α)) : L.getLastD [] ∈ L ∨ L.getLastD [] = [] := by
  cases L with
  | nil => exact Or.inr rfl
  | cons a l =>
    left
    rw [List.getLastD_eq_getLast?, List.getLast?_eq_some_getLast (by simp)]
    exact List.getLast_mem _

/-! ## one step, with the duplicate filter in its recursive form -/

/-- the shells accepted at the next level -/
def stepAcc (o : Opts) (past : List (List Nat)) (sorted : List GShell) : List GShell :=
  if o.removeDup then dedupSpec past sorted else sorted

/-- the substructures seen after the next level -/
def stepPast (o : Opts) (past : List (List Nat)) (sorted : List GShell) : List (List Nat) :=
  if o.removeDup then past ++ (dedupSpec past sorted).map (·.sub) else past

theorem stepState_eq' (o : Opts) (m : MolG) (g : Geo) (atoms : List Nat) (s : FState) :
    stepState o m g atoms s =
      if o.level ≠ -1 && (s.currentLevel : Int) ≥ o.level then none
      else if o.removeDup && (s.gen.getLastD []).all (fun x => x.sub.length == atoms.length) then none
      else
        let gl := genLevel o m g atoms (s.gen.getLastD []) (s.currentLevel + 1) s.tbl
        let sorted := sortByLt ltShell gl.2
        let ls := unionShells (s.levelShells.getLastD []) (stepAcc o s.past sorted)
        if ls.length = (s.levelShells.getLastD []).length then none
        else some { tbl := gl.1, gen := s.gen ++ [gl.2], levelShells := s.levelShells ++ [ls],
                    past := stepPast o s.past sorted } := by
  unfold stepState stepAcc stepPast
  cases hd : o.removeDup
  · rfl
  · simp only [if_true, dedupShells_eq]

/-- what a successful step produces -/
theorem stepState_some' (o : Opts) (m : MolG) (g : Geo) (atoms : List Nat) (s s' : FState)
    (h : stepState o m g atoms s = some s') :
    s' = { tbl := (genLevel o m g atoms (s.gen.getLastD []) (s.currentLevel + 1) s.tbl).1,
           gen := s.gen ++ [(genLevel o m g atoms (s.gen.getLastD []) (s.currentLevel + 1) s.tbl).2],
           levelShells := s.levelShells ++
             [unionShells (s.levelShells.getLastD []) (stepAcc o s.past
               (sortByLt ltShell (genLevel o m g atoms (s.gen.getLastD []) (s.currentLevel + 1) s.tbl).2))],
           past := stepPast o s.past
             (sortByLt ltShell (genLevel o m g atoms (s.gen.getLastD []) (s.currentLevel + 1) s.tbl).2) } := by
  rw [stepState_eq'] at h
  split at h
  · cases h
  · split at h
    · cases h
    · simp only at h
      split at h
      · cases h
      · exact (Option.some.inj h).symm

theorem getLastD_append_singleton {α} (L : List α) (x d : α) : (L ++ [x]).getLastD d = x := by
  simp [List.getLastD_eq_getLast?]

end E3fpVerif.Rl
