import E3fpVerif.Lemmas.RelabelTbl
/-!
# Structurally equal shells have equal substructures

A unary invariant of a run: the substructure of a shell is a function `subOf` of its interned
structural id.  Consequence: with duplicate-substructure removal switched on, no accepted shell is
structurally equal to a shell already in `level_shells`, so the union `stepState` takes is an append.
-/
namespace E3fpVerif.Rl
open E3fpVerif

/-- `subOf` assigns to every id of the table the substructure its key determines -/
structure TblSub (t : Intern) (subOf : Nat → List Nat) : Prop where
  range : ∀ (i c : Nat) (ms : List Nat), t[i]? = some (c, ms) → ∀ j ∈ ms, j < t.length
  sub : ∀ (i c : Nat) (ms : List Nat), t[i]? = some (c, ms) → subOf i = uniq (c :: ms.flatMap subOf)

def ShellSub (t : Intern) (subOf : Nat → List Nat) (x : GShell) : Prop :=
  x.sid < t.length ∧ x.sub = subOf x.sid

/-- the extension of `subOf` to the ids of a longer table `T` -/
def extSub (t T : Intern) (subOf : Nat → List Nat) (i : Nat) : List Nat :=
  if i < t.length then subOf i else
    match T[i]? with
    | some k => uniq (k.1 :: k.2.flatMap subOf)
    | none => []

theorem flatMap_congr_mem (l : List Nat) (f g : Nat → List Nat) (h : ∀ j ∈ l, f j = g j) :
    l.flatMap f = l.flatMap g := by
  induction l with
  | nil => rfl
  | cons a as ih =>
    rw [List.flatMap_cons, List.flatMap_cons, h a (by simp), ih (fun j hj => h j (List.mem_cons_of_mem _ hj))]

/-- interning keys whose members are ids of the old table -/
theorem tblSub_extend (t : Intern) (subOf : Nat → List Nat) (h : TblSub t subOf) (ks : List Key)
    (hks : ∀ k ∈ ks, ∀ j ∈ k.2, j < t.length) :
    ∃ subOf₂, (∀ i, i < t.length → subOf₂ i = subOf i) ∧ TblSub (internAll t ks) subOf₂ := by
  obtain ⟨r, hr, hrk⟩ := internAll_eq_append t ks
  have hold : ∀ i, i < t.length → extSub t (internAll t ks) subOf i = subOf i := by
    intro i hi; unfold extSub; rw [if_pos hi]
  have hmem : ∀ (i c : Nat) (ms : List Nat), (internAll t ks)[i]? = some (c, ms) → ∀ j ∈ ms, j < t.length := by
    intro i c ms hi j hj
    by_cases hlt : i < t.length
    · rw [hr, List.getElem?_append_left hlt] at hi
      exact h.range i c ms hi j hj
    · rw [hr, List.getElem?_append_right (Nat.le_of_not_lt hlt)] at hi
      exact hks _ (hrk _ (List.mem_of_getElem? hi)) j hj
  have hlen : t.length ≤ (internAll t ks).length := (internAll_prefix t ks).length_le
  refine ⟨extSub t (internAll t ks) subOf, hold, ⟨?_, ?_⟩⟩
  · intro i c ms hi j hj
    exact Nat.lt_of_lt_of_le (hmem i c ms hi j hj) hlen
  · intro i c ms hi
    rw [flatMap_congr_mem ms _ subOf (fun j hj => hold j (hmem i c ms hi j hj))]
    by_cases hlt : i < t.length
    · rw [hold i hlt]
      rw [hr, List.getElem?_append_left hlt] at hi
      exact h.sub i c ms hi
    · unfold extSub
      rw [if_neg hlt, hi]

/-- the id of a key of the table, and the substructure it determines -/
theorem tblSub_key (T : Intern) (subOf : Nat → List Nat) (h : TblSub T subOf) (c : Nat) (ms : List Nat)
    (hk : ((c, ms) : Key) ∈ T) :
    List.idxOf ((c, ms) : Key) T < T.length ∧
      subOf (List.idxOf ((c, ms) : Key) T) = uniq (c :: ms.flatMap subOf) :=
  ⟨List.idxOf_lt_length_iff.2 hk, h.sub _ c ms (getElem?_idxOf hk)⟩

structure UInv (o : Opts) (atoms : List Nat) (subOf : Nat → List Nat) (s : FState) : Prop where
  tbl : TblSub s.tbl subOf
  genAtoms : (s.gen.getLastD []).map (·.atom) = atoms
  gen : ∀ x ∈ s.gen.getLastD [], ShellSub s.tbl subOf x
  ls : ∀ x ∈ s.levelShells.getLastD [], ShellSub s.tbl subOf x
  past : o.removeDup = true → ∀ x ∈ s.levelShells.getLastD [], x.sub ∈ s.past

theorem uniq_singleton (a : Nat) : uniq [a] = [a] := rfl

theorem uinv_init (o : Opts) (m : MolG) (atoms : List Nat) :
    ∃ subOf, UInv o atoms subOf (initState o m atoms) := by
  have h0 : TblSub [] (fun _ => []) := ⟨by intro i c ms hi; simp at hi, by intro i c ms hi; simp at hi⟩
  obtain ⟨subOf₂, _, hT⟩ := tblSub_extend [] (fun _ => []) h0 (atoms.map (fun a => ((a, []) : Key)))
    (by
      intro k hk j hj
      rcases List.mem_map.1 hk with ⟨a, _, rfl⟩
      simp at hj)
  have hst : initState o m atoms =
      { tbl := internAll [] (atoms.map (fun a => ((a, []) : Key))),
        gen := [atoms.map (gen0ShellT o m (internAll [] (atoms.map (fun a => ((a, []) : Key)))))],
        levelShells := [atoms.map (gen0ShellT o m (internAll [] (atoms.map (fun a => ((a, []) : Key)))))],
        past := (atoms.map (gen0ShellT o m (internAll [] (atoms.map (fun a => ((a, []) : Key)))))).map (·.sub) } := by
    unfold initState
    rw [genLevel0_eq_map]
  have hsh : ∀ x ∈ atoms.map (gen0ShellT o m (internAll [] (atoms.map (fun a => ((a, []) : Key))))),
      ShellSub (internAll [] (atoms.map (fun a => ((a, []) : Key)))) subOf₂ x := by
    intro x hx
    rcases List.mem_map.1 hx with ⟨a, ha, rfl⟩
    have hk : ((a, []) : Key) ∈ internAll [] (atoms.map (fun a => ((a, []) : Key))) :=
      (mem_internAll _ _ _).2 (Or.inr (List.mem_map.2 ⟨a, ha, rfl⟩))
    obtain ⟨h1, h2⟩ := tblSub_key _ subOf₂ hT a [] hk
    refine ⟨h1, ?_⟩
    show [a] = subOf₂ (List.idxOf ((a, []) : Key) _)
    rw [h2]; rfl
  refine ⟨subOf₂, ?_⟩
  rw [hst]
  refine ⟨hT, ?_, hsh, hsh, ?_⟩
  · show List.map GShell.atom (atoms.map _) = atoms
    rw [List.map_map]
    show List.map (fun a => a) atoms = atoms
    simp
  · intro _ x hx
    exact List.mem_map.2 ⟨x, hx, rfl⟩

theorem uinv_gen_aux (o : Opts) (m : MolG) (g : Geo) (atoms : List Nat) (subOf : Nat → List Nat) (s : FState)
    (h : UInv o atoms subOf s) (k : Nat) :
    ∃ subOf₂, (∀ i, i < s.tbl.length → subOf₂ i = subOf i) ∧
      TblSub (internAll s.tbl (atoms.map (genKey o m g atoms (s.gen.getLastD []) k))) subOf₂ ∧
      s.tbl.length ≤ (internAll s.tbl (atoms.map (genKey o m g atoms (s.gen.getLastD []) k))).length ∧
      ∀ x ∈ atoms.map (genShellT o m g atoms (s.gen.getLastD []) k
          (internAll s.tbl (atoms.map (genKey o m g atoms (s.gen.getLastD []) k)))),
        ShellSub (internAll s.tbl (atoms.map (genKey o m g atoms (s.gen.getLastD []) k))) subOf₂ x := by
  have hprev : ∀ a b, b ∈ nbOf o m g atoms k a → ShellSub s.tbl subOf (shellOf (s.gen.getLastD []) b) := by
    intro a b hb
    have hb' : b ∈ atoms := (List.mem_filter.1 hb).1
    rw [← h.genAtoms] at hb'
    exact h.gen _ (shellOf_atom _ b hb').1
  obtain ⟨subOf₂, hold, hT⟩ := tblSub_extend s.tbl subOf h.tbl
    (atoms.map (genKey o m g atoms (s.gen.getLastD []) k))
    (by
      intro key hkey j hj
      rcases List.mem_map.1 hkey with ⟨a, _, rfl⟩
      have hj' : j ∈ (nbOf o m g atoms k a).map (fun b => (shellOf (s.gen.getLastD []) b).sid) :=
        (mem_uniq _ _).1 hj
      rcases List.mem_map.1 hj' with ⟨b, hb, rfl⟩
      exact (hprev a b hb).1)
  refine ⟨subOf₂, hold, hT, (internAll_prefix _ _).length_le, ?_⟩
  intro x hx
  rcases List.mem_map.1 hx with ⟨a, ha, rfl⟩
  have hk : genKey o m g atoms (s.gen.getLastD []) k a ∈
      internAll s.tbl (atoms.map (genKey o m g atoms (s.gen.getLastD []) k)) :=
    (mem_internAll _ _ _).2 (Or.inr (List.mem_map.2 ⟨a, ha, rfl⟩))
  obtain ⟨h1, h2⟩ := tblSub_key _ subOf₂ hT a _ hk
  refine ⟨h1, ?_⟩
  show uniq (a :: (nbOf o m g atoms k a).flatMap (fun b => (shellOf (s.gen.getLastD []) b).sub))
      = subOf₂ (List.idxOf (genKey o m g atoms (s.gen.getLastD []) k a) _)
  unfold genKey at h2 ⊢
  rw [h2]
  apply uniq_ext
  intro x
  simp only [List.mem_cons, List.mem_flatMap, mem_uniq, List.mem_map]
  constructor
  · rintro (hx | ⟨b, hb, hxb⟩)
    · exact Or.inl hx
    · refine Or.inr ⟨_, ⟨b, hb, rfl⟩, ?_⟩
      rw [hold _ (hprev a b hb).1, ← (hprev a b hb).2]; exact hxb
  · rintro (hx | ⟨j, ⟨b, hb, rfl⟩, hxb⟩)
    · exact Or.inl hx
    · refine Or.inr ⟨b, hb, ?_⟩
      rw [hold _ (hprev a b hb).1, ← (hprev a b hb).2] at hxb; exact hxb

/-- the shells of the next level satisfy the invariant for an extension of `subOf` -/
theorem uinv_gen (o : Opts) (m : MolG) (g : Geo) (atoms : List Nat) (subOf : Nat → List Nat) (s : FState)
    (h : UInv o atoms subOf s) :
    ∃ subOf₂, (∀ i, i < s.tbl.length → subOf₂ i = subOf i) ∧
      TblSub (genLevel o m g atoms (s.gen.getLastD []) (s.currentLevel + 1) s.tbl).1 subOf₂ ∧
      s.tbl.length ≤ (genLevel o m g atoms (s.gen.getLastD []) (s.currentLevel + 1) s.tbl).1.length ∧
      ∀ x ∈ (genLevel o m g atoms (s.gen.getLastD []) (s.currentLevel + 1) s.tbl).2,
        ShellSub (genLevel o m g atoms (s.gen.getLastD []) (s.currentLevel + 1) s.tbl).1 subOf₂ x := by
  rw [genLevel_eq_map]
  exact uinv_gen_aux o m g atoms subOf s h (s.currentLevel + 1)

/-- a union with shells of fresh, pairwise different ids is an append -/
theorem unionShells_eq_append (old new : List GShell)
    (h1 : ∀ x ∈ old, ∀ z ∈ new, x.sid ≠ z.sid) (h2 : new.Pairwise (fun a b => a.sid ≠ b.sid)) :
    unionShells old new = old ++ new := by
  induction new generalizing old with
  | nil => simp [unionShells_nil]
  | cons z rest ih =>
    rw [unionShells_cons]
    rw [List.pairwise_cons] at h2
    have hany : old.any (fun x => x.sid == z.sid) = false := by
      rw [List.any_eq_false]
      intro x hx
      have := h1 x hx z (by simp)
      simpa using this
    rw [hany]
    simp only [Bool.false_eq_true, if_false]
    rw [ih (old ++ [z]) ?_ h2.2]
    · simp
    · intro x hx z' hz'
      rcases List.mem_append.1 hx with hx | hx
      · exact h1 x hx z' (List.mem_cons_of_mem _ hz')
      · simp only [List.mem_singleton] at hx; subst hx
        exact h2.1 z' hz'

/-- with duplicate removal the union is an append: an accepted shell has a substructure not seen
before, hence is structurally different from every shell already collected and from every other
accepted shell -/
theorem union_eq_append (o : Opts) (m : MolG) (g : Geo) (atoms : List Nat) (subOf : Nat → List Nat) (s : FState)
    (h : UInv o atoms subOf s) (hd : o.removeDup = true) :
    unionShells (s.levelShells.getLastD [])
        (dedupSpec s.past (sortByLt ltShell (genLevel o m g atoms (s.gen.getLastD []) (s.currentLevel + 1) s.tbl).2))
      = s.levelShells.getLastD [] ++
        dedupSpec s.past (sortByLt ltShell (genLevel o m g atoms (s.gen.getLastD []) (s.currentLevel + 1) s.tbl).2) := by
  obtain ⟨subOf₂, hold, _, _, hsh⟩ := uinv_gen o m g atoms subOf s h
  have hacc : ∀ z ∈ dedupSpec s.past
      (sortByLt ltShell (genLevel o m g atoms (s.gen.getLastD []) (s.currentLevel + 1) s.tbl).2),
      z.sub = subOf₂ z.sid := by
    intro z hz
    exact (hsh z ((mem_sortByLt _ _ _).1 ((dedupSpec_sublist _ _).subset hz))).2
  apply unionShells_eq_append
  · intro x hx z hz heq
    have hxs := h.ls x hx
    have hxsub : x.sub = subOf₂ x.sid := by rw [hold _ hxs.1]; exact hxs.2
    have : x.sub = z.sub := by rw [hxsub, hacc z hz, heq]
    exact dedupSpec_not_past _ _ z hz (this ▸ h.past hd x hx)
  · have hnd := dedupSpec_nodup s.past
      (sortByLt ltShell (genLevel o m g atoms (s.gen.getLastD []) (s.currentLevel + 1) s.tbl).2)
    rw [List.Nodup, List.pairwise_map] at hnd
    refine hnd.imp_of_mem ?_
    intro a b ha hb hab heq
    exact hab (by rw [hacc a ha, hacc b hb, heq])

theorem stepAcc_subset (o : Opts) (past : List (List Nat)) (shells : List GShell) :
    ∀ x ∈ stepAcc o past (sortByLt ltShell shells), x ∈ shells := by
  intro x hx
  unfold stepAcc at hx
  split at hx
  · exact (mem_sortByLt _ _ _).1 ((dedupSpec_sublist _ _).subset hx)
  · exact (mem_sortByLt _ _ _).1 hx

theorem genLevel_atoms (o : Opts) (m : MolG) (g : Geo) (atoms : List Nat) (prev : List GShell) (k : Nat)
    (t : Intern) : (genLevel o m g atoms prev k t).2.map (·.atom) = atoms := by
  rw [genLevel_eq_map]
  show List.map GShell.atom (atoms.map _) = atoms
  rw [List.map_map]
  show List.map (fun a => a) atoms = atoms
  simp

theorem uinv_step (o : Opts) (m : MolG) (g : Geo) (atoms : List Nat) (subOf : Nat → List Nat) (s s' : FState)
    (h : UInv o atoms subOf s) (hs : stepState o m g atoms s = some s') :
    ∃ subOf', UInv o atoms subOf' s' := by
  obtain ⟨subOf₂, hold, hT, hlen, hsh⟩ := uinv_gen o m g atoms subOf s h
  have hs' := stepState_some' o m g atoms s s' hs
  have hls : ∀ x ∈ s.levelShells.getLastD [],
      ShellSub (genLevel o m g atoms (s.gen.getLastD []) (s.currentLevel + 1) s.tbl).1 subOf₂ x := by
    intro x hx
    have hxs := h.ls x hx
    exact ⟨Nat.lt_of_lt_of_le hxs.1 hlen, by rw [hold _ hxs.1]; exact hxs.2⟩
  refine ⟨subOf₂, ?_⟩
  rw [hs']
  refine ⟨hT, ?_, ?_, ?_, ?_⟩
  · show List.map (·.atom) ((s.gen ++ [_]).getLastD []) = atoms
    rw [getLastD_append_singleton]
    exact genLevel_atoms ..
  · intro x hx
    change x ∈ (s.gen ++ [_]).getLastD [] at hx
    rw [getLastD_append_singleton] at hx
    exact hsh x hx
  · intro x hx
    change x ∈ (s.levelShells ++ [_]).getLastD [] at hx
    rw [getLastD_append_singleton] at hx
    rcases unionShells_mem _ _ x hx with hx | hx
    · exact hls x hx
    · exact hsh x (stepAcc_subset _ _ _ x hx)
  · intro hd x hx
    change x ∈ (s.levelShells ++ [_]).getLastD [] at hx
    rw [getLastD_append_singleton] at hx
    show x.sub ∈ stepPast o s.past _
    unfold stepPast
    rw [if_pos hd]
    rcases unionShells_mem _ _ x hx with hx | hx
    · exact List.mem_append_left _ (h.past hd x hx)
    · unfold stepAcc at hx
      rw [if_pos hd] at hx
      exact List.mem_append_right _ (List.mem_map.2 ⟨x, hx, rfl⟩)

end E3fpVerif.Rl
