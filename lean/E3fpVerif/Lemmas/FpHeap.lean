import E3fpVerif.Model.FpHeap
/-!
# Ownership lemmas for the fingerprint object heap (`Model/FpHeap.lean`)
-/
namespace E3fpVerif
namespace H

/-- the containers an object refers to -/
def slotRefs (o : FObj) : List Ref := [o.idx, o.props, o.cache] ++ o.cnt.toList ++ o.i2f.toList ++ o.i2u.toList

structure WFObj (h : Heap) (o : FObj) : Prop where
  idx : (getArr h o.idx).isSome
  cnt : ∀ r, o.cnt = some r → (getCnts h r).isSome
  props : (getProps h o.props).isSome
  cache : ∃ c, getCache h o.cache = some c ∧ ∀ e ∈ c, e.2 < h.objs.length
  i2f : ∀ r, o.i2f = some r → (getI2f h r).isSome
  i2u : ∀ r, o.i2u = some r → (getI2u h r).isSome
  unf : ∀ r, o.unfolded = some r → r < h.objs.length

/-- ownership invariant: every object's references are typed, and no container is referred to by two objects -/
structure Inv (h : Heap) : Prop where
  wf : ∀ (r : Ref) (o : FObj), h.objs[r]? = some o → WFObj h o
  sep : ∀ (r1 r2 : Ref) (o1 o2 : FObj), h.objs[r1]? = some o1 → h.objs[r2]? = some o2 → r1 ≠ r2 → ∀ x ∈ slotRefs o1, x ∉ slotRefs o2

/-- the object an operation is applied to (the only pre-existing object it may change, apart from a fold's cached child) -/
def target : Op → Option Ref
  | .fold src _ _ _ _ => some src
  | .setProp o _ _ | .setName o _ | .setLevel o _ | .pokeIdx o _ _ | .pokeCount o _ _ | .setCounts o _ => some o
  | _ => none

/-- the objects stored in r's fold cache -/
def cacheRefs (h : Heap) (r : Ref) : List Ref :=
  match getObj h r with
  | some o => (match getCache h o.cache with | some c => c.map (·.2) | none => [])
  | none => []

/-! ## slots -/

theorem mem_slotRefs {o : FObj} {x : Ref} :
    x ∈ slotRefs o ↔ x = o.idx ∨ x = o.props ∨ x = o.cache ∨ o.cnt = some x ∨ o.i2f = some x ∨ o.i2u = some x := by
  simp only [slotRefs, List.mem_append, List.mem_cons, List.not_mem_nil, or_false, Option.mem_toList]
  grind

/-! ## getters only look at one cell -/

theorem getArr_congr {h h' : Heap} {x : Ref} (e : h'.cells[x]? = h.cells[x]?) : getArr h' x = getArr h x := by
  simp [getArr, e]
theorem getCnts_congr {h h' : Heap} {x : Ref} (e : h'.cells[x]? = h.cells[x]?) : getCnts h' x = getCnts h x := by
  simp [getCnts, e]
theorem getProps_congr {h h' : Heap} {x : Ref} (e : h'.cells[x]? = h.cells[x]?) : getProps h' x = getProps h x := by
  simp [getProps, e]
theorem getCache_congr {h h' : Heap} {x : Ref} (e : h'.cells[x]? = h.cells[x]?) : getCache h' x = getCache h x := by
  simp [getCache, e]
theorem getI2f_congr {h h' : Heap} {x : Ref} (e : h'.cells[x]? = h.cells[x]?) : getI2f h' x = getI2f h x := by
  simp [getI2f, e]
theorem getI2u_congr {h h' : Heap} {x : Ref} (e : h'.cells[x]? = h.cells[x]?) : getI2u h' x = getI2u h x := by
  simp [getI2u, e]

theorem getArr_lt {h : Heap} {x : Ref} (e : (getArr h x).isSome) : x < h.cells.length := by
  unfold getArr at e; split at e <;> simp_all
  rename_i hh; exact (List.getElem?_eq_some_iff.mp hh).1
theorem getCnts_lt {h : Heap} {x : Ref} (e : (getCnts h x).isSome) : x < h.cells.length := by
  unfold getCnts at e; split at e <;> simp_all
  rename_i hh; exact (List.getElem?_eq_some_iff.mp hh).1
theorem getProps_lt {h : Heap} {x : Ref} (e : (getProps h x).isSome) : x < h.cells.length := by
  unfold getProps at e; split at e <;> simp_all
  rename_i hh; exact (List.getElem?_eq_some_iff.mp hh).1
theorem getCache_lt {h : Heap} {x : Ref} (e : (getCache h x).isSome) : x < h.cells.length := by
  unfold getCache at e; split at e <;> simp_all
  rename_i hh; exact (List.getElem?_eq_some_iff.mp hh).1
theorem getI2f_lt {h : Heap} {x : Ref} (e : (getI2f h x).isSome) : x < h.cells.length := by
  unfold getI2f at e; split at e <;> simp_all
  rename_i hh; exact (List.getElem?_eq_some_iff.mp hh).1
theorem getI2u_lt {h : Heap} {x : Ref} (e : (getI2u h x).isSome) : x < h.cells.length := by
  unfold getI2u at e; split at e <;> simp_all
  rename_i hh; exact (List.getElem?_eq_some_iff.mp hh).1

theorem WFObj.slot_lt {h : Heap} {o : FObj} (w : WFObj h o) {x : Ref} (hx : x ∈ slotRefs o) :
    x < h.cells.length := by
  rcases mem_slotRefs.mp hx with e | e | e | e | e | e
  · subst e; exact getArr_lt w.idx
  · subst e; exact getProps_lt w.props
  · subst e; obtain ⟨c, hc, _⟩ := w.cache; exact getCache_lt (by simp [hc])
  · exact getCnts_lt (w.cnt _ e)
  · exact getI2f_lt (w.i2f _ e)
  · exact getI2u_lt (w.i2u _ e)

/-! ## congruence: an object's observable state depends only on its own cells -/

theorem absFp_congr {h h' : Heap} {o : FObj} (e : ∀ x ∈ slotRefs o, h'.cells[x]? = h.cells[x]?) :
    absFp h' o = absFp h o := by
  have h1 := getArr_congr (e o.idx (by simp [mem_slotRefs]))
  unfold absFp
  rw [h1]
  cases hc : o.cnt with
  | none => rfl
  | some r => simp only []; rw [getCnts_congr (e r (by simp [mem_slotRefs, hc]))]

theorem view_congr {h h' : Heap} {r : Ref} (eo : getObj h' r = getObj h r)
    (e : ∀ o, getObj h r = some o → ∀ x ∈ slotRefs o, h'.cells[x]? = h.cells[x]?) : view h' r = view h r := by
  unfold view; rw [eo]
  cases ho : getObj h r with
  | none => rfl
  | some o =>
    have e' := e o ho
    simp only []
    rw [absFp_congr e', getProps_congr (e' _ (by simp [mem_slotRefs])),
      getCache_congr (e' _ (by simp [mem_slotRefs]))]
    have t1 : o.i2f.bind (getI2f h') = o.i2f.bind (getI2f h) := by
      cases hi : o.i2f with
      | none => rfl
      | some x => simp [getI2f_congr (e' x (by simp [mem_slotRefs, hi]))]
    have t2 : o.i2u.bind (getI2u h') = o.i2u.bind (getI2u h) := by
      cases hi : o.i2u with
      | none => rfl
      | some x => simp [getI2u_congr (e' x (by simp [mem_slotRefs, hi]))]
    rw [t1, t2]

theorem cacheRefs_congr {h h' : Heap} {r : Ref} (eo : getObj h' r = getObj h r)
    (e : ∀ o, getObj h r = some o → h'.cells[o.cache]? = h.cells[o.cache]?) :
    cacheRefs h' r = cacheRefs h r := by
  unfold cacheRefs; rw [eo]
  cases ho : getObj h r with
  | none => rfl
  | some o => simp only []; rw [getCache_congr (e o ho)]

theorem WFObj.congr {h h' : Heap} {o : FObj} (w : WFObj h o)
    (e : ∀ x ∈ slotRefs o, h'.cells[x]? = h.cells[x]?) (hl : h.objs.length ≤ h'.objs.length) :
    WFObj h' o where
  idx := by rw [getArr_congr (e _ (by simp [mem_slotRefs]))]; exact w.idx
  cnt := fun r hr => by rw [getCnts_congr (e _ (by simp [mem_slotRefs, hr]))]; exact w.cnt r hr
  props := by rw [getProps_congr (e _ (by simp [mem_slotRefs]))]; exact w.props
  cache := by
    rw [getCache_congr (e _ (by simp [mem_slotRefs]))]
    obtain ⟨c, hc, hb⟩ := w.cache
    exact ⟨c, hc, fun e he => Nat.lt_of_lt_of_le (hb e he) hl⟩
  i2f := fun r hr => by rw [getI2f_congr (e _ (by simp [mem_slotRefs, hr]))]; exact w.i2f r hr
  i2u := fun r hr => by rw [getI2u_congr (e _ (by simp [mem_slotRefs, hr]))]; exact w.i2u r hr
  unf := fun r hr => Nat.lt_of_lt_of_le (w.unf r hr) hl

/-! ## primitives -/

@[simp] theorem alloc_cells (h : Heap) (c : Cell) : (alloc h c).1.cells = h.cells ++ [c] := rfl
@[simp] theorem alloc_objs (h : Heap) (c : Cell) : (alloc h c).1.objs = h.objs := rfl
@[simp] theorem alloc_ref (h : Heap) (c : Cell) : (alloc h c).2 = h.cells.length := rfl
@[simp] theorem allocObj_cells (h : Heap) (o : FObj) : (allocObj h o).1.cells = h.cells := rfl
@[simp] theorem allocObj_objs (h : Heap) (o : FObj) : (allocObj h o).1.objs = h.objs ++ [o] := rfl
@[simp] theorem allocObj_ref (h : Heap) (o : FObj) : (allocObj h o).2 = h.objs.length := rfl
@[simp] theorem setCell_cells (h : Heap) (r : Ref) (c : Cell) : (setCell h r c).cells = h.cells.set r c := rfl
@[simp] theorem setCell_objs (h : Heap) (r : Ref) (c : Cell) : (setCell h r c).objs = h.objs := rfl
@[simp] theorem setObj_cells (h : Heap) (r : Ref) (o : FObj) : (setObj h r o).cells = h.cells := rfl
@[simp] theorem setObj_objs (h : Heap) (r : Ref) (o : FObj) : (setObj h r o).objs = h.objs.set r o := rfl

theorem alloc_cells_old {h : Heap} {c : Cell} {x : Ref} (hx : x < h.cells.length) :
    (alloc h c).1.cells[x]? = h.cells[x]? := by
  simp [List.getElem?_append_left hx]

theorem alloc_cells_new (h : Heap) (c : Cell) : (alloc h c).1.cells[h.cells.length]? = some c := by
  simp

theorem setCell_cells_ne {h : Heap} {r x : Ref} {c : Cell} (hx : x ≠ r) :
    (setCell h r c).cells[x]? = h.cells[x]? := by
  simp [Ne.symm hx]

theorem setCell_cells_eq {h : Heap} {r : Ref} {c : Cell} (hr : r < h.cells.length) :
    (setCell h r c).cells[r]? = some c := by
  simp [hr]

theorem getObj_setObj_ne {h : Heap} {r x : Ref} {o : FObj} (hx : x ≠ r) :
    getObj (setObj h r o) x = getObj h x := by
  simp [getObj, Ne.symm hx]

theorem getObj_setObj_eq {h : Heap} {r : Ref} {o : FObj} (hr : r < h.objs.length) :
    getObj (setObj h r o) r = some o := by
  simp [getObj, hr]

theorem getObj_lt {h : Heap} {r : Ref} {o : FObj} (e : getObj h r = some o) : r < h.objs.length :=
  (List.getElem?_eq_some_iff.mp e).1

/-- `omega` after unfolding the `Ref` abbreviation (which hides `Nat` from `omega`) -/
macro "romega" : tactic => `(tactic| ((try unfold Ref at *); omega))

/-! ## `allocFp` builds an object out of new cells only -/

structure FreshObj (h : Heap) (v : Fp) (props : List (String × PVal)) (i2u : Option (List (Nat × List Nat)))
    (unf : Option Ref) (h' : Heap) (o : FObj) : Prop where
  objs : h'.objs = h.objs ++ [o]
  cells_old : ∀ x, x < h.cells.length → h'.cells[x]? = h.cells[x]?
  fresh : ∀ x ∈ slotRefs o, h.cells.length ≤ x
  abs : absFp h' o = some ⟨v.kind, v.bits, v.level, v.idx, if v.kind = .bit then [] else v.cnt⟩
  arr : (getArr h' o.idx).isSome
  cntT : ∀ r, o.cnt = some r → (getCnts h' r).isSome
  props : getProps h' o.props = some props
  cache : getCache h' o.cache = some []
  i2f : o.i2f = none
  unf : o.unfolded = unf
  i2u : o.i2u.bind (getI2u h') = i2u
  i2uT : ∀ r, o.i2u = some r → (getI2u h' r).isSome

theorem allocFp_spec (h : Heap) (v : Fp) (props : List (String × PVal)) (i2u : Option (List (Nat × List Nat)))
    (unf : Option Ref) :
    ∃ o, FreshObj h v props i2u unf (allocFp h v props i2u unf).1 o ∧
      (allocFp h v props i2u unf).2 = h.objs.length := by
  cases hk : v.kind <;> cases i2u <;> simp only [allocFp, hk, alloc, allocObj] <;>
    refine ⟨_, ⟨rfl, ?_, ?_, ?_, ?_, ?_, ?_, ?_, rfl, rfl, ?_, ?_⟩, trivial⟩
  all_goals first | (simp [mem_slotRefs, absFp, getArr, getCnts, getProps, getCache, getI2u, List.getElem?_append, hk]; done) | (intro x hx; simp [List.getElem?_append, hx]; done) | (intro x hx; simp [mem_slotRefs] at hx; grind) | (intro r hr; simp at hr; subst hr; simp [getCnts, getI2u]; done)


theorem getElem?_snoc {α} {l : List α} {a b : α} {r : Nat} :
    (l ++ [a])[r]? = some b ↔ (r < l.length ∧ l[r]? = some b) ∨ (r = l.length ∧ a = b) := by
  grind

theorem FreshObj.wfNew {h v props i2u unf h' o} (f : FreshObj h v props i2u unf h' o)
    (hu : ∀ u, unf = some u → u ≤ h.objs.length) : WFObj h' o where
  idx := f.arr
  cnt := f.cntT
  props := by simp [f.props]
  cache := ⟨[], f.cache, by simp⟩
  i2f := by simp [f.i2f]
  i2u := f.i2uT
  unf := fun r hr => by
    have := hu r (by rw [← f.unf]; exact hr)
    simp [f.objs]; romega

theorem FreshObj.inv {h v props i2u unf h' o} (f : FreshObj h v props i2u unf h' o) (hinv : Inv h)
    (hu : ∀ u, unf = some u → u ≤ h.objs.length) : Inv h' where
  wf := by
    intro r o1 h1
    rw [f.objs, getElem?_snoc] at h1
    rcases h1 with ⟨_, h1⟩ | ⟨_, h1⟩
    · have w := hinv.wf r o1 h1
      exact w.congr (fun x hx => f.cells_old x (w.slot_lt hx)) (by simp [f.objs])
    · subst h1; exact f.wfNew hu
  sep := by
    intro r1 r2 o1 o2 h1 h2 hne x hx1 hx2
    rw [f.objs, getElem?_snoc] at h1 h2
    rcases h1 with ⟨_, h1⟩ | ⟨e1, h1⟩ <;> rcases h2 with ⟨_, h2⟩ | ⟨e2, h2⟩
    · exact hinv.sep r1 r2 o1 o2 h1 h2 hne x hx1 hx2
    · subst h2
      have := (hinv.wf r1 o1 h1).slot_lt hx1
      have := f.fresh x hx2
      romega
    · subst h1
      have := (hinv.wf r2 o2 h2).slot_lt hx2
      have := f.fresh x hx1
      romega
    · romega

/-! ## frames -/

theorem FreshObj.getObj_old {h v props i2u unf h' o} (f : FreshObj h v props i2u unf h' o) {r : Nat}
    (hr : r < h.objs.length) : getObj h' r = getObj h r := by
  simp [getObj, f.objs, List.getElem?_append_left hr]

theorem FreshObj.getObj_new {h v props i2u unf h' o} (f : FreshObj h v props i2u unf h' o) :
    getObj h' h.objs.length = some o := by
  simp [getObj, f.objs]

theorem FreshObj.length {h v props i2u unf h' o} (f : FreshObj h v props i2u unf h' o) :
    h'.objs.length = h.objs.length + 1 := by
  simp [f.objs]

/-- a heap whose old cells are unchanged shows the same object -/
theorem view_ext {h h' : Heap} {r : Ref} (hinv : Inv h) (eo : getObj h' r = getObj h r)
    (ec : ∀ x, x < h.cells.length → h'.cells[x]? = h.cells[x]?) : view h' r = view h r :=
  view_congr eo (fun o ho x hx => ec x ((hinv.wf r o ho).slot_lt hx))

theorem cacheRefs_ext {h h' : Heap} {r : Ref} (hinv : Inv h) (eo : getObj h' r = getObj h r)
    (ec : ∀ x, x < h.cells.length → h'.cells[x]? = h.cells[x]?) : cacheRefs h' r = cacheRefs h r :=
  cacheRefs_congr eo (fun o ho => ec _ ((hinv.wf r o ho).slot_lt (by simp [mem_slotRefs])))

theorem FreshObj.view_old {h v props i2u unf h' o} (f : FreshObj h v props i2u unf h' o) (hinv : Inv h)
    {r : Nat} (hr : r < h.objs.length) : view h' r = view h r :=
  view_ext hinv (f.getObj_old hr) f.cells_old

theorem FreshObj.cacheRefs_old {h v props i2u unf h' o} (f : FreshObj h v props i2u unf h' o) (hinv : Inv h)
    {r : Nat} (hr : r < h.objs.length) : cacheRefs h' r = cacheRefs h r :=
  cacheRefs_ext hinv (f.getObj_old hr) f.cells_old

theorem FreshObj.view_new {h v props i2u unf h' o} (f : FreshObj h v props i2u unf h' o) :
    view h' h.objs.length =
      some ⟨⟨v.kind, v.bits, v.level, v.idx, if v.kind = .bit then [] else v.cnt⟩, props, [], unf, none, i2u⟩ := by
  simp [view, f.getObj_new, f.abs, f.props, f.cache, f.i2f, f.unf, f.i2u]

theorem FreshObj.cacheRefs_new {h v props i2u unf h' o} (f : FreshObj h v props i2u unf h' o) :
    cacheRefs h' h.objs.length = [] := by
  simp [cacheRefs, f.getObj_new, f.cache]

theorem cacheRefs_ge {h : Heap} {r : Nat} (hr : h.objs.length ≤ r) : cacheRefs h r = [] := by
  simp [cacheRefs, getObj, List.getElem?_eq_none hr]

theorem view_ge {h : Heap} {r : Nat} (hr : h.objs.length ≤ r) : view h r = none := by
  simp [view, getObj, List.getElem?_eq_none hr]

/-! ## `alloc` -/

theorem inv_alloc {h : Heap} (hinv : Inv h) (c : Cell) : Inv (alloc h c).1 where
  wf := fun r o ho =>
    have w := hinv.wf r o ho
    w.congr (fun _ hx => alloc_cells_old (w.slot_lt hx)) (Nat.le_refl _)
  sep := hinv.sep

theorem view_alloc {h : Heap} (hinv : Inv h) (c : Cell) (r : Ref) : view (alloc h c).1 r = view h r :=
  view_ext hinv rfl (fun _ hx => alloc_cells_old hx)

/-- no object refers to `x` -/
def Unref (h : Heap) (x : Ref) : Prop := ∀ (r : Ref) (o : FObj), h.objs[r]? = some o → x ∉ slotRefs o

theorem unref_alloc {h : Heap} (hinv : Inv h) (c : Cell) : Unref (alloc h c).1 h.cells.length := by
  intro r o ho hx
  exact Nat.lt_irrefl _ ((hinv.wf r o ho).slot_lt hx)

theorem FreshObj.unref {h v props i2u unf h' o} (f : FreshObj h v props i2u unf h' o) {x : Nat}
    (hu : Unref h x) (hx : x < h.cells.length) : Unref h' x := by
  intro r o1 h1 hx1
  rw [f.objs, getElem?_snoc] at h1
  rcases h1 with ⟨_, h1⟩ | ⟨_, h1⟩
  · exact hu r o1 h1 hx1
  · subst h1; have := f.fresh x hx1; romega

/-! ## `setObj` -/

theorem WFObj.setObj_iff {h : Heap} {r : Ref} {o' o : FObj} : WFObj (setObj h r o') o ↔ WFObj h o :=
  ⟨fun w => w.congr (fun _ _ => rfl) (by simp), fun w => w.congr (fun _ _ => rfl) (by simp)⟩

theorem inv_setObj {h : Heap} {r : Ref} {o o' : FObj} (hinv : Inv h) (ho : getObj h r = some o)
    (w : WFObj h o') (hs : ∀ x ∈ slotRefs o', x ∈ slotRefs o ∨ Unref h x) : Inv (setObj h r o') where
  wf := by
    intro r1 o1 h1
    rw [WFObj.setObj_iff]
    simp only [setObj_objs, List.getElem?_set] at h1
    split at h1
    · split at h1
      · cases h1; exact w
      · cases h1
    · exact hinv.wf r1 o1 h1
  sep := by
    intro r1 r2 o1 o2 h1 h2 hne x hx1 hx2
    simp only [setObj_objs, List.getElem?_set] at h1 h2
    have ho' : h.objs[r]? = some o := ho
    split at h1 <;> split at h2
    · romega
    · split at h1
      · cases h1
        rcases hs x hx1 with hx | hx
        · exact hinv.sep r r2 o o2 ho' h2 (by romega) x hx hx2
        · exact hx r2 o2 h2 hx2
      · cases h1
    · split at h2
      · cases h2
        rcases hs x hx2 with hx | hx
        · exact hinv.sep r1 r o1 o h1 ho' (by romega) x hx1 hx
        · exact hx r1 o1 h1 hx1
      · cases h2
    · exact hinv.sep r1 r2 o1 o2 h1 h2 hne x hx1 hx2

theorem view_setObj_ne {h : Heap} {r r' : Ref} {o' : FObj} (hne : r' ≠ r) :
    view (setObj h r o') r' = view h r' :=
  view_congr (getObj_setObj_ne hne) (fun _ _ _ _ => rfl)

theorem cacheRefs_setObj_ne {h : Heap} {r r' : Ref} {o' : FObj} (hne : r' ≠ r) :
    cacheRefs (setObj h r o') r' = cacheRefs h r' :=
  cacheRefs_congr (getObj_setObj_ne hne) (fun _ _ => rfl)

/-- replacing an object by one with the same cache cell keeps its cached children -/
theorem cacheRefs_setObj_same {h : Heap} {r : Ref} {o o' : FObj} (ho : getObj h r = some o)
    (hc : o'.cache = o.cache) : cacheRefs (setObj h r o') r = cacheRefs h r := by
  simp [cacheRefs, getObj_setObj_eq (getObj_lt ho), ho, hc, getCache]

/-! ## `setCell` -/

def Cell.tag : Cell → Nat
  | .arr _ => 0 | .cnts _ => 1 | .props _ => 2 | .cache _ => 3 | .i2f _ => 4 | .i2u _ => 5

theorem getArr_isSome {h : Heap} {x : Ref} : (getArr h x).isSome ↔ (h.cells[x]?).map Cell.tag = some 0 := by
  cases hc : h.cells[x]? with
  | none => simp [getArr, hc]
  | some c => cases c <;> simp [getArr, hc, Cell.tag]
theorem getCnts_isSome {h : Heap} {x : Ref} : (getCnts h x).isSome ↔ (h.cells[x]?).map Cell.tag = some 1 := by
  cases hc : h.cells[x]? with
  | none => simp [getCnts, hc]
  | some c => cases c <;> simp [getCnts, hc, Cell.tag]
theorem getProps_isSome {h : Heap} {x : Ref} : (getProps h x).isSome ↔ (h.cells[x]?).map Cell.tag = some 2 := by
  cases hc : h.cells[x]? with
  | none => simp [getProps, hc]
  | some c => cases c <;> simp [getProps, hc, Cell.tag]
theorem getCache_isSome {h : Heap} {x : Ref} : (getCache h x).isSome ↔ (h.cells[x]?).map Cell.tag = some 3 := by
  cases hc : h.cells[x]? with
  | none => simp [getCache, hc]
  | some c => cases c <;> simp [getCache, hc, Cell.tag]
theorem getI2f_isSome {h : Heap} {x : Ref} : (getI2f h x).isSome ↔ (h.cells[x]?).map Cell.tag = some 4 := by
  cases hc : h.cells[x]? with
  | none => simp [getI2f, hc]
  | some c => cases c <;> simp [getI2f, hc, Cell.tag]
theorem getI2u_isSome {h : Heap} {x : Ref} : (getI2u h x).isSome ↔ (h.cells[x]?).map Cell.tag = some 5 := by
  cases hc : h.cells[x]? with
  | none => simp [getI2u, hc]
  | some c => cases c <;> simp [getI2u, hc, Cell.tag]

theorem getArr_eq_some {h : Heap} {x : Ref} {a} : getArr h x = some a ↔ h.cells[x]? = some (.arr a) := by
  cases hc : h.cells[x]? with
  | none => simp [getArr, hc]
  | some c => cases c <;> simp [getArr, hc]
theorem getCnts_eq_some {h : Heap} {x : Ref} {a} : getCnts h x = some a ↔ h.cells[x]? = some (.cnts a) := by
  cases hc : h.cells[x]? with
  | none => simp [getCnts, hc]
  | some c => cases c <;> simp [getCnts, hc]
theorem getProps_eq_some {h : Heap} {x : Ref} {a} : getProps h x = some a ↔ h.cells[x]? = some (.props a) := by
  cases hc : h.cells[x]? with
  | none => simp [getProps, hc]
  | some c => cases c <;> simp [getProps, hc]
theorem getCache_eq_some {h : Heap} {x : Ref} {a} : getCache h x = some a ↔ h.cells[x]? = some (.cache a) := by
  cases hc : h.cells[x]? with
  | none => simp [getCache, hc]
  | some c => cases c <;> simp [getCache, hc]
theorem getI2f_eq_some {h : Heap} {x : Ref} {a} : getI2f h x = some a ↔ h.cells[x]? = some (.i2f a) := by
  cases hc : h.cells[x]? with
  | none => simp [getI2f, hc]
  | some c => cases c <;> simp [getI2f, hc]
theorem getI2u_eq_some {h : Heap} {x : Ref} {a} : getI2u h x = some a ↔ h.cells[x]? = some (.i2u a) := by
  cases hc : h.cells[x]? with
  | none => simp [getI2u, hc]
  | some c => cases c <;> simp [getI2u, hc]

theorem tag_setCell {h : Heap} {x : Ref} {c0 c : Cell} (h0 : h.cells[x]? = some c0) (ht : c0.tag = c.tag)
    (y : Ref) : ((setCell h x c).cells[y]?).map Cell.tag = (h.cells[y]?).map Cell.tag := by
  by_cases hy : y = x
  · subst hy
    rw [setCell_cells_eq (List.getElem?_eq_some_iff.mp h0).1, h0]; simp [ht]
  · rw [setCell_cells_ne hy]

/-- overwriting a cell with one of the same kind (a cache only with live entries) keeps the invariant -/
theorem inv_setCell {h : Heap} {x : Ref} {c0 c : Cell} (hinv : Inv h) (h0 : h.cells[x]? = some c0)
    (ht : c0.tag = c.tag) (hc : ∀ d, c = .cache d → ∀ e ∈ d, e.2 < h.objs.length) : Inv (setCell h x c) where
  wf := by
    intro r o ho
    have w := hinv.wf r o ho
    have tg := tag_setCell (c := c) h0 ht
    refine ⟨?_, ?_, ?_, ?_, ?_, ?_, w.unf⟩
    · rw [getArr_isSome, tg]; exact getArr_isSome.mp w.idx
    · intro r' hr'; rw [getCnts_isSome, tg]; exact getCnts_isSome.mp (w.cnt r' hr')
    · rw [getProps_isSome, tg]; exact getProps_isSome.mp w.props
    · obtain ⟨cc, hcc, hb⟩ := w.cache
      by_cases hy : o.cache = x
      · have e0 := getCache_eq_some.mp hcc
        rw [hy, h0] at e0
        cases e0
        cases c <;> simp [Cell.tag] at ht
        rename_i d
        refine ⟨d, ?_, hc d rfl⟩
        rw [getCache_eq_some, hy]
        exact setCell_cells_eq (List.getElem?_eq_some_iff.mp h0).1
      · exact ⟨cc, by rw [getCache_congr (setCell_cells_ne hy)]; exact hcc, hb⟩
    · intro r' hr'; rw [getI2f_isSome, tg]; exact getI2f_isSome.mp (w.i2f r' hr')
    · intro r' hr'; rw [getI2u_isSome, tg]; exact getI2u_isSome.mp (w.i2u r' hr')
  sep := hinv.sep

theorem view_setCell_ne {h : Heap} {x r : Ref} {c : Cell}
    (hx : ∀ o, getObj h r = some o → x ∉ slotRefs o) : view (setCell h x c) r = view h r :=
  view_congr rfl (fun o ho _ hy => setCell_cells_ne (fun e => hx o ho (e ▸ hy)))

/-! ## dictionaries -/

theorem mem_dictSet {α β} [DecidableEq α] {d : List (α × β)} {k : α} {v : β} {e : α × β}
    (he : e ∈ dictSet d k v) : e ∈ d ∨ e = (k, v) := by
  induction d with
  | nil => simp_all [dictSet]
  | cons p rest ih =>
    obtain ⟨k', v'⟩ := p
    simp only [dictSet] at he
    split at he <;> grind

theorem dictGet_mem {α β} [DecidableEq α] {d : List (α × β)} {k : α} {v : β}
    (he : dictGet d k = some v) : (k, v) ∈ d := by
  induction d with
  | nil => simp [dictGet] at he
  | cons p rest ih =>
    obtain ⟨k', v'⟩ := p
    simp only [dictGet] at he
    split at he <;> grind

theorem dictGet_dictSet_self {α β} [DecidableEq α] (d : List (α × β)) (k : α) (v : β) :
    dictGet (dictSet d k v) k = some v := by
  induction d with
  | nil => simp [dictSet, dictGet]
  | cons p rest ih =>
    obtain ⟨k', v'⟩ := p
    simp only [dictSet]
    split <;> simp_all [dictGet]

/-! ## the shapes of a step -/

/-- the heap and child a fold builds when `(bits, method)` is not cached -/
def foldNew (h : Heap) (src : Ref) (o : FObj) (v : Fp) (p : List (String × PVal))
    (cache : List ((Nat × Nat) × Ref)) (bits method : Nat) (linked : Bool) (w : Fp) : Heap × Ref :=
  let (h1, rf) := alloc h (.i2f (v.foldMap bits method))
  let (h2, child) := allocFp h1 w (dictUpdate [] p) (some (v.unfoldMap bits method))
                       (if linked then some src else none)
  let h3 := setObj h2 src { o with i2f := some rf }
  let h4 := if linked then setCell h3 o.cache (.cache (dictSet cache (bits, method) child)) else h3
  (h4, child)

def isFold : Op → Bool
  | .fold .. => true
  | _ => false

/-- the six ways an operation can change the heap -/
inductive Shape (h : Heap) (op : Op) : Heap → Ans → Prop
  | same (a : Ans) (ha : ∀ r, a = .ref r → ∃ s, target op = some s ∧ r ∈ cacheRefs h s) : Shape h op h a
  | fresh (v : Fp) (props : List (String × PVal)) (ht : target op = none) (hf : isFold op = false) :
      Shape h op (allocFp h v props none none).1 (.ref (allocFp h v props none none).2)
  | foldNew (src bits method : Nat) (linked : Bool) (cm : CountsMethod) (o : FObj) (v : Fp)
      (p : List (String × PVal)) (cache : List ((Nat × Nat) × Ref)) (w : Fp)
      (hop : op = .fold src bits method linked cm) (ho : getObj h src = some o) (hv : absFp h o = some v)
      (hp : getProps h o.props = some p) (hc : getCache h o.cache = some cache)
      (hw : v.fold bits method cm = .ok w) (hn : dictGet cache (bits, method) = none) :
      Shape h op (H.foldNew h src o v p cache bits method linked w).1
        (.ref (H.foldNew h src o v p cache bits method linked w).2)
  | recount (t : Ref) (ot : FObj) (d : List (Nat × Rat)) (a : Ans) (hot : getObj h t = some ot)
      (ht : (target op = some t ∧ isFold op = false) ∨ ∃ s, target op = some s ∧ t ∈ cacheRefs h s)
      (ha : a = .unit ∨ a = .ref t) :
      Shape h op (setObj (alloc h (.cnts d)).1 t { ot with cnt := some h.cells.length }) a
  | poke (t : Ref) (ot : FObj) (x : Ref) (c0 c : Cell) (ht : target op = some t) (hot : getObj h t = some ot)
      (hx : x ∈ slotRefs ot) (h0 : h.cells[x]? = some c0) (hs : c0.tag = c.tag) (hnc : c.tag ≠ 3)
      (hf : isFold op = false) :
      Shape h op (setCell h x c) .unit
  | level (t : Ref) (ot : FObj) (l : Int) (ht : target op = some t) (hot : getObj h t = some ot)
      (hf : isFold op = false) :
      Shape h op (setObj h t { ot with level := l }) .unit

theorem mem_cacheRefs {h : Heap} {s : Ref} {o : FObj} {c : List ((Nat × Nat) × Ref)} {k : Nat × Nat} {r : Ref}
    (ho : getObj h s = some o) (hc : getCache h o.cache = some c) (hk : dictGet c k = some r) :
    r ∈ cacheRefs h s := by
  simp only [cacheRefs, ho, hc, List.mem_map]
  exact ⟨(k, r), dictGet_mem hk, rfl⟩

theorem step_shape (h : Heap) (op : Op) : Shape h op (step h op).1 (step h op).2 := by
  cases op with
  | new k ix c bits level name props =>
    simp only [step]
    split
    · exact .same _ (by simp)
    · exact .fresh _ _ rfl rfl
  | fromFp k src =>
    simp only [step]
    split
    · exact .same _ (by simp)
    · split
      · split
        · exact .same _ (by simp)
        · exact .fresh _ _ rfl rfl
      · exact .same _ (by simp)
  | setOp o a b =>
    simp only [step]
    split
    · split
      · split
        · exact .same _ (by simp)
        · exact .fresh _ _ rfl rfl
      · exact .same _ (by simp)
    · exact .same _ (by simp)
  | addSub o a b =>
    simp only [step]
    split
    · split
      · split
        · exact .same _ (by simp)
        · exact .fresh _ _ rfl rfl
      · exact .same _ (by simp)
    · exact .same _ (by simp)
  | scalar o a x =>
    simp only [step]
    split
    · exact .same _ (by simp)
    · split
      · split
        · exact .same _ (by simp)
        · exact .fresh _ _ rfl rfl
      · exact .same _ (by simp)
  | batch mean rs w =>
    simp only [step]
    split
    · exact .same _ (by simp)
    · split
      · exact .same _ (by simp)
      · exact .same _ (by simp)
      · exact .fresh _ _ rfl rfl
  | setProp r k v =>
    simp only [step]
    split
    · rename_i o ho
      split
      · rename_i p hp
        exact .poke r o o.props _ _ rfl ho (by simp [mem_slotRefs]) (getProps_eq_some.mp hp) rfl (by simp [Cell.tag]) rfl
      · exact .same _ (by simp)
    · exact .same _ (by simp)
  | setName r n =>
    simp only [step]
    split
    · rename_i o ho
      split
      · rename_i p hp
        exact .poke r o o.props _ _ rfl ho (by simp [mem_slotRefs]) (getProps_eq_some.mp hp) rfl (by simp [Cell.tag]) rfl
      · exact .same _ (by simp)
    · exact .same _ (by simp)
  | setLevel r l =>
    simp only [step]
    split
    · rename_i o ho
      exact .level r o l rfl ho rfl
    · exact .same _ (by simp)
  | pokeIdx r pos val =>
    simp only [step]
    split
    · rename_i o ho
      split
      · rename_i a ha
        split
        · exact .poke r o o.idx _ _ rfl ho (by simp [mem_slotRefs]) (getArr_eq_some.mp ha) rfl (by simp [Cell.tag]) rfl
        · exact .same _ (by simp)
      · exact .same _ (by simp)
    · exact .same _ (by simp)
  | pokeCount r key v =>
    simp only [step]
    split
    · rename_i o ho
      split
      · rename_i rc hrc
        split
        · rename_i d hd
          exact .poke r o rc _ _ rfl ho (by simp [mem_slotRefs, hrc]) (getCnts_eq_some.mp hd) rfl (by simp [Cell.tag]) rfl
        · exact .same _ (by simp)
      · exact .same _ (by simp)
    · exact .same _ (by simp)
  | setCounts r d =>
    simp only [step]
    split
    · rename_i o ho
      split
      · exact .same _ (by simp)
      · exact .recount r o _ _ ho (.inl ⟨rfl, rfl⟩) (.inl rfl)
    · exact .same _ (by simp)
  | fold src bits method linked cm =>
    simp only [step]
    split
    · exact .same _ (by simp)
    · rename_i o ho
      split
      · rename_i v p cache hv hp hc
        split
        · exact .same _ (by simp)
        · rename_i w hw
          split
          · rename_i child hchild
            have hmem := mem_cacheRefs ho hc hchild
            split
            · exact .same _ (by simp; exact ⟨src, rfl, hmem⟩)
            · rename_i co hco _
              split
              · exact .recount child co _ _ hco (.inr ⟨src, rfl, hmem⟩) (.inr rfl)
              · exact .same _ (by simp)
            · exact .same _ (by simp)
          · rename_i hn
            exact .foldNew src bits method linked cm o v p cache w rfl ho hv hp hc hw hn
      · exact .same _ (by simp)


/-! ## what a new fold builds -/

theorem WFObj.tag_cache {h : Heap} {o : FObj} (w : WFObj h o) : (h.cells[o.cache]?).map Cell.tag = some 3 := by
  obtain ⟨c, hc, _⟩ := w.cache
  exact getCache_isSome.mp (by simp [hc])

/-- the cache is a different container from the object's other containers -/
theorem WFObj.ne_cache {h : Heap} {o : FObj} (w : WFObj h o) {x : Ref} (hx : x ∈ slotRefs o) :
    x = o.cache ∨ (h.cells[x]?).map Cell.tag ≠ some 3 := by
  rcases mem_slotRefs.mp hx with e | e | e | e | e | e
  · right; subst e; rw [getArr_isSome.mp w.idx]; simp
  · right; subst e; rw [getProps_isSome.mp w.props]; simp
  · left; exact e
  · right; rw [getCnts_isSome.mp (w.cnt _ e)]; simp
  · right; rw [getI2f_isSome.mp (w.i2f _ e)]; simp
  · right; rw [getI2u_isSome.mp (w.i2u _ e)]; simp

theorem view_setCell_cache {h : Heap} {r : Ref} {o : FObj} {vw : View} (ho : getObj h r = some o)
    (w : WFObj h o) (hv : view h r = some vw) (d : List ((Nat × Nat) × Ref)) :
    view (setCell h o.cache (.cache d)) r = some { vw with cache := d } := by
  have hne : ∀ x ∈ slotRefs o, x ≠ o.cache → (setCell h o.cache (.cache d)).cells[x]? = h.cells[x]? :=
    fun x _ hx => setCell_cells_ne hx
  have tc := w.tag_cache
  have hne' : ∀ x ∈ slotRefs o, (h.cells[x]?).map Cell.tag ≠ some 3 →
      (setCell h o.cache (.cache d)).cells[x]? = h.cells[x]? := by
    intro x hx ht
    apply setCell_cells_ne
    intro e; subst e; exact ht tc
  have hlt : o.cache < h.cells.length := w.slot_lt (by simp [mem_slotRefs])
  have e1 : getArr (setCell h o.cache (.cache d)) o.idx = getArr h o.idx :=
    getArr_congr (hne' _ (by simp [mem_slotRefs]) (by rw [getArr_isSome.mp w.idx]; simp))
  have e2 : ∀ rc, o.cnt = some rc → getCnts (setCell h o.cache (.cache d)) rc = getCnts h rc :=
    fun rc hrc => getCnts_congr (hne' _ (by simp [mem_slotRefs, hrc]) (by rw [getCnts_isSome.mp (w.cnt _ hrc)]; simp))
  have e3 : getProps (setCell h o.cache (.cache d)) o.props = getProps h o.props :=
    getProps_congr (hne' _ (by simp [mem_slotRefs]) (by rw [getProps_isSome.mp w.props]; simp))
  have e4 : getCache (setCell h o.cache (.cache d)) o.cache = some d :=
    getCache_eq_some.mpr (setCell_cells_eq hlt)
  have e5 : o.i2f.bind (getI2f (setCell h o.cache (.cache d))) = o.i2f.bind (getI2f h) := by
    cases hi : o.i2f with
    | none => rfl
    | some x =>
      simp only [Option.bind_some]
      exact getI2f_congr (hne' _ (by simp [mem_slotRefs, hi]) (by rw [getI2f_isSome.mp (w.i2f _ hi)]; simp))
  have e6 : o.i2u.bind (getI2u (setCell h o.cache (.cache d))) = o.i2u.bind (getI2u h) := by
    cases hi : o.i2u with
    | none => rfl
    | some x =>
      simp only [Option.bind_some]
      exact getI2u_congr (hne' _ (by simp [mem_slotRefs, hi]) (by rw [getI2u_isSome.mp (w.i2u _ hi)]; simp))
  have e0 : absFp (setCell h o.cache (.cache d)) o = absFp h o := by
    unfold absFp
    rw [e1]
    cases hcn : o.cnt with
    | none => rfl
    | some rc => simp only []; rw [e2 rc hcn]
  have ho' : getObj (setCell h o.cache (.cache d)) r = some o := ho
  unfold view at hv ⊢
  rw [ho] at hv
  rw [ho']
  simp only [] at hv ⊢
  rw [e0, e3, e4, e5, e6]
  cases ha : absFp h o <;> cases hp : getProps h o.props <;> cases hcc : getCache h o.cache <;>
    simp_all
  subst hv; simp


theorem view_some_of_inv {h : Heap} (hinv : Inv h) {r : Ref} {o : FObj} (ho : getObj h r = some o) :
    ∃ vw, view h r = some vw := by
  have w := hinv.wf r o ho
  obtain ⟨c, hc, _⟩ := w.cache
  obtain ⟨a, ha⟩ := Option.isSome_iff_exists.mp w.idx
  obtain ⟨p, hp⟩ := Option.isSome_iff_exists.mp w.props
  have : ∃ v, absFp h o = some v := by
    unfold absFp; rw [ha]
    cases hcn : o.cnt with
    | none => exact ⟨_, rfl⟩
    | some rc =>
      obtain ⟨d, hd⟩ := Option.isSome_iff_exists.mp (w.cnt rc hcn)
      simp only [hd]; exact ⟨_, rfl⟩
  obtain ⟨v, hv⟩ := this
  exact ⟨⟨v, p, c, o.unfolded, o.i2f.bind (getI2f h), o.i2u.bind (getI2u h)⟩, by simp only [view, ho, hv, hp, hc]⟩

theorem cacheRefs_of_view {h : Heap} {r : Ref} {vw : View} (hv : view h r = some vw) :
    cacheRefs h r = vw.cache.map (·.2) := by
  unfold view at hv
  unfold cacheRefs
  cases ho : getObj h r with
  | none => simp [ho] at hv
  | some o =>
    simp only [ho] at hv ⊢
    cases ha : absFp h o <;> cases hp : getProps h o.props <;> cases hc : getCache h o.cache <;>
      simp_all
    subst hv; rfl

theorem view_setObj_i2f {h : Heap} {r x : Ref} {o : FObj} {vw : View} {m : List (Nat × Nat)}
    (ho : getObj h r = some o) (hv : view h r = some vw) (hx : getI2f h x = some m) :
    view (setObj h r { o with i2f := some x }) r = some { vw with i2f := some m } := by
  unfold view at hv ⊢
  rw [getObj_setObj_eq (getObj_lt ho)]
  rw [ho] at hv
  simp only [] at hv ⊢
  show (match absFp h o, getProps h o.props, getCache h o.cache with
    | some v, some p, some c => some (View.mk v p c o.unfolded (getI2f h x) (o.i2u.bind (getI2u h)))
    | _, _, _ => none) = _
  rw [hx]
  cases ha : absFp h o <;> cases hp : getProps h o.props <;> cases hc : getCache h o.cache <;>
    simp_all
  subst hv; simp

theorem view_cache_eq {h : Heap} {r : Ref} {vw : View} {o : FObj} {c : List ((Nat × Nat) × Ref)}
    (hv : view h r = some vw) (ho : getObj h r = some o) (hc : getCache h o.cache = some c) : vw.cache = c := by
  have h1 := cacheRefs_of_view hv
  unfold view at hv
  rw [ho] at hv
  simp only [hc] at hv
  cases ha : absFp h o <;> cases hp : getProps h o.props <;> simp_all
  subst hv; rfl

structure FoldNewSpec (h : Heap) (src : Ref) (o : FObj) (v : Fp) (p : List (String × PVal))
    (cache : List ((Nat × Nat) × Ref)) (bits method : Nat) (linked : Bool) (w : Fp) (h4 : Heap) (child : Ref) :
    Prop where
  child : child = h.objs.length
  len : h4.objs.length = h.objs.length + 1
  inv : Inv h4
  frame : ∀ r : Nat, r < h.objs.length → r ≠ src → view h4 r = view h r
  newSlots : ∀ o', getObj h4 h.objs.length = some o' → ∀ x ∈ slotRefs o', h.cells.length ≤ x
  viewChild : view h4 h.objs.length =
    some ⟨⟨w.kind, w.bits, w.level, w.idx, if w.kind = .bit then [] else w.cnt⟩, dictUpdate [] p, [],
      if linked then some src else none, none, some (v.unfoldMap bits method)⟩
  viewSrc : ∀ vw, view h src = some vw → view h4 src =
    some { vw with cache := if linked then dictSet cache (bits, method) h.objs.length else cache,
                   i2f := some (v.foldMap bits method) }

theorem foldNew_spec_aux {h : Heap} {src : Ref} {o : FObj} {v : Fp} {p : List (String × PVal)}
    {cache : List ((Nat × Nat) × Ref)} (bits method : Nat) (linked : Bool) (w : Fp) (hinv : Inv h)
    (ho : getObj h src = some o) (hc : getCache h o.cache = some cache) (A : Heap × Ref) (oc : FObj)
    (f : FreshObj (alloc h (.i2f (v.foldMap bits method))).1 w (dictUpdate [] p)
      (some (v.unfoldMap bits method)) (if linked then some src else none) A.1 oc)
    (hA : A.2 = h.objs.length) :
    FoldNewSpec h src o v p cache bits method linked w
      (if linked then setCell (setObj A.1 src { o with i2f := some h.cells.length }) o.cache
          (.cache (dictSet cache (bits, method) A.2))
        else setObj A.1 src { o with i2f := some h.cells.length }) A.2 := by
  have hsrc : src < h.objs.length := getObj_lt ho
  have inv1 : Inv (alloc h (.i2f (v.foldMap bits method))).1 := inv_alloc hinv _
  have hu : ∀ u, (if linked then some src else none) = some u →
      u ≤ (alloc h (.i2f (v.foldMap bits method))).1.objs.length := by
    intro u hu'; cases linked <;> simp at hu' ⊢; romega
  have inv2 := f.inv inv1 hu
  have ho2 : getObj A.1 src = some o := (f.getObj_old (r := src) hsrc).trans ho
  have hcell : ∀ x : Nat, x < h.cells.length → A.1.cells[x]? = h.cells[x]? :=
    fun x hx => (f.cells_old x (by simp; omega)).trans (alloc_cells_old hx)
  have hrf : A.1.cells[h.cells.length]? = some (Cell.i2f (v.foldMap bits method)) :=
    (f.cells_old h.cells.length (by simp)).trans (alloc_cells_new h _)
  have w2 := inv2.wf src o ho2
  have w' : WFObj A.1 { o with i2f := some h.cells.length } :=
    { w2 with i2f := by intro r hr; cases hr; rw [getI2f_isSome, hrf]; rfl }
  have hs : ∀ x ∈ slotRefs { o with i2f := some h.cells.length }, x ∈ slotRefs o ∨ Unref A.1 x := by
    intro x hx
    rcases mem_slotRefs.mp hx with e | e | e | e | e | e
    · left; exact mem_slotRefs.mpr (.inl e)
    · left; exact mem_slotRefs.mpr (.inr (.inl e))
    · left; exact mem_slotRefs.mpr (.inr (.inr (.inl e)))
    · left; exact mem_slotRefs.mpr (.inr (.inr (.inr (.inl e))))
    · right; cases e; exact f.unref (unref_alloc hinv _) (by simp)
    · left; exact mem_slotRefs.mpr (.inr (.inr (.inr (.inr (.inr e)))))
  have inv3 := inv_setObj inv2 ho2 w' hs
  have ho3 := getObj_setObj_eq (h := A.1) (o := { o with i2f := some h.cells.length }) (getObj_lt ho2)
  have hne : h.objs.length ≠ src := by romega
  have frame3 : ∀ r : Nat, r < h.objs.length → r ≠ src →
      view (setObj A.1 src { o with i2f := some h.cells.length }) r = view h r :=
    fun r hr hn => (view_setObj_ne hn).trans ((f.view_old inv1 hr).trans (view_alloc hinv _ r))
  have child3 : getObj (setObj A.1 src { o with i2f := some h.cells.length }) h.objs.length = some oc :=
    (getObj_setObj_ne hne).trans f.getObj_new
  have viewChild3 : view (setObj A.1 src { o with i2f := some h.cells.length }) h.objs.length = _ :=
    (view_setObj_ne hne).trans f.view_new
  have viewSrc3 : ∀ vw, view h src = some vw →
      view (setObj A.1 src { o with i2f := some h.cells.length }) src =
        some { vw with i2f := some (v.foldMap bits method) } := by
    intro vw hvw
    exact view_setObj_i2f ho2 (((f.view_old inv1 hsrc).trans (view_alloc hinv _ src)).trans hvw)
      (getI2f_eq_some.mpr hrf)
  have len3 : (setObj A.1 src { o with i2f := some h.cells.length }).objs.length = h.objs.length + 1 := by
    simp [f.length]
  have fresh3 : ∀ x ∈ slotRefs oc, h.cells.length ≤ x := fun x hx => by
    have := f.fresh x hx; simp at this; omega
  cases linked with
  | false =>
    refine ⟨hA, len3, inv3, frame3, ?_, viewChild3, ?_⟩
    · intro o' ho' x hx
      have : some oc = some o' := child3.symm.trans ho'
      cases this; exact fresh3 x hx
    · intro vw hvw; have := view_cache_eq hvw ho hc; subst this; exact viewSrc3 vw hvw
  | true =>
    have wo := hinv.wf src o ho
    have hlt : o.cache < h.cells.length := wo.slot_lt (by simp [mem_slotRefs])
    have h0 : (setObj A.1 src { o with i2f := some h.cells.length }).cells[o.cache]? = some (.cache cache) :=
      (hcell o.cache hlt).trans (getCache_eq_some.mp hc)
    have hb : ∀ d, Cell.cache (dictSet cache (bits, method) A.2) = .cache d →
        ∀ e ∈ d, e.2 < (setObj A.1 src { o with i2f := some h.cells.length }).objs.length := by
      intro d hd e he
      cases hd
      rw [len3]
      rcases mem_dictSet he with he | he
      · obtain ⟨c, hc', hbd⟩ := wo.cache
        rw [hc] at hc'; cases hc'
        exact Nat.lt_succ_of_lt (hbd e he)
      · subst he; rw [hA]; exact Nat.lt_succ_self _
    have inv4 := inv_setCell (c := .cache (dictSet cache (bits, method) A.2)) inv3 h0 rfl hb
    refine ⟨hA, len3, inv4, ?_, ?_, ?_, ?_⟩
    · intro r hr hn
      refine Eq.trans (view_setCell_ne ?_) (frame3 r hr hn)
      intro o_r hor
      exact inv3.sep src r _ o_r ho3 hor (Ne.symm hn) o.cache (by simp [mem_slotRefs])
    · intro o' ho' x hx
      have : some oc = some o' := child3.symm.trans ho'
      cases this; exact fresh3 x hx
    · refine Eq.trans (view_setCell_ne ?_) viewChild3
      intro o_r hor hmem
      have : some oc = some o_r := child3.symm.trans hor
      cases this
      have := fresh3 _ hmem
      romega
    · intro vw hvw
      have := view_setCell_cache ho3 (inv3.wf src _ ho3) (viewSrc3 vw hvw)
        (dictSet cache (bits, method) h.objs.length)
      rw [hA]
      exact this

theorem foldNew_spec {h : Heap} {src : Ref} {o : FObj} {v : Fp} {p : List (String × PVal)}
    {cache : List ((Nat × Nat) × Ref)} (bits method : Nat) (linked : Bool) (w : Fp) (hinv : Inv h)
    (ho : getObj h src = some o) (hc : getCache h o.cache = some cache) :
    FoldNewSpec h src o v p cache bits method linked w
      (foldNew h src o v p cache bits method linked w).1 (foldNew h src o v p cache bits method linked w).2 := by
  obtain ⟨oc, f, hA⟩ := allocFp_spec (alloc h (.i2f (v.foldMap bits method))).1 w (dictUpdate [] p)
    (some (v.unfoldMap bits method)) (if linked then some src else none)
  exact foldNew_spec_aux bits method linked w hinv ho hc _ oc f hA

/-! ## consequences of the shapes -/

theorem cacheRefs_lt {h : Heap} (hinv : Inv h) {s c : Ref} (hc : c ∈ cacheRefs h s) : c < h.objs.length := by
  unfold cacheRefs at hc
  cases ho : getObj h s with
  | none => simp [ho] at hc
  | some o =>
    obtain ⟨cc, hcc, hb⟩ := (hinv.wf s o ho).cache
    simp only [ho, hcc, List.mem_map] at hc
    obtain ⟨e, he, rfl⟩ := hc
    exact hb e he

theorem foldNew_length (h : Heap) (src : Ref) (o : FObj) (v : Fp) (p : List (String × PVal))
    (cache : List ((Nat × Nat) × Ref)) (bits method : Nat) (linked : Bool) (w : Fp) :
    (foldNew h src o v p cache bits method linked w).1.objs.length = h.objs.length + 1 := by
  obtain ⟨oc, f, _⟩ := allocFp_spec (alloc h (.i2f (v.foldMap bits method))).1 w (dictUpdate [] p)
    (some (v.unfoldMap bits method)) (if linked then some src else none)
  have := f.length
  cases linked <;> simpa [foldNew] using this

theorem Shape.grows {h h' : Heap} {op : Op} {a : Ans} (s : Shape h op h' a) :
    h.objs.length ≤ h'.objs.length := by
  cases s with
  | same => exact Nat.le_refl _
  | fresh v props =>
    obtain ⟨oc, f, _⟩ := allocFp_spec h v props none none
    rw [f.length]; exact Nat.le_succ _
  | foldNew => rw [foldNew_length]; exact Nat.le_succ _
  | recount => simp
  | poke => simp
  | level => simp

theorem WFObj.recount {h : Heap} {o : FObj} (w : WFObj h o) (c : List (Nat × Rat)) :
    WFObj (alloc h (.cnts c)).1 { o with cnt := some h.cells.length } :=
  have w1 : WFObj (alloc h (.cnts c)).1 o := w.congr (fun _ hx => alloc_cells_old (w.slot_lt hx)) (Nat.le_refl _)
  { w1 with cnt := by intro r hr; cases hr; rw [getCnts_isSome, alloc_cells_new]; rfl }

theorem inv_recount {h : Heap} (hinv : Inv h) {t : Ref} {ot : FObj} (hot : getObj h t = some ot)
    (d : List (Nat × Rat)) : Inv (setObj (alloc h (.cnts d)).1 t { ot with cnt := some h.cells.length }) := by
  refine inv_setObj (inv_alloc hinv _) hot ((hinv.wf t ot hot).recount d) ?_
  intro x hx
  rcases mem_slotRefs.mp hx with e | e | e | e | e | e
  · left; exact mem_slotRefs.mpr (.inl e)
  · left; exact mem_slotRefs.mpr (.inr (.inl e))
  · left; exact mem_slotRefs.mpr (.inr (.inr (.inl e)))
  · right; cases e; exact unref_alloc hinv _
  · left; exact mem_slotRefs.mpr (.inr (.inr (.inr (.inr (.inl e)))))
  · left; exact mem_slotRefs.mpr (.inr (.inr (.inr (.inr (.inr e)))))

theorem Shape.inv {h h' : Heap} {op : Op} {a : Ans} (s : Shape h op h' a) (hinv : Inv h) : Inv h' := by
  cases s with
  | same => exact hinv
  | fresh v props =>
    obtain ⟨oc, f, _⟩ := allocFp_spec h v props none none
    exact f.inv hinv (by simp)
  | foldNew src bits method linked cm o v p cache w hop ho hv hp hc hw hn =>
    exact (foldNew_spec bits method linked w hinv ho hc).inv
  | recount t ot d a hot ht ha => exact inv_recount hinv hot d
  | poke t ot x c0 c ht hot hx h0 hs hnc =>
    refine inv_setCell hinv h0 hs ?_
    intro d hd; subst hd; simp [Cell.tag] at hnc
  | level t ot l ht hot =>
    have w := hinv.wf t ot hot
    exact inv_setObj hinv hot ⟨w.idx, w.cnt, w.props, w.cache, w.i2f, w.i2u, w.unf⟩ (fun x hx => .inl hx)

theorem Shape.frame {h h' : Heap} {op : Op} {a : Ans} (s : Shape h op h' a) (hinv : Inv h) {r : Nat}
    (hr : r < h.objs.length) (ht : target op ≠ some r) (hc : ∀ s, target op = some s → r ∉ cacheRefs h s) :
    view h' r = view h r := by
  cases s with
  | same => rfl
  | fresh v props =>
    obtain ⟨oc, f, _⟩ := allocFp_spec h v props none none
    exact f.view_old hinv hr
  | foldNew src bits method linked cm o v p cache w hop ho hv hp hc' hw hn =>
    subst hop
    exact (foldNew_spec bits method linked w hinv ho hc').frame r hr (fun e => ht (by simp [target, e]))
  | recount t ot d a hot ht' ha =>
    have hne : r ≠ t := by
      rintro rfl
      rcases ht' with ⟨h1, _⟩ | ⟨s, h1, h2⟩
      · exact ht h1
      · exact hc s h1 h2
    exact (view_setObj_ne hne).trans (view_alloc hinv _ r)
  | poke t ot x c0 c ht' hot hx h0 hs hnc =>
    have hne : t ≠ r := by rintro rfl; exact ht ht'
    refine view_setCell_ne ?_
    intro o_r hor
    exact hinv.sep t r ot o_r hot hor hne x hx
  | level t ot l ht' hot =>
    have hne : r ≠ t := by rintro rfl; exact ht ht'
    exact view_setObj_ne hne

theorem Shape.fresh_result {h h' : Heap} {op : Op} {a : Ans} (s : Shape h op h' a) (hinv : Inv h) {r : Nat}
    (ha : a = .ref r) (hr : h.objs.length ≤ r) :
    r = h.objs.length ∧ h'.objs.length = h.objs.length + 1 ∧
      ∀ o', getObj h' r = some o' → ∀ x ∈ slotRefs o', h.cells.length ≤ x := by
  cases s with
  | same a ha' =>
    obtain ⟨s, _, hs⟩ := ha' r ha
    have := cacheRefs_lt hinv hs
    romega
  | fresh v props =>
    obtain ⟨oc, f, hA⟩ := allocFp_spec h v props none none
    cases ha
    refine ⟨hA, f.length, ?_⟩
    rw [hA, f.getObj_new]
    intro o' ho'; cases ho'; exact f.fresh
  | foldNew src bits method linked cm o v p cache w hop ho hv hp hc' hw hn =>
    have sp := foldNew_spec (v := v) (p := p) bits method linked w hinv ho hc'
    cases ha
    refine ⟨sp.child, sp.len, ?_⟩
    rw [sp.child]; exact sp.newSlots
  | recount t ot d a hot ht' ha' =>
    have := getObj_lt hot
    rcases ha' with rfl | rfl
    · cases ha
    · cases ha; romega
  | poke => cases ha
  | level => cases ha


theorem getCache_setCell_nocache {h : Heap} {x : Ref} {c0 c : Cell} (h0 : h.cells[x]? = some c0)
    (hs : c0.tag = c.tag) (hnc : c.tag ≠ 3) (y : Ref) : getCache (setCell h x c) y = getCache h y := by
  by_cases hy : y = x
  · subst hy
    have e1 : getCache h y = none := by
      rw [← Option.not_isSome_iff_eq_none, getCache_isSome, h0]; simp; romega
    have e2 : getCache (setCell h y c) y = none := by
      rw [← Option.not_isSome_iff_eq_none, getCache_isSome, tag_setCell h0 hs, h0]; simp; romega
    rw [e1, e2]
  · exact getCache_congr (setCell_cells_ne hy)

theorem cacheRefs_congr_cache {h h' : Heap} {r : Ref} (eo : getObj h' r = getObj h r)
    (e : ∀ o, getObj h r = some o → getCache h' o.cache = getCache h o.cache) :
    cacheRefs h' r = cacheRefs h r := by
  unfold cacheRefs; rw [eo]
  cases ho : getObj h r with
  | none => rfl
  | some o => simp only []; rw [e o ho]

theorem cacheRefs_of_view_eq {h h' : Heap} (hinv : Inv h) {s : Nat} (hs : s < h.objs.length)
    (e : view h' s = view h s) : cacheRefs h' s = cacheRefs h s := by
  obtain ⟨o, ho⟩ : ∃ o, getObj h s = some o := ⟨h.objs[s], by simp [getObj, hs]⟩
  obtain ⟨vw, hv⟩ := view_some_of_inv hinv ho
  rw [cacheRefs_of_view hv, cacheRefs_of_view (e.trans hv)]

theorem Shape.cacheRefs_sub {h h' : Heap} {op : Op} {a : Ans} (sh : Shape h op h' a) (hinv : Inv h)
    {s c : Nat} (hc : c ∈ cacheRefs h' s) :
    c ∈ cacheRefs h s ∨ (c = h.objs.length ∧ s < h.objs.length ∧ isFold op = true) := by
  cases sh with
  | same => exact .inl hc
  | fresh v props =>
    obtain ⟨oc, f, _⟩ := allocFp_spec h v props none none
    rcases Nat.lt_trichotomy s h.objs.length with hs | hs | hs
    · rw [f.cacheRefs_old hinv hs] at hc; exact .inl hc
    · subst hs; rw [f.cacheRefs_new] at hc; cases hc
    · rw [cacheRefs_ge (by rw [f.length]; omega)] at hc; cases hc
  | foldNew src bits method linked cm o v p cache w hop ho hv hp hc' hw hn =>
    have sp := foldNew_spec (v := v) (p := p) bits method linked w hinv ho hc'
    rcases Nat.lt_trichotomy s h.objs.length with hs | hs | hs
    · by_cases hsrc : s = src
      · subst hsrc
        obtain ⟨vw, hvw⟩ := view_some_of_inv hinv ho
        have e := view_cache_eq hvw ho hc'
        rw [cacheRefs_of_view (sp.viewSrc vw hvw)] at hc
        rw [cacheRefs_of_view hvw, e]
        cases linked with
        | false => exact .inl hc
        | true =>
          simp only [List.mem_map] at hc ⊢
          obtain ⟨e', he', rfl⟩ := hc
          rcases mem_dictSet he' with he' | he'
          · exact .inl ⟨e', he', rfl⟩
          · subst he'; exact .inr ⟨rfl, hs, by rw [hop]; rfl⟩
      · rw [cacheRefs_of_view_eq hinv hs (sp.frame s hs hsrc)] at hc; exact .inl hc
    · subst hs; rw [cacheRefs_of_view sp.viewChild] at hc; cases hc
    · rw [cacheRefs_ge (by rw [sp.len]; omega)] at hc; cases hc
  | recount t ot d a hot ht' ha =>
    left
    have e1 : cacheRefs (alloc h (.cnts d)).1 s = cacheRefs h s :=
      cacheRefs_ext hinv rfl (fun _ hx => alloc_cells_old hx)
    by_cases hst : s = t
    · subst hst
      rw [cacheRefs_setObj_same (h := (alloc h (.cnts d)).1) (o' := { ot with cnt := some h.cells.length }) hot rfl, e1] at hc
      exact hc
    · rw [cacheRefs_setObj_ne hst, e1] at hc; exact hc
  | poke t ot x c0 c ht' hot hx h0 hs hnc =>
    left
    have : cacheRefs (setCell h x c) s = cacheRefs h s :=
      cacheRefs_congr_cache rfl (fun o _ => getCache_setCell_nocache h0 hs hnc o.cache)
    rw [this] at hc; exact hc
  | level t ot l ht' hot =>
    left
    by_cases hst : s = t
    · subst hst; rw [cacheRefs_setObj_same (o' := { ot with level := l }) hot rfl] at hc; exact hc
    · rw [cacheRefs_setObj_ne hst] at hc; exact hc

/-! ## values -/

theorem view_some {h : Heap} {r : Ref} {vw : View} (hv : view h r = some vw) :
    ∃ o, getObj h r = some o ∧ absFp h o = some vw.val ∧ getProps h o.props = some vw.props ∧
      getCache h o.cache = some vw.cache ∧ o.unfolded = vw.unfolded ∧
      o.i2f.bind (getI2f h) = vw.i2f ∧ o.i2u.bind (getI2u h) = vw.i2u := by
  unfold view at hv
  cases ho : getObj h r with
  | none => simp [ho] at hv
  | some o =>
    simp only [ho] at hv
    cases ha : absFp h o <;> cases hp : getProps h o.props <;> cases hc : getCache h o.cache <;>
      simp_all
    subst hv; simp

/-- the value an allocated object denotes is the value it was built from, for constructor results -/
def Fp.norm (w : Fp) : Fp := ⟨w.kind, w.bits, w.level, w.idx, if w.kind = .bit then [] else w.cnt⟩

theorem Fp.norm_eq {w : Fp} (h : w.kind = .bit → w.cnt = []) : Fp.norm w = w := by
  obtain ⟨k, b, l, i, c⟩ := w
  simp only [Fp.norm]
  by_cases hk : k = .bit
  · simp_all
  · simp [hk]

theorem fromFingerprint_cnt {k : Kind} {f w : Fp} (h : fromFingerprint k f = .ok w) :
    w.kind = .bit → w.cnt = [] := by
  cases k <;> simp only [fromFingerprint, mkBit, mkCount] at h <;> split at h <;> cases h <;> simp

theorem fold_cnt {f w : Fp} {bits method : Nat} {cm : CountsMethod} (h : f.fold bits method cm = .ok w) :
    w.kind = .bit → w.cnt = [] := by
  unfold Fp.fold at h
  split at h
  · cases h
  · split at h
    · cases h
    · split at h
      · cases h
      · cases h
        intro hk
        simp only at hk ⊢
        rw [hk]

/-! ## folds, builders -/

theorem Shape.fold_source {h h' : Heap} {a : Ans} {src bits method : Nat} {linked : Bool} {cm : CountsMethod}
    (sh : Shape h (.fold src bits method linked cm) h' a) (hinv : Inv h) (hself : src ∉ cacheRefs h src)
    {v v' : View} (hv : view h src = some v) (hv' : view h' src = some v') :
    v'.val = v.val ∧ v'.props = v.props ∧ v'.unfolded = v.unfolded ∧ v'.i2u = v.i2u := by
  cases sh with
  | same => rw [hv] at hv'; cases hv'; exact ⟨rfl, rfl, rfl, rfl⟩
  | fresh _ _ _ hf => cases hf
  | foldNew src' bits' method' linked' cm' o vv p cache w hop ho hvv hp hc hw hn =>
    cases hop
    rw [(foldNew_spec bits method linked w hinv ho hc).viewSrc v hv] at hv'
    cases hv'; exact ⟨rfl, rfl, rfl, rfl⟩
  | recount t ot d a hot ht ha =>
    have hne : src ≠ t := by
      rintro rfl
      rcases ht with ⟨_, hf⟩ | ⟨s, hs, hm⟩
      · cases hf
      · cases hs; exact hself hm
    rw [(view_setObj_ne hne).trans (view_alloc hinv _ src), hv] at hv'
    cases hv'; exact ⟨rfl, rfl, rfl, rfl⟩
  | poke _ _ _ _ _ _ _ _ _ _ _ hf => cases hf
  | level _ _ _ _ _ hf => cases hf

/-- cached children are newer than the object that caches them -/
def CacheNewer (h : Heap) : Prop := ∀ s c : Ref, c ∈ cacheRefs h s → s < c

theorem step_fromFp_eq {h : Heap} {k : Kind} {src : Ref} {v : View} {w : Fp} (hv : view h src = some v)
    (hw : fromFingerprint k v.val = .ok w) :
    step h (.fromFp k src) = ((allocFp h w (dictUpdate [] v.props) none none).1,
      .ref (allocFp h w (dictUpdate [] v.props) none none).2) := by
  obtain ⟨o, ho, ha, hp, _⟩ := view_some hv
  simp only [step, ho, ha, hp, hw]

theorem step_fold_new_eq {h : Heap} {src bits method : Nat} {linked : Bool} {cm : CountsMethod} {v : View}
    {w : Fp} {o : FObj} (hv : view h src = some v) (ho : getObj h src = some o)
    (hw : v.val.fold bits method cm = .ok w) (hn : dictGet v.cache (bits, method) = none) :
    step h (.fold src bits method linked cm) =
      ((foldNew h src o v.val v.props v.cache bits method linked w).1,
        .ref (foldNew h src o v.val v.props v.cache bits method linked w).2) := by
  obtain ⟨o', ho', ha, hp, hc, _⟩ := view_some hv
  rw [ho] at ho'; cases ho'
  simp only [step, ho, ha, hp, hc, hw, hn]
  rfl

/-- the operations that always build a new object -/
def builds : Op → Bool
  | .new .. | .fromFp .. | .setOp .. | .addSub .. | .scalar .. | .batch .. => true
  | _ => false

theorem Shape.builds_ref {h h' : Heap} {op : Op} {a : Ans} (sh : Shape h op h' a) (hb : builds op = true)
    {r : Ref} (ha : a = .ref r) : r = h.objs.length := by
  have ht : target op = none := by cases op <;> simp_all [builds, target]
  cases sh with
  | same a ha' => obtain ⟨s, hs, _⟩ := ha' r ha; rw [ht] at hs; cases hs
  | fresh v props =>
    obtain ⟨oc, f, hA⟩ := allocFp_spec h v props none none
    cases ha; exact hA
  | foldNew _ _ _ _ _ _ _ _ _ _ hop => subst hop; cases hb
  | recount t ot d a hot ht' =>
    rcases ht' with ⟨h1, _⟩ | ⟨s, h1, _⟩ <;> rw [ht] at h1 <;> cases h1
  | poke _ _ _ _ _ ht' => rw [ht] at ht'; cases ht'
  | level _ _ _ ht' => rw [ht] at ht'; cases ht'

theorem absFp_kind {h : Heap} {o : FObj} {v : Fp} (ha : absFp h o = some v) : v.kind = o.kind := by
  unfold absFp at ha
  split at ha
  · cases ha; rfl
  · cases ha

theorem run_fst_cons (h : Heap) (op : Op) (ops : List Op) :
    (run h (op :: ops)).1 = (run (step h op).1 ops).1 := rfl

deriving instance DecidableEq for View
deriving instance DecidableEq for Ans

end H
end E3fpVerif
