import Batteries.Data.List.Basic
import E3fpVerif.Model.Db
import E3fpVerif.Lemmas.DbIndex
import E3fpVerif.Lemmas.Uniq
/-!
# Helper lemmas for database equality (`Props/C09Db.lean`)

* the keys of the canonical name index are duplicate free, so the index agrees with itself as a
  finite map (`namesAgree_self`);
* two canonical indices agree as finite maps exactly when the name lists are equal
  (`namesAgree_canonical_iff`): `positions` determines the list;
* `sumQ`, `sumDuplicates` and `rowContent` do not see the order of the stored cells of a row.
-/
namespace E3fpVerif

abbrev NIdx := List (Option String × List Nat)

/-- the dictionary comparison of `__eq__`, one direction: every entry of `m` is an entry of `m'` -/
def subMap (m m' : NIdx) : Bool := m.all (fun p => mapLookup m' p.1 == some p.2)

theorem subMap_iff (m m' : NIdx) : subMap m m' = true ↔ ∀ p ∈ m, mapLookup m' p.1 = some p.2 := by
  simp [subMap, List.all_eq_true]

/-! ## keys of the index -/

theorem mapLookup_mem (m : NIdx) (k : Option String) (v : List Nat) (h : mapLookup m k = some v) : (k, v) ∈ m := by
  induction m with
  | nil => simp [mapLookup] at h
  | cons c rest ih =>
    obtain ⟨k', v'⟩ := c
    unfold mapLookup at h
    by_cases hk : k' = k
    · simp only [hk, if_true, Option.some.injEq] at h
      subst hk; subst h; simp
    · simp only [hk, if_false] at h
      exact List.mem_cons_of_mem _ (ih h)

theorem mapLookup_none_of_not_mem (m : NIdx) (k : Option String) (h : k ∉ m.map Prod.fst) : mapLookup m k = none := by
  induction m with
  | nil => rfl
  | cons c rest ih =>
    obtain ⟨k', v'⟩ := c
    simp only [List.map_cons, List.mem_cons, not_or] at h
    unfold mapLookup
    rw [if_neg (fun e => h.1 e.symm)]
    exact ih h.2

/-- in an index with duplicate-free keys, every entry is found under its key -/
theorem mapLookup_of_mem (m : NIdx) (h : (m.map Prod.fst).Nodup) : ∀ p ∈ m, mapLookup m p.1 = some p.2 := by
  induction m with
  | nil => intro p hp; simp at hp
  | cons c rest ih =>
    obtain ⟨k', v'⟩ := c
    simp only [List.map_cons, List.nodup_cons] at h
    intro p hp
    rcases List.mem_cons.1 hp with rfl | hp
    · simp [mapLookup]
    · unfold mapLookup
      have : k' ≠ p.1 := by
        intro e
        exact h.1 (e ▸ List.mem_map.2 ⟨p, hp, rfl⟩)
      rw [if_neg this]
      exact ih h.2 p hp

theorem mapAppend_keys (m : NIdx) (x : Option String) (i : Nat) :
    (mapAppend m x i).map Prod.fst = if x ∈ m.map Prod.fst then m.map Prod.fst else m.map Prod.fst ++ [x] := by
  induction m with
  | nil => simp [mapAppend]
  | cons c rest ih =>
    obtain ⟨k, v⟩ := c
    unfold mapAppend
    by_cases hk : k = x
    · subst hk; simp
    · have hx : ¬ x = k := fun e => hk e.symm
      simp only [hk, if_false, List.map_cons, ih, List.mem_cons, hx, false_or]
      by_cases hm : x ∈ rest.map Prod.fst <;> simp [hm]

theorem mapAppend_keys_nodup (m : NIdx) (x : Option String) (i : Nat) (h : (m.map Prod.fst).Nodup) :
    ((mapAppend m x i).map Prod.fst).Nodup := by
  rw [mapAppend_keys]
  by_cases hm : x ∈ m.map Prod.fst
  · simpa [hm] using h
  · simp only [hm, if_false]
    rw [List.nodup_append]
    refine ⟨h, by simp, ?_⟩
    intro a ha b hb
    simp only [List.mem_singleton] at hb
    subst hb
    intro e; subst e; exact hm ha

theorem idxFold_keys_nodup (names : List (Option String)) :
    ∀ (m : NIdx) (k : Nat), (m.map Prod.fst).Nodup → ((idxFold m names k).map Prod.fst).Nodup := by
  induction names with
  | nil => intro m k h; exact h
  | cons x xs ih =>
    intro m k h
    exact ih _ _ (mapAppend_keys_nodup m x k h)

/-- the keys of the canonical index are duplicate free -/
theorem canonical_keys_nodup (names : List (Option String)) :
    ((updateNamesMap [] names 0).map Prod.fst).Nodup := by
  rw [updateNamesMap_eq_idxFold]
  exact idxFold_keys_nodup names [] 0 (by simp)

/-- an index with duplicate-free keys agrees with itself -/
theorem subMap_self (m : NIdx) (h : (m.map Prod.fst).Nodup) : subMap m m = true :=
  (subMap_iff m m).2 (mapLookup_of_mem m h)

/-! ## two canonical indices agree iff the name lists are equal -/

/-- `positions` determines the list -/
theorem eq_of_positions_eq (xs ys : List (Option String)) (h : ∀ nm, positions xs nm = positions ys nm) : xs = ys := by
  apply List.ext_getElem?
  intro i
  have key : ∀ nm, xs[i]? = some nm ↔ ys[i]? = some nm := by
    intro nm
    rw [← mem_positions, ← mem_positions, h nm]
  cases hx : xs[i]? with
  | none =>
    cases hy : ys[i]? with
    | none => rfl
    | some nm => rw [(key nm).2 hy] at hx; cases hx
  | some nm => exact ((key nm).1 hx).symm

theorem positions_of_subMap (xs ys : List (Option String)) (h : subMap (updateNamesMap [] xs 0) (updateNamesMap [] ys 0) = true)
    (nm : Option String) (hm : nm ∈ xs) : nm ∈ ys ∧ positions ys nm = positions xs nm := by
  rw [subMap_iff] at h
  have h1 : mapLookup (updateNamesMap [] xs 0) nm = some (positions xs nm) := by
    rw [mapLookup_canonical]; simp [hm]
  have h2 := h _ (mapLookup_mem _ _ _ h1)
  simp only at h2
  rw [mapLookup_canonical] at h2
  by_cases hy : nm ∈ ys
  · simp only [hy, if_true, Option.some.injEq] at h2
    exact ⟨hy, h2⟩
  · simp [hy] at h2

/-- **two canonical indices agree as finite maps exactly when the name lists are equal** -/
theorem subMap_canonical_iff (xs ys : List (Option String)) :
    (subMap (updateNamesMap [] xs 0) (updateNamesMap [] ys 0) = true ∧
      subMap (updateNamesMap [] ys 0) (updateNamesMap [] xs 0) = true) ↔ xs = ys := by
  constructor
  · rintro ⟨h1, h2⟩
    apply eq_of_positions_eq
    intro nm
    by_cases hx : nm ∈ xs
    · exact (positions_of_subMap xs ys h1 nm hx).2.symm
    · by_cases hy : nm ∈ ys
      · exact absurd (positions_of_subMap ys xs h2 nm hy).1 hx
      · rw [(positions_eq_nil_iff xs nm).2 hx, (positions_eq_nil_iff ys nm).2 hy]
  · rintro rfl
    exact ⟨subMap_self _ (canonical_keys_nodup xs), subMap_self _ (canonical_keys_nodup xs)⟩

/-! ## the order of the stored cells of a row is not seen -/

theorem sumQ_perm {l l' : List Rat} (h : l.Perm l') : sumQ l = sumQ l' := by
  induction h with
  | nil => rfl
  | cons x _ ih => simp only [sumQ, ih]
  | swap x y l =>
    simp only [sumQ]
    rw [← Rat.add_assoc, ← Rat.add_assoc, Rat.add_comm y x]
  | trans _ _ ih1 ih2 => exact ih1.trans ih2

theorem sumDuplicates_perm {r r' : Row} (h : r.Perm r') : sumDuplicates r = sumDuplicates r' := by
  unfold sumDuplicates
  rw [uniq_ext (r.map Prod.fst) (r'.map Prod.fst) (fun x => (h.map Prod.fst).mem_iff)]
  apply List.map_congr_left
  intro j _
  rw [sumQ_perm ((h.filter _).map Prod.snd)]

theorem rowContent_perm {r r' : Row} (h : r.Perm r') : rowContent r = rowContent r' := by
  unfold rowContent
  rw [sumDuplicates_perm h]

theorem forall₂_length_eq {α β : Type} {R : α → β → Prop} {x : List α} {y : List β} (h : List.Forall₂ R x y) :
    x.length = y.length := by
  induction h with
  | nil => rfl
  | cons _ _ ih => simp [ih]

theorem map_rowContent_perm {x y : List Row} (h : List.Forall₂ List.Perm x y) :
    x.map rowContent = y.map rowContent := by
  induction h with
  | nil => rfl
  | cons hp _ ih => simp only [List.map_cons, rowContent_perm hp, ih]

end E3fpVerif
