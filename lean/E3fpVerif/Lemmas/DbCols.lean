import E3fpVerif.Model.Db
/-!
# Property columns (`colSet`, `colLookup`) and `Db.fromArray`
-/
namespace E3fpVerif

abbrev Cols := List (String × List PVal)

theorem filterMap_congr_mem {α β : Type} {l : List α} {f g : α → Option β} (h : ∀ x ∈ l, f x = g x) :
    l.filterMap f = l.filterMap g := by
  induction l with
  | nil => rfl
  | cons a l ih =>
    simp only [List.filterMap_cons, h a (by simp)]
    rw [ih (fun x hx => h x (by simp [hx]))]

theorem colSet_of_not_mem (ps : Cols) (k : String) (v : List PVal) (h : k ∉ ps.map Prod.fst) :
    colSet ps k v = ps ++ [(k, v)] := by
  induction ps with
  | nil => rfl
  | cons c rest ih =>
    obtain ⟨a, w⟩ := c
    simp only [List.map_cons, List.mem_cons, not_or] at h
    have : ¬ a = k := fun e => h.1 e.symm
    simp [colSet, this, ih h.2]

theorem colSet_append_of_not_mem (done rest : Cols) (k : String) (w v : List PVal)
    (h : k ∉ done.map Prod.fst) :
    colSet (done ++ (k, w) :: rest) k v = done ++ (k, v) :: rest := by
  induction done with
  | nil => simp [colSet]
  | cons c d ih =>
    obtain ⟨a, u⟩ := c
    simp only [List.map_cons, List.mem_cons, not_or] at h
    have : ¬ a = k := fun e => h.1 e.symm
    simp [colSet, this, ih h.2]

theorem colSet_keys_of_mem (ps : Cols) (k : String) (v : List PVal) (h : k ∈ ps.map Prod.fst) :
    (colSet ps k v).map Prod.fst = ps.map Prod.fst := by
  induction ps with
  | nil => simp at h
  | cons c rest ih =>
    obtain ⟨a, w⟩ := c
    by_cases e : a = k
    · simp [colSet, e]
    · have : k ∈ rest.map Prod.fst := by
        simp only [List.map_cons, List.mem_cons] at h
        rcases h with h | h
        · exact absurd h.symm e
        · exact h
      simp [colSet, e, ih this]

theorem colSet_nodup (ps : Cols) (k : String) (v : List PVal) (h : (ps.map Prod.fst).Nodup) :
    ((colSet ps k v).map Prod.fst).Nodup := by
  by_cases hk : k ∈ ps.map Prod.fst
  · rw [colSet_keys_of_mem ps k v hk]; exact h
  · rw [colSet_of_not_mem ps k v hk, List.map_append, List.nodup_append]
    refine ⟨h, by simp, ?_⟩
    intro a ha b hb
    simp only [List.map_cons, List.map_nil, List.mem_singleton] at hb
    subst hb
    intro e; subst e; exact hk ha

theorem colSet_forall (P : List PVal → Prop) (ps : Cols) (k : String) (v : List PVal)
    (h : ∀ c ∈ ps, P c.2) (hv : P v) : ∀ c ∈ colSet ps k v, P c.2 := by
  induction ps with
  | nil => intro c hc; simp [colSet] at hc; subst hc; exact hv
  | cons c rest ih =>
    obtain ⟨a, w⟩ := c
    intro c hc
    by_cases e : a = k
    · simp only [colSet, e, if_true, List.mem_cons] at hc
      rcases hc with hc | hc
      · subst hc; exact hv
      · exact h c (by simp [hc])
    · simp only [colSet, e, if_false, List.mem_cons] at hc
      rcases hc with hc | hc
      · subst hc; exact h (a, w) (by simp)
      · exact ih (fun c hc => h c (by simp [hc])) c hc

theorem colLookup_of_mem_keys (ps : Cols) (k : String) (h : k ∈ ps.map Prod.fst) :
    ∃ v, colLookup ps k = some v ∧ (k, v) ∈ ps := by
  induction ps with
  | nil => simp at h
  | cons c rest ih =>
    obtain ⟨a, w⟩ := c
    by_cases e : a = k
    · subst e; exact ⟨w, by simp [colLookup], by simp⟩
    · have : k ∈ rest.map Prod.fst := by
        simp only [List.map_cons, List.mem_cons] at h
        rcases h with h | h
        · exact absurd h.symm e
        · exact h
      obtain ⟨v, h1, h2⟩ := ih this
      exact ⟨v, by simp [colLookup, e, h1], by simp [h2]⟩

/-- with duplicate-free keys, the column found under a key is the column stored with it -/
theorem colLookup_of_mem (ps : Cols) (k : String) (v : List PVal) (hnd : (ps.map Prod.fst).Nodup)
    (h : (k, v) ∈ ps) : colLookup ps k = some v := by
  induction ps with
  | nil => simp at h
  | cons c rest ih =>
    obtain ⟨a, w⟩ := c
    simp only [List.map_cons, List.nodup_cons] at hnd
    simp only [List.mem_cons] at h
    rcases h with h | h
    · cases h; simp [colLookup]
    · have : ¬ a = k := by
        intro e; subst e
        exact hnd.1 (List.mem_map.2 ⟨(a, v), h, rfl⟩)
      simp [colLookup, this, ih hnd.2 h]

/-! ## folds of `colSet` -/

/-- a fold of `colSet` keeps duplicate-free keys and any property of the columns that the
inserted values have -/
theorem foldl_colSet_keys_forall (P : List PVal → Prop) (g : String → List PVal) (keys : List String)
    (hg : ∀ k ∈ keys, P (g k)) :
    ∀ (ps : Cols), (ps.map Prod.fst).Nodup → (∀ c ∈ ps, P c.2) →
      let r := keys.foldl (fun acc k => colSet acc k (g k)) ps
      (r.map Prod.fst).Nodup ∧ ∀ c ∈ r, P c.2 := by
  induction keys with
  | nil => intro ps h1 h2; exact ⟨h1, h2⟩
  | cons k ks ih =>
    intro ps h1 h2
    simp only [List.foldl_cons]
    exact ih (fun k hk => hg k (by simp [hk])) _ (colSet_nodup ps k _ h1)
      (colSet_forall P ps k _ h2 (hg k (by simp)))

theorem foldl_colSet_pairs_forall (P : List PVal → Prop) (qs : Cols) (hq : ∀ c ∈ qs, P c.2) :
    ∀ (ps : Cols), (ps.map Prod.fst).Nodup → (∀ c ∈ ps, P c.2) →
      let r := qs.foldl (fun acc c => colSet acc c.1 c.2) ps
      (r.map Prod.fst).Nodup ∧ ∀ c ∈ r, P c.2 := by
  induction qs with
  | nil => intro ps h1 h2; exact ⟨h1, h2⟩
  | cons q qs ih =>
    intro ps h1 h2
    simp only [List.foldl_cons]
    exact ih (fun c hc => hq c (by simp [hc])) _ (colSet_nodup ps q.1 _ h1)
      (colSet_forall P ps q.1 _ h2 (hq q (by simp)))

/-- replacing every column of a duplicate-free association list, key by key in order, is a `map` -/
theorem foldl_colSet_self_gen (g : String → List PVal) (qs : Cols) :
    ∀ (done : Cols), ((done ++ qs).map Prod.fst).Nodup →
      (qs.map Prod.fst).foldl (fun acc k => colSet acc k (g k)) (done ++ qs) =
        done ++ qs.map (fun c => (c.1, g c.1)) := by
  induction qs with
  | nil => intro done _; simp
  | cons q qs ih =>
    intro done hnd
    obtain ⟨k, w⟩ := q
    have hk : k ∉ done.map Prod.fst := by
      rw [List.map_append, List.nodup_append] at hnd
      intro hm
      exact hnd.2.2 k hm k (by simp) rfl
    simp only [List.map_cons, List.foldl_cons]
    rw [colSet_append_of_not_mem done qs k w (g k) hk]
    have e : done ++ (k, g k) :: qs = (done ++ [(k, g k)]) ++ qs := by simp
    rw [e, ih (done ++ [(k, g k)])]
    · simp
    · simpa [List.map_append] using hnd

theorem foldl_colSet_self (g : String → List PVal) (ps : Cols) (h : (ps.map Prod.fst).Nodup) :
    (ps.map Prod.fst).foldl (fun acc k => colSet acc k (g k)) ps = ps.map (fun c => (c.1, g c.1)) := by
  have := foldl_colSet_self_gen g ps [] (by simpa using h)
  simpa using this

/-- re-inserting the columns of a duplicate-free association list in order reproduces the list -/
theorem foldl_colSet_insert_gen (qs : Cols) :
    ∀ (done : Cols), ((done ++ qs).map Prod.fst).Nodup →
      qs.foldl (fun acc c => colSet acc c.1 c.2) done = done ++ qs := by
  induction qs with
  | nil => intro done _; simp
  | cons q qs ih =>
    intro done hnd
    have hk : q.1 ∉ done.map Prod.fst := by
      rw [List.map_append, List.nodup_append] at hnd
      intro hm
      exact hnd.2.2 q.1 hm q.1 (by simp) rfl
    simp only [List.foldl_cons]
    rw [colSet_of_not_mem done q.1 q.2 hk, ih]
    · simp
    · simpa [List.map_append] using hnd

theorem foldl_colSet_insert (ps : Cols) (h : (ps.map Prod.fst).Nodup) :
    ps.foldl (fun acc c => colSet acc c.1 c.2) [] = ps := by
  have := foldl_colSet_insert_gen ps [] (by simpa using h)
  simpa using this

/-! ## `Db.fromArray` -/

theorem fromArray_go_ok (ps : Cols) :
    ∀ (acc : Db), (∀ c ∈ ps, c.2.length = acc.fpNames.length) →
      Db.fromArray.go acc ps =
        ({ acc with props := ps.foldl (fun a c => colSet a c.1 c.2) acc.props }, none) := by
  induction ps with
  | nil => intro acc _; simp [Db.fromArray.go]
  | cons c rest ih =>
    intro acc h
    obtain ⟨k, v⟩ := c
    have hv : v.length = acc.fpNames.length := h (k, v) (by simp)
    unfold Db.fromArray.go
    simp only [hv, ne_eq, not_true_eq_false, if_false]
    refine (ih { acc with props := colSet acc.props k v } (fun c hc => h c (by simp [hc]))).trans ?_
    simp

theorem fromArray_go_err (ps : Cols) :
    ∀ (acc : Db), (∃ c ∈ ps, c.2.length ≠ acc.fpNames.length) →
      (Db.fromArray.go acc ps).2 = some .value := by
  induction ps with
  | nil => intro acc h; simp at h
  | cons c rest ih =>
    intro acc h
    obtain ⟨k, v⟩ := c
    unfold Db.fromArray.go
    by_cases hv : v.length = acc.fpNames.length
    · simp only [hv, ne_eq, not_true_eq_false, if_false]
      apply ih
      obtain ⟨c, hc, hl⟩ := h
      simp only [List.mem_cons] at hc
      rcases hc with hc | hc
      · subst hc; exact absurd hv hl
      · exact ⟨c, hc, hl⟩
    · simp [hv]

/-- `from_array` succeeds exactly when every property column is as long as the name list -/
theorem fromArray_ok_iff (rows : List Row) (bits : Nat) (names : List (Option String)) (k : Kind) (level : Int)
    (name : Option String) (props : Cols) :
    (Db.fromArray rows bits names k level name props).2 = none ↔ ∀ c ∈ props, c.2.length = names.length := by
  unfold Db.fromArray
  constructor
  · intro h
    by_cases hn : ∀ c ∈ props, c.2.length = names.length
    · exact hn
    exfalso
    have : ∃ c ∈ props, c.2.length ≠ names.length := by
      simpa using hn
    rw [fromArray_go_err props _ (by simpa using this)] at h
    cases h
  · intro h
    rw [fromArray_go_ok props _ (by simpa using h)]

theorem fromArray_errors (rows : List Row) (bits : Nat) (names : List (Option String)) (k : Kind) (level : Int)
    (name : Option String) (props : Cols) (e : Err)
    (h : (Db.fromArray rows bits names k level name props).2 = some e) : e = .value := by
  by_cases hc : ∀ c ∈ props, c.2.length = names.length
  · rw [(fromArray_ok_iff rows bits names k level name props).2 hc] at h; cases h
  · have : ∃ c ∈ props, c.2.length ≠ names.length := by simpa using hc
    unfold Db.fromArray at h
    rw [fromArray_go_err props _ (by simpa using this)] at h
    cases h; rfl

/-- the database `from_array` builds when it succeeds -/
theorem fromArray_ok (rows : List Row) (bits : Nat) (names : List (Option String)) (k : Kind) (level : Int)
    (name : Option String) (props : Cols) (h : ∀ c ∈ props, c.2.length = names.length) :
    Db.fromArray rows bits names k level name props =
      ({ fpType := k, level := level, name := name,
         array := some (rows.map (fun r => r.map (fun p => (p.1, castVal k p.2)))), bits := bits,
         fpNames := names, namesMap := updateNamesMap [] names 0,
         props := props.foldl (fun a c => colSet a c.1 c.2) [] }, none) := by
  unfold Db.fromArray
  rw [fromArray_go_ok props _ (by simpa using h)]

end E3fpVerif
