import E3fpVerif.Lemmas.RelabelAux
import Mathlib.Data.List.Perm.Basic
/-!
# Renumbering the atoms of a molecule: the molecule-level functions

`MolG.relabel m π` is RDKit's `RenumberAtoms`: every atom index `i` becomes `π i`, the atoms are
listed in ascending order of the new index, both end points of every bond are mapped.
-/
namespace E3fpVerif

def ltIdx (a b : AtomInfo) : Bool := a.idx < b.idx

def AtomInfo.relabel (π : Nat → Nat) (a : AtomInfo) : AtomInfo := { a with idx := π a.idx }

/-- `RenumberAtoms` -/
def MolG.relabel (m : MolG) (π : Nat → Nat) : MolG where
  atoms := sortByLt ltIdx (m.atoms.map (AtomInfo.relabel π))
  bonds := m.bonds.map (fun e => (π e.1, π e.2.1, e.2.2))

/-- the atoms of the renumbered molecule are those of `m` with the new indices … -/
theorem relabel_atoms_perm (m : MolG) (π : Nat → Nat) :
    (m.relabel π).atoms.Perm (m.atoms.map (AtomInfo.relabel π)) := by
  exact sortByLt_perm _ _

/-- … listed in ascending order of the new index -/
theorem relabel_atoms_sorted (m : MolG) (π : Nat → Nat) :
    ((m.relabel π).atoms.map (·.idx)).Pairwise (· ≤ ·) := by
  have hs := sortByLt_sorted ltIdx (by intro a; simp [ltIdx])
    (by intro a b c h1 h2; simp only [ltIdx, decide_eq_true_eq] at *; omega)
    (m.atoms.map (AtomInfo.relabel π))
  unfold SortedBy at hs
  rw [List.pairwise_map]
  refine List.Pairwise.imp ?_ hs
  intro a b h
  simp only [ltIdx, decide_eq_false_iff_not] at h
  omega

theorem rlb_filter_map_idx_perm (m : MolG) (π : Nat → Nat) (p : AtomInfo → Bool)
    (hpρ : ∀ x, p (AtomInfo.relabel π x) = p x) :
    (((m.relabel π).atoms.filter p).map (·.idx)).Perm (((m.atoms.filter p).map (·.idx)).map π) := by
  have h1 : (((m.relabel π).atoms.filter p).map (·.idx)).Perm
      (((m.atoms.map (AtomInfo.relabel π)).filter p).map (·.idx)) :=
    ((relabel_atoms_perm m π).filter p).map _
  refine h1.trans ?_
  have hc : (p ∘ AtomInfo.relabel π) = p := funext hpρ
  rw [List.filter_map, hc, List.map_map, List.map_map]
  exact List.Perm.of_eq rfl

theorem rlb_inj_of_nodup_map {α β : Type} (f : α → β) (l : List α) (d : (l.map f).Nodup) :
    ∀ x ∈ l, ∀ y ∈ l, f x = f y → x = y := by
  induction l with
  | nil => intro x hx; cases hx
  | cons a as ih =>
    rw [List.map_cons, List.nodup_cons] at d
    intro x hx y hy hxy
    rcases List.mem_cons.1 hx with hxa | hx' <;> rcases List.mem_cons.1 hy with hya | hy'
    · rw [hxa, hya]
    · exact (d.1 (List.mem_map.2 ⟨y, hy', by rw [← hxy, hxa]⟩)).elim
    · exact (d.1 (List.mem_map.2 ⟨x, hx', by rw [hxy, hya]⟩)).elim
    · exact ih d.2 x hx' y hy' hxy

/-- the retained atoms of the renumbered molecule are the images of the retained atoms -/
theorem retained_relabel (o : Opts) (m : MolG) (π : Nat → Nat) :
    (retained o (m.relabel π)).Perm ((retained o m).map π) := by
  have hA := rlb_filter_map_idx_perm m π (fun a => a.atomicNum > 1) (fun _ => rfl)
  have hB := rlb_filter_map_idx_perm m π (fun a => a.atomicNum > 1 && a.degree > 0) (fun _ => rfl)
  have hlen := hA.length_eq
  unfold retained
  simp only [List.length_map] at hlen ⊢
  rw [hlen]
  split
  · exact hB
  · exact hA

theorem retained_nodup (o : Opts) (m : MolG) (h : (m.atoms.map (·.idx)).Nodup) : (retained o m).Nodup := by
  unfold retained
  simp only
  split
  · exact h.sublist (List.filter_sublist.map _)
  · exact h.sublist (List.filter_sublist.map _)

/-- a `find?` whose predicate has at most one solution in the list only sees the multiset -/
theorem find?_perm_of_unique {α : Type} (p : α → Bool) (l l' : List α) (hp : l.Perm l')
    (hu : ∀ x ∈ l, ∀ y ∈ l, p x = true → p y = true → x = y) : l.find? p = l'.find? p := by
  cases h : l.find? p with
  | none =>
    symm
    rw [List.find?_eq_none] at h ⊢
    intro x hx; exact h x (hp.mem_iff.2 hx)
  | some x =>
    have hx := List.mem_of_find?_eq_some h
    have hpx := List.find?_some h
    cases h' : l'.find? p with
    | none =>
      rw [List.find?_eq_none] at h'
      exact absurd hpx (h' x (hp.mem_iff.1 hx))
    | some y =>
      have hy := List.mem_of_find?_eq_some h'
      have hpy := List.find?_some h'
      rw [hu x hx y (hp.mem_iff.2 hy) hpx hpy]

theorem rlb_find_relabel (π : Nat → Nat) (hinj : ∀ a b, π a = π b → a = b) (m : MolG)
    (h : (m.atoms.map (·.idx)).Nodup) (a : Nat) :
    (m.relabel π).atoms.find? (fun x => decide (x.idx = π a))
      = (m.atoms.find? (fun x => decide (x.idx = a))).map (AtomInfo.relabel π) := by
  rw [find?_perm_of_unique _ _ _ (relabel_atoms_perm m π)]
  · rw [List.find?_map]
    have hc : ((fun x : AtomInfo => decide (x.idx = π a)) ∘ AtomInfo.relabel π)
        = (fun x : AtomInfo => decide (x.idx = a)) := by
      funext x
      simp only [Function.comp, AtomInfo.relabel]
      exact decide_eq_decide.2 ⟨fun e => hinj _ _ e, fun e => by rw [e]⟩
    rw [hc]
  · intro x hx y hy hpx hpy
    have hx' := (relabel_atoms_perm m π).mem_iff.1 hx
    have hy' := (relabel_atoms_perm m π).mem_iff.1 hy
    rcases List.mem_map.1 hx' with ⟨x0, hx0, rfl⟩
    rcases List.mem_map.1 hy' with ⟨y0, hy0, rfl⟩
    simp only [AtomInfo.relabel] at hpx hpy
    have : x0.idx = y0.idx := hinj _ _ ((of_decide_eq_true hpx).trans (of_decide_eq_true hpy).symm)
    rw [rlb_inj_of_nodup_map (·.idx) m.atoms h x0 hx0 y0 hy0 this]

theorem atomInfo_relabel (π : Nat → Nat) (hinj : ∀ a b, π a = π b → a = b) (m : MolG)
    (h : (m.atoms.map (·.idx)).Nodup) (a : Nat) :
    (atomInfo (m.relabel π) (π a)).invD = (atomInfo m a).invD ∧
    (atomInfo (m.relabel π) (π a)).invR = (atomInfo m a).invR ∧
    (atomInfo (m.relabel π) (π a)).atomicNum = (atomInfo m a).atomicNum ∧
    (atomInfo (m.relabel π) (π a)).degree = (atomInfo m a).degree := by
  have hfind := rlb_find_relabel π hinj m h a
  unfold atomInfo
  rw [hfind]
  cases m.atoms.find? (fun x => decide (x.idx = a)) with
  | none => exact ⟨rfl, rfl, rfl, rfl⟩
  | some x => exact ⟨rfl, rfl, rfl, rfl⟩

/-- the level-0 identifier of the renumbered atom -/
theorem initIdent_relabel (π : Nat → Nat) (hinj : ∀ a b, π a = π b → a = b) (o : Opts) (m : MolG)
    (h : (m.atoms.map (·.idx)).Nodup) (a : Nat) :
    initIdent o (m.relabel π) (π a) = initIdent o m a := by
  obtain ⟨h1, h2, _, _⟩ := atomInfo_relabel π hinj m h a
  unfold initIdent
  rw [h1, h2]

theorem bondCode_relabel (π : Nat → Nat) (hinj : ∀ a b, π a = π b → a = b) (m : MolG) (a b : Nat) :
    bondCode (m.relabel π) (π a) (π b) = bondCode m a b := by
  unfold bondCode MolG.relabel
  simp only
  rw [List.find?_map, Option.map_map]
  have hc : ((fun e : Nat × Nat × Nat =>
        decide ((e.1 = π a ∧ e.2.1 = π b) ∨ (e.1 = π b ∧ e.2.1 = π a))) ∘
        (fun e : Nat × Nat × Nat => (π e.1, π e.2.1, e.2.2)))
      = (fun e : Nat × Nat × Nat => decide ((e.1 = a ∧ e.2.1 = b) ∨ (e.1 = b ∧ e.2.1 = a))) := by
    funext e
    simp only [Function.comp]
    apply decide_eq_decide.2
    have hi : ∀ u v, π u = π v ↔ u = v := fun u v => ⟨hinj u v, fun e => by rw [e]⟩
    rw [hi, hi, hi, hi]
  rw [hc]
  rfl

theorem conn_relabel (π : Nat → Nat) (hinj : ∀ a b, π a = π b → a = b) (m : MolG) (a b : Nat) :
    conn (m.relabel π) (π a) (π b) = conn m a b := by
  unfold conn; rw [bondCode_relabel π hinj]

theorem bonded_relabel (π : Nat → Nat) (hinj : ∀ a b, π a = π b → a = b) (m : MolG) (a b : Nat) :
    bonded (m.relabel π) (π a) (π b) = bonded m a b := by
  unfold bonded; rw [bondCode_relabel π hinj]

/-- the `KeyError` test on the bond types is unaffected -/
theorem relabel_bonds_any (m : MolG) (π : Nat → Nat) :
    (m.relabel π).bonds.any (fun e => e.2.2 = 0) = m.bonds.any (fun e => e.2.2 = 0) := by
  unfold MolG.relabel
  simp only [List.any_map]
  rfl

end E3fpVerif
