import E3fpVerif.Model.Config
/-!
# Decimal text of naturals: `digitsNat?` inverts `natDigits`
-/
namespace E3fpVerif

/-- one step of the fold of `digitsNat?` -/
def digitStep (acc : Option Nat) (c : Char) : Option Nat :=
  match acc, charDigit? c with
  | some a, some d => some (10 * a + d)
  | _, _ => none

theorem digitsNat?_eq (cs : List Char) :
    digitsNat? cs = if cs = [] then none else cs.foldl digitStep (some 0) := rfl

theorem charDigit_digitChar : ∀ d, d < 10 → charDigit? (digitChar d) = some d := by decide

theorem foldl_digitStep_none (cs : List Char) : cs.foldl digitStep none = none := by
  induction cs with
  | nil => rfl
  | cons c t ih => simpa [List.foldl_cons, digitStep] using ih

theorem natDigitsAux_ne_nil (fuel n : Nat) : natDigitsAux fuel n ≠ [] := by
  cases fuel with
  | zero => simp [natDigitsAux]
  | succ f =>
    unfold natDigitsAux
    split <;> simp

theorem natDigits_ne_nil (n : Nat) : natDigits n ≠ [] := natDigitsAux_ne_nil n n

theorem foldl_natDigitsAux (fuel : Nat) : ∀ n, n ≤ fuel →
    (natDigitsAux fuel n).foldl digitStep (some 0) = some n := by
  induction fuel with
  | zero =>
    intro n hn
    have : n = 0 := by omega
    subst this
    decide
  | succ f ih =>
    intro n hn
    unfold natDigitsAux
    split
    · rename_i h10
      simp only [List.foldl_cons, List.foldl_nil, digitStep, charDigit_digitChar n h10]
      simp
    · rename_i h10
      rw [List.foldl_append, ih (n / 10) (by omega)]
      simp only [List.foldl_cons, List.foldl_nil, digitStep, charDigit_digitChar (n % 10) (by omega)]
      congr 1
      omega

/-- `int(str(n)) = n` -/
theorem digitsNat_natDigits (n : Nat) : digitsNat? (natDigits n) = some n := by
  rw [digitsNat?_eq, if_neg (natDigits_ne_nil n)]
  exact foldl_natDigitsAux n n (Nat.le_refl n)

/-- distinct numbers print differently -/
theorem natDigits_injective (a b : Nat) (h : natDigits a = natDigits b) : a = b := by
  have ha := digitsNat_natDigits a
  rw [h, digitsNat_natDigits b] at ha
  exact (Option.some.inj ha).symm

/-- text starting with a non-digit is not a number -/
theorem digitsNat?_cons_nondigit (c : Char) (r : List Char) (hc : charDigit? c = none) :
    digitsNat? (c :: r) = none := by
  rw [digitsNat?_eq, if_neg (by simp)]
  simp only [List.foldl_cons, digitStep, hc]
  exact foldl_digitStep_none r

/-- the decimal text of a natural does not start with a given non-digit -/
theorem natDigits_head_digit (n : Nat) (c : Char) (r : List Char) (hc : charDigit? c = none) :
    natDigits n ≠ c :: r := by
  intro h
  have := digitsNat_natDigits n
  rw [h, digitsNat?_cons_nondigit c r hc] at this
  cases this

end E3fpVerif
