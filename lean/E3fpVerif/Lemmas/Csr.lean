import E3fpVerif.Model.Csr
/-!
# The CSR index walk of `_sparse_soergel` computes `mergeSD` of the rows the arrays denote

Helper lemmas for `Props/C06Csr.lean`.  Nothing here needs sorted rows, nor the length clauses of
`Csr.WF`: the only fact about `indptr` that is used is `indptr[i] ≤ indptr[i+1]` for the two rows read.
-/
namespace E3fpVerif.CsrL
open E3fpVerif

/-! ## slices -/

theorem slice_nil (m : Csr) (s e : Nat) (h : e ≤ s) : m.slice s e = [] := by
  unfold Csr.slice
  have : e - s = 0 := by omega
  simp [this]

theorem slice_cons (m : Csr) (s e : Nat) (h : s < e) :
    m.slice s e = (m.indices.getD s 0, m.data.getD s 0) :: m.slice (s + 1) e := by
  unfold Csr.slice
  have : e - s = (e - (s + 1)) + 1 := by omega
  rw [this, List.range'_succ]
  rfl

theorem slice_eq_nil_iff (m : Csr) (s e : Nat) : m.slice s e = [] ↔ e ≤ s := by
  constructor
  · intro h
    apply Nat.le_of_not_lt
    intro hlt
    rw [slice_cons m s e hlt] at h
    exact List.cons_ne_nil _ _ h
  · exact slice_nil m s e

theorem slice_length (m : Csr) (s e : Nat) : (m.slice s e).length = e - s := by
  simp [Csr.slice]

/-- a denoted row is empty exactly when the kernel's shortcut test fires -/
theorem row_eq_nil_iff (m : Csr) (i : Nat) (h : m.indptr.getD i 0 ≤ m.indptr.getD (i + 1) 0) :
    m.row i = [] ↔ m.indptr.getD i 0 = m.indptr.getD (i + 1) 0 := by
  unfold Csr.row
  rw [slice_eq_nil_iff]
  omega

/-! ## well-formedness gives the `indptr` step -/

theorem WF.step {m : Csr} {ncols : Nat} (h : m.WF ncols) {i : Nat} (hi : i < m.nrows) :
    m.indptr.getD i 0 ≤ m.indptr.getD (i + 1) 0 := by
  have hp := h.2.2.1
  unfold Csr.nrows at hi
  have h1 : i < m.indptr.length := by omega
  have h2 : i + 1 < m.indptr.length := by omega
  rw [List.getD_eq_getElem?_getD, List.getD_eq_getElem?_getD,
    List.getElem?_eq_getElem h1, List.getElem?_eq_getElem h2]
  exact (List.pairwise_iff_getElem.mp hp) i (i + 1) h1 h2 (by omega)

/-! ## `mergeSD` with an exhausted operand -/

theorem mergeSD_nil_nil : mergeSD [] [] = (0, 0) := by rw [mergeSD]
theorem mergeSD_cons_nil (i : Nat) (v : Rat) (xs : Row) :
    mergeSD ((i, v) :: xs) [] = ((mergeSD xs []).1 + v, (mergeSD xs []).2 + v) := by rw [mergeSD]
theorem mergeSD_nil_cons (j : Nat) (w : Rat) (ys : Row) :
    mergeSD [] ((j, w) :: ys) = ((mergeSD [] ys).1 + w, (mergeSD [] ys).2 + w) := by rw [mergeSD]

theorem mergeSD_cons_cons (i : Nat) (v : Rat) (xs : Row) (j : Nat) (w : Rat) (ys : Row) :
    mergeSD ((i, v) :: xs) ((j, w) :: ys) =
      if i < j then ((mergeSD xs ((j, w) :: ys)).1 + v, (mergeSD xs ((j, w) :: ys)).2 + v)
      else if j < i then ((mergeSD ((i, v) :: xs) ys).1 + w, (mergeSD ((i, v) :: xs) ys).2 + w)
      else if v - w > 0 then ((mergeSD xs ys).1 + (v - w), (mergeSD xs ys).2 + v)
      else ((mergeSD xs ys).1 - (v - w), (mergeSD xs ys).2 + w) := by
  rw [mergeSD]

/-! ## the tail loops -/

/-- the X tail loop adds what `mergeSD` adds once the Y row is exhausted -/
theorem tailLoop_X (m : Csr) (jend j : Nat) (acc : Rat × Rat) :
    Csr.tailLoop m.data jend j acc
      = (acc.1 + (mergeSD (m.slice j jend) []).1, acc.2 + (mergeSD (m.slice j jend) []).2) := by
  fun_induction Csr.tailLoop m.data jend j acc with
  | case1 j acc h ih =>
    rw [ih, slice_cons m j jend h, mergeSD_cons_nil]
    simp only [Rat.add_assoc, Rat.add_comm (m.data.getD j 0)]
  | case2 j acc h =>
    rw [slice_nil m j jend (by omega), mergeSD_nil_nil]
    simp [Rat.add_zero]

/-- the Y tail loop adds what `mergeSD` adds once the X row is exhausted -/
theorem tailLoop_Y (m : Csr) (jend j : Nat) (acc : Rat × Rat) :
    Csr.tailLoop m.data jend j acc
      = (acc.1 + (mergeSD [] (m.slice j jend)).1, acc.2 + (mergeSD [] (m.slice j jend)).2) := by
  fun_induction Csr.tailLoop m.data jend j acc with
  | case1 j acc h ih =>
    rw [ih, slice_cons m j jend h, mergeSD_nil_cons]
    simp only [Rat.add_assoc, Rat.add_comm (m.data.getD j 0)]
  | case2 j acc h =>
    rw [slice_nil m j jend (by omega), mergeSD_nil_nil]
    simp [Rat.add_zero]

theorem tailLoop_done (data : List Rat) (jend j : Nat) (acc : Rat × Rat) (h : jend ≤ j) :
    Csr.tailLoop data jend j acc = acc := by
  rw [Csr.tailLoop, if_neg (by omega)]

/-! ## the three loops together -/

/-- the three loops after one another, started in any state -/
def loops (X Y : Csr) (jxend jyend : Nat) (st : Csr.LoopSt) : Rat × Rat :=
  let st' := Csr.mergeLoop X Y jxend jyend st
  Csr.tailLoop Y.data jyend st'.jy (Csr.tailLoop X.data jxend st'.jx (st'.sumAbsDiff, st'.sumMax))

/-- **loop invariant**: from any state the three loops add to the accumulators exactly `mergeSD` of the
two remaining slices -/
theorem loops_eq (X Y : Csr) (jxend jyend : Nat) (st : Csr.LoopSt) :
    loops X Y jxend jyend st
      = (st.sumAbsDiff + (mergeSD (X.slice st.jx jxend) (Y.slice st.jy jyend)).1,
         st.sumMax + (mergeSD (X.slice st.jx jxend) (Y.slice st.jy jyend)).2) := by
  fun_induction Csr.mergeLoop X Y jxend jyend st with
  | case1 st h jxind jyind hlt ih =>
    unfold loops at ih ⊢
    rw [Csr.mergeLoop, if_pos h]
    simp only [jxind, jyind] at hlt
    simp only [if_pos hlt]
    rw [ih, slice_cons X st.jx jxend h.1, slice_cons Y st.jy jyend h.2, mergeSD_cons_cons, if_pos hlt]
    simp only [Rat.add_assoc, Rat.add_comm (X.data.getD st.jx 0)]
  | case2 st h jxind jyind hlt hgt ih =>
    unfold loops at ih ⊢
    rw [Csr.mergeLoop, if_pos h]
    simp only [jxind, jyind] at hlt hgt
    simp only [if_neg hlt, if_pos hgt]
    rw [ih, slice_cons X st.jx jxend h.1, slice_cons Y st.jy jyend h.2, mergeSD_cons_cons,
      if_neg hlt, if_pos hgt]
    simp only [Rat.add_assoc, Rat.add_comm (Y.data.getD st.jy 0)]
  | case3 st h jxind jyind hlt hgt diff hd ih =>
    unfold loops at ih ⊢
    rw [Csr.mergeLoop, if_pos h]
    simp only [jxind, jyind] at hlt hgt
    simp only [diff] at hd
    simp only [if_neg hlt, if_neg hgt, if_pos hd]
    rw [ih, slice_cons X st.jx jxend h.1, slice_cons Y st.jy jyend h.2, mergeSD_cons_cons,
      if_neg hlt, if_neg hgt, if_pos hd]
    simp only [diff]
    congr 1 <;> grind
  | case4 st h jxind jyind hlt hgt diff hd ih =>
    unfold loops at ih ⊢
    rw [Csr.mergeLoop, if_pos h]
    simp only [jxind, jyind] at hlt hgt
    simp only [diff] at hd
    simp only [if_neg hlt, if_neg hgt, if_neg hd]
    rw [ih, slice_cons X st.jx jxend h.1, slice_cons Y st.jy jyend h.2, mergeSD_cons_cons,
      if_neg hlt, if_neg hgt, if_neg hd]
    simp only [diff]
    congr 1 <;> grind
  | case5 st h =>
    unfold loops
    rw [Csr.mergeLoop, if_neg h]
    simp only []
    by_cases hx : st.jx < jxend
    · have hy : jyend ≤ st.jy := by omega
      rw [tailLoop_done _ _ _ _ hy, tailLoop_X, slice_nil Y _ _ hy]
    · have hx' : jxend ≤ st.jx := by omega
      rw [tailLoop_done _ _ _ _ hx', tailLoop_Y, slice_nil X _ _ hx']

/-- the entry in terms of the denoted rows, from the two `indptr` steps alone -/
theorem soergelEntry_eq_rows_of_step (X Y : Csr) (ix iy : Nat)
    (hX : X.indptr.getD ix 0 ≤ X.indptr.getD (ix + 1) 0)
    (hY : Y.indptr.getD iy 0 ≤ Y.indptr.getD (iy + 1) 0) :
    X.soergelEntry Y ix iy =
      (if X.row ix = [] ∨ Y.row iy = [] then 0
       else
         let r := mergeSD (X.row ix) (Y.row iy)
         if r.2 = 0 then 0 else 1 - r.1 / r.2) := by
  unfold Csr.soergelEntry
  simp only [row_eq_nil_iff X ix hX, row_eq_nil_iff Y iy hY]
  by_cases h1 : X.indptr.getD ix 0 = X.indptr.getD (ix + 1) 0
  · rw [if_pos h1, if_pos (Or.inl h1)]
  · rw [if_neg h1]
    by_cases h2 : Y.indptr.getD iy 0 = Y.indptr.getD (iy + 1) 0
    · rw [if_pos (Or.inr h2)]
      simp only [if_pos h2]
    · have h12 : ¬(X.indptr.getD ix 0 = X.indptr.getD (ix + 1) 0 ∨
          Y.indptr.getD iy 0 = Y.indptr.getD (iy + 1) 0) := fun h => h.elim h1 h2
      rw [if_neg h12]
      simp only [if_neg h2]
      have h := loops_eq X Y (X.indptr.getD (ix + 1) 0) (Y.indptr.getD (iy + 1) 0)
        { jx := X.indptr.getD ix 0, jy := Y.indptr.getD iy 0, sumAbsDiff := 0, sumMax := 0 }
      unfold loops at h
      simp only [] at h
      rw [h]
      simp only [Csr.row, Rat.zero_add]
      rfl

end E3fpVerif.CsrL
