import E3fpVerif.Model.DbHist
import E3fpVerif.Lemmas.DbIndex
import E3fpVerif.Lemmas.DbCols
import E3fpVerif.Props.C05
/-!
# Helper lemmas for the history refinement (`Props/C05Hist.lean`)

* pools: `get?`, `put`, `getAll?` commute with mapping the values;
* `mkRows`: the rows of a database as a function of its matrix, names and property columns, with the
  laws used by the per-operation refinement proofs (append, gather, cell map, column replacement);
* key lists: `dedupKeys`, and folds of `colSet` as a `map` over the de-duplicated keys.
-/
namespace E3fpVerif

/-! ## generic list facts -/

theorem snoc_induction {α : Type} {P : List α → Prop} (hnil : P [])
    (hsnoc : ∀ l a, P l → P (l ++ [a])) : ∀ l, P l := by
  have : ∀ l : List α, P l.reverse := by
    intro l
    induction l with
    | nil => simpa using hnil
    | cons a l ih => simpa using hsnoc _ a ih
  intro l
  simpa using this l.reverse

theorem filterMap_eq_map_of_some {α β : Type} (l : List α) (f : α → Option β) (g : α → β)
    (h : ∀ x ∈ l, f x = some (g x)) : l.filterMap f = l.map g := by
  induction l with
  | nil => rfl
  | cons a l ih =>
    rw [List.filterMap_cons, h a (by simp), List.map_cons, ih (fun x hx => h x (by simp [hx]))]

/-! ## pools -/

section Pools
variable {α β : Type}

theorem PoolOf.get?_map (f : α → β) (p : PoolOf α) (id : String) :
    PoolOf.get? (List.map (fun e => (e.1, f e.2)) p : PoolOf β) id = (PoolOf.get? p id).map f := by
  induction p with
  | nil => rfl
  | cons e rest ih =>
    obtain ⟨k, v⟩ := e
    by_cases h : k = id
    · simp [PoolOf.get?, h]
    · simp only [List.map_cons, PoolOf.get?, h, if_false]
      exact ih

theorem PoolOf.put_map (f : α → β) (p : PoolOf α) (id : String) (v : α) :
    PoolOf.put (List.map (fun e => (e.1, f e.2)) p : PoolOf β) id (f v) =
      List.map (fun e => (e.1, f e.2)) (PoolOf.put p id v) := by
  induction p with
  | nil => rfl
  | cons e rest ih =>
    obtain ⟨k, w⟩ := e
    by_cases h : k = id
    · simp [PoolOf.put, h]
    · simp only [List.map_cons, PoolOf.put, h, if_false, List.cons.injEq, true_and]
      exact ih

theorem PoolOf.getAll?_map (f : α → β) (p : PoolOf α) (ids : List String) :
    PoolOf.getAll? (List.map (fun e => (e.1, f e.2)) p : PoolOf β) ids =
      (PoolOf.getAll? p ids).map (List.map f) := by
  unfold PoolOf.getAll?
  induction ids with
  | nil => rfl
  | cons id ids ih =>
    rw [List.mapM_cons, List.mapM_cons, ih, PoolOf.get?_map]
    cases PoolOf.get? p id with
    | none => rfl
    | some d =>
      cases List.mapM (fun id => PoolOf.get? p id) ids with
      | none => rfl
      | some ds => rfl

theorem PoolOf.mem_of_get? (p : PoolOf α) (id : String) (v : α) (h : PoolOf.get? p id = some v) :
    (id, v) ∈ p := by
  induction p with
  | nil => cases h
  | cons e rest ih =>
    obtain ⟨k, w⟩ := e
    by_cases hk : k = id
    · simp only [PoolOf.get?, hk, if_true, Option.some.injEq] at h
      subst h; subst hk; simp
    · simp only [PoolOf.get?, hk, if_false] at h
      exact List.mem_cons_of_mem _ (ih h)

theorem PoolOf.mem_put (p : PoolOf α) (id : String) (v : α) (e : String × α) (h : e ∈ PoolOf.put p id v) :
    e ∈ p ∨ e = (id, v) := by
  induction p with
  | nil => simp [PoolOf.put] at h; exact Or.inr h
  | cons x rest ih =>
    obtain ⟨k, w⟩ := x
    by_cases hk : k = id
    · simp only [PoolOf.put, hk, if_true, List.mem_cons] at h
      rcases h with h | h
      · exact Or.inr h
      · exact Or.inl (List.mem_cons_of_mem _ h)
    · simp only [PoolOf.put, hk, if_false, List.mem_cons] at h
      rcases h with h | h
      · exact Or.inl (by simp [h])
      · rcases ih h with h | h
        · exact Or.inl (List.mem_cons_of_mem _ h)
        · exact Or.inr h

theorem PoolOf.mem_of_getAll? (p : PoolOf α) (ids : List String) (vs : List α)
    (h : PoolOf.getAll? p ids = some vs) : ∀ v ∈ vs, ∃ id, (id, v) ∈ p := by
  unfold PoolOf.getAll? at h
  induction ids generalizing vs with
  | nil =>
    simp only [List.mapM_nil] at h
    cases h; simp
  | cons id ids ih =>
    rw [List.mapM_cons] at h
    cases hg : PoolOf.get? p id with
    | none => rw [hg] at h; cases h
    | some d =>
      cases hm : List.mapM (fun id => PoolOf.get? p id) ids with
      | none => rw [hg, hm] at h; cases h
      | some ds =>
        rw [hg, hm] at h
        cases h
        intro v hv
        simp only [List.mem_cons] at hv
        rcases hv with hv | hv
        · subst hv; exact ⟨id, PoolOf.mem_of_get? p id _ hg⟩
        · exact ih ds hm v hv

end Pools

/-! ## rows as a function of matrix, names and columns -/

/-- the cells of the property columns at row `i` -/
def colsAt (props : Cols) (i : Nat) : List (String × PVal) :=
  props.filterMap (fun c => (c.2[i]?).map (fun v => (c.1, v)))

def mkRow (a : List Row) (names : List (Option String)) (props : Cols) (i : Nat) : SRow :=
  { cells := (a[i]?).getD [], name := (names[i]?).getD none, props := colsAt props i }

def mkRows (n : Nat) (a : List Row) (names : List (Option String)) (props : Cols) : List SRow :=
  (List.range n).map (mkRow a names props)

theorem absRows_eq (db : Db) : db.absRows = mkRows db.fpNum (db.array.getD []) db.fpNames db.props := rfl

theorem mkRows_length (n : Nat) (a : List Row) (names : List (Option String)) (props : Cols) :
    (mkRows n a names props).length = n := by simp [mkRows]

theorem absRows_length (db : Db) : db.absRows.length = db.fpNum := by
  rw [absRows_eq, mkRows_length]

theorem fpNum_eq (db : Db) : db.fpNum = (db.array.getD []).length := by
  unfold Db.fpNum; cases db.array <;> rfl

/-- rows are determined pointwise -/
theorem mkRows_congr (n : Nat) (a a' : List Row) (names names' : List (Option String)) (props props' : Cols)
    (h : ∀ i, i < n → mkRow a names props i = mkRow a' names' props' i) :
    mkRows n a names props = mkRows n a' names' props' := by
  unfold mkRows
  apply List.map_congr_left
  intro i hi
  exact h i (List.mem_range.1 hi)

theorem mkRows_eq_map {β : Type} (l : List β) (F : β → SRow) (a : List Row) (names : List (Option String))
    (props : Cols) (h : ∀ i (hi : i < l.length), mkRow a names props i = F l[i]) :
    mkRows l.length a names props = l.map F := by
  apply List.ext_getElem
  · simp [mkRows]
  · intro i h1 h2
    have hi : i < l.length := by simpa [mkRows] using h1
    simp only [mkRows, List.getElem_map, List.getElem_range]
    exact h i hi

/-- appending rows, names and (row-wise) property cells -/
theorem mkRows_append (n1 n2 : Nat) (a1 a2 : List Row) (nm1 nm2 : List (Option String)) (p p1 p2 : Cols)
    (ha : a1.length = n1) (hn : nm1.length = n1)
    (hp1 : ∀ i, i < n1 → colsAt p i = colsAt p1 i)
    (hp2 : ∀ j, j < n2 → colsAt p (n1 + j) = colsAt p2 j) :
    mkRows (n1 + n2) (a1 ++ a2) (nm1 ++ nm2) p = mkRows n1 a1 nm1 p1 ++ mkRows n2 a2 nm2 p2 := by
  unfold mkRows
  rw [List.range_add, List.map_append, List.map_map]
  congr 1
  · apply List.map_congr_left
    intro i hi
    have hi' : i < n1 := List.mem_range.1 hi
    simp only [mkRow, hp1 i hi', List.getElem?_append_left (show i < a1.length by omega),
      List.getElem?_append_left (show i < nm1.length by omega)]
  · apply List.map_congr_left
    intro j hj
    have hj' : j < n2 := List.mem_range.1 hj
    simp only [Function.comp_def, mkRow, hp2 j hj']
    rw [List.getElem?_append_right (by omega), List.getElem?_append_right (by omega)]
    simp [ha, hn]

/-- mapping the cells of every row -/
theorem mkRows_mapCells (f : Row → Row) (hf : f [] = []) (n : Nat) (a : List Row) (names : List (Option String))
    (props : Cols) :
    mkRows n (a.map f) names props = (mkRows n a names props).map (fun r => { r with cells := f r.cells }) := by
  unfold mkRows
  rw [List.map_map]
  apply List.map_congr_left
  intro i _
  simp only [Function.comp_def, mkRow, List.getElem?_map]
  cases a[i]? <;> simp [hf]

/-! ## cells of columns -/

theorem colsAt_map_keys (keys : List String) (g : String → List PVal) (i : Nat) :
    colsAt (keys.map (fun k => (k, g k))) i = keys.filterMap (fun k => ((g k)[i]?).map (fun v => (k, v))) := by
  simp [colsAt, List.filterMap_map, Function.comp_def]

/-- all columns reach row `i`: the cells at `i` are a `map` -/
theorem colsAt_eq_map (props : Cols) (i : Nat) (h : ∀ c ∈ props, i < c.2.length) :
    colsAt props i = props.map (fun c => (c.1, (c.2[i]?).getD (.int 0))) := by
  unfold colsAt
  apply filterMap_eq_map_of_some
  intro c hc
  have := h c hc
  simp [List.getElem?_eq_getElem this]

theorem colsAt_keys (props : Cols) (i : Nat) (h : ∀ c ∈ props, i < c.2.length) :
    (colsAt props i).map Prod.fst = props.map Prod.fst := by
  rw [colsAt_eq_map props i h, List.map_map]; rfl

/-- looking a key up in the cells of row `i` is looking the column up and taking cell `i` -/
theorem propLookup_colsAt (props : Cols) (i : Nat) (k : String) (h : ∀ c ∈ props, i < c.2.length) :
    propLookup (colsAt props i) k = (colLookup props k).bind (fun w => w[i]?) := by
  induction props with
  | nil => rfl
  | cons c rest ih =>
    obtain ⟨a, w⟩ := c
    have hw : i < w.length := h (a, w) (by simp)
    have ih' := ih (fun c hc => h c (by simp [hc]))
    unfold colsAt at ih' ⊢
    rw [List.filterMap_cons]
    simp only [List.getElem?_eq_getElem hw, Option.map_some]
    by_cases e : a = k
    · simp [propLookup, colLookup, e, List.getElem?_eq_getElem hw]
    · simp only [propLookup, colLookup, e, if_false]
      exact ih'

/-- replacing (or appending) a column replaces (or appends) the cell of every row it reaches -/
theorem colsAt_colSet (props : Cols) (k : String) (v : List PVal) (i : Nat) (x : PVal)
    (h : ∀ c ∈ props, i < c.2.length) (hv : v[i]? = some x) :
    colsAt (colSet props k v) i = kvSet (colsAt props i) k x := by
  induction props with
  | nil => simp [colSet, colsAt, kvSet, hv]
  | cons c rest ih =>
    obtain ⟨a, w⟩ := c
    have hw : i < w.length := h (a, w) (by simp)
    have ih' := ih (fun c hc => h c (by simp [hc]))
    unfold colsAt at ih' ⊢
    by_cases e : a = k
    · simp [colSet, e, kvSet, hv, List.getElem?_eq_getElem hw]
    · simp only [colSet, e, if_false, List.filterMap_cons, List.getElem?_eq_getElem hw, Option.map_some, kvSet]
      rw [ih']

/-! ## key lists -/

theorem dedupKeys_snoc (ks : List String) (k : String) :
    dedupKeys (ks ++ [k]) = if (dedupKeys ks).contains k then dedupKeys ks else dedupKeys ks ++ [k] := by
  simp [dedupKeys, List.foldl_append]

theorem dedupKeys_spec (ks : List String) : (dedupKeys ks).Nodup ∧ ∀ k, k ∈ dedupKeys ks ↔ k ∈ ks := by
  induction ks using snoc_induction with
  | hnil => simp [dedupKeys]
  | hsnoc l a ih =>
    obtain ⟨h1, h2⟩ := ih
    rw [dedupKeys_snoc]
    by_cases hc : (dedupKeys l).contains a = true
    · simp only [hc, if_true]
      refine ⟨h1, fun k => ?_⟩
      have : a ∈ l := (h2 a).1 (by simpa using hc)
      rw [h2 k]
      simp only [List.mem_append, List.mem_singleton]
      constructor
      · exact Or.inl
      · rintro (h | h)
        · exact h
        · exact h ▸ this
    · have hn : a ∉ dedupKeys l := by simpa using hc
      simp only [hc, Bool.false_eq_true, if_false]
      refine ⟨?_, fun k => ?_⟩
      · rw [List.nodup_append]
        refine ⟨h1, by simp, ?_⟩
        intro x hx y hy
        simp only [List.mem_singleton] at hy
        subst hy; intro e; subst e; exact hn hx
      · simp [h2 k]

theorem dedupKeys_nodup (ks : List String) : (dedupKeys ks).Nodup := (dedupKeys_spec ks).1
theorem mem_dedupKeys (ks : List String) (k : String) : k ∈ dedupKeys ks ↔ k ∈ ks := (dedupKeys_spec ks).2 k

theorem dedupKeys_of_nodup (ks : List String) (h : ks.Nodup) : dedupKeys ks = ks := by
  induction ks using snoc_induction with
  | hnil => rfl
  | hsnoc l a ih =>
    rw [List.nodup_append] at h
    obtain ⟨h1, _, h3⟩ := h
    rw [dedupKeys_snoc, ih h1]
    have : ¬ a ∈ l := fun hm => h3 a hm a (by simp) rfl
    simp [this]

/-- `colSet` on an association list given as a `map` over duplicate-free keys -/
theorem colSet_map_keys (ks : List String) (g : String → List PVal) (k0 : String) (v : List PVal) (h : ks.Nodup) :
    colSet (ks.map (fun k => (k, g k))) k0 v =
      (if ks.contains k0 then ks else ks ++ [k0]).map (fun k => (k, if k0 = k then v else g k)) := by
  induction ks with
  | nil => simp [colSet]
  | cons a rest ih =>
    simp only [List.nodup_cons] at h
    by_cases e : a = k0
    · subst e
      have : ∀ k ∈ rest, ¬ a = k := fun k hk e => h.1 (e ▸ hk)
      simp only [List.map_cons, colSet, if_true, List.contains_cons, BEq.rfl, Bool.true_or]
      congr 1
      apply List.map_congr_left
      intro k hk
      simp [this k hk]
    · have e' : ¬ k0 = a := fun x => e x.symm
      have hb : (k0 == a) = false := by simpa using e'
      simp only [List.map_cons, colSet, e, if_false, List.contains_cons, hb, Bool.false_or]
      rw [ih h.2]
      by_cases hc : k0 ∈ rest
      · have hc' : rest.contains k0 = true := by simpa using hc
        simp only [hc', if_true, List.map_cons, e', if_false]
      · have hc' : rest.contains k0 = false := by simpa using hc
        simp only [hc', Bool.false_eq_true, if_false, List.map_cons, e', List.cons_append]

/-- the column a key ends up with after assigning `props` in order: the last assignment -/
def lastCol (props : Cols) (key : String) : List PVal :=
  match props.reverse.find? (fun c => c.1 = key) with
  | some c => c.2
  | none => []

theorem lastCol_snoc (props : Cols) (c : String × List PVal) (key : String) :
    lastCol (props ++ [c]) key = if c.1 = key then c.2 else lastCol props key := by
  unfold lastCol
  rw [List.reverse_append]
  by_cases e : c.1 = key <;> simp [e]

/-- **assigning columns in order** gives the de-duplicated keys (position of the first assignment),
each with the column of its last assignment -/
theorem foldl_colSet_nil (props : Cols) :
    props.foldl (fun a c => colSet a c.1 c.2) [] =
      (dedupKeys (props.map Prod.fst)).map (fun key => (key, lastCol props key)) := by
  induction props using snoc_induction with
  | hnil => rfl
  | hsnoc l c ih =>
    rw [List.foldl_append, List.foldl_cons, List.foldl_nil, ih,
      colSet_map_keys _ _ _ _ (dedupKeys_nodup _), List.map_append, List.map_cons, List.map_nil, dedupKeys_snoc]
    apply List.map_congr_left
    intro k _
    rw [lastCol_snoc]

/-- the same for a fold over keys with a value function -/
theorem foldl_colSet_keys_nil (keys : List String) (g : String → List PVal) :
    keys.foldl (fun acc k => colSet acc k (g k)) [] = (dedupKeys keys).map (fun k => (k, g k)) := by
  induction keys using snoc_induction with
  | hnil => rfl
  | hsnoc l c ih =>
    rw [List.foldl_append, List.foldl_cons, List.foldl_nil, ih,
      colSet_map_keys _ _ _ _ (dedupKeys_nodup _), dedupKeys_snoc]
    apply List.map_congr_left
    intro k _
    by_cases e : c = k
    · subst e; simp
    · simp [e]

theorem colSet_keys (ps : Cols) (k : String) (v : List PVal) :
    (colSet ps k v).map Prod.fst = if (ps.map Prod.fst).contains k then ps.map Prod.fst else ps.map Prod.fst ++ [k] := by
  by_cases h : k ∈ ps.map Prod.fst
  · rw [colSet_keys_of_mem ps k v h]
    have : (ps.map Prod.fst).contains k = true := by simpa using h
    rw [this]; rfl
  · rw [colSet_of_not_mem ps k v h]
    have : (ps.map Prod.fst).contains k = false := by simpa using h
    rw [this]; simp

theorem colLookup_none_of_not_mem (ps : Cols) (k : String) (h : k ∉ ps.map Prod.fst) :
    colLookup ps k = none := by
  induction ps with
  | nil => rfl
  | cons c rest ih =>
    obtain ⟨a, w⟩ := c
    simp only [List.map_cons, List.mem_cons, not_or] at h
    have : ¬ a = k := fun e => h.1 e.symm
    simp [colLookup, this, ih h.2]

end E3fpVerif
