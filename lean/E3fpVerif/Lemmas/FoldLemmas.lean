import E3fpVerif.Model.Fprint
import E3fpVerif.Lemmas.Uniq
import E3fpVerif.Lemmas.Pow2
/-!
# Lemmas behind C07: sums over fibres, lookups in generated dictionaries, fold index arithmetic
-/
namespace E3fpVerif

/-! ## strictly ascending lists -/

theorem StrictAsc.nodup {l : List Nat} (h : StrictAsc l) : l.Nodup := by
  unfold StrictAsc at h
  exact h.imp (fun hab => Nat.ne_of_lt hab)

theorem StrictAsc.filter {l : List Nat} (p : Nat → Bool) (h : StrictAsc l) : StrictAsc (l.filter p) := by
  unfold StrictAsc at *
  exact h.filter p

/-- `uniq` of an image is determined by membership -/
theorem uniq_eq_of_mem (l u : List Nat) (hu : StrictAsc u) (h : ∀ x, x ∈ u ↔ x ∈ l) : uniq l = u :=
  strictAsc_ext _ _ (strictAsc_uniq _) hu (by intro x; rw [mem_uniq, h])

/-! ## dictionaries generated from a key list -/

theorem map_fst_graph (u : List Nat) (v : Nat → Rat) : (u.map (fun j => (j, v j))).map Prod.fst = u := by
  induction u with
  | nil => rfl
  | cons a as ih => simp only [List.map_cons, ih]

theorem lookupQ_graph (u : List Nat) (v : Nat → Rat) (j : Nat) :
    lookupQ (u.map (fun j => (j, v j))) j = if j ∈ u then v j else 0 := by
  induction u with
  | nil => simp [lookupQ]
  | cons a as ih =>
    simp only [List.map_cons, lookupQ, List.mem_cons]
    by_cases h : a = j
    · subst h; simp
    · rw [if_neg h, ih]
      have : ¬ j = a := fun e => h e.symm
      simp [this]

/-! ## sums -/

theorem sumQ_append (l₁ l₂ : List Rat) : sumQ (l₁ ++ l₂) = sumQ l₁ + sumQ l₂ := by
  induction l₁ with
  | nil => simp only [List.nil_append, sumQ]; grind
  | cons a as ih => simp only [List.cons_append, sumQ, ih]; grind

theorem sumQ_map_add {α : Type} (u : List α) (f g : α → Rat) :
    sumQ (u.map (fun j => f j + g j)) = sumQ (u.map f) + sumQ (u.map g) := by
  induction u with
  | nil => simp only [List.map_nil, sumQ]; grind
  | cons a as ih => simp only [List.map_cons, sumQ, ih]; grind

theorem sumQ_map_zero {α : Type} (u : List α) (f : α → Rat) (h : ∀ j ∈ u, f j = 0) :
    sumQ (u.map f) = 0 := by
  induction u with
  | nil => simp [sumQ]
  | cons a as ih =>
    simp only [List.map_cons, sumQ]
    rw [h a (by simp), ih (fun j hj => h j (by simp [hj]))]; grind

/-- a single non-zero term at the unique position of `x` -/
theorem sumQ_indicator (u : List Nat) (hu : u.Nodup) (x : Nat) (hx : x ∈ u) (v : Rat) :
    sumQ (u.map (fun j => if x = j then v else 0)) = v := by
  induction u with
  | nil => simp at hx
  | cons a as ih =>
    rw [List.nodup_cons] at hu
    simp only [List.map_cons, sumQ]
    by_cases hxa : x = a
    · subst hxa
      rw [if_pos rfl, sumQ_map_zero]
      · grind
      · intro j hj
        have : ¬ x = j := fun e => hu.1 (e ▸ hj)
        simp [this]
    · rw [if_neg hxa]
      have hx' : x ∈ as := by
        rcases List.mem_cons.1 hx with e | h
        · exact absurd e hxa
        · exact h
      rw [ih hu.2 hx']; grind

/-- **sum over fibres**: if the duplicate-free list `u` contains every image `φ i` (`i ∈ l`), summing
the fibre sums over `u` gives the whole sum.  `l` itself may contain duplicates. -/
theorem sumQ_fibres {α : Type} (l : List α) (φ : α → Nat) (c : α → Rat) (u : List Nat) (hu : u.Nodup)
    (hmem : ∀ i ∈ l, φ i ∈ u) :
    sumQ (u.map (fun j => sumQ ((l.filter (fun i => decide (φ i = j))).map c))) = sumQ (l.map c) := by
  induction l with
  | nil =>
    simp only [List.filter_nil, List.map_nil, sumQ]
    exact sumQ_map_zero _ _ (fun _ _ => rfl)
  | cons a as ih =>
    have ih' := ih (fun i hi => hmem i (by simp [hi]))
    have hfun : (fun j => sumQ (((a :: as).filter (fun i => decide (φ i = j))).map c))
        = (fun j => (if φ a = j then c a else 0) + sumQ ((as.filter (fun i => decide (φ i = j))).map c)) := by
      funext j
      by_cases h : φ a = j
      · simp [h, sumQ]
      · simp only [List.filter_cons, h, decide_false, Bool.false_eq_true, ↓reduceIte]; grind
    rw [hfun, sumQ_map_add, ih', sumQ_indicator u hu (φ a) (hmem a (by simp)) (c a)]
    simp [sumQ]

/-- the instance the model uses: `u = uniq (l.map φ)` -/
theorem sumQ_fibres_uniq (l : List Nat) (φ : Nat → Nat) (c : Nat → Rat) :
    sumQ ((uniq (l.map φ)).map (fun j => sumQ ((l.filter (fun i => decide (φ i = j))).map c)))
      = sumQ (l.map c) :=
  sumQ_fibres l φ c _ (strictAsc_uniq _).nodup
    (fun i hi => (mem_uniq _ _).2 (List.mem_map.2 ⟨i, hi, rfl⟩))

/-- fibre sums compose: summing, over the `φ₂`-fibre of `x` in `uniq (l.map φ₁)`, the `φ₁`-fibre sums
gives the `(φ₂ ∘ φ₁)`-fibre sum of `x` -/
theorem sumQ_fibres_comp (l : List Nat) (φ₁ φ₂ : Nat → Nat) (c : Nat → Rat) (x : Nat) :
    sumQ ((((uniq (l.map φ₁)).filter (fun j => decide (φ₂ j = x)))).map
        (fun j => sumQ ((l.filter (fun i => decide (φ₁ i = j))).map c)))
      = sumQ ((l.filter (fun i => decide (φ₂ (φ₁ i) = x))).map c) := by
  have hu : ((uniq (l.map φ₁)).filter (fun j => decide (φ₂ j = x))).Nodup :=
    ((strictAsc_uniq _).filter _).nodup
  rw [← sumQ_fibres (l.filter (fun i => decide (φ₂ (φ₁ i) = x))) φ₁ c _ hu]
  · congr 1
    apply List.map_congr_left
    intro j hj
    have hjx : φ₂ j = x := by simpa using (List.mem_filter.1 hj).2
    congr 2
    rw [List.filter_filter]
    apply List.filter_congr
    intro i _
    by_cases h : φ₁ i = j
    · subst h; simp [hjx]
    · simp [h]
  · intro i hi
    rw [List.mem_filter] at hi
    rw [List.mem_filter, mem_uniq]
    exact ⟨List.mem_map.2 ⟨i, hi.1, rfl⟩, hi.2⟩

/-! ## integer-valued rationals and `truncQ` -/

theorem truncQ_intCast (n : Int) : truncQ (n : Rat) = n := by
  unfold truncQ
  split
  · rw [Rat.floor_intCast]
  · rw [← Rat.intCast_neg, Rat.floor_intCast]; simp

theorem truncQ_fixed_iff (q : Rat) : truncQ q = q ↔ ∃ n : Int, q = n := by
  constructor
  · intro h
    unfold truncQ at h
    split at h
    · exact ⟨_, h.symm⟩
    · exact ⟨_, h.symm⟩
  · rintro ⟨n, rfl⟩; exact truncQ_intCast n

theorem truncQ_sumQ (l : List Rat) (h : ∀ q ∈ l, truncQ q = q) : truncQ (sumQ l) = sumQ l := by
  induction l with
  | nil => exact (truncQ_fixed_iff _).2 ⟨0, by simp [sumQ]⟩
  | cons a as ih =>
    obtain ⟨n, hn⟩ := (truncQ_fixed_iff _).1 (h a (by simp))
    obtain ⟨m, hm⟩ := (truncQ_fixed_iff _).1 (ih (fun q hq => h q (by simp [hq])))
    exact (truncQ_fixed_iff _).2 ⟨n + m, by simp only [sumQ]; rw [hn, hm, Rat.intCast_add]⟩

/-! ## fold index arithmetic -/

theorem isPow2Multiple_pos {a b : Nat} (h : isPow2Multiple a b = true) : 0 < b := by
  unfold isPow2Multiple at h
  split at h
  · cases h
  · omega

theorem isPow2Multiple_exists {a b : Nat} (h : isPow2Multiple a b = true) : 0 < b ∧ ∃ n, a = b * 2 ^ n :=
  ⟨isPow2Multiple_pos h, (isPow2Multiple_iff a b (isPow2Multiple_pos h)).1 h⟩

theorem foldIdx_zero (a b i : Nat) : foldIdx 0 a b i = i % b := by
  simp [foldIdx, Gen.foldPartition]

theorem foldIdx_one (a b i : Nat) : foldIdx 1 a b i = i / (a / b) := by
  simp [foldIdx, Gen.foldCompress]

/-- a folded position is a valid position of the shorter fingerprint -/
theorem foldIdx_lt (m A b n i : Nat) (hm : m = 0 ∨ m = 1) (hb : 0 < b) (hA : A = b * 2 ^ n) (hi : i < A) :
    foldIdx m A b i < b := by
  rcases hm with rfl | rfl
  · rw [foldIdx_zero]; exact Nat.mod_lt _ hb
  · rw [foldIdx_one, hA, Nat.mul_div_cancel_left _ hb,
      Nat.div_lt_iff_lt_mul (Nat.pow_pos (by decide))]
    omega

/-- folding `A → a → b` maps every position where folding `A → b` does -/
theorem foldIdx_comp (m A a b k l i : Nat) (hm : m = 0 ∨ m = 1) (hb : 0 < b)
    (hA : A = a * 2 ^ k) (ha : a = b * 2 ^ l) :
    foldIdx m a b (foldIdx m A a i) = foldIdx m A b i := by
  rcases hm with rfl | rfl
  · simp only [foldIdx_zero]
    exact Nat.mod_mod_of_dvd i ⟨2 ^ l, ha⟩
  · simp only [foldIdx_one]
    have hapos : 0 < a := by rw [ha]; exact Nat.mul_pos hb (Nat.pow_pos (by decide))
    have h1 : A / a = 2 ^ k := by rw [hA, Nat.mul_div_cancel_left _ hapos]
    have h2 : a / b = 2 ^ l := by rw [ha, Nat.mul_div_cancel_left _ hb]
    have h3 : A / b = 2 ^ k * 2 ^ l := by
      rw [hA, ha, Nat.mul_assoc, Nat.mul_div_cancel_left _ hb, Nat.mul_comm]
    rw [Nat.div_div_eq_div_mul, h1, h2, h3]

end E3fpVerif
