import E3fpVerif.Lemmas.Dense
/-!
# Fingerprint measures on count dictionaries versus the definitions on matrix rows
-/
namespace E3fpVerif.C06L

/-- the matrix row of a fingerprint: its counts on its indices (1 on the bits of a bit fingerprint) -/
def cntRow (f : Fp) : Row := f.idx.map (fun i => (i, f.count i))

theorem cntRow_cols (f : Fp) : (cntRow f).map Prod.fst = f.idx := by
  unfold cntRow
  rw [List.map_map]
  have : (Prod.fst ∘ fun i : Nat => (i, f.count i)) = id := rfl
  rw [this, List.map_id]

theorem Fp.count_of_not_mem (f : Fp) (hf : f.WF) (i : Nat) (h : i ∉ f.idx) : f.count i = 0 := by
  unfold Fp.count
  split
  · rw [if_neg h]
  · rename_i hk
    have : f.kind ≠ .bit := by intro e; exact hk e
    have hc := hf.2.2.2 this
    exact rowVal_of_not_mem f.cnt i (by rw [hc]; exact h)

theorem rowVal_map (l : List Nat) (c : Nat → Rat) (k : Nat) :
    rowVal (l.map (fun i => (i, c i))) k = if k ∈ l then c k else 0 := by
  induction l with
  | nil => simp
  | cons a as ih =>
    rw [List.map_cons]
    by_cases e : a = k
    · subst e; rw [rowVal_cons_self]; simp
    · rw [rowVal_cons_ne a k _ _ e, ih]
      have : (k ∈ a :: as) ↔ k ∈ as := by
        simp only [List.mem_cons]
        exact ⟨fun h => h.resolve_left (fun h' => e h'.symm), Or.inr⟩
      simp only [this]

theorem rowVal_cntRow (f : Fp) (hf : f.WF) (k : Nat) : rowVal (cntRow f) k = f.count k := by
  unfold cntRow
  rw [rowVal_map]
  by_cases h : k ∈ f.idx
  · rw [if_pos h]
  · rw [if_neg h, Fp.count_of_not_mem f hf k h]

theorem unionCols_cntRow (f g : Fp) : unionCols (cntRow f) (cntRow g) = uniq (f.idx ++ g.idx) := by
  unfold unionCols; rw [cntRow_cols, cntRow_cols]

theorem rowCols_cntRow (f : Fp) (hf : f.WF) : rowCols (cntRow f) = f.idx := by
  unfold rowCols; rw [cntRow_cols, uniq_of_strictAsc _ hf.1]

/-- `Σ_{i ∈ f.idx} f_i · g_i = X·Yᵀ` -/
theorem fpDot_eq_dotQ (f g : Fp) (hf : f.WF) (hg : g.WF) : fpDot f g = dotQ (cntRow f) (cntRow g) := by
  unfold fpDot dotQ
  have e : (unionCols (cntRow f) (cntRow g)).map (fun i => rowVal (cntRow f) i * rowVal (cntRow g) i)
      = (unionCols (cntRow f) (cntRow g)).map (fun i => f.count i * g.count i) :=
    List.map_congr_left (fun k _ => by rw [rowVal_cntRow f hf, rowVal_cntRow g hg])
  rw [e, sumQ_filter_of_zero (unionCols (cntRow f) (cntRow g)) (fun i => decide (i ∈ f.idx))]
  · rw [filter_mem_eq _ _ (strictAsc_unionCols _ _) hf.1]
    intro i hi
    rw [unionCols_cntRow, mem_uniq]; exact List.mem_append_left _ hi
  · intro i _ hi
    have hi' : i ∉ f.idx := by simpa using hi
    rw [Fp.count_of_not_mem f hf i hi']; grind

theorem fpSq_eq_dotQ (f : Fp) (hf : f.WF) : fpSq f = dotQ (cntRow f) (cntRow f) :=
  fpDot_eq_dotQ f f hf hf

theorem fpSumC_eq_rowSum (f : Fp) (hf : f.WF) : fpSumC f = rowSum (cntRow f) := by
  unfold fpSumC rowSum
  rw [rowCols_cntRow f hf]
  congr 1
  exact List.map_congr_left (fun k _ => (rowVal_cntRow f hf k).symm)

theorem cntRow_bit (f : Fp) (h : f.kind = .bit) : cntRow f = f.idx.map (fun i => (i, (1 : Rat))) := by
  unfold cntRow
  apply List.map_congr_left
  intro i hi
  unfold Fp.count
  rw [h]; simp [hi]

end E3fpVerif.C06L
