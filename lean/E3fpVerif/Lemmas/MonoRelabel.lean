import E3fpVerif.Model.Fprinter
import E3fpVerif.Lemmas.SortBy
import E3fpVerif.Lemmas.Uniq
import E3fpVerif.Lemmas.EnumOrder
/-!
# Renumbering the atoms by a strictly monotone map commutes with the fingerprinting iteration

Deleting atoms from a molecule shifts the indices of the remaining ones down, keeping their order:
the renumbering `π` is strictly monotone on the atoms that remain.  Every tie in the model is broken
by ascending atom index (`lt3`, `ltShell`, `uniq`), and a strictly monotone map preserves those
orders, so the run on the renumbered molecule is the run on the original one with every atom index
mapped -- list for list.  No hypothesis on the geometry beyond "the same decisions on corresponding
atoms" is needed.

Everything lives in the namespace `E3fpVerif.Mono`.
-/
namespace E3fpVerif.Mono
open E3fpVerif

/-! ## strictly monotone maps on a finite set of atoms -/

/-- `π` is strictly monotone on the members of `atoms` -/
def MonoOn (π : Nat → Nat) (atoms : List Nat) : Prop :=
  ∀ a ∈ atoms, ∀ b ∈ atoms, a < b → π a < π b

theorem MonoOn.lt_iff {π : Nat → Nat} {atoms : List Nat} (h : MonoOn π atoms) {a b : Nat}
    (ha : a ∈ atoms) (hb : b ∈ atoms) : π a < π b ↔ a < b := by
  constructor
  · intro hlt
    rcases Nat.lt_trichotomy a b with h1 | h1 | h1
    · exact h1
    · subst h1; omega
    · have := h b hb a ha h1; omega
  · exact h a ha b hb

theorem MonoOn.eq_iff {π : Nat → Nat} {atoms : List Nat} (h : MonoOn π atoms) {a b : Nat}
    (ha : a ∈ atoms) (hb : b ∈ atoms) : π a = π b ↔ a = b := by
  constructor
  · intro he
    rcases Nat.lt_trichotomy a b with h1 | h1 | h1
    · have := h a ha b hb h1; omega
    · exact h1
    · have := h b hb a ha h1; omega
  · rintro rfl; rfl

theorem MonoOn.subset {π : Nat → Nat} {atoms atoms' : List Nat} (h : MonoOn π atoms)
    (hs : ∀ a ∈ atoms', a ∈ atoms) : MonoOn π atoms' :=
  fun a ha b hb hab => h a (hs a ha) b (hs b hb) hab

/-- a strictly monotone map is injective on lists of atoms -/
theorem MonoOn.map_inj {π : Nat → Nat} {atoms : List Nat} (h : MonoOn π atoms) :
    ∀ (l₁ l₂ : List Nat), (∀ a ∈ l₁, a ∈ atoms) → (∀ a ∈ l₂, a ∈ atoms) → l₁.map π = l₂.map π → l₁ = l₂
  | [], [], _, _, _ => rfl
  | [], _ :: _, _, _, he => by simp at he
  | _ :: _, [], _, _, he => by simp at he
  | a :: as, b :: bs, h1, h2, he => by
    simp only [List.map_cons, List.cons.injEq] at he
    have hab : a = b := (h.eq_iff (h1 a (by simp)) (h2 b (by simp))).1 he.1
    have := MonoOn.map_inj h as bs (fun x hx => h1 x (by simp [hx])) (fun x hx => h2 x (by simp [hx])) he.2
    rw [hab, this]

/-! ## `uniq` -/

theorem mono_insertU_map {π : Nat → Nat} {atoms : List Nat} (h : MonoOn π atoms) (x : Nat) (hx : x ∈ atoms)
    (l : List Nat) (hl : ∀ a ∈ l, a ∈ atoms) : insertU (π x) (l.map π) = (insertU x l).map π := by
  induction l with
  | nil => rfl
  | cons y ys ih =>
    have hy : y ∈ atoms := hl y (by simp)
    simp only [List.map_cons, insertU]
    by_cases h1 : x < y
    · rw [if_pos h1, if_pos ((h.lt_iff hx hy).2 h1)]; rfl
    · have h1' : ¬ π x < π y := fun hh => h1 ((h.lt_iff hx hy).1 hh)
      rw [if_neg h1, if_neg h1']
      by_cases h2 : x = y
      · rw [if_pos h2, if_pos (by rw [h2])]; rfl
      · have h2' : ¬ π x = π y := fun hh => h2 ((h.eq_iff hx hy).1 hh)
        rw [if_neg h2, if_neg h2', List.map_cons, ih (fun a ha => hl a (by simp [ha]))]

/-- `numpy.unique` commutes with a map that is strictly monotone on the elements -/
theorem mono_uniq_map {π : Nat → Nat} {atoms : List Nat} (h : MonoOn π atoms)
    (l : List Nat) (hl : ∀ a ∈ l, a ∈ atoms) : uniq (l.map π) = (uniq l).map π := by
  induction l with
  | nil => rfl
  | cons a as ih =>
    have e1 : uniq ((a :: as).map π) = insertU (π a) (uniq (as.map π)) := rfl
    have e2 : uniq (a :: as) = insertU a (uniq as) := rfl
    rw [e1, e2, ih (fun x hx => hl x (by simp [hx]))]
    exact mono_insertU_map h a (hl a (by simp)) _
      (fun x hx => hl x (by simp [(mem_uniq x as).1 hx]))

/-! ## the interning table -/

/-- the key map: the centre is renumbered, the member ids are not -/
def keyMap (π : Nat → Nat) (k : Nat × List Nat) : Nat × List Nat := (π k.1, k.2)

theorem mono_idxOf?_map {β γ : Type} [BEq β] [LawfulBEq β] [BEq γ] [LawfulBEq γ] (f : β → γ) (k : β)
    (t : List β) (hinj : ∀ x ∈ t, f x = f k → x = k) : (t.map f).idxOf? (f k) = t.idxOf? k := by
  induction t with
  | nil => rfl
  | cons y ys ih =>
    simp only [List.idxOf?, List.map_cons, List.findIdx?_cons] at ih ⊢
    by_cases hy : y = k
    · subst hy; simp
    · have hy' : ¬ f y = f k := fun hh => hy (hinj y (by simp) hh)
      have e1 : (y == k) = false := by simpa using hy
      have e2 : (f y == f k) = false := by simpa using hy'
      rw [e1, e2]
      simp only [Bool.false_eq_true, if_false]
      rw [ih (fun x hx => hinj x (by simp [hx]))]

/-- **interning commutes with an injective renaming of the keys**: the same id is returned, and the
new table is the renamed table -/
theorem mono_intern_map (f : Nat × List Nat → Nat × List Nat) (t : Intern) (k : Nat × List Nat)
    (hinj : ∀ x ∈ t, f x = f k → x = k) :
    intern (t.map f) (f k) = ((intern t k).1.map f, (intern t k).2) := by
  unfold intern
  rw [mono_idxOf?_map f k t hinj]
  cases t.idxOf? k with
  | some i => rfl
  | none => simp

theorem keyMap_inj {π : Nat → Nat} {atoms : List Nat} (h : MonoOn π atoms) (t : Intern) (k : Nat × List Nat)
    (ht : ∀ x ∈ t, x.1 ∈ atoms) (hk : k.1 ∈ atoms) : ∀ x ∈ t, keyMap π x = keyMap π k → x = k := by
  intro x hx he
  simp only [keyMap, Prod.mk.injEq] at he
  have := (h.eq_iff (ht x hx) hk).1 he.1
  exact Prod.ext this he.2

theorem mono_intern_keyMap {π : Nat → Nat} {atoms : List Nat} (h : MonoOn π atoms) (t : Intern) (a : Nat)
    (mem : List Nat) (ht : ∀ x ∈ t, x.1 ∈ atoms) (ha : a ∈ atoms) :
    intern (t.map (keyMap π)) (π a, mem) = ((intern t (a, mem)).1.map (keyMap π), (intern t (a, mem)).2) :=
  mono_intern_map (keyMap π) t (a, mem) (keyMap_inj h t (a, mem) ht ha)

/-- the keys of the table after interning `k` are those of the table before, and possibly `k` -/
theorem mem_intern (t : Intern) (k x : Nat × List Nat) (hx : x ∈ (intern t k).1) : x ∈ t ∨ x = k := by
  unfold intern at hx
  cases h : t.idxOf? k with
  | some i => rw [h] at hx; exact Or.inl hx
  | none => rw [h] at hx; simpa using hx

/-! ## sorting -/

theorem mono_insertBy_map_mem {β γ : Type} (lt : β → β → Bool) (lt' : γ → γ → Bool) (f : β → γ)
    (x : β) (l : List β) (h : ∀ b ∈ l, lt' (f x) (f b) = lt x b) :
    (insertBy lt x l).map f = insertBy lt' (f x) (l.map f) := by
  induction l with
  | nil => rfl
  | cons a as ih =>
    simp only [insertBy, List.map_cons, h a (by simp)]
    split
    · rfl
    · simp [ih (fun b hb => h b (by simp [hb]))]

/-- insertion sort commutes with a map that preserves the order on the elements of the list -/
theorem mono_sortByLt_map_mem {β γ : Type} (lt : β → β → Bool) (lt' : γ → γ → Bool) (f : β → γ)
    (l : List β) (h : ∀ a ∈ l, ∀ b ∈ l, lt' (f a) (f b) = lt a b) :
    (sortByLt lt l).map f = sortByLt lt' (l.map f) := by
  induction l with
  | nil => rfl
  | cons a as ih =>
    have e1 : sortByLt lt (a :: as) = insertBy lt a (sortByLt lt as) := rfl
    have e2 : sortByLt lt' ((a :: as).map f) = insertBy lt' (f a) (sortByLt lt' (as.map f)) := rfl
    rw [e1, e2, mono_insertBy_map_mem lt lt' f a _
      (fun b hb => h a (by simp) b (by simp [(mem_sortByLt lt b as).1 hb])),
      ih (fun x hx y hy => h x (by simp [hx]) y (by simp [hy]))]

/-- the neighbour-tuple map: only the atom index is renumbered -/
def tupMap (π : Nat → Nat) (t : Nat × Int × Nat) : Nat × Int × Nat := (t.1, t.2.1, π t.2.2)

theorem mono_lt3 {π : Nat → Nat} {atoms : List Nat} (h : MonoOn π atoms) (a b : Nat × Int × Nat)
    (ha : a.2.2 ∈ atoms) (hb : b.2.2 ∈ atoms) : lt3 (tupMap π a) (tupMap π b) = lt3 a b := by
  obtain ⟨a1, a2, a3⟩ := a
  obtain ⟨b1, b2, b3⟩ := b
  have : decide (π a3 < π b3) = decide (a3 < b3) := by
    rw [decide_eq_decide]; exact h.lt_iff ha hb
  show (decide (a1 < b1) || (a1 == b1 && (decide (a2 < b2) || (a2 == b2 && decide (π a3 < π b3)))))
    = (decide (a1 < b1) || (a1 == b1 && (decide (a2 < b2) || (a2 == b2 && decide (a3 < b3)))))
  rw [this]

/-- `sortByLt lt3` commutes with renumbering the atom component -/
theorem mono_sort_lt3 {π : Nat → Nat} {atoms : List Nat} (h : MonoOn π atoms) (l : List (Nat × Int × Nat))
    (hl : ∀ t ∈ l, t.2.2 ∈ atoms) : sortByLt lt3 (l.map (tupMap π)) = (sortByLt lt3 l).map (tupMap π) :=
  (mono_sortByLt_map_mem lt3 lt3 (tupMap π) l (fun a ha b hb => mono_lt3 h a b (hl a ha) (hl b hb))).symm

/-! ## relabelling shells and states -/

end E3fpVerif.Mono

namespace E3fpVerif

/-- a shell with every atom index renumbered; the structural id and the identifier are untouched
(named `monoRelabel`, not `relabel`, so as not to clash with `Lemmas/Relabel.lean`) -/
def GShell.monoRelabel (π : Nat → Nat) (s : GShell) : GShell :=
  { s with atom := π s.atom, sub := s.sub.map π, nbrs := s.nbrs.map π }

/-- a fingerprinter state with every atom index renumbered -/
def FState.monoRelabel (π : Nat → Nat) (s : FState) : FState :=
  { tbl := s.tbl.map (Mono.keyMap π)
    gen := s.gen.map (·.map (GShell.monoRelabel π))
    levelShells := s.levelShells.map (·.map (GShell.monoRelabel π))
    past := s.past.map (·.map π) }

end E3fpVerif

namespace E3fpVerif.Mono
open E3fpVerif

@[simp] theorem relabel_sid (π : Nat → Nat) (s : GShell) : (s.monoRelabel π).sid = s.sid := rfl
@[simp] theorem relabel_ident (π : Nat → Nat) (s : GShell) : (s.monoRelabel π).ident = s.ident := rfl
@[simp] theorem relabel_atom (π : Nat → Nat) (s : GShell) : (s.monoRelabel π).atom = π s.atom := rfl
@[simp] theorem relabel_sub (π : Nat → Nat) (s : GShell) : (s.monoRelabel π).sub = s.sub.map π := rfl
@[simp] theorem relabel_nbrs (π : Nat → Nat) (s : GShell) : (s.monoRelabel π).nbrs = s.nbrs.map π := rfl

/-- the centre and the substructure of a shell are among `atoms` -/
def ShellIn (atoms : List Nat) (x : GShell) : Prop := x.atom ∈ atoms ∧ ∀ a ∈ x.sub, a ∈ atoms

theorem mono_ltShell {π : Nat → Nat} {atoms : List Nat} (h : MonoOn π atoms) (a b : GShell)
    (ha : a.atom ∈ atoms) (hb : b.atom ∈ atoms) : ltShell (a.monoRelabel π) (b.monoRelabel π) = ltShell a b := by
  have : decide (π a.atom < π b.atom) = decide (a.atom < b.atom) := by
    rw [decide_eq_decide]; exact h.lt_iff ha hb
  show (decide (a.ident < b.ident) || (a.ident == b.ident && decide (π a.atom < π b.atom)))
    = (decide (a.ident < b.ident) || (a.ident == b.ident && decide (a.atom < b.atom)))
  rw [this]

/-- `sortByLt ltShell` commutes with renumbering -/
theorem mono_sort_ltShell {π : Nat → Nat} {atoms : List Nat} (h : MonoOn π atoms) (l : List GShell)
    (hl : ∀ x ∈ l, x.atom ∈ atoms) :
    sortByLt ltShell (l.map (GShell.monoRelabel π)) = (sortByLt ltShell l).map (GShell.monoRelabel π) :=
  (mono_sortByLt_map_mem ltShell ltShell (GShell.monoRelabel π) l
    (fun a ha b hb => mono_ltShell h a b (hl a ha) (hl b hb))).symm

/-- `unionShells` only reads structural ids -/
theorem mono_unionShells (π : Nat → Nat) (old new : List GShell) :
    unionShells (old.map (GShell.monoRelabel π)) (new.map (GShell.monoRelabel π))
      = (unionShells old new).map (GShell.monoRelabel π) := by
  unfold unionShells
  induction new generalizing old with
  | nil => rfl
  | cons s ss ih =>
    simp only [List.foldl_cons, List.map_cons]
    rw [← ih]
    congr 1
    have : (old.map (GShell.monoRelabel π)).any (fun x => x.sid == (s.monoRelabel π).sid) = old.any (fun x => x.sid == s.sid) := by
      rw [List.any_map]; rfl
    rw [this]
    split <;> simp

theorem mono_contains_map {β γ : Type} [BEq β] [LawfulBEq β] [BEq γ] [LawfulBEq γ] (f : β → γ) (L : List β) (x : β)
    (hinj : ∀ y ∈ L, f y = f x → y = x) : (L.map f).contains (f x) = L.contains x := by
  rw [Bool.eq_iff_iff]
  simp only [List.contains_iff_mem, List.mem_map]
  constructor
  · rintro ⟨y, hy, he⟩
    rw [← hinj y hy he]; exact hy
  · intro hx; exact ⟨x, hx, rfl⟩

/-- the duplicate-substructure filter commutes with renumbering -/
theorem mono_dedupShells {π : Nat → Nat} {atoms : List Nat} (h : MonoOn π atoms) (past : List (List Nat))
    (cands : List GShell) (hp : ∀ p ∈ past, ∀ a ∈ p, a ∈ atoms) (hc : ∀ x ∈ cands, ∀ a ∈ x.sub, a ∈ atoms) :
    dedupShells (past.map (·.map π)) (cands.map (GShell.monoRelabel π))
      = ((dedupShells past cands).1.map (·.map π), (dedupShells past cands).2.map (GShell.monoRelabel π))
    ∧ ∀ p ∈ (dedupShells past cands).1, ∀ a ∈ p, a ∈ atoms := by
  unfold dedupShells
  rw [List.foldl_map]
  have key := foldl_rel
    (fun (acc : List (List Nat) × List GShell) (acc' : List (List Nat) × List GShell) =>
      acc' = (acc.1.map (·.map π), acc.2.map (GShell.monoRelabel π)) ∧ ∀ p ∈ acc.1, ∀ a ∈ p, a ∈ atoms)
    (fun (acc : List (List Nat) × List GShell) s =>
      if acc.1.contains s.sub then acc else (acc.1 ++ [s.sub], acc.2 ++ [s]))
    (fun (acc : List (List Nat) × List GShell) s =>
      if acc.1.contains (GShell.monoRelabel π s).sub then acc
      else (acc.1 ++ [(GShell.monoRelabel π s).sub], acc.2 ++ [GShell.monoRelabel π s]))
    cands (past, []) (past.map (·.map π), []) ⟨rfl, hp⟩
    (by
      rintro acc acc' s hs ⟨rfl, hacc⟩
      have hcs := hc s hs
      have hcont : (acc.1.map (·.map π)).contains (s.sub.map π) = acc.1.contains s.sub :=
        mono_contains_map (fun l : List Nat => l.map π) acc.1 s.sub
          (fun y hy he => h.map_inj y s.sub (hacc y hy) hcs he)
      simp only [relabel_sub, hcont]
      by_cases hcn : acc.1.contains s.sub = true
      · simp only [hcn, if_true]; exact ⟨trivial, hacc⟩
      · simp only [hcn, Bool.false_eq_true, if_false, List.map_append, List.map_cons, List.map_nil, true_and]
        intro p hp'
        rcases List.mem_append.1 hp' with hp' | hp'
        · exact hacc p hp'
        · rw [List.mem_singleton] at hp'; subst hp'; exact hcs)
  exact ⟨key.1, key.2⟩

/-- the members of the accepted shells come from the candidates -/
theorem mem_dedupShells (past : List (List Nat)) (cands : List GShell) :
    ∀ x ∈ (dedupShells past cands).2, x ∈ cands := by
  unfold dedupShells
  have key := foldl_rel
    (fun (acc : List (List Nat) × List GShell) (_ : Unit) => ∀ x ∈ acc.2, x ∈ cands)
    (fun (acc : List (List Nat) × List GShell) s =>
      if acc.1.contains s.sub then acc else (acc.1 ++ [s.sub], acc.2 ++ [s]))
    (fun _ _ => ()) cands (past, []) () (by intro x hx; cases hx)
    (by
      intro acc _ s hs hacc
      by_cases hcn : acc.1.contains s.sub = true
      · simp only [hcn, if_true]; exact hacc
      · simp only [hcn, Bool.false_eq_true, if_false]
        intro x hx
        rcases List.mem_append.1 hx with hx | hx
        · exact hacc x hx
        · rw [List.mem_singleton] at hx; subst hx; exact hs)
  exact key

theorem mem_unionShells (old new : List GShell) : ∀ x ∈ unionShells old new, x ∈ old ∨ x ∈ new := by
  unfold unionShells
  induction new generalizing old with
  | nil => intro x hx; exact Or.inl hx
  | cons s ss ih =>
    intro x hx
    simp only [List.foldl_cons] at hx
    rcases ih _ x hx with h | h
    · split at h
      · exact Or.inl h
      · rcases List.mem_append.1 h with h | h
        · exact Or.inl h
        · rw [List.mem_singleton] at h; subst h; exact Or.inr (by simp)
    · exact Or.inr (by simp [h])

end E3fpVerif.Mono

namespace E3fpVerif.Mono
open E3fpVerif

/-! ## the correspondence between two molecules/geometries on a list of atoms -/

/-- `(m', g')` is `(m, g)` with the atoms of `atoms` renumbered by the strictly monotone `π`: same
invariants, same bonds, same geometric decisions on corresponding atoms -/
structure MonoLoc (o : Opts) (π : Nat → Nat) (atoms : List Nat) (m : MolG) (g : Geo) (m' : MolG) (g' : Geo) :
    Prop where
  mono : MonoOn π atoms
  ident_eq : ∀ a ∈ atoms, initIdent o m' (π a) = initIdent o m a
  conn_eq : ∀ a ∈ atoms, ∀ b ∈ atoms, conn m' (π a) (π b) = conn m a b
  bonded_eq : ∀ a ∈ atoms, ∀ b ∈ atoms, bonded m' (π a) (π b) = bonded m a b
  within_eq : ∀ k, ∀ a ∈ atoms, ∀ b ∈ atoms, g'.within k (π a) (π b) = g.within k a b
  stereo_eq : ∀ c ∈ atoms, ∀ tuples : List (Nat × Int × Nat), (∀ t ∈ tuples, t.2.2 ∈ atoms) →
    g'.stereo (π c) (tuples.map (fun t => (t.1, t.2.1, π t.2.2))) = g.stereo c tuples

/-! ## looking up a shell by its centre -/

theorem mono_find_shell {π : Nat → Nat} {atoms : List Nat} (h : MonoOn π atoms) (prev : List GShell)
    (hprev : ∀ x ∈ prev, x.atom ∈ atoms) (b : Nat) (hb : b ∈ atoms) :
    (prev.map (GShell.monoRelabel π)).find? (fun s => s.atom = π b)
      = (prev.find? (fun s => s.atom = b)).map (GShell.monoRelabel π) := by
  induction prev with
  | nil => rfl
  | cons x xs ih =>
    have hx : x.atom ∈ atoms := hprev x (by simp)
    simp only [List.map_cons, List.find?_cons, relabel_atom]
    by_cases he : x.atom = b
    · have : π x.atom = π b := by rw [he]
      simp [he]
    · have : ¬ π x.atom = π b := fun hh => he ((h.eq_iff hx hb).1 hh)
      simp only [he, this, decide_false]
      exact ih (fun y hy => hprev y (by simp [hy]))

/-- the shell found at the renumbered centre has the same id and identifier and the renumbered
substructure (also when none is found) -/
theorem mono_shellOf {π : Nat → Nat} {atoms : List Nat} (h : MonoOn π atoms) (prev : List GShell)
    (hprev : ∀ x ∈ prev, x.atom ∈ atoms) (b : Nat) (hb : b ∈ atoms) :
    (shellOf (prev.map (GShell.monoRelabel π)) (π b)).sid = (shellOf prev b).sid ∧
    (shellOf (prev.map (GShell.monoRelabel π)) (π b)).ident = (shellOf prev b).ident ∧
    (shellOf (prev.map (GShell.monoRelabel π)) (π b)).sub = (shellOf prev b).sub.map π := by
  unfold shellOf
  rw [mono_find_shell h prev hprev b hb]
  cases prev.find? (fun s => s.atom = b) with
  | none => exact ⟨rfl, rfl, rfl⟩
  | some x => exact ⟨rfl, rfl, rfl⟩

theorem shellOf_sub_in (atoms : List Nat) (prev : List GShell) (hprev : ∀ x ∈ prev, ShellIn atoms x) (b : Nat) :
    ∀ a ∈ (shellOf prev b).sub, a ∈ atoms := by
  unfold shellOf
  cases hf : prev.find? (fun s => s.atom = b) with
  | none => intro a ha; cases ha
  | some x => exact (hprev x (List.mem_of_find?_eq_some hf)).2

/-! ## the neighbours, the identifier -/

section level
variable {o : Opts} {π : Nat → Nat} {atoms : List Nat} {m : MolG} {g : Geo} {m' : MolG} {g' : Geo}

/-- the neighbours of `a` at level `k` (as in `genLevel`) -/
def nbOf (o : Opts) (m : MolG) (g : Geo) (atoms : List Nat) (k a : Nat) : List Nat :=
  atoms.filter (fun b => b != a && g.within k a b && (o.includeDisconnected || bonded m a b))

theorem nbOf_subset (o : Opts) (m : MolG) (g : Geo) (atoms : List Nat) (k a : Nat) :
    ∀ b ∈ nbOf o m g atoms k a, b ∈ atoms := fun _ hb => (List.mem_filter.1 hb).1

theorem mono_nbOf (h : MonoLoc o π atoms m g m' g') (k a : Nat) (ha : a ∈ atoms) :
    nbOf o m' g' (atoms.map π) k (π a) = (nbOf o m g atoms k a).map π := by
  unfold nbOf
  rw [List.filter_map]
  congr 1
  apply List.filter_congr
  intro b hb
  simp only [Function.comp]
  rw [h.within_eq k a ha b hb, h.bonded_eq a ha b hb]
  have : (π b != π a) = (b != a) := by
    rw [Bool.eq_iff_iff]; simp only [bne_iff_ne, ne_eq]
    exact not_congr (h.mono.eq_iff hb ha)
  rw [this]

theorem mono_atomTuples (h : MonoLoc o π atoms m g m' g') (prev : List GShell)
    (hprev : ∀ x ∈ prev, x.atom ∈ atoms) (a : Nat) (ha : a ∈ atoms) (nb : List Nat) (hnb : ∀ b ∈ nb, b ∈ atoms) :
    atomTuples o m' g' (prev.map (GShell.monoRelabel π)) (π a) (nb.map π) = atomTuples o m g prev a nb := by
  unfold atomTuples
  by_cases hn : nb = []
  · subst hn; simp
  · have hn' : ¬ nb.map π = [] := by simpa using hn
    rw [if_neg hn, if_neg hn']
    have hbase : sortByLt lt3 ((nb.map π).map (fun b => (conn m' (π a) b,
          (shellOf (prev.map (GShell.monoRelabel π)) b).ident, b)))
        = (sortByLt lt3 (nb.map (fun b => (conn m a b, (shellOf prev b).ident, b)))).map (tupMap π) := by
      rw [← mono_sort_lt3 h.mono]
      · congr 1
        rw [List.map_map, List.map_map]
        apply List.map_congr_left
        intro b hb
        simp only [Function.comp, tupMap]
        rw [h.conn_eq a ha b (hnb b hb), (mono_shellOf h.mono prev hprev b (hnb b hb)).2.1]
      · intro t ht
        obtain ⟨b, hb, rfl⟩ := List.mem_map.1 ht
        exact hnb b hb
    simp only [hbase]
    have hst : g'.stereo (π a) ((sortByLt lt3 (nb.map (fun b => (conn m a b, (shellOf prev b).ident, b)))).map (tupMap π))
        = g.stereo a (sortByLt lt3 (nb.map (fun b => (conn m a b, (shellOf prev b).ident, b)))) := by
      apply h.stereo_eq a ha
      intro t ht
      rw [mem_sortByLt] at ht
      obtain ⟨b, hb, rfl⟩ := List.mem_map.1 ht
      exact hnb b hb
    rw [hst]
    congr 2
    cases o.stereo
    · simp only [Bool.false_eq_true, if_false, List.map_map]
      rfl
    · simp only [if_true, List.zip_map_left, List.map_map]
      rfl

theorem mono_shellIdent (h : MonoLoc o π atoms m g m' g') (prev : List GShell)
    (hprev : ∀ x ∈ prev, x.atom ∈ atoms) (k a : Nat) (ha : a ∈ atoms) (nb : List Nat) (hnb : ∀ b ∈ nb, b ∈ atoms) :
    shellIdent o m' g' (prev.map (GShell.monoRelabel π)) k (π a) (nb.map π) = shellIdent o m g prev k a nb := by
  unfold shellIdent
  rw [mono_atomTuples h prev hprev a ha nb hnb, (mono_shellOf h.mono prev hprev a ha).2.1]

end level

end E3fpVerif.Mono

namespace E3fpVerif.Mono
open E3fpVerif

/-! ## the level generators -/

section gen
variable {o : Opts} {π : Nat → Nat} {atoms : List Nat} {m : MolG} {g : Geo} {m' : MolG} {g' : Geo}

/-- the shell `genLevel` appends for atom `a` when the intern table is `t` -/
def genShell (o : Opts) (m : MolG) (g : Geo) (atoms : List Nat) (prev : List GShell) (k : Nat)
    (t : Intern) (a : Nat) : GShell :=
  { atom := a
    sid := (intern t (a, uniq ((nbOf o m g atoms k a).map (fun b => (shellOf prev b).sid)))).2
    sub := uniq (a :: (nbOf o m g atoms k a).flatMap (fun b => (shellOf prev b).sub))
    nbrs := nbOf o m g atoms k a
    ident := shellIdent o m g prev k a (nbOf o m g atoms k a) }

/-- the members key of the shell of `a` -/
def membersOf (o : Opts) (m : MolG) (g : Geo) (atoms : List Nat) (prev : List GShell) (k a : Nat) : List Nat :=
  uniq ((nbOf o m g atoms k a).map (fun b => (shellOf prev b).sid))

theorem genLevel_eq (o : Opts) (m : MolG) (g : Geo) (atoms : List Nat) (prev : List GShell) (k : Nat)
    (t : Intern) :
    genLevel o m g atoms prev k t =
      atoms.foldl (fun (p : Intern × List GShell) a =>
        ((intern p.1 (a, membersOf o m g atoms prev k a)).1,
          p.2 ++ [genShell o m g atoms prev k p.1 a])) (t, []) := rfl

def gen0Shell (o : Opts) (m : MolG) (t : Intern) (a : Nat) : GShell :=
  { atom := a, sid := (intern t (a, [])).2, sub := [a], nbrs := [], ident := initIdent o m a }

theorem genLevel0_eq (o : Opts) (m : MolG) (atoms : List Nat) (t : Intern) :
    genLevel0 o m atoms t =
      atoms.foldl (fun (p : Intern × List GShell) a =>
        ((intern p.1 (a, [])).1, p.2 ++ [gen0Shell o m p.1 a])) (t, []) := rfl

theorem mono_flatMap_congr {β γ : Type} (l : List β) (f₁ f₂ : β → List γ) (h : ∀ b ∈ l, f₁ b = f₂ b) :
    l.flatMap f₁ = l.flatMap f₂ := by
  induction l with
  | nil => rfl
  | cons x xs ih =>
    simp only [List.flatMap_cons]
    rw [h x (by simp), ih (fun b hb => h b (by simp [hb]))]

/-- a fold that threads a table and appends one shell per atom: invariants of table and shells -/
theorem foldl_pair_inv {σ : Type} (T : σ → Nat → σ) (S : σ → Nat → GShell) (P : σ → Prop) (Q : GShell → Prop)
    (l : List Nat) (hT : ∀ t a, a ∈ l → P t → P (T t a)) (hS : ∀ t a, a ∈ l → P t → Q (S t a))
    (t : σ) (acc : List GShell) (ht : P t) (hacc : ∀ x ∈ acc, Q x) :
    P (l.foldl (fun (p : σ × List GShell) a => (T p.1 a, p.2 ++ [S p.1 a])) (t, acc)).1 ∧
    ∀ x ∈ (l.foldl (fun (p : σ × List GShell) a => (T p.1 a, p.2 ++ [S p.1 a])) (t, acc)).2, Q x := by
  induction l generalizing t acc with
  | nil => exact ⟨ht, hacc⟩
  | cons a as ih =>
    rw [List.foldl_cons]
    apply ih (fun t b hb => hT t b (List.mem_cons_of_mem _ hb)) (fun t b hb => hS t b (List.mem_cons_of_mem _ hb))
    · exact hT t a (by simp) ht
    · intro x hx
      rcases List.mem_append.1 hx with hx | hx
      · exact hacc x hx
      · rw [List.mem_singleton] at hx; subst hx; exact hS _ _ (by simp) ht

theorem intern_keys_in (atoms : List Nat) (t : Intern) (k : Nat × List Nat) (ht : ∀ x ∈ t, x.1 ∈ atoms)
    (hk : k.1 ∈ atoms) : ∀ x ∈ (intern t k).1, x.1 ∈ atoms := by
  intro x hx
  rcases mem_intern t k x hx with h | h
  · exact ht x h
  · rw [h]; exact hk

/-- level 0 keeps table keys and shells inside `atoms` -/
theorem genLevel0_in (o : Opts) (m : MolG) (atoms : List Nat) (t : Intern) (ht : ∀ x ∈ t, x.1 ∈ atoms) :
    (∀ x ∈ (genLevel0 o m atoms t).1, x.1 ∈ atoms) ∧ ∀ x ∈ (genLevel0 o m atoms t).2, ShellIn atoms x := by
  rw [genLevel0_eq]
  exact foldl_pair_inv (fun t a => (intern t (a, [])).1) (gen0Shell o m)
    (fun t => ∀ x ∈ t, x.1 ∈ atoms) (ShellIn atoms) atoms
    (fun t a ha ht => intern_keys_in atoms t (a, []) ht ha)
    (fun t a ha _ => ⟨ha, by intro b hb; simp only [gen0Shell, List.mem_singleton] at hb; rw [hb]; exact ha⟩)
    t [] ht (by intro x hx; cases hx)

/-- level `k` keeps table keys and shells inside `atoms` -/
theorem genLevel_in (o : Opts) (m : MolG) (g : Geo) (atoms : List Nat) (prev : List GShell)
    (hprev : ∀ x ∈ prev, ShellIn atoms x) (k : Nat) (t : Intern) (ht : ∀ x ∈ t, x.1 ∈ atoms) :
    (∀ x ∈ (genLevel o m g atoms prev k t).1, x.1 ∈ atoms) ∧
      ∀ x ∈ (genLevel o m g atoms prev k t).2, ShellIn atoms x := by
  rw [genLevel_eq]
  refine foldl_pair_inv (fun t a => (intern t (a, membersOf o m g atoms prev k a)).1) (genShell o m g atoms prev k)
    (fun t => ∀ x ∈ t, x.1 ∈ atoms) (ShellIn atoms) atoms
    (fun t a ha ht => intern_keys_in atoms t (a, _) ht ha)
    (fun t a ha _ => ⟨ha, ?_⟩) t [] ht (by intro x hx; cases hx)
  intro b hb
  simp only [genShell] at hb
  rw [mem_uniq] at hb
  rcases List.mem_cons.1 hb with rfl | hb
  · exact ha
  · obtain ⟨c, _, hc⟩ := List.mem_flatMap.1 hb
    exact shellOf_sub_in atoms prev hprev c b hc

/-- level 0 on the renumbered molecule is level 0 renumbered -/
theorem genLevel0_mono (h : MonoLoc o π atoms m g m' g') (t : Intern) (ht : ∀ x ∈ t, x.1 ∈ atoms) :
    genLevel0 o m' (atoms.map π) (t.map (keyMap π))
      = ((genLevel0 o m atoms t).1.map (keyMap π), (genLevel0 o m atoms t).2.map (GShell.monoRelabel π)) := by
  rw [genLevel0_eq, genLevel0_eq, List.foldl_map]
  have key := foldl_rel
    (fun (acc : Intern × List GShell) (acc' : Intern × List GShell) =>
      acc' = (acc.1.map (keyMap π), acc.2.map (GShell.monoRelabel π)) ∧ ∀ x ∈ acc.1, x.1 ∈ atoms)
    (fun (p : Intern × List GShell) a => ((intern p.1 (a, [])).1, p.2 ++ [gen0Shell o m p.1 a]))
    (fun (p : Intern × List GShell) a => ((intern p.1 (π a, [])).1, p.2 ++ [gen0Shell o m' p.1 (π a)]))
    atoms (t, []) (t.map (keyMap π), []) ⟨rfl, ht⟩
    (by
      rintro acc acc' a ha ⟨rfl, hacc⟩
      refine ⟨?_, intern_keys_in atoms acc.1 (a, []) hacc ha⟩
      have hi := mono_intern_keyMap h.mono acc.1 a [] hacc ha
      simp only [gen0Shell, hi, List.map_append, List.map_cons, List.map_nil, GShell.monoRelabel, h.ident_eq a ha])
  exact key.1

/-- **level `k` on the renumbered molecule is level `k` renumbered** -/
theorem genLevel_mono (h : MonoLoc o π atoms m g m' g') (prev : List GShell)
    (hprev : ∀ x ∈ prev, ShellIn atoms x) (k : Nat) (t : Intern) (ht : ∀ x ∈ t, x.1 ∈ atoms) :
    genLevel o m' g' (atoms.map π) (prev.map (GShell.monoRelabel π)) k (t.map (keyMap π))
      = ((genLevel o m g atoms prev k t).1.map (keyMap π),
         (genLevel o m g atoms prev k t).2.map (GShell.monoRelabel π)) := by
  have hprev' : ∀ x ∈ prev, x.atom ∈ atoms := fun x hx => (hprev x hx).1
  rw [genLevel_eq, genLevel_eq, List.foldl_map]
  -- the members key and the shell of every atom correspond
  have hmem : ∀ a ∈ atoms, membersOf o m' g' (atoms.map π) (prev.map (GShell.monoRelabel π)) k (π a)
      = membersOf o m g atoms prev k a := by
    intro a ha
    unfold membersOf
    rw [mono_nbOf h k a ha, List.map_map]
    congr 1
    apply List.map_congr_left
    intro b hb
    exact (mono_shellOf h.mono prev hprev' b (nbOf_subset o m g atoms k a b hb)).1
  have hshell : ∀ (t : Intern), (∀ x ∈ t, x.1 ∈ atoms) → ∀ a ∈ atoms,
      genShell o m' g' (atoms.map π) (prev.map (GShell.monoRelabel π)) k (t.map (keyMap π)) (π a)
        = (genShell o m g atoms prev k t a).monoRelabel π := by
    intro t ht a ha
    have hm := hmem a ha
    unfold membersOf at hm
    have hnb := mono_nbOf h k a ha
    rw [hnb] at hm
    have hsub : uniq (π a :: ((nbOf o m g atoms k a).map π).flatMap
          (fun b => (shellOf (prev.map (GShell.monoRelabel π)) b).sub))
        = (uniq (a :: (nbOf o m g atoms k a).flatMap (fun b => (shellOf prev b).sub))).map π := by
      rw [← mono_uniq_map h.mono]
      · congr 1
        rw [List.map_cons, List.map_flatMap, List.flatMap_map]
        congr 1
        apply mono_flatMap_congr
        intro b hb
        exact (mono_shellOf h.mono prev hprev' b (nbOf_subset o m g atoms k a b hb)).2.2
      · intro b hb
        rcases List.mem_cons.1 hb with rfl | hb
        · exact ha
        · obtain ⟨c, _, hc⟩ := List.mem_flatMap.1 hb
          exact shellOf_sub_in atoms prev hprev c b hc
    simp only [genShell, GShell.monoRelabel, hm, hnb, hsub,
      mono_shellIdent h prev hprev' k a ha _ (nbOf_subset o m g atoms k a),
      mono_intern_keyMap h.mono t a _ ht ha]
  have key := foldl_rel
    (fun (acc : Intern × List GShell) (acc' : Intern × List GShell) =>
      acc' = (acc.1.map (keyMap π), acc.2.map (GShell.monoRelabel π)) ∧ ∀ x ∈ acc.1, x.1 ∈ atoms)
    (fun (p : Intern × List GShell) a =>
      ((intern p.1 (a, membersOf o m g atoms prev k a)).1, p.2 ++ [genShell o m g atoms prev k p.1 a]))
    (fun (p : Intern × List GShell) a =>
      ((intern p.1 (π a, membersOf o m' g' (atoms.map π) (prev.map (GShell.monoRelabel π)) k (π a))).1,
        p.2 ++ [genShell o m' g' (atoms.map π) (prev.map (GShell.monoRelabel π)) k p.1 (π a)]))
    atoms (t, []) (t.map (keyMap π), []) ⟨rfl, ht⟩
    (by
      rintro acc acc' a ha ⟨rfl, hacc⟩
      refine ⟨?_, intern_keys_in atoms acc.1 (a, _) hacc ha⟩
      simp only [hmem a ha, hshell acc.1 hacc a ha, mono_intern_keyMap h.mono acc.1 a _ hacc ha,
        List.map_append, List.map_cons, List.map_nil])
  exact key.1

end gen

end E3fpVerif.Mono

namespace E3fpVerif.Mono
open E3fpVerif

/-! ## states -/

/-- every atom index stored in the state is among `atoms` -/
structure StateIn (atoms : List Nat) (s : FState) : Prop where
  tbl : ∀ x ∈ s.tbl, x.1 ∈ atoms
  gen : ∀ l ∈ s.gen, ∀ x ∈ l, ShellIn atoms x
  levelShells : ∀ l ∈ s.levelShells, ∀ x ∈ l, ShellIn atoms x
  past : ∀ p ∈ s.past, ∀ a ∈ p, a ∈ atoms

theorem getLastD_in {β : Type} (P : β → Prop) (L : List (List β)) (h : ∀ l ∈ L, ∀ x ∈ l, P x) :
    ∀ x ∈ L.getLastD [], P x := by
  intro x hx
  rw [List.getLastD_eq_getLast?] at hx
  cases hl : L.getLast? with
  | none => rw [hl] at hx; cases hx
  | some l => rw [hl] at hx; exact h l (List.mem_of_getLast? hl) x hx

theorem getLastD_map_relabel (π : Nat → Nat) (L : List (List GShell)) :
    (L.map (·.map (GShell.monoRelabel π))).getLastD [] = (L.getLastD []).map (GShell.monoRelabel π) := by
  rw [List.getLastD_eq_getLast?, List.getLastD_eq_getLast?, List.getLast?_map]
  cases L.getLast? <;> rfl

theorem initState_in (o : Opts) (m : MolG) (atoms : List Nat) : StateIn atoms (initState o m atoms) := by
  obtain ⟨h1, h2⟩ := genLevel0_in o m atoms [] (by intro x hx; cases hx)
  refine ⟨h1, ?_, ?_, ?_⟩
  · intro l hl; simp only [initState, List.mem_singleton] at hl; subst hl; exact h2
  · intro l hl; simp only [initState, List.mem_singleton] at hl; subst hl; exact h2
  · intro p hp
    simp only [initState, List.mem_map] at hp
    obtain ⟨x, hx, rfl⟩ := hp
    exact (h2 x hx).2

section step
variable {o : Opts} {π : Nat → Nat} {atoms : List Nat} {m : MolG} {g : Geo} {m' : MolG} {g' : Geo}

/-- the state after level 0 on the renumbered molecule is the renumbered state after level 0 -/
theorem initState_mono (h : MonoLoc o π atoms m g m' g') :
    initState o m' (atoms.map π) = (initState o m atoms).monoRelabel π := by
  have h0 := genLevel0_mono h [] (by intro x hx; cases hx)
  simp only [List.map_nil] at h0
  simp only [initState, FState.monoRelabel, h0, List.map_cons, List.map_nil, List.map_map]
  congr 1

/-- the shells accepted at the next level and the substructures seen afterwards -/
def accepted (b : Bool) (past : List (List Nat)) (sorted : List GShell) : List (List Nat) × List GShell :=
  if b then dedupShells past sorted else (past, sorted)

theorem stepState_eq' (o : Opts) (m : MolG) (g : Geo) (atoms : List Nat) (s : FState) :
    stepState o m g atoms s =
      if o.level ≠ -1 && (s.currentLevel : Int) ≥ o.level then none
      else if o.removeDup && (s.gen.getLastD []).all (fun x => x.sub.length == atoms.length) then none
      else
        let gl := genLevel o m g atoms (s.gen.getLastD []) (s.currentLevel + 1) s.tbl
        let da := accepted o.removeDup s.past (sortByLt ltShell gl.2)
        let ls := unionShells (s.levelShells.getLastD []) da.2
        if ls.length = (s.levelShells.getLastD []).length then none
        else some { tbl := gl.1, gen := s.gen ++ [gl.2], levelShells := s.levelShells ++ [ls], past := da.1 } := by
  unfold stepState accepted
  cases o.removeDup <;> rfl

theorem accepted_mono (hπ : MonoOn π atoms) (b : Bool) (past : List (List Nat)) (sorted : List GShell)
    (hp : ∀ p ∈ past, ∀ a ∈ p, a ∈ atoms) (hc : ∀ x ∈ sorted, ShellIn atoms x) :
    accepted b (past.map (·.map π)) (sorted.map (GShell.monoRelabel π))
      = ((accepted b past sorted).1.map (·.map π), (accepted b past sorted).2.map (GShell.monoRelabel π))
    ∧ (∀ p ∈ (accepted b past sorted).1, ∀ a ∈ p, a ∈ atoms)
    ∧ ∀ x ∈ (accepted b past sorted).2, x ∈ sorted := by
  unfold accepted
  cases b
  · exact ⟨rfl, hp, fun _ hx => hx⟩
  · simp only [if_true]
    obtain ⟨h1, h2⟩ := mono_dedupShells hπ past sorted hp (fun x hx => (hc x hx).2)
    exact ⟨h1, h2, mem_dedupShells past sorted⟩

/-- **one step on the renumbered molecule is the renumbered step**, and the step keeps the state
inside `atoms` -/
theorem stepState_mono (h : MonoLoc o π atoms m g m' g') (s : FState) (hs : StateIn atoms s) :
    stepState o m' g' (atoms.map π) (s.monoRelabel π) = (stepState o m g atoms s).map (FState.monoRelabel π)
    ∧ ∀ s', stepState o m g atoms s = some s' → StateIn atoms s' := by
  have hcur : (s.monoRelabel π).currentLevel = s.currentLevel := by
    simp [FState.currentLevel, FState.monoRelabel]
  have hprev : ∀ x ∈ s.gen.getLastD [], ShellIn atoms x := getLastD_in (ShellIn atoms) s.gen hs.gen
  have hpls : ∀ x ∈ s.levelShells.getLastD [], ShellIn atoms x :=
    getLastD_in (ShellIn atoms) s.levelShells hs.levelShells
  have hgenL : (s.monoRelabel π).gen.getLastD [] = (s.gen.getLastD []).map (GShell.monoRelabel π) :=
    getLastD_map_relabel π s.gen
  have hlsL : (s.monoRelabel π).levelShells.getLastD [] = (s.levelShells.getLastD []).map (GShell.monoRelabel π) :=
    getLastD_map_relabel π s.levelShells
  have hall : ((s.gen.getLastD []).map (GShell.monoRelabel π)).all (fun x => x.sub.length == (atoms.map π).length)
      = (s.gen.getLastD []).all (fun x => x.sub.length == atoms.length) := by
    rw [List.all_map]
    congr 1
    funext x
    simp
  have hgl := genLevel_mono h (s.gen.getLastD []) hprev (s.currentLevel + 1) s.tbl hs.tbl
  obtain ⟨hin1, hin2⟩ := genLevel_in o m g atoms (s.gen.getLastD []) hprev (s.currentLevel + 1) s.tbl hs.tbl
  have hsortIn : ∀ x ∈ sortByLt ltShell (genLevel o m g atoms (s.gen.getLastD []) (s.currentLevel + 1) s.tbl).2,
      ShellIn atoms x := fun x hx => hin2 x ((mem_sortByLt _ _ _).1 hx)
  obtain ⟨hacc1, hacc2, hacc3⟩ := accepted_mono h.mono o.removeDup s.past
    (sortByLt ltShell (genLevel o m g atoms (s.gen.getLastD []) (s.currentLevel + 1) s.tbl).2) hs.past hsortIn
  rw [stepState_eq', stepState_eq']
  simp only [hcur, hgenL, hlsL, hall]
  have htbl : (s.monoRelabel π).tbl = s.tbl.map (keyMap π) := rfl
  have hpast : (s.monoRelabel π).past = s.past.map (·.map π) := rfl
  rw [htbl, hpast, hgl]
  simp only []
  rw [mono_sort_ltShell h.mono _ (fun x hx => (hin2 x hx).1), hacc1]
  simp only []
  rw [mono_unionShells, List.length_map, List.length_map]
  constructor
  · split
    · rfl
    · split
      · rfl
      · split
        · rfl
        · simp [FState.monoRelabel]
  · intro s' hs'
    split at hs'
    · cases hs'
    · split at hs'
      · cases hs'
      · split at hs'
        · cases hs'
        · injection hs' with hs'
          subst hs'
          refine ⟨hin1, ?_, ?_, hacc2⟩
          · intro l hl
            rcases List.mem_append.1 hl with hl | hl
            · exact hs.gen l hl
            · rw [List.mem_singleton] at hl; subst hl; exact hin2
          · intro l hl
            rcases List.mem_append.1 hl with hl | hl
            · exact hs.levelShells l hl
            · rw [List.mem_singleton] at hl; subst hl
              intro x hx
              rcases mem_unionShells _ _ x hx with hx | hx
              · exact hpls x hx
              · exact hsortIn x (hacc3 x hx)

/-- the identity renumbering relates a molecule and geometry to themselves -/
theorem MonoLoc.refl (o : Opts) (atoms : List Nat) (m : MolG) (g : Geo) : MonoLoc o id atoms m g m g where
  mono := fun _ _ _ _ hab => hab
  ident_eq := fun _ _ => rfl
  conn_eq := fun _ _ _ _ => rfl
  bonded_eq := fun _ _ _ _ => rfl
  within_eq := fun _ _ _ _ _ => rfl
  stereo_eq := fun c _ tuples _ => by
    have : tuples.map (fun t => (t.1, t.2.1, id t.2.2)) = tuples := by
      induction tuples with
      | nil => rfl
      | cons t ts ih => simp
    rw [this]; rfl

/-- a step keeps every stored atom index inside `atoms` -/
theorem stepState_in (o : Opts) (m : MolG) (g : Geo) (atoms : List Nat) (s : FState) (hs : StateIn atoms s)
    (s' : FState) (h : stepState o m g atoms s = some s') : StateIn atoms s' :=
  (stepState_mono (MonoLoc.refl o atoms m g) s hs).2 s' h

theorem iterate_in (o : Opts) (m : MolG) (g : Geo) (atoms : List Nat)
    (fuel : Nat) (s : FState) (hs : StateIn atoms s) : StateIn atoms (iterate o m g atoms fuel s) := by
  induction fuel generalizing s with
  | zero => exact hs
  | succ n ih =>
    unfold iterate
    split
    · exact hs
    · rename_i s' he
      exact ih s' (stepState_in o m g atoms s hs s' he)

/-- **the iteration on the renumbered molecule is the renumbered iteration** -/
theorem iterate_mono (h : MonoLoc o π atoms m g m' g') (fuel : Nat) (s : FState) (hs : StateIn atoms s) :
    iterate o m' g' (atoms.map π) fuel (s.monoRelabel π) = (iterate o m g atoms fuel s).monoRelabel π
    ∧ StateIn atoms (iterate o m g atoms fuel s) := by
  induction fuel generalizing s with
  | zero => exact ⟨rfl, hs⟩
  | succ n ih =>
    obtain ⟨h1, h2⟩ := stepState_mono h s hs
    unfold iterate
    rw [h1]
    cases he : stepState o m g atoms s with
    | none => exact ⟨rfl, hs⟩
    | some s' => exact ih s' (h2 s' he)

end step

end E3fpVerif.Mono

namespace E3fpVerif.Mono
open E3fpVerif

/-! ## reading shells and fingerprints off a renumbered state -/

theorem mono_any_congr_mem {β : Type} (l : List β) (p q : β → Bool) (h : ∀ a ∈ l, p a = q a) :
    l.any p = l.any q := by
  induction l with
  | nil => rfl
  | cons x xs ih =>
    simp only [List.any_cons]
    rw [h x (by simp), ih (fun a ha => h a (by simp [ha]))]

theorem resolveLevel_relabel (π : Nat → Nat) (s : FState) (req : Option Int) :
    resolveLevel (s.monoRelabel π) req = resolveLevel s req := by
  unfold resolveLevel FState.currentLevel FState.monoRelabel
  simp only [List.length_map]

/-- the shells at a level of the renumbered state, under the renumbered mask, are the renumbered
shells under the original mask (mask and state inside `atoms`) -/
theorem shellsAt_relabel {π : Nat → Nat} {atoms : List Nat} (hπ : MonoOn π atoms) (s : FState)
    (hs : StateIn atoms s) (req : Option Int) (mask : List Nat) (hm : ∀ a ∈ mask, a ∈ atoms) :
    shellsAt (s.monoRelabel π) req (mask.map π) = (shellsAt s req mask).map (GShell.monoRelabel π) := by
  unfold shellsAt
  rw [resolveLevel_relabel]
  have hget : (s.monoRelabel π).levelShells.getD (resolveLevel s req) []
      = (s.levelShells.getD (resolveLevel s req) []).map (GShell.monoRelabel π) := by
    simp only [FState.monoRelabel, List.getD_eq_getElem?_getD, List.getElem?_map]
    cases s.levelShells[resolveLevel s req]? <;> rfl
  have hin : ∀ x ∈ s.levelShells.getD (resolveLevel s req) [], ShellIn atoms x := by
    intro x hx
    rw [List.getD_eq_getElem?_getD] at hx
    cases hl : s.levelShells[resolveLevel s req]? with
    | none => rw [hl] at hx; cases hx
    | some l => rw [hl] at hx; exact hs.levelShells l (List.mem_of_getElem? hl) x hx
  rw [hget, List.filter_map]
  congr 1
  apply List.filter_congr
  intro x hx
  simp only [Function.comp, relabel_sub, List.any_map]
  congr 1
  apply mono_any_congr_mem
  intro a ha
  exact mono_contains_map π mask a
    (fun y hy he => (hπ.eq_iff (hm y hy) ((hin x hx).2 a ha)).1 he)

/-- with no mask, no hypothesis is needed: the identifiers are untouched by relabelling -/
theorem shellsAt_relabel_nil (π : Nat → Nat) (s : FState) (req : Option Int) :
    shellsAt (s.monoRelabel π) req [] = (shellsAt s req []).map (GShell.monoRelabel π) := by
  unfold shellsAt
  rw [resolveLevel_relabel]
  have hget : (s.monoRelabel π).levelShells.getD (resolveLevel s req) []
      = (s.levelShells.getD (resolveLevel s req) []).map (GShell.monoRelabel π) := by
    simp only [FState.monoRelabel, List.getD_eq_getElem?_getD, List.getElem?_map]
    cases s.levelShells[resolveLevel s req]? <;> rfl
  rw [hget, List.filter_map]
  congr 1
  apply List.filter_congr
  intro x _
  simp

/-- **the fingerprint of the renumbered state under the renumbered mask is the fingerprint of the
original state** -/
theorem fingerprintAt_relabel {π : Nat → Nat} {atoms : List Nat} (hπ : MonoOn π atoms) (o : Opts) (s : FState)
    (hs : StateIn atoms s) (req : Option Int) (bits : Option Nat) (mask : List Nat) (hm : ∀ a ∈ mask, a ∈ atoms) :
    fingerprintAt o (s.monoRelabel π) req bits (mask.map π) = fingerprintAt o s req bits mask := by
  unfold fingerprintAt
  rw [shellsAt_relabel hπ s hs req mask hm, List.map_map]
  rfl

theorem fingerprintAt_relabel_nil (π : Nat → Nat) (o : Opts) (s : FState) (req : Option Int) (bits : Option Nat) :
    fingerprintAt o (s.monoRelabel π) req bits [] = fingerprintAt o s req bits [] := by
  unfold fingerprintAt
  rw [shellsAt_relabel_nil, List.map_map]
  rfl

/-! ## geometry from coordinates -/

section coords
variable {α : Type} [Scalar α]

/-- coordinates that correspond under `π` give the same shell-membership decisions -/
theorem ofCoords_within (mult : α) (X X' : Nat → V3 α) (π : Nat → Nat) (atoms : List Nat)
    (hX : ∀ a ∈ atoms, X' (π a) = X a) :
    ∀ k, ∀ a ∈ atoms, ∀ b ∈ atoms,
      (Geo.ofCoords mult X').within k (π a) (π b) = (Geo.ofCoords mult X).within k a b := by
  intro k a ha b hb
  simp only [Geo.ofCoords, hX a ha, hX b hb]

/-- coordinates that correspond under `π` give the same stereo codes -/
theorem ofCoords_stereo (mult : α) (X X' : Nat → V3 α) (π : Nat → Nat) (atoms : List Nat)
    (hX : ∀ a ∈ atoms, X' (π a) = X a) :
    ∀ c ∈ atoms, ∀ tuples : List (Nat × Int × Nat), (∀ t ∈ tuples, t.2.2 ∈ atoms) →
      (Geo.ofCoords mult X').stereo (π c) (tuples.map (fun t => (t.1, t.2.1, π t.2.2)))
        = (Geo.ofCoords mult X).stereo c tuples := by
  intro c hc tuples ht
  simp only [Geo.ofCoords, List.map_map]
  congr 1
  apply List.map_congr_left
  intro t htm
  simp only [Function.comp, hX c hc, hX _ (ht t htm)]

end coords

end E3fpVerif.Mono
