import E3fpVerif.Model.Basic
namespace E3fpVerif

theorem mem_insertU (x y : Nat) (l : List Nat) : y ∈ insertU x l ↔ y = x ∨ y ∈ l := by
  induction l with
  | nil => simp [insertU]
  | cons a as ih =>
    unfold insertU
    split
    · simp
    · split
      · subst_vars; simp
      · simp only [List.mem_cons, ih]
        constructor
        · rintro (h | h | h) <;> simp [h]
        · rintro (h | h | h) <;> simp [h]

theorem mem_uniq (y : Nat) (l : List Nat) : y ∈ uniq l ↔ y ∈ l := by
  induction l with
  | nil => simp [uniq]
  | cons a as ih =>
    have : uniq (a :: as) = insertU a (uniq as) := rfl
    rw [this, mem_insertU, ih]; simp

theorem strictAsc_insertU (x : Nat) (l : List Nat) (h : StrictAsc l) : StrictAsc (insertU x l) := by
  induction l with
  | nil => simp [insertU, StrictAsc]
  | cons a as ih =>
    unfold StrictAsc at *
    rw [List.pairwise_cons] at h
    unfold insertU
    split
    · rename_i hxa
      refine List.pairwise_cons.2 ⟨?_, List.pairwise_cons.2 h⟩
      intro b hb
      rcases List.mem_cons.1 hb with rfl | hb
      · exact hxa
      · exact Nat.lt_trans hxa (h.1 b hb)
    · split
      · exact List.pairwise_cons.2 h
      · rename_i h1 h2
        refine List.pairwise_cons.2 ⟨?_, ih h.2⟩
        intro b hb
        rcases (mem_insertU x b as).1 hb with rfl | hb
        · omega
        · exact h.1 b hb

theorem strictAsc_uniq (l : List Nat) : StrictAsc (uniq l) := by
  induction l with
  | nil => simp [uniq, StrictAsc]
  | cons a as ih => exact strictAsc_insertU a _ ih

theorem insertU_of_lt_all (x : Nat) (l : List Nat) (h : ∀ b ∈ l, x < b) : insertU x l = x :: l := by
  cases l with
  | nil => rfl
  | cons a as => simp [insertU, h a (by simp)]

theorem uniq_of_strictAsc (l : List Nat) (h : StrictAsc l) : uniq l = l := by
  induction l with
  | nil => rfl
  | cons a as ih =>
    unfold StrictAsc at h
    rw [List.pairwise_cons] at h
    have : uniq (a :: as) = insertU a (uniq as) := rfl
    rw [this, ih h.2, insertU_of_lt_all a as h.1]

theorem uniq_idem (l : List Nat) : uniq (uniq l) = uniq l :=
  uniq_of_strictAsc _ (strictAsc_uniq l)

/-- two strictly ascending lists with the same members are equal -/
theorem strictAsc_ext : ∀ (l₁ l₂ : List Nat), StrictAsc l₁ → StrictAsc l₂ → (∀ x, x ∈ l₁ ↔ x ∈ l₂) → l₁ = l₂
  | [], [], _, _, _ => rfl
  | [], b :: bs, _, _, h => by have := (h b).2 (by simp); simp at this
  | a :: as, [], _, _, h => by have := (h a).1 (by simp); simp at this
  | a :: as, b :: bs, h1, h2, h => by
    unfold StrictAsc at h1 h2
    rw [List.pairwise_cons] at h1 h2
    have hab : a = b := by
      have ha := (h a).1 (by simp)
      have hb := (h b).2 (by simp)
      rcases List.mem_cons.1 ha with e | ha'
      · exact e
      · rcases List.mem_cons.1 hb with e | hb'
        · exact e.symm
        · have := h2.1 a ha'; have := h1.1 b hb'; omega
    subst hab
    congr 1
    apply strictAsc_ext as bs h1.2 h2.2
    intro x
    constructor
    · intro hx
      have := (h x).1 (by simp [hx])
      rcases List.mem_cons.1 this with e | h'
      · subst e; have := h1.1 x hx; omega
      · exact h'
    · intro hx
      have := (h x).2 (by simp [hx])
      rcases List.mem_cons.1 this with e | h'
      · subst e; have := h2.1 x hx; omega
      · exact h'

theorem uniq_ext (l₁ l₂ : List Nat) (h : ∀ x, x ∈ l₁ ↔ x ∈ l₂) : uniq l₁ = uniq l₂ :=
  strictAsc_ext _ _ (strictAsc_uniq _) (strictAsc_uniq _) (by intro x; simp [mem_uniq, h])

end E3fpVerif
