import E3fpVerif.Model.Fprinter
import E3fpVerif.Lemmas.Uniq
/-!
# Lemmas about the `Fingerprinter` model shared by the C12 and C02 property files
-/
namespace E3fpVerif

/-! ## list indexing helpers -/

theorem getLastD_eq_getD {α} (L : List α) (d : α) : L.getLastD d = L.getD (L.length - 1) d := by
  cases L with
  | nil => rfl
  | cons a l => simp [List.getLast?_eq_getElem?, List.getD_eq_getElem?_getD]

theorem getD_append_lt {α} (L : List α) (x d : α) (k : Nat) (h : k < L.length) :
    (L ++ [x]).getD k d = L.getD k d := by
  simp [List.getD_eq_getElem?_getD, List.getElem?_append_left h]

theorem getD_append_eq {α} (L : List α) (x d : α) : (L ++ [x]).getD L.length d = x := by
  simp [List.getD_eq_getElem?_getD]

/-! ## `unionShells` -/

theorem unionShells_nil (old : List GShell) : unionShells old [] = old := rfl

theorem unionShells_cons (old : List GShell) (s : GShell) (rest : List GShell) :
    unionShells old (s :: rest)
      = unionShells (if old.any (fun x => x.sid == s.sid) then old else old ++ [s]) rest := rfl

theorem unionShells_prefix (old new : List GShell) : old <+: unionShells old new := by
  induction new generalizing old with
  | nil => exact List.prefix_refl _
  | cons s rest ih =>
    rw [unionShells_cons]
    split
    · exact ih old
    · exact (List.prefix_append old [s]).trans (ih _)

theorem unionShells_mem_of_mem_old (old new : List GShell) : ∀ s ∈ old, s ∈ unionShells old new :=
  fun _ hs => (unionShells_prefix old new).subset hs

theorem unionShells_length_ge (old new : List GShell) : old.length ≤ (unionShells old new).length :=
  (unionShells_prefix old new).length_le

theorem unionShells_mem (old new : List GShell) (x : GShell) (h : x ∈ unionShells old new) :
    x ∈ old ∨ x ∈ new := by
  induction new generalizing old with
  | nil => exact Or.inl h
  | cons s rest ih =>
    rw [unionShells_cons] at h
    rcases ih _ h with h | h
    · split at h
      · exact Or.inl h
      · rcases List.mem_append.1 h with h | h
        · exact Or.inl h
        · simp only [List.mem_singleton] at h; subst h; exact Or.inr (by simp)
    · exact Or.inr (List.mem_cons_of_mem _ h)

/-! ## `dedupShells` -/

/-- explicit recursive characterisation of the accepted shells of `dedupShells` -/
def dedupSpec (past : List (List Nat)) : List GShell → List GShell
  | [] => []
  | s :: rest =>
    if past.contains s.sub then dedupSpec past rest else s :: dedupSpec (past ++ [s.sub]) rest

theorem dedup_foldl (past : List (List Nat)) (acc cands : List GShell) :
    cands.foldl (fun (acc : List (List Nat) × List GShell) s =>
      if acc.1.contains s.sub then acc else (acc.1 ++ [s.sub], acc.2 ++ [s])) (past, acc)
    = (past ++ (dedupSpec past cands).map (·.sub), acc ++ dedupSpec past cands) := by
  induction cands generalizing past acc with
  | nil => simp [dedupSpec]
  | cons s rest ih =>
    rw [List.foldl_cons]
    unfold dedupSpec
    by_cases h : past.contains s.sub = true
    · simp only [h, if_true]; exact ih past acc
    · simp only [h]; rw [ih]; simp

theorem dedupShells_eq (past : List (List Nat)) (cands : List GShell) :
    dedupShells past cands = (past ++ (dedupSpec past cands).map (·.sub), dedupSpec past cands) := by
  unfold dedupShells; rw [dedup_foldl]; simp

theorem dedupSpec_cons_pos (past : List (List Nat)) (s : GShell) (rest : List GShell)
    (h : past.contains s.sub = true) : dedupSpec past (s :: rest) = dedupSpec past rest := by
  rw [dedupSpec, if_pos h]

theorem dedupSpec_cons_neg (past : List (List Nat)) (s : GShell) (rest : List GShell)
    (h : ¬ past.contains s.sub = true) :
    dedupSpec past (s :: rest) = s :: dedupSpec (past ++ [s.sub]) rest := by
  rw [dedupSpec, if_neg h]

theorem dedupSpec_sublist (past : List (List Nat)) (cands : List GShell) :
    (dedupSpec past cands).Sublist cands := by
  induction cands generalizing past with
  | nil => exact List.Sublist.slnil
  | cons s rest ih =>
    unfold dedupSpec
    split
    · exact (ih past).cons _
    · exact (ih _).cons_cons _

/-- the accepted substructures are not in `past` -/
theorem dedupSpec_not_past (past : List (List Nat)) (cands : List GShell) :
    ∀ x ∈ dedupSpec past cands, x.sub ∉ past := by
  induction cands generalizing past with
  | nil => intro x hx; simp [dedupSpec] at hx
  | cons s rest ih =>
    intro x hx
    unfold dedupSpec at hx
    split at hx
    · exact ih past x hx
    · rename_i hc
      rcases List.mem_cons.1 hx with rfl | hx
      · simpa using hc
      · have := ih _ x hx
        intro hp; exact this (List.mem_append_left _ hp)

/-- the accepted substructures are pairwise distinct -/
theorem dedupSpec_nodup (past : List (List Nat)) (cands : List GShell) :
    ((dedupSpec past cands).map (·.sub)).Nodup := by
  induction cands generalizing past with
  | nil => simp [dedupSpec]
  | cons s rest ih =>
    unfold dedupSpec
    split
    · exact ih past
    · rw [List.map_cons, List.nodup_cons]
      refine ⟨?_, ih _⟩
      intro hm
      rcases List.mem_map.1 hm with ⟨x, hx, hxs⟩
      exact dedupSpec_not_past _ rest x hx (by rw [hxs]; simp)

/-- every candidate has its substructure in `past` or among the accepted ones -/
theorem dedupSpec_covers (past : List (List Nat)) (cands : List GShell) :
    ∀ x ∈ cands, x.sub ∈ past ++ (dedupSpec past cands).map (·.sub) := by
  induction cands generalizing past with
  | nil => intro x hx; cases hx
  | cons s rest ih =>
    intro x hx
    unfold dedupSpec
    split
    · rename_i hc
      rcases List.mem_cons.1 hx with rfl | hx
      · exact List.mem_append_left _ (by simpa using hc)
      · exact ih past x hx
    · rcases List.mem_cons.1 hx with rfl | hx
      · simp
      · have := ih (past ++ [s.sub]) x hx
        simp only [List.mem_append, List.map_cons, List.mem_cons,
          List.not_mem_nil, or_false] at this ⊢
        rcases this with (h | h) | h
        · exact Or.inl h
        · exact Or.inr (Or.inl h)
        · exact Or.inr (Or.inr h)

/-- `dedupSpec` only looks at which substructures are in `past` -/
theorem dedupSpec_congr (p₁ p₂ : List (List Nat)) (cands : List GShell) (h : ∀ x, x ∈ p₁ ↔ x ∈ p₂) :
    dedupSpec p₁ cands = dedupSpec p₂ cands := by
  induction cands generalizing p₁ p₂ with
  | nil => rfl
  | cons s rest ih =>
    unfold dedupSpec
    have hc : p₁.contains s.sub = p₂.contains s.sub := by
      rw [Bool.eq_iff_iff]; simp [h]
    rw [hc]
    split
    · exact ih _ _ h
    · rw [ih (p₁ ++ [s.sub]) (p₂ ++ [s.sub])]
      intro x; simp [h]

theorem dedupSpec_append (past : List (List Nat)) (pre post : List GShell) :
    dedupSpec past (pre ++ post)
      = dedupSpec past pre ++ dedupSpec (past ++ (dedupSpec past pre).map (·.sub)) post := by
  induction pre generalizing past with
  | nil => simp [dedupSpec]
  | cons s rest ih =>
    rw [List.cons_append]
    by_cases h : past.contains s.sub = true
    · rw [dedupSpec_cons_pos _ _ _ h, dedupSpec_cons_pos _ _ _ h]; exact ih past
    · rw [dedupSpec_cons_neg _ _ _ h, dedupSpec_cons_neg _ _ _ h, ih]; simp

theorem mem_past_dedupSpec (past : List (List Nat)) (pre : List GShell) (x : List Nat) :
    x ∈ past ++ (dedupSpec past pre).map (·.sub) ↔ x ∈ past ∨ x ∈ pre.map (·.sub) := by
  constructor
  · intro h
    rcases List.mem_append.1 h with h | h
    · exact Or.inl h
    · rcases List.mem_map.1 h with ⟨y, hy, rfl⟩
      exact Or.inr (List.mem_map.2 ⟨y, (dedupSpec_sublist _ _).subset hy, rfl⟩)
  · rintro (h | h)
    · exact List.mem_append_left _ h
    · rcases List.mem_map.1 h with ⟨y, hy, rfl⟩
      exact dedupSpec_covers past pre y hy

/-- first occurrence wins: the candidate at a given position is kept iff its substructure is neither
in `past` nor the substructure of an earlier candidate -/
theorem dedupSpec_first_occurrence (past : List (List Nat)) (pre : List GShell) (s : GShell)
    (post : List GShell) :
    dedupSpec past (pre ++ s :: post) =
      dedupSpec past pre
        ++ (if past.contains s.sub || pre.any (fun x => x.sub == s.sub) then [] else [s])
        ++ dedupSpec (past ++ (pre ++ [s]).map (·.sub)) post := by
  rw [dedupSpec_append]
  have hc : (past ++ (dedupSpec past pre).map (·.sub)).contains s.sub
      = (past.contains s.sub || pre.any (fun x => x.sub == s.sub)) := by
    rw [Bool.eq_iff_iff]
    simp only [List.contains_iff_mem, mem_past_dedupSpec, Bool.or_eq_true, List.any_eq_true,
      List.mem_map, beq_iff_eq]
  rw [List.append_assoc]
  congr 1
  by_cases h : (past ++ (dedupSpec past pre).map (·.sub)).contains s.sub = true
  · rw [dedupSpec_cons_pos _ _ _ h, ← hc, if_pos h, List.nil_append]
    apply dedupSpec_congr
    intro x
    rw [mem_past_dedupSpec]
    simp only [List.map_append, List.mem_append, List.map_cons, List.map_nil, List.mem_singleton]
    constructor
    · rintro (h' | h')
      · exact Or.inl h'
      · exact Or.inr (Or.inl h')
    · rintro (h' | h' | h')
      · exact Or.inl h'
      · exact Or.inr h'
      · subst h'
        exact (mem_past_dedupSpec _ _ _).1 (by simpa using h)
  · rw [dedupSpec_cons_neg _ _ _ h, ← hc, if_neg h]
    simp only [List.singleton_append, List.cons.injEq, true_and]
    apply dedupSpec_congr
    intro x
    simp only [List.mem_append, List.mem_singleton, List.map_append, List.map_cons, List.map_nil]
    rw [← List.mem_append, mem_past_dedupSpec]
    constructor
    · rintro ((h' | h') | h')
      · exact Or.inl h'
      · exact Or.inr (Or.inl h')
      · exact Or.inr (Or.inr h')
    · rintro (h' | h' | h')
      · exact Or.inl (Or.inl h')
      · exact Or.inl (Or.inr h')
      · exact Or.inr h'

/-! ## `sortByLt` -/

theorem insertBy_perm {β : Type} (lt : β → β → Bool) (x : β) (l : List β) :
    (insertBy lt x l).Perm (x :: l) := by
  induction l with
  | nil => exact List.Perm.refl _
  | cons y ys ih =>
    unfold insertBy
    split
    · exact List.Perm.refl _
    · exact ((List.Perm.cons y ih).trans (List.Perm.swap x y ys))

theorem sortByLt_perm {β : Type} (lt : β → β → Bool) (l : List β) : (sortByLt lt l).Perm l := by
  induction l with
  | nil => exact List.Perm.refl _
  | cons x xs ih =>
    have : sortByLt lt (x :: xs) = insertBy lt x (sortByLt lt xs) := rfl
    rw [this]
    exact (insertBy_perm lt x _).trans (List.Perm.cons x ih)

theorem mem_sortByLt {β : Type} (lt : β → β → Bool) (l : List β) (x : β) : x ∈ sortByLt lt l ↔ x ∈ l :=
  (sortByLt_perm lt l).mem_iff

/-- insertion sort sorts, for an asymmetric transitive `lt` -/
theorem sortByLt_sorted {β : Type} (lt : β → β → Bool)
    (hasym : ∀ a b, lt a b = true → lt b a = false)
    (htrans : ∀ a b c, lt a b = true → lt b c = true → lt a c = true) (l : List β) :
    (sortByLt lt l).Pairwise (fun a b => lt b a = false) := by
  induction l with
  | nil => exact List.Pairwise.nil
  | cons x xs ih =>
    have : sortByLt lt (x :: xs) = insertBy lt x (sortByLt lt xs) := rfl
    rw [this]
    generalize sortByLt lt xs = s at ih
    induction s with
    | nil => simp [insertBy]
    | cons y ys ih2 =>
      rw [List.pairwise_cons] at ih
      unfold insertBy
      split
      · rename_i hxy
        refine List.pairwise_cons.2 ⟨?_, List.pairwise_cons.2 ih⟩
        intro z hz
        rcases List.mem_cons.1 hz with rfl | hz
        · exact hasym _ _ hxy
        · cases hzx : lt z x with
          | false => rfl
          | true => have := htrans _ _ _ hzx hxy; rw [ih.1 z hz] at this; cases this
      · rename_i hxy
        refine List.pairwise_cons.2 ⟨?_, ih2 ih.2⟩
        intro z hz
        rcases List.mem_cons.1 ((insertBy_perm lt x ys).mem_iff.1 hz) with rfl | h
        · simpa using hxy
        · exact ih.1 z h

theorem ltShell_iff (a b : GShell) :
    ltShell a b = true ↔ a.ident < b.ident ∨ (a.ident = b.ident ∧ a.atom < b.atom) := by
  unfold ltShell; simp

/-- the candidates are ordered by (identifier, centre) -/
theorem sortByLt_ltShell_sorted (l : List GShell) :
    (sortByLt ltShell l).Pairwise
      (fun a b => a.ident < b.ident ∨ (a.ident = b.ident ∧ a.atom ≤ b.atom)) := by
  have h := sortByLt_sorted ltShell
    (by intro a b h; rw [ltShell_iff] at h
        cases hb : ltShell b a with
        | false => rfl
        | true => rw [ltShell_iff] at hb; omega)
    (by intro a b c h1 h2; rw [ltShell_iff] at *; omega) l
  refine h.imp ?_
  intro a b hab
  have : ¬ (ltShell b a = true) := by rw [hab]; simp
  rw [ltShell_iff] at this
  omega

/-! ## the level generators as folds appending one shell per atom -/

theorem foldl_pair_mem {σ : Type} (T : σ → Nat → σ) (S : σ → Nat → GShell) (P : GShell → Prop)
    (l : List Nat) (hS : ∀ t a, a ∈ l → P (S t a)) (t : σ) (acc : List GShell) (hacc : ∀ x ∈ acc, P x) :
    ∀ x ∈ (l.foldl (fun (p : σ × List GShell) a => (T p.1 a, p.2 ++ [S p.1 a])) (t, acc)).2, P x := by
  induction l generalizing t acc with
  | nil => exact hacc
  | cons a as ih =>
    rw [List.foldl_cons]
    apply ih (fun t b hb => hS t b (List.mem_cons_of_mem _ hb))
    intro x hx
    rcases List.mem_append.1 hx with hx | hx
    · exact hacc x hx
    · rw [List.mem_singleton] at hx; subst hx; exact hS _ _ (by simp)

theorem foldl_pair_atoms {σ : Type} (T : σ → Nat → σ) (S : σ → Nat → GShell)
    (hS : ∀ t a, (S t a).atom = a) (l : List Nat) (t : σ) (acc : List GShell) :
    (l.foldl (fun (p : σ × List GShell) a => (T p.1 a, p.2 ++ [S p.1 a])) (t, acc)).2.map (·.atom)
      = acc.map (·.atom) ++ l := by
  induction l generalizing t acc with
  | nil => simp
  | cons a as ih =>
    rw [List.foldl_cons, ih]; simp [hS]

/-- the neighbours of `a` at level `k` -/
def nbOf (o : Opts) (m : MolG) (g : Geo) (atoms : List Nat) (k a : Nat) : List Nat :=
  atoms.filter (fun b => b != a && g.within k a b && (o.includeDisconnected || bonded m a b))

/-- the shell `genLevel` appends for atom `a` when the intern table is `t` -/
def genShell (o : Opts) (m : MolG) (g : Geo) (atoms : List Nat) (prev : List GShell) (k : Nat)
    (t : Intern) (a : Nat) : GShell :=
  { atom := a
    sid := (intern t (a, uniq ((nbOf o m g atoms k a).map (fun b => (shellOf prev b).sid)))).2
    sub := uniq (a :: (nbOf o m g atoms k a).flatMap (fun b => (shellOf prev b).sub))
    nbrs := nbOf o m g atoms k a
    ident := shellIdent o m g prev k a (nbOf o m g atoms k a) }

theorem genLevel_eq (o : Opts) (m : MolG) (g : Geo) (atoms : List Nat) (prev : List GShell) (k : Nat)
    (t : Intern) :
    genLevel o m g atoms prev k t =
      atoms.foldl (fun (p : Intern × List GShell) a =>
        ((intern p.1 (a, uniq ((nbOf o m g atoms k a).map (fun b => (shellOf prev b).sid)))).1,
          p.2 ++ [genShell o m g atoms prev k p.1 a])) (t, []) := rfl

def gen0Shell (o : Opts) (m : MolG) (t : Intern) (a : Nat) : GShell :=
  { atom := a, sid := (intern t (a, [])).2, sub := [a], nbrs := [], ident := initIdent o m a }

theorem genLevel0_eq (o : Opts) (m : MolG) (atoms : List Nat) (t : Intern) :
    genLevel0 o m atoms t =
      atoms.foldl (fun (p : Intern × List GShell) a =>
        ((intern p.1 (a, [])).1, p.2 ++ [gen0Shell o m p.1 a])) (t, []) := rfl

theorem genLevel_atoms (o : Opts) (m : MolG) (g : Geo) (atoms : List Nat) (prev : List GShell) (k : Nat)
    (t : Intern) : (genLevel o m g atoms prev k t).2.map (·.atom) = atoms := by
  rw [genLevel_eq]
  exact foldl_pair_atoms
    (fun t a => (intern t (a, uniq ((nbOf o m g atoms k a).map (fun b => (shellOf prev b).sid)))).1)
    (genShell o m g atoms prev k) (fun _ _ => rfl) atoms t []

theorem genLevel_mem (o : Opts) (m : MolG) (g : Geo) (atoms : List Nat) (prev : List GShell) (k : Nat)
    (t : Intern) : ∀ x ∈ (genLevel o m g atoms prev k t).2,
      x.atom ∈ atoms ∧ ∃ t', x = genShell o m g atoms prev k t' x.atom := by
  rw [genLevel_eq]
  exact foldl_pair_mem
    (fun t a => (intern t (a, uniq ((nbOf o m g atoms k a).map (fun b => (shellOf prev b).sid)))).1)
    (genShell o m g atoms prev k)
    (fun x => x.atom ∈ atoms ∧ ∃ t', x = genShell o m g atoms prev k t' x.atom) atoms
    (fun t a ha => ⟨ha, t, rfl⟩) t [] (by intro x hx; cases hx)

theorem genLevel0_atoms (o : Opts) (m : MolG) (atoms : List Nat) (t : Intern) :
    (genLevel0 o m atoms t).2.map (·.atom) = atoms := by
  rw [genLevel0_eq]
  exact foldl_pair_atoms (fun t a => (intern t (a, [])).1) (gen0Shell o m) (fun _ _ => rfl) atoms t []

theorem genLevel0_mem (o : Opts) (m : MolG) (atoms : List Nat) (t : Intern) :
    ∀ x ∈ (genLevel0 o m atoms t).2, x.atom ∈ atoms ∧ ∃ t', x = gen0Shell o m t' x.atom := by
  rw [genLevel0_eq]
  exact foldl_pair_mem (fun t a => (intern t (a, [])).1) (gen0Shell o m)
    (fun x => x.atom ∈ atoms ∧ ∃ t', x = gen0Shell o m t' x.atom) atoms
    (fun t a ha => ⟨ha, t, rfl⟩) t [] (by intro x hx; cases hx)

theorem shellOf_mem_or_default (l : List GShell) (a : Nat) : shellOf l a ∈ l ∨ shellOf l a = default := by
  unfold shellOf
  cases h : l.find? (fun s => s.atom = a) with
  | none => exact Or.inr rfl
  | some x => exact Or.inl (List.mem_of_find?_eq_some h)

theorem shellOf_atom (l : List GShell) (a : Nat) (h : a ∈ l.map (·.atom)) :
    shellOf l a ∈ l ∧ (shellOf l a).atom = a := by
  unfold shellOf
  cases hf : l.find? (fun s => s.atom = a) with
  | none =>
    rcases List.mem_map.1 h with ⟨x, hx, hxa⟩
    have := List.find?_eq_none.1 hf x hx
    simp [hxa] at this
  | some x =>
    exact ⟨List.mem_of_find?_eq_some hf, by simpa using List.find?_some hf⟩


/-- the shells `stepState` accepts at the next level and the substructures seen afterwards -/
def stepAccepted (o : Opts) (m : MolG) (g : Geo) (atoms : List Nat) (s : FState) :
    List (List Nat) × List GShell :=
  let shells := (genLevel o m g atoms (s.gen.getLastD []) (s.currentLevel + 1) s.tbl).2
  if o.removeDup then dedupShells s.past (sortByLt ltShell shells) else (s.past, sortByLt ltShell shells)

theorem stepState_eq (o : Opts) (m : MolG) (g : Geo) (atoms : List Nat) (s : FState) :
    stepState o m g atoms s =
      if o.level ≠ -1 && (s.currentLevel : Int) ≥ o.level then none
      else if o.removeDup && (s.gen.getLastD []).all (fun x => x.sub.length == atoms.length) then none
      else
        let gl := genLevel o m g atoms (s.gen.getLastD []) (s.currentLevel + 1) s.tbl
        let da := stepAccepted o m g atoms s
        let ls := unionShells (s.levelShells.getLastD []) da.2
        if ls.length = (s.levelShells.getLastD []).length then none
        else some { tbl := gl.1, gen := s.gen ++ [gl.2], levelShells := s.levelShells ++ [ls], past := da.1 } := by
  unfold stepState stepAccepted
  cases o.removeDup <;> rfl

/-- what a successful step produces -/
theorem stepState_some (o : Opts) (m : MolG) (g : Geo) (atoms : List Nat) (s s' : FState)
    (h : stepState o m g atoms s = some s') :
    ¬ (o.level ≠ -1 ∧ (s.currentLevel : Int) ≥ o.level) ∧
    ¬ (o.removeDup = true ∧ (s.gen.getLastD []).all (fun x => x.sub.length == atoms.length) = true) ∧
    (unionShells (s.levelShells.getLastD []) (stepAccepted o m g atoms s).2).length
        ≠ (s.levelShells.getLastD []).length ∧
    s' = { tbl := (genLevel o m g atoms (s.gen.getLastD []) (s.currentLevel + 1) s.tbl).1,
           gen := s.gen ++ [(genLevel o m g atoms (s.gen.getLastD []) (s.currentLevel + 1) s.tbl).2],
           levelShells := s.levelShells ++
             [unionShells (s.levelShells.getLastD []) (stepAccepted o m g atoms s).2],
           past := (stepAccepted o m g atoms s).1 } := by
  rw [stepState_eq] at h
  split at h
  · cases h
  · rename_i h1
    split at h
    · cases h
    · rename_i h2
      simp only at h
      split at h
      · cases h
      · rename_i h3
        refine ⟨by simpa using h1, by simpa using h2, h3, ?_⟩
        exact (Option.some.inj h).symm

/-! ## `iterate` -/

theorem iterate_of_none (o : Opts) (m : MolG) (g : Geo) (atoms : List Nat) (n : Nat) (s : FState)
    (h : stepState o m g atoms s = none) : iterate o m g atoms n s = s := by
  cases n with
  | zero => rfl
  | succ n => simp [iterate, h]

theorem iterate_succ_some (o : Opts) (m : MolG) (g : Geo) (atoms : List Nat) (n : Nat) (s s' : FState)
    (h : stepState o m g atoms s = some s') : iterate o m g atoms (n + 1) s = iterate o m g atoms n s' := by
  simp [iterate, h]

theorem iterate_add (o : Opts) (m : MolG) (g : Geo) (atoms : List Nat) (a b : Nat) (s : FState) :
    iterate o m g atoms (a + b) s = iterate o m g atoms b (iterate o m g atoms a s) := by
  induction a generalizing s with
  | zero => simp [iterate]
  | succ a ih =>
    cases h : stepState o m g atoms s with
    | none => rw [iterate_of_none _ _ _ _ _ _ h, iterate_of_none _ _ _ _ _ _ h, iterate_of_none _ _ _ _ _ _ h]
    | some s' =>
      rw [show a + 1 + b = (a + b) + 1 by omega, iterate_succ_some _ _ _ _ _ _ _ h,
        iterate_succ_some _ _ _ _ _ _ _ h, ih]

/-- an invariant of `stepState` holds along `iterate` -/
theorem iterate_induction (o : Opts) (m : MolG) (g : Geo) (atoms : List Nat) (P : FState → Prop)
    (hstep : ∀ s s', P s → stepState o m g atoms s = some s' → P s') (n : Nat) (s : FState) (h : P s) :
    P (iterate o m g atoms n s) := by
  induction n generalizing s with
  | zero => exact h
  | succ n ih =>
    cases hs : stepState o m g atoms s with
    | none => rw [iterate_of_none _ _ _ _ _ _ hs]; exact h
    | some s' => rw [iterate_succ_some _ _ _ _ _ _ _ hs]; exact ih s' (hstep s s' h hs)

theorem stepAccepted_subset (o : Opts) (m : MolG) (g : Geo) (atoms : List Nat) (s : FState) :
    ∀ x ∈ (stepAccepted o m g atoms s).2,
      x ∈ (genLevel o m g atoms (s.gen.getLastD []) (s.currentLevel + 1) s.tbl).2 := by
  intro x hx
  unfold stepAccepted at hx
  cases hd : o.removeDup
  · simp only [hd] at hx
    exact (mem_sortByLt _ _ _).1 hx
  · simp only [hd, if_true, dedupShells_eq] at hx
    exact (mem_sortByLt _ _ _).1 ((dedupSpec_sublist _ _).subset hx)

theorem getLastD_mem_or_nil {α} (L : List (List α)) : L.getLastD [] ∈ L ∨ L.getLastD [] = [] := by
  cases L with
  | nil => exact Or.inr rfl
  | cons a l =>
    left
    rw [List.getLastD_eq_getLast?, List.getLast?_eq_some_getLast (by simp)]
    exact List.getLast_mem _

/-! ## `runFp` -/

/-- the fuel `runFp` gives the iteration -/
def runFuel (o : Opts) (atoms : List Nat) : Nat := if o.level = -1 then 2 ^ atoms.length + 1 else o.level.toNat

theorem runFp_ok_iff (o : Opts) (m : MolG) (g : Geo) (s : FState) :
    runFp o m g = .ok s ↔
      (o.level = -1 → o.removeDup = true) ∧ (∀ e ∈ m.bonds, e.2.2 ≠ 0) ∧ retained o m ≠ [] ∧
      s = iterate o m g (retained o m) (runFuel o (retained o m)) (initState o m (retained o m)) := by
  unfold runFp runFuel
  by_cases h1 : o.level = -1 ∧ o.removeDup = false
  · simp [h1.1, h1.2]
  · have h1' : (o.level = -1 && !o.removeDup) = false := by
      cases hr : o.removeDup <;> simp_all
    have h1'' : o.level = -1 → o.removeDup = true := by
      intro hl; cases hr : o.removeDup <;> simp_all
    rw [h1']
    by_cases h2 : m.bonds.any (fun e => e.2.2 = 0) = true
    · simp only [h2, if_true, Bool.false_eq_true, if_false]
      constructor
      · intro h; cases h
      · rintro ⟨_, hb, _⟩
        rcases List.any_eq_true.1 h2 with ⟨e, he, h0⟩
        exact absurd (by simpa using h0) (hb e he)
    · have hb : ∀ e ∈ m.bonds, e.2.2 ≠ 0 := by
        intro e he h0; apply h2; exact List.any_eq_true.2 ⟨e, he, by simpa using h0⟩
      simp only [h2, if_false, Bool.false_eq_true]
      by_cases h3 : retained o m = []
      · simp [h3]
      · simp only [h3, if_false]
        constructor
        · intro h; injection h with h; exact ⟨h1'', hb, h3, h.symm⟩
        · rintro ⟨_, _, _, h⟩; rw [h]

end E3fpVerif
