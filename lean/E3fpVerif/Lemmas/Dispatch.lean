import E3fpVerif.Model.MetricsDispatch
import E3fpVerif.Lemmas.FpRows
import E3fpVerif.Lemmas.Binary
import E3fpVerif.Lemmas.DbCols
import E3fpVerif.Lemmas.DbCast
/-!
# The dispatch of `metrics.__init__`: what the wrapper hands to the row measures

`checkItem` / `checkPair` / `metricDispatch` unfolded: a lone fingerprint next to a database becomes a
one-row database (`wrapDb`), databases are cast for the binary measures (`castRow`), and the result is
the matrix of `simRows` over `itemRows`.
-/
namespace E3fpVerif.C06L

/-- the kind each measure casts databases to (`fp_type=` in `_check_item_pair`) -/
def measureCast : Measure → Option Kind
  | .tanimoto | .dice => some .bit
  | _ => none

/-- `astype` on one stored row -/
def castRow (k : Kind) (r : Row) : Row := r.map (fun p => (p.1, castVal k p.2))

/-- the one-row database a lone fingerprint is wrapped into -/
def wrapDb (k : Kind) (f : Fp) : Db :=
  { fpType := k, level := f.level, name := none, array := some [fpRow k f], bits := f.bits,
    fpNames := [none], namesMap := [(none, [0])], props := [] }

theorem add_single (k : Kind) (f : Fp) :
    (Db.new k f.level none).add [⟨f, none, []⟩] = (wrapDb k f, none) := by
  simp [Db.add, Db.new, Db.badLevel, Db.badBits, Db.badProps, Db.expectedBits, Db.expectedProps,
    Db.fpNum, Db.addOk, wrapDb, updateNamesMap, mapAppend]

/-- a lone fingerprint next to a database: wrapped, never refused -/
theorem checkItem_fp_force (t : Option Kind) (f : Fp) :
    checkItem t true (.fp f) = .ok (.db (wrapDb (t.getD f.kind) f)) := by
  simp only [checkItem, if_true, add_single]

theorem checkItem_fp_noforce (t : Option Kind) (f : Fp) :
    checkItem t false (.fp f) = .ok (.fp f) := by
  simp [checkItem]

/-- the cast of a database can only be refused by `from_array`'s column-length check -/
def Castable (t : Option Kind) (d : Db) : Prop :=
  match t with
  | none => True
  | some k => k = d.fpType ∨ ∀ c ∈ d.props, c.2.length = d.fpNames.length

/-- the rows of a database as the measure sees them -/
def dbRows (t : Option Kind) (d : Db) : List Row :=
  match t with
  | none => d.array.getD []
  | some k => if k = d.fpType then d.array.getD [] else (d.array.getD []).map (castRow k)

/-- a database operand: kept, or cast; rows and length as `dbRows` says -/
theorem checkItem_db (t : Option Kind) (force : Bool) (d : Db) (a : List Row) (ha : d.array = some a)
    (hc : Castable t d) :
    ∃ d', checkItem t force (.db d) = .ok (.db d') ∧ d'.array = some (dbRows t d) ∧ d'.bits = d.bits := by
  cases t with
  | none => exact ⟨d, rfl, by simp [dbRows, ha], rfl⟩
  | some k =>
    by_cases hk : k = d.fpType
    · exact ⟨d, by simp [checkItem, hk], by simp [dbRows, hk, ha], rfl⟩
    · have hl : ∀ c ∈ d.props, c.2.length = d.fpNames.length := by
        rcases hc with h | h
        · exact absurd h hk
        · exact h
      have hfa := fromArray_ok a d.bits d.fpNames k d.level d.name d.props hl
      refine ⟨(Db.fromArray a d.bits d.fpNames k d.level d.name d.props).1, ?_, ?_, ?_⟩
      · simp only [checkItem, if_neg hk, Db.asType, ha]
        rw [hfa]; rfl
      · rw [hfa]; simp [dbRows, hk, ha, castRow]
      · rw [hfa]

/-- the rows an operand contributes to the matrix form -/
def itemRows (t : Option Kind) : Item → List Row
  | .fp f => [fpRow (t.getD f.kind) f]
  | .db d => dbRows t d

def ItemCastable (t : Option Kind) : Item → Prop
  | .fp _ => True
  | .db d => Castable t d

def _root_.E3fpVerif.Item.isDb : Item → Bool
  | .fp _ => false
  | .db _ => true

theorem checkItem_force (t : Option Kind) (it : Item) (n : Nat) (hn : it.bits = some n)
    (hc : ItemCastable t it) :
    ∃ d', checkItem t true it = .ok (.db d') ∧ d'.array = some (itemRows t it) ∧ d'.bits = n := by
  cases it with
  | fp f =>
    refine ⟨wrapDb (t.getD f.kind) f, checkItem_fp_force t f, rfl, ?_⟩
    simpa [Item.bits, wrapDb] using hn
  | db d =>
    cases ha : d.array with
    | none => simp [Item.bits, ha] at hn
    | some a =>
      obtain ⟨d', h1, h2, h3⟩ := checkItem_db t true d a ha hc
      refine ⟨d', h1, h2, ?_⟩
      rw [h3]; simpa [Item.bits, ha] using hn

/-- what the final `match` of `metricDispatch` does with a checked pair -/
def finish (m : Measure) : Item × Item → Except Err (Sum Sim (List (List Sim)))
  | (.fp f, .fp g) => .ok (.inl (simFp m f g))
  | (.db x, .db y) =>
    .ok (.inr ((x.array.getD []).map (fun r => (y.array.getD []).map (fun s => simRows m x.bits r s))))
  | _ => .error .type

theorem metricDispatch_eq (m : Measure) (a : Item) (b : Option Item) :
    metricDispatch m a b = (checkPair (measureCast m) a b).bind (finish m) := by
  cases m <;>
  · unfold metricDispatch
    simp only [bind, Except.bind, measureCast]
    cases checkPair _ a b with
    | error e => rfl
    | ok p =>
      obtain ⟨x, y⟩ := p
      cases x <;> cases y <;> rfl

theorem checkPair_matrix (t : Option Kind) (a b : Item) (n : Nat)
    (ha : a.bits = some n) (hb : b.bits = some n) (hdb : a.isDb = true ∨ b.isDb = true)
    (ca : ItemCastable t a) (cb : ItemCastable t b) :
    ∃ da db, checkPair t a (some b) = .ok (.db da, .db db) ∧
      da.array = some (itemRows t a) ∧ da.bits = n ∧ db.array = some (itemRows t b) ∧ db.bits = n := by
  obtain ⟨da, a1, a2, a3⟩ := checkItem_force t a n ha ca
  obtain ⟨db, b1, b2, b3⟩ := checkItem_force t b n hb cb
  refine ⟨da, db, ?_, a2, a3, b2, b3⟩
  have hne : ¬ a.bits ≠ b.bits := by rw [ha, hb]; simp
  unfold checkPair
  simp only [bind, Except.bind, hne, if_false, pure, Except.pure]
  cases a with
  | db x => simp only [a1, b1]
  | fp f =>
    cases b with
    | db y => simp only [a1, b1]
    | fp g => simp [Item.isDb] at hdb

theorem checkPair_single_db (t : Option Kind) (d : Db) (n : Nat)
    (ha : (Item.db d).bits = some n) (ca : Castable t d) :
    ∃ da, checkPair t (.db d) none = .ok (.db da, .db da) ∧
      da.array = some (dbRows t d) ∧ da.bits = n := by
  obtain ⟨da, a1, a2, a3⟩ := checkItem_force t (.db d) n ha ca
  refine ⟨da, ?_, a2, a3⟩
  unfold checkPair
  simp only [bind, Except.bind, pure, Except.pure, a1]

theorem checkPair_single_fp (t : Option Kind) (f : Fp) :
    checkPair t (.fp f) none = .ok (.fp f, .fp f) := by
  unfold checkPair
  simp only [bind, Except.bind, pure, Except.pure, checkItem_fp_noforce]

/-- **the matrix forms**: as soon as one operand is a database the result is the matrix of the row
measure over the operands' rows (a lone fingerprint contributing its one wrapped row) -/
theorem metricDispatch_matrix (m : Measure) (a b : Item) (n : Nat)
    (ha : a.bits = some n) (hb : b.bits = some n) (hdb : a.isDb = true ∨ b.isDb = true)
    (ca : ItemCastable (measureCast m) a) (cb : ItemCastable (measureCast m) b) :
    metricDispatch m a (some b) =
      .ok (.inr ((itemRows (measureCast m) a).map (fun r =>
        (itemRows (measureCast m) b).map (fun s => simRows m n r s)))) := by
  obtain ⟨da, db, h, a2, a3, b2, _⟩ := checkPair_matrix (measureCast m) a b n ha hb hdb ca cb
  rw [metricDispatch_eq, h]
  simp only [Except.bind, finish, a2, a3, b2, Option.getD_some]

theorem metricDispatch_single_db (m : Measure) (d : Db) (a : List Row) (ha : d.array = some a)
    (ca : Castable (measureCast m) d) :
    metricDispatch m (.db d) none =
      .ok (.inr ((dbRows (measureCast m) d).map (fun r =>
        (dbRows (measureCast m) d).map (fun s => simRows m d.bits r s)))) := by
  obtain ⟨da, h, a2, a3⟩ := checkPair_single_db (measureCast m) d d.bits (by simp [Item.bits, ha]) ca
  rw [metricDispatch_eq, h]
  simp only [Except.bind, finish, a2, a3, Option.getD_some]

theorem metricDispatch_single_fp (m : Measure) (f : Fp) :
    metricDispatch m (.fp f) none = .ok (.inl (simFp m f f)) := by
  rw [metricDispatch_eq, checkPair_single_fp]; rfl

/-! ## the row of a fingerprint in a database of kind `k` -/

/-- `f` is stored without loss in a matrix of kind `k` (`astype` changes none of its counts) -/
def StoredAs (k : Kind) (f : Fp) : Prop := ∀ i ∈ f.idx, castVal k (f.count i) = f.count i

/-- no explicit zero count on the indices -/
def NoZero (f : Fp) : Prop := ∀ i ∈ f.idx, f.count i ≠ 0

/-- non-negative counts -/
def NonnegFp (f : Fp) : Prop := ∀ i ∈ f.idx, 0 ≤ f.count i

/-- the all-ones row on the indices of `f` -/
def onesRow (f : Fp) : Row := f.idx.map (fun i => (i, (1 : Rat)))

theorem fpRow_cols (k : Kind) (f : Fp) : (fpRow k f).map Prod.fst = f.idx := by
  unfold fpRow
  rw [List.map_map]
  exact List.map_id'' (fun _ => rfl) _

theorem sortedRow_fpRow (k : Kind) (f : Fp) (hf : f.WF) : SortedRow (fpRow k f) := by
  unfold SortedRow; rw [fpRow_cols]; exact hf.1

theorem fpRow_eq_cntRow (k : Kind) (f : Fp) (h : StoredAs k f) : fpRow k f = cntRow f := by
  unfold fpRow cntRow
  exact List.map_congr_left (fun i hi => by rw [h i hi])

theorem fpRow_bit_eq_ones (f : Fp) (h : NoZero f) : fpRow .bit f = onesRow f := by
  unfold fpRow onesRow
  exact List.map_congr_left (fun i hi => by simp [castVal, h i hi])

theorem castRow_fpRow (k' k : Kind) (f : Fp) :
    castRow k' (fpRow k f) = f.idx.map (fun i => (i, castVal k' (castVal k (f.count i)))) := by
  unfold castRow fpRow
  rw [List.map_map]; rfl

theorem castRow_bit_fpRow_eq_ones (k : Kind) (f : Fp) (hs : StoredAs k f) (h : NoZero f) :
    castRow .bit (fpRow k f) = onesRow f := by
  rw [castRow_fpRow]
  unfold onesRow
  exact List.map_congr_left (fun i hi => by rw [hs i hi]; simp [castVal, h i hi])

/-- bit and float fingerprints are stored without loss in a database of their own kind; a count
fingerprint is when its counts are integers (the constructors make them so) -/
theorem storedAs_own_bit (f : Fp) (h : f.kind = .bit) : StoredAs f.kind f := by
  intro i hi
  rw [h]
  simp [castVal, Fp.count, h, hi]

theorem storedAs_own_float (f : Fp) (h : f.kind = .float) : StoredAs f.kind f := by
  intro i _; rw [h]; rfl

theorem storedAs_own_count (f : Fp) (h : f.kind = .count)
    (hint : ∀ i ∈ f.idx, ∃ n : Int, f.count i = (n : Rat)) : StoredAs f.kind f := by
  intro i hi
  rw [h]
  exact (castVal_count_stable _).2 (hint i hi)

theorem storedAs_float (f : Fp) : StoredAs .float f := fun _ _ => rfl

theorem noZero_bit (f : Fp) (h : f.kind = .bit) : NoZero f := by
  intro i hi; simp [Fp.count, h, hi]

theorem nonneg_bit (f : Fp) (h : f.kind = .bit) : NonnegFp f := by
  intro i hi; simp only [Fp.count, h, hi, if_true]; decide

theorem nonnegRow_cntRow (f : Fp) (h : NonnegFp f) : NonnegRow (cntRow f) := by
  intro p hp
  unfold cntRow at hp
  obtain ⟨i, hi, rfl⟩ := List.mem_map.1 hp
  exact h i hi

theorem sortedRow_cntRow (f : Fp) (hf : f.WF) : SortedRow (cntRow f) := by
  unfold SortedRow; rw [cntRow_cols]; exact hf.1

/-! ## the constructors produce fingerprints that their own kind stores without loss -/

theorem storedAs_mapped (k : Kind) (hk : k ≠ .bit) (b : Nat) (l : Int) (u : List Nat) (h : Nat → Rat) :
    StoredAs k ⟨k, b, l, u, u.map (fun i => (i, coerce k (h i)))⟩ := by
  intro i hi
  have hc : (Fp.count ⟨k, b, l, u, u.map (fun i => (i, coerce k (h i)))⟩ i) = coerce k (h i) := by
    have : Fp.count ⟨k, b, l, u, u.map (fun i => (i, coerce k (h i)))⟩ i
        = rowVal (u.map (fun i => (i, coerce k (h i)))) i := by
      cases k with
      | bit => exact absurd rfl hk
      | count => rfl
      | float => rfl
    rw [this, rowVal_map, if_pos hi]
  rw [hc]
  cases k with
  | bit => exact absurd rfl hk
  | count => exact truncQ_idem _
  | float => rfl

theorem mkCount_storedAs (k : Kind) (hk : k ≠ .bit) (ix : Option (List Nat)) (c : Option (List (Nat × Rat)))
    (b : Nat) (l : Int) (f : Fp) (h : mkCount k ix c b l = .ok f) : StoredAs f.kind f := by
  unfold mkCount at h
  split at h
  · cases h
  · split at h
    · cases h
    · cases h; exact storedAs_mapped k hk b l _ _
  · split at h
    · cases h
    · simp only at h
      split at h
      · cases h
      · split at h
        · cases h
        · cases h; exact storedAs_mapped k hk b l _ _
  · simp only at h
    split at h
    · cases h
    · cases h; exact storedAs_mapped k hk b l _ _

theorem mkBit_kind (ix : List Nat) (b : Nat) (l : Int) (f : Fp) (h : mkBit ix b l = .ok f) : f.kind = .bit := by
  unfold mkBit at h
  split at h
  · cases h
  · cases h; rfl

/-- every fingerprint made by `from_indices` (hence by every public constructor, which all go through
it or through `mkBit` / `mkCount`) is stored without loss in a database of its own kind -/
theorem fromIndices_storedAs (k : Kind) (ix : List Nat) (c : Option (List (Nat × Rat))) (b : Nat) (l : Int)
    (f : Fp) (h : fromIndices k ix c b l = .ok f) : StoredAs f.kind f := by
  cases k with
  | bit => exact storedAs_own_bit f (mkBit_kind ix b l f h)
  | count => exact mkCount_storedAs .count (by decide) _ _ b l f h
  | float => exact mkCount_storedAs .float (by decide) _ _ b l f h

/-! ## zero operands -/

/-- a similarity value that is 0 (for the root form: numerator and radicand both 0) -/
def _root_.E3fpVerif.Sim.IsZero : Sim → Prop
  | .q v => v = 0
  | .root n r => n = 0 ∧ r = 0

theorem dotQ_nil_left (y : Row) : dotQ [] y = 0 := by
  unfold dotQ
  have e : (unionCols [] y).map (fun i => rowVal [] i * rowVal y i) = (unionCols [] y).map (fun _ => (0 : Rat)) :=
    List.map_congr_left (fun k _ => by rw [rowVal_nil]; grind)
  rw [e, sumQ_map_zero]

theorem dotQ_nil_right (x : Row) : dotQ x [] = 0 := by
  unfold dotQ
  have e : (unionCols x []).map (fun i => rowVal x i * rowVal [] i) = (unionCols x []).map (fun _ => (0 : Rat)) :=
    List.map_congr_left (fun k _ => by rw [rowVal_nil]; grind)
  rw [e, sumQ_map_zero]

theorem rowSum_nil : rowSum [] = 0 := rfl

/-- an empty row scores 0 against every row, under every measure, on either side -/
theorem simRows_nil_left (m : Measure) (n : Nat) (y : Row) : (simRows m n [] y).IsZero := by
  cases m with
  | tanimoto =>
    show arrTanimoto [] y = 0
    unfold arrTanimoto Gen.arrTanimotoExpr Gen.divNan
    rw [dotQ_nil_left, rowSum_nil]; split <;> grind
  | dice =>
    show arrDice [] y = 0
    unfold arrDice Gen.arrDiceExpr Gen.divNan
    rw [dotQ_nil_left, rowSum_nil]; split <;> grind
  | soergel => show arrSoergelSparse [] y = 0; simp [arrSoergelSparse]
  | cosine =>
    show (arrCosine [] y).1 = 0 ∧ (arrCosine [] y).2 = 0
    unfold arrCosine; simp only [dotQ_nil_left]; constructor <;> grind
  | pearson =>
    show (arrPearson n [] y).1 = 0 ∧ (arrPearson n [] y).2 = 0
    unfold arrPearson; simp only [dotQ_nil_left, rowSum_nil]; constructor <;> grind

theorem simRows_nil_right (m : Measure) (n : Nat) (x : Row) : (simRows m n x []).IsZero := by
  cases m with
  | tanimoto =>
    show arrTanimoto x [] = 0
    unfold arrTanimoto Gen.arrTanimotoExpr Gen.divNan
    rw [dotQ_nil_right, rowSum_nil]; split <;> grind
  | dice =>
    show arrDice x [] = 0
    unfold arrDice Gen.arrDiceExpr Gen.divNan
    rw [dotQ_nil_right, rowSum_nil]; split <;> grind
  | soergel => show arrSoergelSparse x [] = 0; simp [arrSoergelSparse]
  | cosine =>
    show (arrCosine x []).1 = 0 ∧ (arrCosine x []).2 = 0
    unfold arrCosine; simp only [dotQ_nil_right]; constructor <;> grind
  | pearson =>
    show (arrPearson n x []).1 = 0 ∧ (arrPearson n x []).2 = 0
    unfold arrPearson; simp only [dotQ_nil_right, rowSum_nil]; constructor <;> grind

theorem fpRow_of_empty (k : Kind) (f : Fp) (h : f.idx = []) : fpRow k f = [] := by
  simp [fpRow, h]

/-! ## 0/1-valued rows with explicit zeros (what the bit cast produces) -/

/-- every stored value is 0 or 1 -/
def ZeroOne (r : Row) : Prop := ∀ p ∈ r, p.2 = 0 ∨ p.2 = 1

theorem rowVal_zero_or_mem (r : Row) (k : Nat) : rowVal r k = 0 ∨ (k, rowVal r k) ∈ r := by
  induction r with
  | nil => left; rfl
  | cons p ps ih =>
    obtain ⟨i, v⟩ := p
    by_cases e : i = k
    · subst e; right; rw [rowVal_cons_self]; exact List.mem_cons_self ..
    · rw [rowVal_cons_ne i k v ps e]
      rcases ih with h | h
      · left; exact h
      · right; exact List.mem_cons_of_mem _ h

theorem mem_rowSupport (r : Row) (k : Nat) : k ∈ rowSupport r ↔ rowVal r k ≠ 0 := by
  unfold rowSupport
  simp only [List.mem_filter, decide_eq_true_eq]
  constructor
  · exact fun h => h.2
  · intro h
    refine ⟨?_, h⟩
    apply Classical.byContradiction
    intro hn
    exact h (rowVal_of_not_mem r k (fun hm => hn ((mem_rowCols r k).2 hm)))

theorem strictAsc_rowSupport' (r : Row) : StrictAsc (rowSupport r) :=
  strictAsc_filter (strictAsc_rowCols r) _

theorem rowVal_zeroOne (r : Row) (h : ZeroOne r) (k : Nat) :
    rowVal r k = indQ (decide (k ∈ rowSupport r)) := by
  by_cases hk : rowVal r k = 0
  · have : k ∉ rowSupport r := fun hm => (mem_rowSupport r k).1 hm hk
    simp [indQ, this, hk]
  · have hm : k ∈ rowSupport r := (mem_rowSupport r k).2 hk
    rcases rowVal_zero_or_mem r k with h0 | hmem
    · exact absurd h0 hk
    · rcases h _ hmem with h0 | h1
      · exact absurd h0 hk
      · simp only at h1; simp [indQ, hm, h1]

theorem rowSupport_sub_cols (r : Row) : ∀ i ∈ rowSupport r, i ∈ rowCols r := by
  intro i hi; unfold rowSupport at hi; exact (List.mem_filter.1 hi).1

theorem dotQ_zeroOne (x y : Row) (hx : ZeroOne x) (hy : ZeroOne y) :
    dotQ x y = (interCount (rowSupport x) (rowSupport y) : Nat) := by
  unfold dotQ
  have e : (unionCols x y).map (fun i => rowVal x i * rowVal y i)
      = (unionCols x y).map (fun i => indQ (decide (i ∈ rowSupport x) && decide (i ∈ rowSupport y))) :=
    List.map_congr_left (fun k _ => by rw [rowVal_zeroOne x hx, rowVal_zeroOne y hy, indQ_mul])
  rw [e, sumQ_map_indQ (unionCols x y) (fun i => decide (i ∈ rowSupport x) && decide (i ∈ rowSupport y)),
    interCount_eq_filter _ _ _ (strictAsc_unionCols x y) (strictAsc_rowSupport' x)
      (fun i hi => rowCols_sub_union_left x y i (rowSupport_sub_cols x i hi))]

theorem rowSum_zeroOne (x : Row) (hx : ZeroOne x) : rowSum x = ((rowSupport x).length : Nat) := by
  unfold rowSum
  have e : (rowCols x).map (rowVal x) = (rowCols x).map (fun i => indQ (decide (i ∈ rowSupport x))) :=
    List.map_congr_left (fun k _ => rowVal_zeroOne x hx k)
  rw [e, sumQ_map_indQ, filter_mem_eq _ _ (strictAsc_rowCols x) (strictAsc_rowSupport' x)
    (rowSupport_sub_cols x)]

/-- matrix Tanimoto = definition on 0/1 rows, explicit zeros, any order, duplicates allowed -/
theorem arrTanimoto_zeroOne (x y : Row) (hx : ZeroOne x) (hy : ZeroOne y) :
    arrTanimoto x y = tanimotoDef x y := by
  unfold arrTanimoto tanimotoDef Gen.arrTanimotoExpr divNan Gen.divNan
  rw [dotQ_zeroOne x y hx hy, rowSum_zeroOne x hx, rowSum_zeroOne y hy]
  simp only
  rw [natCast_sub_of_le _ _ (Nat.le_trans (interCount_le_left _ _) (Nat.le_add_right _ _)),
    Rat.natCast_add]

theorem arrDice_zeroOne (x y : Row) (hx : ZeroOne x) (hy : ZeroOne y) :
    arrDice x y = diceDef x y := by
  unfold arrDice diceDef Gen.arrDiceExpr divNan Gen.divNan
  rw [dotQ_zeroOne x y hx hy, rowSum_zeroOne x hx, rowSum_zeroOne y hy]
  simp only [Rat.natCast_add]

theorem castVal_zero (k : Kind) : castVal k 0 = 0 := by
  cases k with
  | bit => simp [castVal]
  | count => exact truncQ_intCast 0
  | float => rfl

theorem rowVal_castRow (k : Kind) (r : Row) (i : Nat) : rowVal (castRow k r) i = castVal k (rowVal r i) := by
  induction r with
  | nil => exact (castVal_zero k).symm
  | cons p ps ih =>
    obtain ⟨j, v⟩ := p
    by_cases e : j = i
    · subst e
      show rowVal ((j, castVal k v) :: castRow k ps) j = _
      rw [rowVal_cons_self, rowVal_cons_self]
    · show rowVal ((j, castVal k v) :: castRow k ps) i = _
      rw [rowVal_cons_ne j i _ _ e, rowVal_cons_ne j i _ _ e, ih]

theorem rowCols_castRow (k : Kind) (r : Row) : rowCols (castRow k r) = rowCols r := by
  unfold rowCols castRow
  rw [List.map_map]; rfl

theorem castVal_bit_ne_zero (v : Rat) : castVal .bit v ≠ 0 ↔ v ≠ 0 := by
  by_cases h : v = 0 <;> simp [castVal, h]

/-- the bit cast keeps the support -/
theorem rowSupport_castRow_bit (r : Row) : rowSupport (castRow .bit r) = rowSupport r := by
  apply strictAsc_ext _ _ (strictAsc_rowSupport' _) (strictAsc_rowSupport' _)
  intro i
  rw [mem_rowSupport, mem_rowSupport, rowVal_castRow, castVal_bit_ne_zero]

theorem zeroOne_castRow_bit (r : Row) : ZeroOne (castRow .bit r) := by
  intro p hp
  unfold castRow at hp
  obtain ⟨q, _, rfl⟩ := List.mem_map.1 hp
  by_cases h : q.2 = 0 <;> simp [castVal, h]

theorem tanimotoDef_castBit (x y : Row) : tanimotoDef (castRow .bit x) (castRow .bit y) = tanimotoDef x y := by
  unfold tanimotoDef; simp only [rowSupport_castRow_bit]

theorem diceDef_castBit (x y : Row) : diceDef (castRow .bit x) (castRow .bit y) = diceDef x y := by
  unfold diceDef; simp only [rowSupport_castRow_bit]

/-- **matrix Tanimoto after the bit cast = the definition on the supports of the rows as stored**,
for arbitrary rows -/
theorem arrTanimoto_castBit (x y : Row) :
    arrTanimoto (castRow .bit x) (castRow .bit y) = tanimotoDef x y := by
  rw [arrTanimoto_zeroOne _ _ (zeroOne_castRow_bit x) (zeroOne_castRow_bit y), tanimotoDef_castBit]

theorem arrDice_castBit (x y : Row) :
    arrDice (castRow .bit x) (castRow .bit y) = diceDef x y := by
  rw [arrDice_zeroOne _ _ (zeroOne_castRow_bit x) (zeroOne_castRow_bit y), diceDef_castBit]

theorem fpRow_bit_eq_castRow (f : Fp) : fpRow .bit f = castRow .bit (cntRow f) := by
  unfold fpRow castRow cntRow
  rw [List.map_map]; rfl

theorem fpRow_eq_castRow (k : Kind) (f : Fp) : fpRow k f = castRow k (cntRow f) := by
  unfold fpRow castRow cntRow
  rw [List.map_map]; rfl

/-- decidable equality on `Except`, for closed witnesses (`decide +kernel`) -/
@[reducible] def decEqExcept {ε α : Type} [DecidableEq ε] [DecidableEq α] : DecidableEq (Except ε α)
  | .ok a, .ok b => if h : a = b then isTrue (by rw [h]) else isFalse (by intro e; cases e; exact h rfl)
  | .error a, .error b => if h : a = b then isTrue (by rw [h]) else isFalse (by intro e; cases e; exact h rfl)
  | .ok _, .error _ => isFalse (by intro e; cases e)
  | .error _, .ok _ => isFalse (by intro e; cases e)

end E3fpVerif.C06L
