import E3fpVerif.Lemmas.DbHist
import E3fpVerif.Props.C16
/-!
# Every database operation refines its list-of-rows specification

One lemma per operation of `Model/DbHist.lean`: the abstraction `Db.spec` of the result of the
operational model equals the result of the specification on the abstraction of the operands, for
operands satisfying the representation invariant `Db.Inv`.  `Props/C05Hist.lean` lifts these to
pools and histories.
-/
namespace E3fpVerif
open E3fpVerif.Props

theorem new_spec (k : Kind) (l : Int) (n : Option String) : (Db.new k l n).spec = SDb.new k l n := rfl

theorem spec_rows_length (db : Db) : db.spec.rows.length = db.fpNum := absRows_length db

theorem spec_bits_getD (db : Db) (h : db.fpNum > 0) : db.spec.bits.getD 0 = db.bits := by
  unfold Db.fpNum at h
  cases ha : db.array with
  | none => simp [ha] at h
  | some a => simp [Db.spec, ha]

theorem spec_expectedBits (db : Db) (fps : List FpIn) : db.spec.expectedBits fps = db.expectedBits fps := by
  unfold SDb.expectedBits Db.expectedBits
  rw [spec_rows_length]
  by_cases h : db.fpNum > 0
  · simp only [h, if_true]; exact spec_bits_getD db h
  · simp only [h, if_false]

theorem spec_expectedKeys_mem (db : Db) (fps : List FpIn) (k : String) :
    k ∈ db.spec.expectedKeys fps ↔ k ∈ db.expectedProps fps := by
  unfold SDb.expectedKeys Db.expectedProps
  rw [spec_rows_length]
  have e : (db.spec.keys ≠ []) ↔ (db.props ≠ []) := by
    simp [Db.spec]
  by_cases h : db.fpNum > 0 ∨ db.props ≠ []
  · have h' : db.fpNum > 0 ∨ db.spec.keys ≠ [] := by rwa [e]
    simp only [h, h', if_true]; rfl
  · have h' : ¬ (db.fpNum > 0 ∨ db.spec.keys ≠ []) := by rwa [e]
    simp only [h, h', if_false]
    exact mem_dedupKeys _ k

theorem any_congr_mem {α : Type} (l1 l2 : List α) (p : α → Bool) (h : ∀ k, k ∈ l1 ↔ k ∈ l2) :
    l1.any p = l2.any p := by
  rw [Bool.eq_iff_iff]
  simp only [List.any_eq_true, h]

theorem spec_badProps (db : Db) (fps : List FpIn) :
    fps.any (fun f => (db.spec.expectedKeys fps).any (fun k => (propLookup f.props k).isNone)) = db.badProps fps := by
  unfold Db.badProps
  congr 1
  funext f
  exact any_congr_mem _ _ _ (spec_expectedKeys_mem db fps)

/-- the cells a batch contributes to column `k` -/
def batchCol (fps : List FpIn) (k : String) : List PVal := fps.map (fun f => (propLookup f.props k).getD (.int 0))

theorem addOk_props_cases (db : Db) (fps : List FpIn) (h : db.Inv) :
    (db.fpNum > 0 ∨ db.props ≠ []) ∧ db.spec.expectedKeys fps = db.props.map Prod.fst ∧
        (db.addOk fps).props = db.props.map (fun c => (c.1, c.2 ++ batchCol fps c.1)) ∨
      db.fpNum = 0 ∧ db.props = [] ∧
        (db.addOk fps).props = (db.spec.expectedKeys fps).map (fun k => (k, batchCol fps k)) := by
  have hp := C05.addOk_props db fps h
  have e : (db.spec.keys ≠ []) ↔ (db.props ≠ []) := by simp [Db.spec]
  by_cases hc : db.fpNum > 0 ∨ db.props ≠ []
  · left
    have hc' : db.spec.rows.length > 0 ∨ db.spec.keys ≠ [] := by rwa [spec_rows_length, e]
    refine ⟨hc, ?_, ?_⟩
    · simp only [SDb.expectedKeys, hc', if_true]; rfl
    · rw [hp, if_pos hc]; rfl
  · right
    have hc' : ¬ (db.spec.rows.length > 0 ∨ db.spec.keys ≠ []) := by rwa [spec_rows_length, e]
    have h0 : db.fpNum = 0 := by
      have : ¬ db.fpNum > 0 := fun hh => hc (Or.inl hh)
      omega
    have hp0 : db.props = [] := by
      cases hpp : db.props with
      | nil => rfl
      | cons c r => exact absurd (Or.inr (by simp [hpp])) hc
    refine ⟨h0, hp0, ?_⟩
    rw [hp, if_neg hc]
    simp only [SDb.expectedKeys, hc', if_false]
    exact foldl_colSet_keys_nil _ _

theorem SDb.eq_of {a b : SDb} (h1 : a.kind = b.kind) (h2 : a.level = b.level) (h3 : a.name = b.name)
    (h4 : a.bits = b.bits) (h5 : a.keys = b.keys) (h6 : a.rows = b.rows) : a = b := by
  cases a; cases b; simp_all

/-- the row an accepted addition appends for one fingerprint -/
def addRow (k : Kind) (keys : List String) (f : FpIn) : SRow :=
  { cells := fpRow k f.fp, name := f.name, props := keys.map (fun k => (k, (propLookup f.props k).getD (.int 0))) }

theorem mkRows_batch (k : Kind) (keys : List String) (fps : List FpIn) :
    mkRows fps.length (fps.map (fun f => fpRow k f.fp)) (fps.map (·.name)) (keys.map (fun k => (k, batchCol fps k))) =
      fps.map (addRow k keys) := by
  apply mkRows_eq_map
  intro i hi
  simp only [mkRow, addRow, colsAt_map_keys, batchCol, List.getElem?_map, List.getElem?_eq_getElem hi,
    Option.map_some, Option.getD_some]
  congr 1
  exact filterMap_eq_map_of_some _ _ _ (fun _ _ => rfl)

theorem addOk_spec (db : Db) (fps : List FpIn) (h : db.Inv) :
    (db.addOk fps).spec =
      { db.spec with
          bits := some (db.spec.expectedBits fps), keys := db.spec.expectedKeys fps,
          rows := db.spec.rows ++ fps.map (addRow db.spec.kind (db.spec.expectedKeys fps)) } := by
  have hnum : (db.addOk fps).fpNum = db.fpNum + fps.length := by
    cases ha : db.array <;> simp [Db.addOk, Db.fpNum, ha]
  have hcl := h.col_length
  have hrows : (db.addOk fps).absRows = db.absRows ++ mkRows fps.length (fps.map (fun f => fpRow db.fpType f.fp))
      (fps.map (·.name)) ((db.spec.expectedKeys fps).map (fun k => (k, batchCol fps k))) := by
    rw [absRows_eq, absRows_eq, hnum]
    have harr : (db.addOk fps).array.getD [] = db.array.getD [] ++ fps.map (fun f => fpRow db.fpType f.fp) := rfl
    have hnm : (db.addOk fps).fpNames = db.fpNames ++ fps.map (·.name) := rfl
    rw [harr, hnm]
    apply mkRows_append _ _ _ _ _ _ _ _ _ (fpNum_eq db).symm h.names_length
    · intro i hi
      rcases addOk_props_cases db fps h with ⟨_, _, hp⟩ | ⟨h0, _, _⟩
      · rw [hp]
        unfold colsAt
        rw [List.filterMap_map]
        apply filterMap_congr_mem
        intro c hc
        have : i < c.2.length := by rw [hcl c hc]; exact hi
        simp [List.getElem?_append_left this]
      · omega
    · intro j hj
      rcases addOk_props_cases db fps h with ⟨_, hk, hp⟩ | ⟨h0, _, hp⟩
      · rw [hp, hk, List.map_map]
        unfold colsAt
        rw [List.filterMap_map, List.filterMap_map]
        apply filterMap_congr_mem
        intro c hc
        simp [List.getElem?_append_right, hcl c hc]
      · rw [hp, h0, Nat.zero_add]
  apply SDb.eq_of
  · rfl
  · rfl
  · rfl
  · show some (db.expectedBits fps) = some (db.spec.expectedBits fps)
    rw [spec_expectedBits]
  · show (db.addOk fps).props.map Prod.fst = db.spec.expectedKeys fps
    rcases addOk_props_cases db fps h with ⟨_, hk, hp⟩ | ⟨_, _, hp⟩
    · rw [hp, hk, List.map_map]; rfl
    · rw [hp, List.map_map]; simp [Function.comp_def]
  · show (db.addOk fps).absRows = db.absRows ++ _
    rw [hrows, mkRows_batch]
    rfl

theorem add_refines (db : Db) (fps : List FpIn) (h : db.Inv) :
    ((db.add fps).1.spec, (db.add fps).2) = db.spec.add fps := by
  unfold Db.add SDb.add
  rw [spec_badProps, spec_expectedBits]
  have e1 : fps.any (fun f => f.fp.level != db.spec.level) = db.badLevel fps := rfl
  have e2 : fps.any (fun f => f.fp.bits != db.expectedBits fps) = db.badBits fps := rfl
  rw [e1, e2]
  by_cases c0 : fps.isEmpty = true
  · simp [c0]
  · by_cases c1 : db.badLevel fps = true
    · simp [c0, c1]
    · by_cases c2 : db.badBits fps = true
      · simp [c0, c1, c2]
      · by_cases c3 : db.badProps fps = true
        · simp [c0, c1, c2, c3]
        · simp only [c0, c1, c2, c3, if_false, Bool.false_eq_true]
          rw [addOk_spec db fps h, spec_expectedBits]
          rfl

/-! ## `set_prop`, `update_props`, pickling -/

theorem setProp_refines (db : Db) (key : String) (vals : List PVal) (h : db.Inv) :
    ((db.setProp key vals).1.spec, (db.setProp key vals).2) = db.spec.setProp key vals := by
  unfold Db.setProp SDb.setProp
  rw [spec_rows_length, h.names_length]
  by_cases hl : vals.length ≠ db.fpNum
  · simp [hl]
  · have hl' : vals.length = db.fpNum := Decidable.not_not.1 hl
    simp only [hl, if_false]
    congr 1
    apply SDb.eq_of
    · rfl
    · rfl
    · rfl
    · rfl
    · exact colSet_keys db.props key vals
    · show mkRows db.fpNum (db.array.getD []) db.fpNames (colSet db.props key vals) =
        (db.absRows.zip vals).map (fun p => { p.1 with props := kvSet p.1.props key p.2 })
      apply List.ext_getElem
      · simp [mkRows_length, absRows_length, hl']
      · intro i h1 h2
        have hi : i < db.fpNum := by simpa [mkRows_length] using h1
        have hv : i < vals.length := by omega
        simp only [mkRows, absRows_eq, List.getElem_map, List.getElem_range, List.getElem_zip, mkRow]
        rw [colsAt_colSet db.props key vals i vals[i] (fun c hc => by rw [h.col_length c hc]; exact hi)
          (List.getElem?_eq_getElem hv)]

theorem setProp_ok (db : Db) (key : String) (vals : List PVal) (hl : vals.length = db.fpNames.length) :
    (db.setProp key vals).1 = { db with props := colSet db.props key vals } := by
  simp [Db.setProp, hl]

theorem updateProps_refines (db : Db) (cols : Cols) (h : db.Inv) :
    ((db.updateProps cols).1.spec, (db.updateProps cols).2) = db.spec.updateProps cols := by
  unfold Db.updateProps SDb.updateProps
  have e : db.badCols cols = cols.any (fun c => decide (c.2.length ≠ db.spec.rows.length)) := by
    unfold Db.badCols; rw [spec_rows_length, h.names_length]
  rw [← e]
  by_cases hb : db.badCols cols = true
  · simp [hb]
  · simp only [hb, if_false, Bool.false_eq_true]
    congr 1
    have hall : ∀ c ∈ cols, c.2.length = db.fpNames.length := by
      intro c hc
      have : db.badCols cols = false := by simpa using hb
      simp only [Db.badCols, List.any_eq_false] at this
      simpa using this c hc
    clear hb e
    induction cols generalizing db with
    | nil => rfl
    | cons c rest ih =>
      simp only [List.foldl_cons]
      have hc : c.2.length = db.fpNames.length := hall c (by simp)
      have e1 : ({ db with props := colSet db.props c.1 c.2 } : Db) = (db.setProp c.1 c.2).1 :=
        (setProp_ok db c.1 c.2 hc).symm
      have e2 : (db.spec.setProp c.1 c.2).1 = (db.setProp c.1 c.2).1.spec :=
        (congrArg Prod.fst (setProp_refines db c.1 c.2 h)).symm
      rw [e1, e2]
      apply ih _ (C05.setProp_inv db c.1 c.2 h)
      intro c' hc'
      rw [setProp_ok db c.1 c.2 hc]
      exact hall c' (by simp [hc'])

theorem pickle_refines (db : Db) (h : db.Inv) : db.pickleRoundTrip = db := by
  have e := h.canonical
  cases db
  simp_all [Db.pickleRoundTrip]

/-! ## `from_array` and the operations built on it -/

def exSpec : Except Err Db → Except Err SDb
  | .ok d => .ok d.spec
  | .error e => .error e

theorem castRow_eq (k : Kind) : (fun r : Row => r.map (fun p => (p.1, castVal k p.2))) = castRow k := rfl

theorem lastCol_getElem? (props : Cols) (key : String) (i : Nat) :
    (lastCol props key)[i]? = (props.reverse.find? (fun c => c.1 = key)).bind (fun c => c.2[i]?) := by
  unfold lastCol
  cases props.reverse.find? (fun c => c.1 = key) <;> simp

theorem fromArray_spec_ok (rows : List Row) (bits : Nat) (names : List (Option String)) (k : Kind) (level : Int)
    (name : Option String) (props : Cols) (h : ∀ c ∈ props, c.2.length = names.length) :
    SDb.fromArray rows bits names k level name props =
      .ok (Db.fromArray rows bits names k level name props).1.spec := by
  have hc : props.any (fun c => decide (c.2.length ≠ names.length)) = false := by
    simp only [List.any_eq_false]
    intro c hc; simp [h c hc]
  unfold SDb.fromArray
  rw [hc, fromArray_ok rows bits names k level name props h]
  simp only [Bool.false_eq_true, if_false]
  congr 1
  apply SDb.eq_of
  · rfl
  · rfl
  · rfl
  · rfl
  · show _ = (props.foldl (fun a c => colSet a c.1 c.2) []).map Prod.fst
    rw [foldl_colSet_nil, List.map_map]; simp [Function.comp_def]
  · show _ = mkRows (rows.map (fun r => r.map (fun p => (p.1, castVal k p.2)))).length _ names
      (props.foldl (fun a c => colSet a c.1 c.2) [])
    rw [List.length_map, foldl_colSet_nil]
    unfold mkRows
    apply List.map_congr_left
    intro i hi
    have hi' : i < rows.length := List.mem_range.1 hi
    simp only [mkRow, colsAt_map_keys, lastCol_getElem?]
    congr 1
    simp [List.getElem?_eq_getElem hi', castRow]

theorem fromArray_spec_err (rows : List Row) (bits : Nat) (names : List (Option String)) (k : Kind) (level : Int)
    (name : Option String) (props : Cols) (h : ¬ ∀ c ∈ props, c.2.length = names.length) :
    SDb.fromArray rows bits names k level name props = .error .value ∧
      (Db.fromArray rows bits names k level name props).2 = some .value := by
  have hc : props.any (fun c => decide (c.2.length ≠ names.length)) = true := by
    simp only [List.any_eq_true]
    have : ∃ c ∈ props, c.2.length ≠ names.length := by simpa using h
    obtain ⟨c, hc, hl⟩ := this
    exact ⟨c, hc, by simpa using hl⟩
  constructor
  · unfold SDb.fromArray; rw [hc]; rfl
  · cases hr : (Db.fromArray rows bits names k level name props).2 with
    | none => exact absurd ((fromArray_ok_iff rows bits names k level name props).1 hr) h
    | some e => rw [fromArray_errors rows bits names k level name props e hr]

/-- `from_array` on a database's own names and columns keeps them -/
theorem fromArray_self (db : Db) (h : db.Inv) (a' : List Row) (_hl : a'.length = db.fpNum) (bits : Nat) (k : Kind)
    (level : Int) (name : Option String) :
    Db.fromArray a' bits db.fpNames k level name db.props =
      ({ fpType := k, level := level, name := name, array := some (a'.map (castRow k)), bits := bits,
         fpNames := db.fpNames, namesMap := db.namesMap, props := db.props }, none) := by
  have hlen : ∀ c ∈ db.props, c.2.length = db.fpNames.length := fun c hc => by
    rw [h.col_length c hc, h.names_length]
  rw [fromArray_ok a' bits db.fpNames k level name db.props hlen, foldl_colSet_insert db.props h.keys_nodup,
    ← h.canonical]
  rfl

theorem spec_of_some (db : Db) (a : List Row) (ha : db.array = some a) :
    db.spec.bits = some db.bits ∧ db.fpNum = a.length ∧ db.absRows = mkRows a.length a db.fpNames db.props := by
  refine ⟨by simp [Db.spec, ha], by simp [Db.fpNum, ha], ?_⟩
  rw [absRows_eq]; simp [Db.fpNum, ha]

theorem asType_refines (db : Db) (k : Kind) (h : db.Inv) : exSpec (db.asType k) = db.spec.asType k := by
  unfold Db.asType SDb.asType
  cases ha : db.array with
  | none => simp [Db.spec, ha, exSpec]
  | some a =>
    obtain ⟨hb, hn, hr⟩ := spec_of_some db a ha
    rw [hb]
    simp only
    rw [fromArray_self db h a hn.symm]
    simp only [exSpec]
    congr 1
    apply SDb.eq_of
    · rfl
    · rfl
    · rfl
    · rfl
    · rfl
    · show mkRows (a.map (castRow k)).length (a.map (castRow k)) db.fpNames db.props = db.absRows.map _
      rw [List.length_map, mkRows_mapCells (castRow k) rfl, hr]

theorem savezLoad_refines (db : Db) (h : db.Inv) : exSpec db.savezLoad = db.spec.savezLoad := by
  unfold Db.savezLoad SDb.savezLoad
  cases ha : db.array with
  | none => simp [Db.spec, ha, exSpec]
  | some a =>
    obtain ⟨hb, hn, hr⟩ := spec_of_some db a ha
    rw [hb]
    simp only
    rw [fromArray_self db h a hn.symm]
    simp only [exSpec]
    congr 1
    apply SDb.eq_of
    · rfl
    · rfl
    · rfl
    · rfl
    · rfl
    · show mkRows (a.map (castRow db.fpType)).length (a.map (castRow db.fpType)) db.fpNames db.props = db.absRows.map _
      rw [List.length_map, mkRows_mapCells (castRow db.fpType) rfl, hr]
      rfl

theorem fold_refines (db : Db) (bits : Nat) (k : Option Kind) (newName : Option String) (h : db.Inv) :
    exSpec (db.fold bits k newName) = db.spec.fold bits k newName := by
  unfold Db.fold SDb.fold
  cases ha : db.array with
  | none => simp [Db.spec, ha, exSpec]
  | some a =>
    obtain ⟨hb, hn, hr⟩ := spec_of_some db a ha
    rw [hb]
    simp only
    by_cases c1 : bits > db.bits
    · simp [c1, exSpec]
    · by_cases c2 : (!isPow2Multiple db.bits bits) = true
      · simp only [c1, c2, if_true, if_false, exSpec]
      · have c2' : (!isPow2Multiple db.bits bits) = false := by simpa using c2
        simp only [c1, c2', if_false, Bool.false_eq_true]
        have e : (a.map (fun r => (sumDuplicates (r.map (fun p => (Gen.dbFoldIndex p.1 bits, p.2)))).map
            (fun p => (p.1, castVal db.fpType p.2)))) = a.map (foldCells db.fpType bits) := rfl
        rw [e, fromArray_self db h (a.map (foldCells db.fpType bits)) (by rw [List.length_map]; exact hn.symm)]
        simp only [exSpec]
        congr 1
        apply SDb.eq_of
        · rfl
        · rfl
        · rfl
        · rfl
        · rfl
        · show mkRows ((a.map (foldCells db.fpType bits)).map (castRow (k.getD db.fpType))).length
              ((a.map (foldCells db.fpType bits)).map (castRow (k.getD db.fpType))) db.fpNames db.props
            = db.absRows.map _
          rw [List.map_map, List.length_map,
            mkRows_mapCells (castRow (k.getD db.fpType) ∘ foldCells db.fpType bits) rfl, hr]
          rfl

/-! ## reads -/

theorem fprintAt_spec (db : Db) (i : Nat) (hi : i < db.fpNum) :
    db.fprintAt i = db.spec.rowFp (mkRow (db.array.getD []) db.fpNames db.props i) := by
  unfold Db.fprintAt SDb.rowFp
  cases ha : db.array with
  | none => simp [Db.fpNum, ha] at hi
  | some a =>
    have hia : i < a.length := by simpa [Db.fpNum, ha] using hi
    simp only [List.getElem?_eq_getElem hia, mkRow, Db.spec, ha, Option.getD_some, Option.map_some, colsAt]
    cases fromSparse db.fpType a[i] db.bits db.level <;> rfl

theorem absRows_getElem? (db : Db) (i : Nat) (hi : i < db.fpNum) :
    db.absRows[i]? = some (mkRow (db.array.getD []) db.fpNames db.props i) := by
  rw [absRows_eq]
  simp [mkRows, hi]

theorem getIndex_spec (db : Db) (i : Int) : db.getIndex i = db.spec.getIndex i := by
  unfold Db.getIndex SDb.getIndex
  simp only [spec_rows_length]
  by_cases hc : i ≥ (db.fpNum : Int) ∨ i < -(db.fpNum : Int)
  · simp only [hc, if_true]
  · simp only [hc, if_false]
    have hlt : (if i < 0 then (i + (db.fpNum : Int)).toNat else i.toNat) < db.fpNum := by
      split <;> omega
    have hr : db.spec.rows = db.absRows := rfl
    rw [hr, absRows_getElem? db _ hlt]
    exact fprintAt_spec db _ hlt

theorem mapM_map_congr {α β γ ε : Type} (l : List α) (f : α → β) (g : β → Except ε γ) (g' : α → Except ε γ)
    (h : ∀ x ∈ l, g (f x) = g' x) : (l.map f).mapM g = l.mapM g' := by
  induction l with
  | nil => rfl
  | cons a l ih =>
    rw [List.map_cons, List.mapM_cons, List.mapM_cons, h a (by simp), ih (fun x hx => h x (by simp [hx]))]

theorem named_eq (db : Db) (nm : String) (h : db.Inv) :
    db.spec.named nm = (positions db.fpNames (some nm)).map (mkRow (db.array.getD []) db.fpNames db.props) := by
  show db.absRows.filter _ = _
  rw [absRows_eq, mkRows, List.filter_map, positions, h.names_length]
  congr 1
  apply List.filter_congr
  intro i _
  simp only [Function.comp_def]
  apply decide_eq_decide.2
  show (db.fpNames[i]?).getD none = some nm ↔ db.fpNames[i]? = some (some nm)
  cases hx : db.fpNames[i]? <;> simp

theorem getName_spec (db : Db) (nm : String) (h : db.Inv) : db.getName nm = db.spec.getName nm := by
  rw [C05.getName_rows db nm h]
  unfold SDb.getName
  rw [named_eq db nm h]
  symm
  apply mapM_map_congr
  intro i hi
  have : i < db.fpNum := by
    rw [← h.names_length]
    have := (mem_positions _ _ _).1 hi
    false_or_by_contra
    rename_i hcon
    rw [List.getElem?_eq_none (by omega)] at this
    cases this
  exact (fprintAt_spec db i this).symm

/-! ## `get_subset` -/

/-- the (row, name) pairs `get_subset` gathers -/
def subsetPairs (db : Db) (names : List String) : List (Nat × String) :=
  names.flatMap (fun nm => (positions db.fpNames (some nm)).map (fun i => (i, nm)))

theorem lookup_isNone (db : Db) (nm : String) (h : db.Inv) :
    (mapLookup db.namesMap (some nm)).isNone = (db.spec.named nm).isEmpty := by
  rw [named_eq db nm h, h.canonical, mapLookup_canonical]
  by_cases hm : some nm ∈ db.fpNames
  · have : positions db.fpNames (some nm) ≠ [] := fun e => (positions_eq_nil_iff _ _).1 e hm
    simp [hm, this]
  · have : positions db.fpNames (some nm) = [] := (positions_eq_nil_iff _ _).2 hm
    simp [hm, this]

theorem subset_pairs_eq (db : Db) (names : List String) (h : db.Inv) :
    names.flatMap (fun nm => ((mapLookup db.namesMap (some nm)).getD []).map (fun i => (i, nm))) =
      subsetPairs db names := by
  unfold subsetPairs
  rw [h.canonical]
  simp only [mapLookup_canonical_getD]

theorem subsetPairs_mem (db : Db) (names : List String) (p : Nat × String) (hp : p ∈ subsetPairs db names) :
    db.fpNames[p.1]? = some (some p.2) := by
  unfold subsetPairs at hp
  simp only [List.mem_flatMap, List.mem_map] at hp
  obtain ⟨nm, _, i, hi, rfl⟩ := hp
  exact (mem_positions _ _ _).1 hi

theorem subsetPairs_lt (db : Db) (names : List String) (h : db.Inv) (p : Nat × String)
    (hp : p ∈ subsetPairs db names) : p.1 < db.fpNum := by
  have := subsetPairs_mem db names p hp
  rw [← h.names_length]
  false_or_by_contra
  rename_i hcon
  rw [List.getElem?_eq_none (by omega)] at this
  cases this

theorem subsetPairs_isEmpty (db : Db) (names : List String)
    (hall : ∀ nm ∈ names, positions db.fpNames (some nm) ≠ []) :
    (subsetPairs db names).isEmpty = names.isEmpty := by
  cases names with
  | nil => rfl
  | cons nm rest =>
    have := hall nm (by simp)
    unfold subsetPairs
    cases hpn : positions db.fpNames (some nm) with
    | nil => exact absurd hpn this
    | cons i r => simp [hpn]

/-- the rows of the specification's subset, as a gather over the pairs -/
theorem spec_subset_rows (db : Db) (names : List String) (h : db.Inv) :
    names.flatMap (fun nm => (db.spec.named nm).map (fun r => { r with cells := castRow db.spec.kind r.cells })) =
      (subsetPairs db names).map (fun p =>
        let r := mkRow (db.array.getD []) db.fpNames db.props p.1
        { r with cells := castRow db.fpType r.cells }) := by
  unfold subsetPairs
  rw [List.map_flatMap]
  congr 1
  funext nm
  rw [named_eq db nm h, List.map_map, List.map_map]
  rfl

theorem subset_refines (db : Db) (names : List String) (newName : Option String) (h : db.Inv) :
    exSpec (db.subset names newName) = db.spec.subset names newName := by
  unfold Db.subset SDb.subset
  have e1 : names.any (fun nm => (mapLookup db.namesMap (some nm)).isNone) =
      names.any (fun nm => (db.spec.named nm).isEmpty) := by
    congr 1; funext nm; exact lookup_isNone db nm h
  rw [e1, subset_pairs_eq db names h]
  by_cases c1 : names.any (fun nm => (db.spec.named nm).isEmpty) = true
  · simp [c1, exSpec]
  · simp only [c1, if_false, Bool.false_eq_true]
    have hall : ∀ nm ∈ names, positions db.fpNames (some nm) ≠ [] := by
      intro nm hnm e
      apply c1
      rw [List.any_eq_true]
      refine ⟨nm, hnm, ?_⟩
      rw [named_eq db nm h, e]; rfl
    rw [subsetPairs_isEmpty db names hall]
    by_cases c2 : names.isEmpty = true
    · simp [c2, exSpec]
    · simp only [c2, if_false, Bool.false_eq_true]
      have hne : subsetPairs db names ≠ [] := by
        intro e
        have := subsetPairs_isEmpty db names hall
        rw [e] at this
        exact c2 this.symm
      generalize hps : subsetPairs db names = pairs at *
      have hlt : ∀ p ∈ pairs, p.1 < db.fpNum := by
        intro p hp; rw [← hps] at hp; exact subsetPairs_lt db names h p hp
      have hnm : ∀ p ∈ pairs, db.fpNames[p.1]? = some (some p.2) := by
        intro p hp; rw [← hps] at hp; exact subsetPairs_mem db names p hp
      have hpos : db.fpNum > 0 := by
        cases pairs with
        | nil => exact absurd rfl hne
        | cons p r => have := hlt p (by simp); omega
      -- the gathered columns
      have hcols : db.props.map (fun c => (c.1, pairs.filterMap (fun p => c.2[p.1]?))) =
          db.props.map (fun c => (c.1, pairs.map (fun p => (c.2[p.1]?).getD (.int 0)))) := by
        apply List.map_congr_left
        intro c hc
        congr 1
        apply filterMap_eq_map_of_some
        intro p hp
        have : p.1 < c.2.length := by rw [h.col_length c hc]; exact hlt p hp
        simp [List.getElem?_eq_getElem this]
      rw [hcols]
      have hlen : ∀ c ∈ db.props.map (fun c => (c.1, pairs.map (fun p => (c.2[p.1]?).getD (.int 0)))),
          c.2.length = (pairs.map (fun p => some p.2)).length := by
        intro c hc
        obtain ⟨c0, _, rfl⟩ := List.mem_map.1 hc
        simp
      have hnd : ((db.props.map (fun c => (c.1, pairs.map (fun p => (c.2[p.1]?).getD (.int 0))))).map Prod.fst).Nodup := by
        rw [List.map_map]; exact h.keys_nodup
      rw [fromArray_ok _ _ _ _ _ _ _ hlen, foldl_colSet_insert _ hnd]
      simp only [exSpec]
      congr 1
      apply SDb.eq_of
      · rfl
      · rfl
      · rfl
      · show some db.bits = some (db.spec.bits.getD 0)
        rw [spec_bits_getD db hpos]
      · show (db.props.map (fun c => (c.1, pairs.map (fun p => (c.2[p.1]?).getD (.int 0))))).map Prod.fst = _
        rw [List.map_map]; rfl
      · rw [spec_subset_rows db names h, hps]
        show mkRows ((pairs.map (fun p => ((db.array.getD [])[p.1]?).getD [])).map (castRow db.fpType)).length
          ((pairs.map (fun p => ((db.array.getD [])[p.1]?).getD [])).map (castRow db.fpType))
          (pairs.map (fun p => some p.2))
          (db.props.map (fun c => (c.1, pairs.map (fun p => (c.2[p.1]?).getD (.int 0))))) = _
        rw [List.length_map, List.length_map]
        apply mkRows_eq_map
        intro j hj
        have hp := List.getElem_mem hj
        simp only [mkRow, List.getElem?_map, List.getElem?_eq_getElem hj, Option.map_some, Option.getD_some,
          hnm _ hp]
        congr 1
        unfold colsAt
        rw [List.filterMap_map]
        apply filterMap_congr_mem
        intro c hc
        have : pairs[j].1 < c.2.length := by rw [h.col_length c hc]; exact hlt _ hp
        simp [List.getElem?_eq_getElem hj, List.getElem?_eq_getElem this]

/-! ## `concat` -/

/-- what an operand contributes to column `k` of a concatenation -/
def contrib (d : Db) (k : String) : List PVal := (colLookup d.props k).getD []

theorem contrib_length (d : Db) (hi : d.Inv) (k : String) :
    (contrib d k).length = if k ∈ d.props.map Prod.fst then d.fpNum else 0 := by
  unfold contrib
  by_cases hk : k ∈ d.props.map Prod.fst
  · obtain ⟨v, hv1, hv2⟩ := colLookup_of_mem_keys d.props k hk
    simp [hk, hv1, hi.col_length _ hv2]
  · simp [hk, colLookup_none_of_not_mem d.props k hk]

theorem concat_lengths (k : String) (dbs : List Db) (hi : ∀ d ∈ dbs, d.Inv) :
    (C16.concatCol dbs k).length ≤ (C16.concatRows dbs).length ∧
      ((C16.concatCol dbs k).length = (C16.concatRows dbs).length ↔
        ∀ d ∈ dbs, d.fpNum = 0 ∨ k ∈ d.props.map Prod.fst) := by
  induction dbs with
  | nil => simp [C16.concatCol, C16.concatRows]
  | cons d rest ih =>
    obtain ⟨ih1, ih2⟩ := ih (fun d hd => hi d (by simp [hd]))
    have hc := contrib_length d (hi d (by simp)) k
    have hr : (d.array.getD []).length = d.fpNum := (fpNum_eq d).symm
    unfold contrib at hc
    simp only [C16.concatCol, C16.concatRows, List.flatMap_cons, List.length_append] at ih1 ih2 ⊢
    rw [hc, hr]
    simp only [List.mem_cons, forall_eq_or_imp]
    by_cases hk : k ∈ d.props.map Prod.fst
    · simp only [hk, if_true, or_true, true_and]
      refine ⟨by omega, ?_⟩
      rw [← ih2]; omega
    · simp only [hk, if_false, or_false]
      refine ⟨by omega, ?_⟩
      rw [← ih2]; omega

theorem concatKeysS_eq (dbs : List Db) : concatKeysS (dbs.map Db.spec) = C16.concatKeys dbs := by
  simp only [concatKeysS, C16.concatKeys, List.foldl_map, Db.spec]

/-- every operand that has rows provides every key of `K` -/
def Full (K : List String) (dbs : List Db) : Prop :=
  ∀ d ∈ dbs, ∀ k ∈ K, d.fpNum = 0 ∨ k ∈ d.props.map Prod.fst

theorem model_check_iff (dbs : List Db) (hi : ∀ d ∈ dbs, d.Inv) (K : List String) :
    K.any (fun k => decide ((C16.concatCol dbs k).length ≠ (C16.concatRows dbs).length)) = false ↔ Full K dbs := by
  simp only [List.any_eq_false, decide_eq_true_eq, ne_eq, Decidable.not_not]
  constructor
  · intro h d hd k hk
    exact (concat_lengths k dbs hi).2.1 (h k hk) d hd
  · intro h k hk
    exact (concat_lengths k dbs hi).2.2 (fun d hd => h d hd k hk)

theorem spec_check_iff (dbs : List Db) (K : List String) :
    (dbs.map Db.spec).any (fun d => !d.rows.isEmpty && K.any (fun k => !d.keys.contains k)) = false ↔ Full K dbs := by
  simp only [List.any_eq_false, List.mem_map, forall_exists_index, and_imp, forall_apply_eq_imp_iff₂]
  unfold Full
  apply forall_congr'
  intro d
  apply forall_congr'
  intro hd
  have e : d.spec.rows.isEmpty = true ↔ d.fpNum = 0 := by
    rw [List.isEmpty_iff, ← List.length_eq_zero_iff]
    show d.absRows.length = 0 ↔ _
    rw [absRows_length]
  by_cases h0 : d.fpNum = 0
  · simp [e.2 h0, h0]
  · have : d.spec.rows.isEmpty = false := by
      cases hb : d.spec.rows.isEmpty
      · rfl
      · exact absurd (e.1 hb) h0
    have hk : d.spec.keys = d.props.map Prod.fst := rfl
    rw [this, hk]
    simp [h0]

theorem concat_check_eq (dbs : List Db) (hi : ∀ d ∈ dbs, d.Inv) (K : List String) :
    K.any (fun k => decide ((C16.concatCol dbs k).length ≠ (C16.concatRows dbs).length)) =
      (dbs.map Db.spec).any (fun d => !d.rows.isEmpty && K.any (fun k => !d.keys.contains k)) := by
  have h1 := model_check_iff dbs hi K
  have h2 := spec_check_iff dbs K
  cases hb1 : K.any (fun k => decide ((C16.concatCol dbs k).length ≠ (C16.concatRows dbs).length)) <;>
    cases hb2 : (dbs.map Db.spec).any (fun d => !d.rows.isEmpty && K.any (fun k => !d.keys.contains k))
  · rfl
  · exact absurd (h2.2 (h1.1 hb1)) (by rw [hb2]; simp)
  · exact absurd (h1.2 (h2.1 hb2)) (by rw [hb1]; simp)
  · rfl

/-- a row with its property values re-keyed to `K` -/
def rekey (K : List String) (r : SRow) : SRow :=
  { r with props := K.filterMap (fun k => (propLookup r.props k).map (fun v => (k, v))) }

theorem mkRows_contrib (K : List String) (d : Db) (hi : d.Inv) :
    mkRows d.fpNum (d.array.getD []) d.fpNames (K.map (fun k => (k, contrib d k))) = d.absRows.map (rekey K) := by
  rw [absRows_eq]
  unfold mkRows
  rw [List.map_map]
  apply List.map_congr_left
  intro i hi'
  have hlt : i < d.fpNum := List.mem_range.1 hi'
  simp only [Function.comp_def, mkRow, rekey, colsAt_map_keys]
  congr 1
  apply filterMap_congr_mem
  intro k _
  rw [propLookup_colsAt d.props i k (fun c hc => by rw [hi.col_length c hc]; exact hlt)]
  unfold contrib
  cases colLookup d.props k <;> simp

theorem concat_rows (K : List String) (dbs : List Db) (hi : ∀ d ∈ dbs, d.Inv) (hf : Full K dbs) :
    mkRows (C16.concatRows dbs).length (C16.concatRows dbs) (dbs.flatMap (·.fpNames))
        (K.map (fun k => (k, C16.concatCol dbs k))) =
      dbs.flatMap (fun d => d.absRows.map (rekey K)) := by
  induction dbs with
  | nil => rfl
  | cons d rest ih =>
    have hd := hi d (by simp)
    have ih' := ih (fun d hd => hi d (by simp [hd])) (fun d hd => hf d (by simp [hd]))
    have hlen : ∀ k ∈ K, (contrib d k).length = d.fpNum := by
      intro k hk
      rw [contrib_length d hd k]
      rcases hf d (by simp) k hk with h0 | hm
      · rw [h0]; simp
      · simp [hm]
    simp only [C16.concatRows, C16.concatCol, List.flatMap_cons, List.length_append] at ih' ⊢
    rw [← fpNum_eq d, ← ih', ← mkRows_contrib K d hd]
    apply mkRows_append _ _ _ _ _ _ _ _ _ (fpNum_eq d).symm hd.names_length
    · intro i hlt
      rw [colsAt_map_keys, colsAt_map_keys]
      apply filterMap_congr_mem
      intro k hk
      have : i < ((colLookup d.props k).getD []).length := by
        have := hlen k hk; unfold contrib at this; omega
      unfold contrib
      rw [List.getElem?_append_left this]
    · intro j _
      rw [colsAt_map_keys, colsAt_map_keys]
      apply filterMap_congr_mem
      intro k hk
      have := hlen k hk
      unfold contrib at this
      rw [List.getElem?_append_right (by omega), this, Nat.add_sub_cancel_left]

theorem concat_refines (ds : List Db) (hi : ∀ d ∈ ds, d.Inv) :
    exSpec (Db.concat ds) = SDb.concat (ds.map Db.spec) := by
  cases ds with
  | nil => rfl
  | cons d0 rest =>
    rw [C16.concat_eq]
    have hss : (d0 :: rest).map Db.spec = d0.spec :: rest.map Db.spec := rfl
    unfold SDb.concat
    rw [hss]
    simp only
    rw [← hss]
    generalize hdbs : d0 :: rest = dbs at *
    have hd0 : d0 ∈ dbs := by rw [← hdbs]; simp
    have e1 : (dbs.map Db.spec).any (fun d => d.level != d0.spec.level) = dbs.any (fun d => d.level != d0.level) := by
      rw [List.any_map]; rfl
    have e2 : (dbs.map Db.spec).any (fun d => d.bits != d0.spec.bits) =
        dbs.any (fun d => (d.array.map (fun _ => d.bits)) != (d0.array.map (fun _ => d0.bits))) := by
      rw [List.any_map]; rfl
    have e3 : (dbs.map Db.spec).any (fun d => d.kind != d0.spec.kind) = dbs.any (fun d => d.fpType != d0.fpType) := by
      rw [List.any_map]; rfl
    have e4 : (dbs.map Db.spec).any (fun d => d.bits.isNone) = dbs.any (fun d => d.array.isNone) := by
      rw [List.any_map]
      congr 1; funext d
      simp [Db.spec]
    rw [e1, e2, e3, e4, concatKeysS_eq, ← concat_check_eq dbs hi]
    by_cases c1 : dbs.any (fun d => d.level != d0.level) = true
    · simp [c1, exSpec]
    · by_cases c2 : dbs.any (fun d => (d.array.map (fun _ => d.bits)) != (d0.array.map (fun _ => d0.bits))) = true
      · simp [c1, c2, exSpec]
      · by_cases c3 : dbs.any (fun d => d.fpType != d0.fpType) = true
        · simp [c1, c2, c3, exSpec]
        · by_cases c4 : dbs.any (fun d => d.array.isNone) = true
          · simp [c1, c2, c3, c4, exSpec]
          · by_cases c5 : (C16.concatKeys dbs).any (fun k => decide ((C16.concatCol dbs k).length ≠ (C16.concatRows dbs).length)) = true
            · simp only [c1, c2, c3, c4, c5, if_true, if_false, Bool.false_eq_true, exSpec]
            · simp only [c1, c2, c3, c4, c5, if_false, Bool.false_eq_true, exSpec]
              congr 1
              have hfull : Full (C16.concatKeys dbs) dbs :=
                (model_check_iff dbs hi _).1 (by simpa using c5)
              have hsome : ∃ a, d0.array = some a := by
                have : dbs.any (fun d => d.array.isNone) = false := by simpa using c4
                rw [List.any_eq_false] at this
                have := this d0 hd0
                cases ha : d0.array with
                | none => simp [ha] at this
                | some a => exact ⟨a, rfl⟩
              apply SDb.eq_of
              · rfl
              · rfl
              · rfl
              · show some d0.bits = some (d0.spec.bits.getD 0)
                obtain ⟨a, ha⟩ := hsome
                simp [Db.spec, ha]
              · show ((C16.concatKeys dbs).map (fun k => (k, C16.concatCol dbs k))).map Prod.fst = _
                rw [List.map_map]; simp [Function.comp_def]
              · show mkRows (C16.concatRows dbs).length (C16.concatRows dbs) (dbs.flatMap (·.fpNames))
                    ((C16.concatKeys dbs).map (fun k => (k, C16.concatCol dbs k))) = _
                rw [concat_rows _ dbs hi hfull, List.flatMap_map]
                rfl

end E3fpVerif
