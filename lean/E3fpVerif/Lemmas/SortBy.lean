import E3fpVerif.Model.Fprinter
/-!
# Facts about the model's insertion sort `sortByLt` and generic `foldl` congruences

`sortByLt lt l` is a permutation of `l`; for an irreflexive transitive `lt` it is sorted (no later
element is `lt` an earlier one); if `lt` is moreover trichotomous on the elements of the list, the
result depends only on the multiset of the input (`sortByLt_eq_of_perm`).
-/
namespace E3fpVerif

section foldl
variable {σ σ' β : Type}

/-- `foldl` congruence restricted to the members of the list -/
theorem foldl_congr_mem (f₁ f₂ : σ → β → σ) (l : List β) (init : σ)
    (h : ∀ acc, ∀ a ∈ l, f₁ acc a = f₂ acc a) : l.foldl f₁ init = l.foldl f₂ init := by
  induction l generalizing init with
  | nil => rfl
  | cons x xs ih =>
    simp only [List.foldl_cons]
    rw [h init x (by simp)]
    exact ih _ (fun acc a ha => h acc a (by simp [ha]))

/-- a relation between two accumulators preserved by every step is preserved by `foldl` -/
theorem foldl_rel (R : σ → σ' → Prop) (f₁ : σ → β → σ) (f₂ : σ' → β → σ') (l : List β) (i₁ : σ) (i₂ : σ')
    (h0 : R i₁ i₂) (h : ∀ acc acc', ∀ a ∈ l, R acc acc' → R (f₁ acc a) (f₂ acc' a)) :
    R (l.foldl f₁ i₁) (l.foldl f₂ i₂) := by
  induction l generalizing i₁ i₂ with
  | nil => exact h0
  | cons x xs ih =>
    simp only [List.foldl_cons]
    exact ih _ _ (h _ _ x (by simp) h0) (fun acc acc' a ha => h acc acc' a (by simp [ha]))
end foldl

section sort
variable {β : Type}

theorem mem_insertBy (lt : β → β → Bool) (x y : β) (l : List β) : y ∈ insertBy lt x l ↔ y = x ∨ y ∈ l := by
  induction l with
  | nil => simp [insertBy]
  | cons a as ih =>
    unfold insertBy
    split
    · simp
    · simp only [List.mem_cons, ih]
      constructor
      · rintro (h | h | h) <;> simp [h]
      · rintro (h | h | h) <;> simp [h]

/-- sorting preserves membership -/
theorem mem_sortByLt (lt : β → β → Bool) (x : β) (l : List β) : x ∈ sortByLt lt l ↔ x ∈ l := by
  induction l with
  | nil => simp [sortByLt]
  | cons a as ih =>
    have : sortByLt lt (a :: as) = insertBy lt a (sortByLt lt as) := rfl
    rw [this, mem_insertBy, ih]; simp

theorem insertBy_perm (lt : β → β → Bool) (x : β) (l : List β) : (insertBy lt x l).Perm (x :: l) := by
  induction l with
  | nil => simp [insertBy]
  | cons a as ih =>
    unfold insertBy
    split
    · exact List.Perm.refl _
    · exact ((List.Perm.cons a ih).trans (List.Perm.swap x a as))

/-- sorting permutes -/
theorem sortByLt_perm (lt : β → β → Bool) (l : List β) : (sortByLt lt l).Perm l := by
  induction l with
  | nil => simp [sortByLt]
  | cons a as ih =>
    have : sortByLt lt (a :: as) = insertBy lt a (sortByLt lt as) := rfl
    rw [this]
    exact (insertBy_perm lt a _).trans (List.Perm.cons a ih)

theorem length_sortByLt (lt : β → β → Bool) (l : List β) : (sortByLt lt l).length = l.length :=
  (sortByLt_perm lt l).length_eq

theorem sortByLt_eq_nil (lt : β → β → Bool) (l : List β) : sortByLt lt l = [] ↔ l = [] := by
  constructor
  · intro h; have := length_sortByLt lt l; rw [h] at this; exact List.length_eq_zero_iff.1 this.symm
  · rintro rfl; rfl

/-- sorted: no later element is strictly below an earlier one -/
def SortedBy (lt : β → β → Bool) (l : List β) : Prop := l.Pairwise (fun a b => lt b a = false)

theorem insertBy_sorted (lt : β → β → Bool)
    (irrefl : ∀ a, lt a a = false) (trans : ∀ a b c, lt a b = true → lt b c = true → lt a c = true)
    (x : β) (l : List β) (h : SortedBy lt l) : SortedBy lt (insertBy lt x l) := by
  induction l with
  | nil => simp [insertBy, SortedBy]
  | cons a as ih =>
    unfold SortedBy at *
    rw [List.pairwise_cons] at h
    unfold insertBy
    split
    · rename_i hxa
      refine List.pairwise_cons.2 ⟨?_, List.pairwise_cons.2 h⟩
      intro z hz
      rcases List.mem_cons.1 hz with rfl | hz
      · -- `lt x z`, so not `lt z x`
        cases hzx : lt z x with
        | false => rfl
        | true => have := trans _ _ _ hxa hzx; rw [irrefl] at this; cases this
      · cases hzx : lt z x with
        | false => rfl
        | true => have := trans _ _ _ hzx hxa; rw [h.1 z hz] at this; cases this
    · rename_i hxa
      refine List.pairwise_cons.2 ⟨?_, ih h.2⟩
      intro z hz
      rcases (mem_insertBy lt x z as).1 hz with rfl | hz
      · simpa using hxa
      · exact h.1 z hz

/-- for an irreflexive transitive `lt` the result is sorted -/
theorem sortByLt_sorted (lt : β → β → Bool)
    (irrefl : ∀ a, lt a a = false) (trans : ∀ a b c, lt a b = true → lt b c = true → lt a c = true)
    (l : List β) : SortedBy lt (sortByLt lt l) := by
  induction l with
  | nil => simp [sortByLt, SortedBy]
  | cons a as ih => exact insertBy_sorted lt irrefl trans a _ ih

/-- trichotomy on the elements of a list -/
def TrichOn (lt : β → β → Bool) (l : List β) : Prop :=
  ∀ a ∈ l, ∀ b ∈ l, lt a b = true ∨ a = b ∨ lt b a = true

/-- with trichotomy, sorted means: every earlier element is below or equal to every later one -/
theorem sortByLt_sorted_le (lt : β → β → Bool)
    (irrefl : ∀ a, lt a a = false) (trans : ∀ a b c, lt a b = true → lt b c = true → lt a c = true)
    (l : List β) (tri : TrichOn lt l) :
    (sortByLt lt l).Pairwise (fun a b => lt a b = true ∨ a = b) := by
  have hs := sortByLt_sorted lt irrefl trans l
  unfold SortedBy at hs
  refine List.Pairwise.imp_of_mem ?_ hs
  intro a b ha hb hba
  rcases tri a ((mem_sortByLt lt a l).1 ha) b ((mem_sortByLt lt b l).1 hb) with h | h | h
  · exact Or.inl h
  · exact Or.inr h
  · rw [hba] at h; cases h

/-- a sorted list is unique among the permutations of a list on which `lt` is trichotomous -/
theorem sortByLt_eq_of_perm (lt : β → β → Bool)
    (irrefl : ∀ a, lt a a = false) (trans : ∀ a b c, lt a b = true → lt b c = true → lt a c = true)
    (l₁ l₂ : List β) (tri : TrichOn lt l₁) (hp : l₁.Perm l₂) : sortByLt lt l₁ = sortByLt lt l₂ := by
  have h1 := sortByLt_sorted lt irrefl trans l₁
  have h2 := sortByLt_sorted lt irrefl trans l₂
  have hperm : (sortByLt lt l₁).Perm (sortByLt lt l₂) :=
    ((sortByLt_perm lt l₁).trans hp).trans (sortByLt_perm lt l₂).symm
  refine List.Perm.eq_of_pairwise ?_ h1 h2 hperm
  intro a b ha hb hba hab
  have ha' : a ∈ l₁ := (mem_sortByLt lt a l₁).1 ha
  have hb' : b ∈ l₁ := hp.mem_iff.2 ((mem_sortByLt lt b l₂).1 hb)
  rcases tri a ha' b hb' with h | h | h
  · rw [hab] at h; cases h
  · exact h
  · rw [hba] at h; cases h

end sort

/-! ## the three orders the fingerprinter sorts by -/

theorem lt3_irrefl (a : Nat × Int × Nat) : lt3 a a = false := by
  simp [lt3]

theorem lt3_trans (a b c : Nat × Int × Nat) (h1 : lt3 a b = true) (h2 : lt3 b c = true) : lt3 a c = true := by
  simp only [lt3, Bool.or_eq_true, Bool.and_eq_true, decide_eq_true_eq, beq_iff_eq] at *
  omega

theorem lt3_trich (a b : Nat × Int × Nat) : lt3 a b = true ∨ a = b ∨ lt3 b a = true := by
  obtain ⟨a1, a2, a3⟩ := a
  obtain ⟨b1, b2, b3⟩ := b
  simp only [lt3, Bool.or_eq_true, Bool.and_eq_true, decide_eq_true_eq, beq_iff_eq, Prod.mk.injEq]
  omega

theorem ltIntList_irrefl (a : List Int) : ltIntList a a = false := by
  induction a with
  | nil => rfl
  | cons x xs ih => simp [ltIntList, ih]

theorem ltIntList_trans : ∀ (a b c : List Int), ltIntList a b = true → ltIntList b c = true → ltIntList a c = true
  | [], [], _, h1, _ => by simp [ltIntList] at h1
  | [], _ :: _, [], _, h2 => by simp [ltIntList] at h2
  | [], _ :: _, _ :: _, _, _ => by simp [ltIntList]
  | _ :: _, [], _, h1, _ => by simp [ltIntList] at h1
  | _ :: _, _ :: _, [], _, h2 => by simp [ltIntList] at h2
  | x :: xs, y :: ys, z :: zs, h1, h2 => by
    simp only [ltIntList, Bool.or_eq_true, Bool.and_eq_true, decide_eq_true_eq, beq_iff_eq] at *
    rcases h1 with h1 | ⟨e1, h1⟩ <;> rcases h2 with h2 | ⟨e2, h2⟩
    · left; omega
    · left; omega
    · left; omega
    · right; exact ⟨by omega, ltIntList_trans xs ys zs h1 h2⟩

theorem ltIntList_trich : ∀ (a b : List Int), ltIntList a b = true ∨ a = b ∨ ltIntList b a = true
  | [], [] => by simp
  | [], _ :: _ => by simp [ltIntList]
  | _ :: _, [] => by simp [ltIntList]
  | x :: xs, y :: ys => by
    simp only [ltIntList, Bool.or_eq_true, Bool.and_eq_true, decide_eq_true_eq, beq_iff_eq, List.cons.injEq]
    rcases Int.lt_trichotomy x y with h | h | h
    · left; left; exact h
    · rcases ltIntList_trich xs ys with h' | h' | h'
      · left; right; exact ⟨h, h'⟩
      · right; left; exact ⟨h, h'⟩
      · right; right; right; exact ⟨h.symm, h'⟩
    · right; right; left; exact h

theorem ltShell_irrefl (a : GShell) : ltShell a a = false := by
  simp [ltShell]

theorem ltShell_trans (a b c : GShell) (h1 : ltShell a b = true) (h2 : ltShell b c = true) : ltShell a c = true := by
  simp only [ltShell, Bool.or_eq_true, Bool.and_eq_true, decide_eq_true_eq, beq_iff_eq] at *
  omega

/-- `ltShell` compares `(ident, atom)`: it is trichotomous up to that key -/
theorem ltShell_trich_key (a b : GShell) :
    ltShell a b = true ∨ (a.ident = b.ident ∧ a.atom = b.atom) ∨ ltShell b a = true := by
  simp only [ltShell, Bool.or_eq_true, Bool.and_eq_true, decide_eq_true_eq, beq_iff_eq]
  omega

end E3fpVerif
