import E3fpVerif.Lemmas.MergeSD
/-!
# Sums of indicators, intersection counts, and 0/1-valued rows
-/
namespace E3fpVerif.C06L

/-! ## `sumQ` -/

theorem sumQ_map_add {α : Type} (l : List α) (f g : α → Rat) :
    sumQ (l.map (fun i => f i + g i)) = sumQ (l.map f) + sumQ (l.map g) := by
  induction l with
  | nil => simp only [List.map_nil, sumQ]; grind
  | cons a as ih => simp only [List.map_cons, sumQ, ih]; grind

theorem sumQ_map_sub {α : Type} (l : List α) (f g : α → Rat) :
    sumQ (l.map (fun i => f i - g i)) = sumQ (l.map f) - sumQ (l.map g) := by
  induction l with
  | nil => simp only [List.map_nil, sumQ]; grind
  | cons a as ih => simp only [List.map_cons, sumQ, ih]; grind

theorem sumQ_map_mul_left {α : Type} (l : List α) (c : Rat) (f : α → Rat) :
    sumQ (l.map (fun i => c * f i)) = c * sumQ (l.map f) := by
  induction l with
  | nil => simp only [List.map_nil, sumQ]; grind
  | cons a as ih => simp only [List.map_cons, sumQ, ih]; grind

theorem sumQ_map_zero {α : Type} (l : List α) : sumQ (l.map (fun _ => (0 : Rat))) = 0 := by
  induction l with
  | nil => rfl
  | cons a as ih => simp only [List.map_cons, sumQ, ih]; grind

theorem sumQ_map_nonneg {α : Type} (l : List α) (f : α → Rat) (h : ∀ a ∈ l, 0 ≤ f a) :
    0 ≤ sumQ (l.map f) := by
  induction l with
  | nil => simp only [List.map_nil, sumQ]; grind
  | cons a as ih =>
    simp only [List.map_cons, sumQ]
    have := h a (List.mem_cons_self ..)
    have := ih (fun b hb => h b (List.mem_cons_of_mem _ hb))
    grind

theorem sumQ_map_pos {α : Type} (l : List α) (f : α → Rat) (h : ∀ a ∈ l, 0 ≤ f a)
    (a : α) (ha : a ∈ l) (hpos : 0 < f a) : 0 < sumQ (l.map f) := by
  induction l with
  | nil => simp at ha
  | cons b bs ih =>
    simp only [List.map_cons, sumQ]
    have hb := h b (List.mem_cons_self ..)
    have hbs := sumQ_map_nonneg bs f (fun c hc => h c (List.mem_cons_of_mem _ hc))
    rcases List.mem_cons.1 ha with rfl | ha
    · grind
    · have := ih (fun c hc => h c (List.mem_cons_of_mem _ hc)) ha
      grind

/-- the sum of an indicator over a list counts the members satisfying it -/
theorem sumQ_map_ind (l : List Nat) (p : Nat → Bool) :
    sumQ (l.map (fun i => if p i then (1 : Rat) else 0)) = ((l.filter p).length : Nat) := by
  induction l with
  | nil => simp [sumQ]
  | cons a as ih =>
    simp only [List.map_cons, sumQ, ih, List.filter_cons]
    by_cases h : p a = true
    · simp only [h, if_true, List.length_cons, Rat.natCast_add]; grind
    · simp only [h]; grind

/-! ## strictly ascending lists and intersection counts -/

theorem strictAsc_filter {l : List Nat} (h : StrictAsc l) (p : Nat → Bool) : StrictAsc (l.filter p) :=
  List.Pairwise.filter p h

/-- filtering a strictly ascending superset by membership in a strictly ascending list returns it -/
theorem filter_mem_eq (u a : List Nat) (hu : StrictAsc u) (ha : StrictAsc a) (hsub : ∀ i ∈ a, i ∈ u) :
    u.filter (fun i => decide (i ∈ a)) = a := by
  apply strictAsc_ext _ _ (strictAsc_filter hu _) ha
  intro i; simp only [List.mem_filter, decide_eq_true_eq]
  exact ⟨fun h => h.2, fun h => ⟨hsub i h, h⟩⟩

theorem interCount_comm (a b : List Nat) (ha : StrictAsc a) (hb : StrictAsc b) :
    interCount a b = interCount b a := by
  unfold interCount
  congr 1
  apply strictAsc_ext _ _ (strictAsc_filter ha _) (strictAsc_filter hb _)
  intro i; simp only [List.mem_filter, decide_eq_true_eq]; exact And.comm

theorem interCount_le_left (a b : List Nat) : interCount a b ≤ a.length :=
  List.length_filter_le _ _

theorem interCount_le_right (a b : List Nat) (ha : StrictAsc a) (hb : StrictAsc b) :
    interCount a b ≤ b.length := by
  rw [interCount_comm a b ha hb]; exact interCount_le_left b a

theorem interCount_self (a : List Nat) : interCount a a = a.length := by
  unfold interCount
  rw [List.filter_eq_self.2]
  intro i hi; simpa using hi

/-- the intersection count as a filter of any strictly ascending superset of `a` -/
theorem interCount_eq_filter (u a b : List Nat) (hu : StrictAsc u) (ha : StrictAsc a)
    (hsub : ∀ i ∈ a, i ∈ u) :
    (u.filter (fun i => decide (i ∈ a) && decide (i ∈ b))).length = interCount a b := by
  unfold interCount
  congr 1
  apply strictAsc_ext _ _ (strictAsc_filter hu _) (strictAsc_filter ha _)
  intro i; simp only [List.mem_filter, Bool.and_eq_true, decide_eq_true_eq]
  exact ⟨fun h => h.2, fun h => ⟨hsub i h.1, h⟩⟩

theorem natCast_sub_of_le (n m : Nat) (h : m ≤ n) : ((n - m : Nat) : Rat) = (n : Rat) - (m : Rat) := by
  have e : (n - m) + m = n := by omega
  have := congrArg (fun k : Nat => (k : Rat)) e
  simp only [Rat.natCast_add] at this
  grind

/-! ## 0/1-valued rows -/

/-- every stored value is 1 (a bit row) -/
def BinaryRow (r : Row) : Prop := ∀ p ∈ r, p.2 = 1

def indQ (p : Bool) : Rat := if p then 1 else 0

theorem sumQ_map_indQ (l : List Nat) (p : Nat → Bool) :
    sumQ (l.map (fun i => indQ (p i))) = ((l.filter p).length : Nat) := sumQ_map_ind l p

theorem indQ_mul (p q : Bool) : indQ p * indQ q = indQ (p && q) := by
  cases p <;> cases q <;> simp [indQ]
theorem maxQ_indQ (p q : Bool) : maxQ (indQ p) (indQ q) = indQ p + indQ q - indQ (p && q) := by
  cases p <;> cases q <;> simp [indQ, maxQ] <;> grind
theorem absQ_indQ (p q : Bool) :
    absQ (indQ p - indQ q) = indQ p + indQ q - 2 * indQ (p && q) := by
  cases p <;> cases q <;> simp [indQ, absQ] <;> grind

theorem BinaryRow.tail {p : Nat × Rat} {r : Row} (h : BinaryRow (p :: r)) : BinaryRow r :=
  fun q hq => h q (List.mem_cons_of_mem _ hq)

theorem mem_rowCols (r : Row) (k : Nat) : k ∈ rowCols r ↔ k ∈ r.map Prod.fst := mem_uniq k _

theorem rowVal_binary (r : Row) (h : BinaryRow r) (k : Nat) :
    rowVal r k = indQ (decide (k ∈ rowCols r)) := by
  induction r with
  | nil => simp [rowCols, uniq, indQ]
  | cons p ps ih =>
    obtain ⟨i, v⟩ := p
    have hv : v = 1 := h (i, v) (List.mem_cons_self ..)
    subst hv
    by_cases e : i = k
    · subst e; rw [rowVal_cons_self]; simp [indQ, mem_rowCols]
    · rw [rowVal_cons_ne i k 1 ps e, ih h.tail]
      have : (k ∈ rowCols ((i, 1) :: ps)) ↔ (k ∈ rowCols ps) := by
        simp only [mem_rowCols, List.map_cons, List.mem_cons]
        constructor
        · rintro (h | h)
          · exact absurd h.symm e
          · exact h
        · exact Or.inr
      simp only [this]

theorem strictAsc_rowCols (r : Row) : StrictAsc (rowCols r) := strictAsc_uniq _
theorem strictAsc_unionCols (x y : Row) : StrictAsc (unionCols x y) := strictAsc_uniq _

theorem rowCols_sub_union_left (x y : Row) : ∀ i ∈ rowCols x, i ∈ unionCols x y := by
  intro i hi; unfold unionCols; rw [mem_uniq]; exact List.mem_append_left _ ((mem_rowCols x i).1 hi)
theorem rowCols_sub_union_right (x y : Row) : ∀ i ∈ rowCols y, i ∈ unionCols x y := by
  intro i hi; unfold unionCols; rw [mem_uniq]; exact List.mem_append_right _ ((mem_rowCols y i).1 hi)

theorem rowSupport_binary (r : Row) (h : BinaryRow r) : rowSupport r = rowCols r := by
  unfold rowSupport
  apply List.filter_eq_self.2
  intro i hi
  rw [rowVal_binary r h i]
  simp [indQ, hi]

theorem rowSum_binary (r : Row) (h : BinaryRow r) : rowSum r = ((rowCols r).length : Nat) := by
  unfold rowSum
  have e : (rowCols r).map (rowVal r) = (rowCols r).map (fun i => indQ (decide (i ∈ rowCols r))) :=
    List.map_congr_left (fun k _ => rowVal_binary r h k)
  rw [e, sumQ_map_indQ, filter_mem_eq _ _ (strictAsc_rowCols r) (strictAsc_rowCols r) (fun i hi => hi)]

/-- `X·Yᵀ` of two bit rows is the size of the intersection -/
theorem dotQ_binary (x y : Row) (hx : BinaryRow x) (hy : BinaryRow y) :
    dotQ x y = (interCount (rowCols x) (rowCols y) : Nat) := by
  unfold dotQ
  have e : (unionCols x y).map (fun i => rowVal x i * rowVal y i)
      = (unionCols x y).map (fun i => indQ (decide (i ∈ rowCols x) && decide (i ∈ rowCols y))) :=
    List.map_congr_left (fun k _ => by rw [rowVal_binary x hx, rowVal_binary y hy, indQ_mul])
  rw [e, sumQ_map_indQ (unionCols x y) (fun i => decide (i ∈ rowCols x) && decide (i ∈ rowCols y)),
    interCount_eq_filter _ _ _ (strictAsc_unionCols x y) (strictAsc_rowCols x)
      (rowCols_sub_union_left x y)]

theorem colSumMax_binary (x y : Row) (hx : BinaryRow x) (hy : BinaryRow y) :
    colSumMax x y (unionCols x y) = ((rowCols x).length : Nat) + ((rowCols y).length : Nat)
      - (interCount (rowCols x) (rowCols y) : Nat) := by
  unfold colSumMax
  have e : (unionCols x y).map (fun i => maxQ (rowVal x i) (rowVal y i))
      = (unionCols x y).map (fun i => (indQ (decide (i ∈ rowCols x)) + indQ (decide (i ∈ rowCols y)))
          - indQ (decide (i ∈ rowCols x) && decide (i ∈ rowCols y))) :=
    List.map_congr_left (fun k _ => by rw [rowVal_binary x hx, rowVal_binary y hy, maxQ_indQ])
  rw [e, sumQ_map_sub, sumQ_map_add,
    sumQ_map_indQ (unionCols x y) (fun i => decide (i ∈ rowCols x)),
    sumQ_map_indQ (unionCols x y) (fun i => decide (i ∈ rowCols y)),
    sumQ_map_indQ (unionCols x y) (fun i => decide (i ∈ rowCols x) && decide (i ∈ rowCols y)),
    interCount_eq_filter _ _ _ (strictAsc_unionCols x y) (strictAsc_rowCols x)
      (rowCols_sub_union_left x y),
    filter_mem_eq _ _ (strictAsc_unionCols x y) (strictAsc_rowCols x) (rowCols_sub_union_left x y),
    filter_mem_eq _ _ (strictAsc_unionCols x y) (strictAsc_rowCols y) (rowCols_sub_union_right x y)]

theorem colSumAbs_binary (x y : Row) (hx : BinaryRow x) (hy : BinaryRow y) :
    colSumAbs x y (unionCols x y) = ((rowCols x).length : Nat) + ((rowCols y).length : Nat)
      - 2 * (interCount (rowCols x) (rowCols y) : Nat) := by
  unfold colSumAbs
  have e : (unionCols x y).map (fun i => absQ (rowVal x i - rowVal y i))
      = (unionCols x y).map (fun i => (indQ (decide (i ∈ rowCols x)) + indQ (decide (i ∈ rowCols y)))
          - 2 * indQ (decide (i ∈ rowCols x) && decide (i ∈ rowCols y))) :=
    List.map_congr_left (fun k _ => by rw [rowVal_binary x hx, rowVal_binary y hy, absQ_indQ])
  rw [e, sumQ_map_sub, sumQ_map_add, sumQ_map_mul_left,
    sumQ_map_indQ (unionCols x y) (fun i => decide (i ∈ rowCols x)),
    sumQ_map_indQ (unionCols x y) (fun i => decide (i ∈ rowCols y)),
    sumQ_map_indQ (unionCols x y) (fun i => decide (i ∈ rowCols x) && decide (i ∈ rowCols y)),
    interCount_eq_filter _ _ _ (strictAsc_unionCols x y) (strictAsc_rowCols x)
      (rowCols_sub_union_left x y),
    filter_mem_eq _ _ (strictAsc_unionCols x y) (strictAsc_rowCols x) (rowCols_sub_union_left x y),
    filter_mem_eq _ _ (strictAsc_unionCols x y) (strictAsc_rowCols y) (rowCols_sub_union_right x y)]

/-- Tanimoto's definition on bit rows, in the shape of the generated ratio expression -/
theorem tanimotoDef_binary (x y : Row) (hx : BinaryRow x) (hy : BinaryRow y) :
    tanimotoDef x y = Gen.fpTanimotoExpr (interCount (rowCols x) (rowCols y))
      (rowCols x).length (rowCols y).length := by
  unfold tanimotoDef Gen.fpTanimotoExpr divNan Gen.divNan
  simp only [rowSupport_binary x hx, rowSupport_binary y hy]
  rw [natCast_sub_of_le _ _ (Nat.le_trans (interCount_le_left _ _) (Nat.le_add_right _ _)),
    Rat.natCast_add]

end E3fpVerif.C06L
