import E3fpVerif.Model.Db
/-!
# The name index of a database (`fp_names_to_indices`)

`updateNamesMap m names off` is a `foldl` of `mapAppend` over `names.zipIdx`.  It is shown equal to
the structural recursion `idxFold`, from which the offset-append law and the characterisation of
`mapLookup` on the canonical index follow by induction.
-/
namespace E3fpVerif

/-- the index built by structural recursion: name `k`-th gets position `k` -/
def idxFold (m : List (Option String × List Nat)) : List (Option String) → Nat → List (Option String × List Nat)
  | [], _ => m
  | x :: xs, k => idxFold (mapAppend m x k) xs (k + 1)

/-- the general statement about `List.foldl` over `zipIdx` with a start index and an offset -/
theorem foldl_zipIdx_mapAppend (xs : List (Option String)) :
    ∀ (m : List (Option String × List Nat)) (k off : Nat),
      (xs.zipIdx k).foldl (fun acc p => mapAppend acc p.1 (p.2 + off)) m = idxFold m xs (k + off) := by
  induction xs with
  | nil => intro m k off; rfl
  | cons x xs ih =>
    intro m k off
    rw [List.zipIdx_cons, List.foldl_cons, ih]
    simp only [idxFold]
    congr 1; omega

theorem updateNamesMap_eq_idxFold (m : List (Option String × List Nat)) (names : List (Option String)) (off : Nat) :
    updateNamesMap m names off = idxFold m names off := by
  unfold updateNamesMap
  have := foldl_zipIdx_mapAppend names m 0 off
  simpa using this

theorem idxFold_append (xs ys : List (Option String)) :
    ∀ (m : List (Option String × List Nat)) (k : Nat),
      idxFold m (xs ++ ys) k = idxFold (idxFold m xs k) ys (k + xs.length) := by
  induction xs with
  | nil => intro m k; simp [idxFold]
  | cons x xs ih =>
    intro m k
    simp only [List.cons_append, idxFold, ih, List.length_cons]
    congr 1; omega

/-- appending a batch with an offset to an index built from any start equals building the index
of the concatenated names -/
theorem updateNamesMap_append_gen (m : List (Option String × List Nat)) (xs ys : List (Option String)) (k : Nat) :
    updateNamesMap (updateNamesMap m xs k) ys (k + xs.length) = updateNamesMap m (xs ++ ys) k := by
  simp only [updateNamesMap_eq_idxFold, idxFold_append]

/-- **the incrementally maintained index is the rebuilt one** -/
theorem updateNamesMap_append (xs ys : List (Option String)) :
    updateNamesMap (updateNamesMap [] xs 0) ys xs.length = updateNamesMap [] (xs ++ ys) 0 := by
  have := updateNamesMap_append_gen [] xs ys 0
  simpa using this

/-! ## lookup in the index -/

/-- positions (shifted by `k`) of the entries of `names` equal to `nm`, ascending -/
def posFrom (names : List (Option String)) (nm : Option String) : Nat → List Nat :=
  fun k => match names with
  | [] => []
  | x :: xs => if x = nm then k :: posFrom xs nm (k + 1) else posFrom xs nm (k + 1)

/-- the rows carrying the name `nm`, ascending: `[i | i < len(names), names[i] == nm]` -/
def positions (names : List (Option String)) (nm : Option String) : List Nat :=
  (List.range names.length).filter (fun i => decide (names[i]? = some nm))

theorem mapLookup_mapAppend (m : List (Option String × List Nat)) (x nm : Option String) (i : Nat) :
    mapLookup (mapAppend m x i) nm =
      if x = nm then some ((mapLookup m nm).getD [] ++ [i]) else mapLookup m nm := by
  induction m with
  | nil => by_cases h : x = nm <;> simp [mapAppend, mapLookup, h]
  | cons c rest ih =>
    obtain ⟨k, v⟩ := c
    by_cases hk : k = x
    · subst hk
      by_cases h : k = nm <;> simp [mapAppend, mapLookup, h]
    · by_cases hkn : k = nm
      · subst hkn
        have : ¬ x = k := fun e => hk e.symm
        simp [mapAppend, mapLookup, hk, this]
      · simp [mapAppend, mapLookup, hk, hkn, ih]

theorem mapLookup_idxFold (names : List (Option String)) (nm : Option String) :
    ∀ (m : List (Option String × List Nat)) (k : Nat),
      mapLookup (idxFold m names k) nm =
        if posFrom names nm k = [] then mapLookup m nm
        else some ((mapLookup m nm).getD [] ++ posFrom names nm k) := by
  induction names with
  | nil => intro m k; simp [idxFold, posFrom]
  | cons x xs ih =>
    intro m k
    simp only [idxFold, ih, mapLookup_mapAppend]
    by_cases hx : x = nm
    · subst hx
      by_cases hp : posFrom xs x (k + 1) = [] <;> simp [posFrom, hp]
    · simp [posFrom, hx]

theorem posFrom_eq_map (names : List (Option String)) (nm : Option String) :
    ∀ k, posFrom names nm k = (positions names nm).map (· + k) := by
  induction names with
  | nil => intro k; simp [posFrom, positions]
  | cons x xs ih =>
    intro k
    have hr : positions (x :: xs) nm =
        (if x = nm then [0] else []) ++ (positions xs nm).map (· + 1) := by
      unfold positions
      rw [List.length_cons, List.range_succ_eq_map, List.filter_cons, List.filter_map]
      by_cases hx : x = nm <;> simp [hx, Function.comp_def]
    rw [hr]
    unfold posFrom
    rw [ih]
    by_cases hx : x = nm
    · simp [hx, List.map_map, Function.comp_def, Nat.add_comm, Nat.add_left_comm]
    · simp [hx, List.map_map, Function.comp_def, Nat.add_comm, Nat.add_left_comm]

theorem posFrom_zero (names : List (Option String)) (nm : Option String) :
    posFrom names nm 0 = positions names nm := by
  rw [posFrom_eq_map]; simp

theorem mem_positions (names : List (Option String)) (nm : Option String) (i : Nat) :
    i ∈ positions names nm ↔ names[i]? = some nm := by
  unfold positions
  simp only [List.mem_filter, List.mem_range, decide_eq_true_eq]
  constructor
  · exact fun h => h.2
  · intro h
    refine ⟨?_, h⟩
    by_cases hi : i < names.length
    · exact hi
    · rw [List.getElem?_eq_none (by omega)] at h; cases h

theorem positions_strictAsc (names : List (Option String)) (nm : Option String) :
    StrictAsc (positions names nm) := by
  unfold positions StrictAsc
  apply List.Pairwise.filter
  exact List.pairwise_lt_range

theorem positions_eq_nil_iff (names : List (Option String)) (nm : Option String) :
    positions names nm = [] ↔ nm ∉ names := by
  rw [List.eq_nil_iff_forall_not_mem]
  simp only [mem_positions]
  constructor
  · intro h hm
    obtain ⟨i, hi, e⟩ := List.getElem_of_mem hm
    exact h i (by rw [List.getElem?_eq_getElem hi, e])
  · intro h i hi
    exact h (List.mem_of_getElem? hi)

/-- lookup in the canonical index: the ascending list of the rows carrying the name, `none`
exactly for an absent name -/
theorem mapLookup_canonical (names : List (Option String)) (nm : Option String) :
    mapLookup (updateNamesMap [] names 0) nm =
      if nm ∈ names then some (positions names nm) else none := by
  rw [updateNamesMap_eq_idxFold, mapLookup_idxFold, posFrom_zero]
  by_cases h : nm ∈ names
  · have : positions names nm ≠ [] := fun e => (positions_eq_nil_iff names nm).1 e h
    simp [h, this, mapLookup]
  · have : positions names nm = [] := (positions_eq_nil_iff names nm).2 h
    simp [h, this, mapLookup]

theorem mapLookup_canonical_getD (names : List (Option String)) (nm : Option String) :
    (mapLookup (updateNamesMap [] names 0) nm).getD [] = positions names nm := by
  rw [mapLookup_canonical]
  by_cases h : nm ∈ names
  · simp [h]
  · simp [h, (positions_eq_nil_iff names nm).2 h]

end E3fpVerif
