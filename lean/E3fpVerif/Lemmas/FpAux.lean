import E3fpVerif.Model.Fprint
import E3fpVerif.Lemmas.Uniq
/-!
# Auxiliary lemmas on association lists, `coerce`, and the fingerprint constructors
-/
namespace E3fpVerif

/-! ## lookupQ / hasKey -/

theorem lookupQ_map_of_mem (φ : Nat → Rat) (l : List Nat) (i : Nat) (h : i ∈ l) :
    lookupQ (l.map (fun i => (i, φ i))) i = φ i := by
  induction l with
  | nil => simp at h
  | cons a as ih =>
    simp only [List.map_cons, lookupQ]
    split
    · subst_vars; rfl
    · rename_i hne
      rcases List.mem_cons.1 h with e | h'
      · exact absurd e.symm hne
      · exact ih h'

theorem lookupQ_of_not_key (c : List (Nat × Rat)) (i : Nat) (h : i ∉ c.map Prod.fst) :
    lookupQ c i = 0 := by
  induction c with
  | nil => rfl
  | cons p ps ih =>
    obtain ⟨k, v⟩ := p
    simp only [List.map_cons, List.mem_cons, not_or] at h
    simp only [lookupQ]
    split
    · exact absurd (by subst_vars; rfl) h.1
    · exact ih h.2

theorem lookupQ_map_of_not_mem (φ : Nat → Rat) (l : List Nat) (i : Nat) (h : i ∉ l) :
    lookupQ (l.map (fun i => (i, φ i))) i = 0 := by
  apply lookupQ_of_not_key
  simpa [List.map_map, Function.comp_def] using h

theorem hasKey_iff (c : List (Nat × Rat)) (i : Nat) : hasKey c i = true ↔ i ∈ c.map Prod.fst := by
  induction c with
  | nil => simp [hasKey]
  | cons p ps ih =>
    obtain ⟨k, v⟩ := p
    simp only [hasKey, Bool.or_eq_true, beq_iff_eq, ih, List.map_cons, List.mem_cons]
    constructor
    · rintro (h | h)
      · exact Or.inl h.symm
      · exact Or.inr h
    · rintro (h | h)
      · exact Or.inl h.symm
      · exact Or.inr h

/-- an association list with duplicate-free keys is rebuilt from its keys by lookup -/
theorem map_lookupQ_self (c : List (Nat × Rat)) (h : (c.map Prod.fst).Nodup) :
    (c.map Prod.fst).map (fun i => (i, lookupQ c i)) = c := by
  induction c with
  | nil => rfl
  | cons p ps ih =>
    obtain ⟨k, v⟩ := p
    simp only [List.map_cons, List.nodup_cons] at h
    simp only [List.map_cons, lookupQ, if_true]
    congr 1
    refine Eq.trans ?_ (ih h.2)
    apply List.map_congr_left
    intro i hi
    have : k ≠ i := by
      intro e; apply h.1; rw [e]; exact hi
    simp only [if_neg this]

theorem strictAsc_nodup (l : List Nat) (h : StrictAsc l) : l.Nodup := by
  unfold StrictAsc at h
  exact h.imp (fun hab => Nat.ne_of_lt hab)

/-- generalisation: rebuilding with a pointwise function that fixes the stored values -/
theorem map_lookupQ_self' (ψ : Rat → Rat) (c : List (Nat × Rat)) (h : (c.map Prod.fst).Nodup)
    (hψ : ∀ p ∈ c, ψ p.2 = p.2) :
    (c.map Prod.fst).map (fun i => (i, ψ (lookupQ c i))) = c := by
  conv => rhs; rw [← map_lookupQ_self c h]
  apply List.map_congr_left
  intro i hi
  obtain ⟨p, hp, rfl⟩ := List.mem_map.1 hi
  have hl : lookupQ c p.1 = p.2 := by
    have := map_lookupQ_self c h
    have hp' : p ∈ (c.map Prod.fst).map (fun i => (i, lookupQ c i)) := by rw [this]; exact hp
    obtain ⟨j, _, hj⟩ := List.mem_map.1 hp'
    rw [← hj]
  rw [hl, hψ p hp]

theorem lookupQ_of_mem (c : List (Nat × Rat)) (h : (c.map Prod.fst).Nodup) (p : Nat × Rat) (hp : p ∈ c) :
    lookupQ c p.1 = p.2 := by
  have := map_lookupQ_self c h
  have hp' : p ∈ (c.map Prod.fst).map (fun i => (i, lookupQ c i)) := by rw [this]; exact hp
  obtain ⟨j, _, hj⟩ := List.mem_map.1 hp'
  rw [← hj]

/-! ## counts of a well-formed fingerprint -/

theorem Fp.count_of_not_mem (f : Fp) (hwf : f.WF) (i : Nat) (h : i ∉ f.idx) : f.count i = 0 := by
  obtain ⟨_, _, _, hc⟩ := hwf
  unfold Fp.count
  split
  · simp [h]
  · rename_i hk
    apply lookupQ_of_not_key
    rw [hc (by intro e; exact hk e)]; exact h

theorem Fp.count_of_ne_bit (f : Fp) (hk : f.kind ≠ .bit) (i : Nat) : f.count i = lookupQ f.cnt i := by
  unfold Fp.count
  split
  · rename_i e; exact absurd e hk
  · rfl

theorem Fp.count_of_bit (f : Fp) (hk : f.kind = .bit) (i : Nat) : f.count i = if i ∈ f.idx then 1 else 0 := by
  unfold Fp.count
  rw [hk]

theorem any_ge_false (l : List Nat) (bits : Nat) (h : ∀ i ∈ l, i < bits) :
    l.any (fun i => decide (i ≥ bits)) = false := by
  rw [List.any_eq_false]; intro i hi; simpa using h i hi

end E3fpVerif

namespace E3fpVerif

/-! ## coerce / truncQ -/

theorem truncQ_intCast (z : Int) : truncQ (z : Rat) = (z : Rat) := by
  unfold truncQ
  split
  · rw [Rat.floor_intCast]
  · rw [← Rat.intCast_neg, Rat.floor_intCast]; simp

theorem truncQ_isInt (q : Rat) : ∃ z : Int, truncQ q = (z : Rat) := by
  unfold truncQ
  split
  · exact ⟨_, rfl⟩
  · exact ⟨_, rfl⟩

theorem truncQ_idem (q : Rat) : truncQ (truncQ q) = truncQ q := by
  obtain ⟨z, hz⟩ := truncQ_isInt q
  rw [hz, truncQ_intCast]

theorem coerce_idem (k : Kind) (q : Rat) : coerce k (coerce k q) = coerce k q := by
  cases k <;> simp [coerce, truncQ_idem]

theorem coerce_intCast (k : Kind) (z : Int) : coerce k (z : Rat) = (z : Rat) := by
  cases k <;> simp [coerce, truncQ_intCast]

theorem coerce_natCast (k : Kind) (n : Nat) : coerce k (n : Rat) = (n : Rat) := by
  have := coerce_intCast k (n : Int)
  rwa [Rat.intCast_natCast] at this

theorem coerce_zero (k : Kind) : coerce k 0 = 0 := by
  simpa using coerce_natCast k 0

theorem coerce_one (k : Kind) : coerce k 1 = 1 := by
  simpa using coerce_natCast k 1

theorem coerce_float (q : Rat) : coerce .float q = q := rfl

end E3fpVerif

namespace E3fpVerif

/-! ## the constructors in closed form -/

theorem mkBit_eq (ix : List Nat) (bits : Nat) (level : Int) (hlt : ∀ i ∈ ix, i < bits) :
    mkBit ix bits level = .ok ⟨.bit, bits, level, uniq ix, []⟩ := by
  unfold mkBit
  rw [any_ge_false _ _ hlt]; rfl

theorem mkBit_error (ix : List Nat) (bits : Nat) (level : Int) (i : Nat) (hi : i ∈ ix) (hge : bits ≤ i) :
    mkBit ix bits level = .error .bitsValue := by
  unfold mkBit
  have : ix.any (fun i => decide (i ≥ bits)) = true := by
    rw [List.any_eq_true]; exact ⟨i, hi, by simpa using hge⟩
  rw [this]; rfl

/-- rebuilding a well-formed bit fingerprint from its own fields -/
theorem mkBit_self (f : Fp) (hk : f.kind = .bit) (hwf : f.WF) : mkBit f.idx f.bits f.level = .ok f := by
  obtain ⟨hs, hb, hc, _⟩ := hwf
  rw [mkBit_eq _ _ _ hb, uniq_of_strictAsc _ hs]
  cases f; simp_all

theorem mkCount_some_none_eq (k : Kind) (ix : List Nat) (bits : Nat) (level : Int) (hlt : ∀ i ∈ ix, i < bits) :
    mkCount k (some ix) none bits level =
      .ok ⟨k, bits, level, uniq ix, (uniq ix).map (fun i => (i, coerce k (ix.count i : Nat)))⟩ := by
  unfold mkCount
  simp only
  rw [any_ge_false _ _ hlt]; rfl

theorem mkCount_some_some_eq (k : Kind) (ix : List Nat) (c : List (Nat × Rat)) (bits : Nat) (level : Int)
    (hlt : ∀ i ∈ ix, i < bits) (hkeys : ∀ x, x ∈ c.map Prod.fst ↔ x ∈ ix) :
    mkCount k (some ix) (some c) bits level =
      .ok ⟨k, bits, level, uniq ix, (uniq ix).map (fun i => (i, coerce k (lookupQ c i)))⟩ := by
  unfold mkCount
  simp only
  rw [any_ge_false _ _ hlt]
  have h1 : c.all (fun p => decide (p.1 ∈ uniq ix)) = true := by
    rw [List.all_eq_true]; intro p hp
    simp only [decide_eq_true_eq, mem_uniq]
    exact (hkeys p.1).1 (List.mem_map_of_mem hp)
  have h2 : (uniq ix).all (fun i => hasKey c i) = true := by
    rw [List.all_eq_true]; intro i hi
    rw [hasKey_iff, hkeys]; exact (mem_uniq i ix).1 hi
  rw [h1, h2]; rfl

theorem mkCount_none_some_eq (k : Kind) (c : List (Nat × Rat)) (bits : Nat) (level : Int)
    (hlt : ∀ i ∈ c.map Prod.fst, i < bits) :
    mkCount k none (some c) bits level =
      .ok ⟨k, bits, level, uniq (c.map Prod.fst),
        (uniq (c.map Prod.fst)).map (fun i => (i, coerce k (lookupQ c i)))⟩ := by
  unfold mkCount
  simp only
  rw [any_ge_false _ _ (by intro i hi; exact hlt i ((mem_uniq _ _).1 hi))]; rfl

/-! ## counts dictionary -/

theorem countsDict_keys (f : Fp) (hwf : f.WF) : f.countsDict.map Prod.fst = f.idx := by
  unfold Fp.countsDict
  split
  · simp [List.map_map, Function.comp_def]
  · rename_i hk; exact hwf.2.2.2 (fun e => hk e)

theorem lookupQ_countsDict (f : Fp) (i : Nat) : lookupQ f.countsDict i = f.count i := by
  unfold Fp.countsDict Fp.count
  split
  · by_cases hi : i ∈ f.idx
    · rw [if_pos hi]; exact lookupQ_map_of_mem (fun _ => 1) f.idx i hi
    · rw [if_neg hi]; exact lookupQ_map_of_not_mem (fun _ => 1) f.idx i hi
  · rfl

theorem countsDict_pos (f : Fp) (hpos : ∀ p ∈ f.cnt, 0 < p.2) : ∀ p ∈ f.countsDict, 0 < p.2 := by
  unfold Fp.countsDict
  split
  · intro p hp
    obtain ⟨i, _, rfl⟩ := List.mem_map.1 hp
    simp only
    grind
  · exact hpos

/-- `from_fingerprint` into a count or float class, in closed form: same support, coerced values -/
theorem fromFingerprint_eq (k : Kind) (hk : k ≠ .bit) (f : Fp) (hwf : f.WF) (hpos : ∀ p ∈ f.cnt, 0 < p.2) :
    fromFingerprint k f =
      .ok ⟨k, f.bits, f.level, f.idx, f.idx.map (fun i => (i, coerce k (f.count i)))⟩ := by
  have hfil : f.countsDict.filter (fun p => decide (0 < p.2)) = f.countsDict := by
    rw [List.filter_eq_self]; intro p hp; simpa using countsDict_pos f hpos p hp
  have hkeys := countsDict_keys f hwf
  unfold fromFingerprint
  split
  · exact absurd rfl hk
  · rw [hfil, mkCount_none_some_eq _ _ _ _ (by rw [hkeys]; exact hwf.2.1), hkeys, uniq_of_strictAsc _ hwf.1]
    simp only [lookupQ_countsDict]

/-- the stored counts of a well-formed count/float fingerprint are rebuilt by `get_count` over its indices -/
theorem map_count_self (f : Fp) (hk : f.kind ≠ .bit) (hwf : f.WF) (k : Kind)
    (hst : ∀ p ∈ f.cnt, coerce k p.2 = p.2) :
    f.idx.map (fun i => (i, coerce k (f.count i))) = f.cnt := by
  have hkeys := hwf.2.2.2 hk
  have hnd : (f.cnt.map Prod.fst).Nodup := by rw [hkeys]; exact strictAsc_nodup _ hwf.1
  have := map_lookupQ_self' (coerce k) f.cnt hnd hst
  rw [hkeys] at this
  rw [← this]
  apply List.map_congr_left
  intro i _
  rw [Fp.count_of_ne_bit f hk]

end E3fpVerif

namespace E3fpVerif

/-! ## enumerating a vector built over `List.range` -/

theorem zipIdx_map_range' {α : Type} (g : Nat → α) (n s : Nat) :
    ((List.range' s n).map g).zipIdx s = (List.range' s n).map (fun i => (g i, i)) := by
  induction n generalizing s with
  | zero => rfl
  | succ n ih =>
    rw [List.range'_succ]
    simp only [List.map_cons, List.zipIdx_cons]
    rw [ih (s + 1)]

theorem zipIdx_map_range {α : Type} (g : Nat → α) (n : Nat) :
    ((List.range n).map g).zipIdx = (List.range n).map (fun i => (g i, i)) := by
  rw [List.range_eq_range']; exact zipIdx_map_range' g n 0

/-- positions of a `range`-built vector selected by a predicate on the value -/
theorem filter_zipIdx_map_range {α : Type} (g : Nat → α) (P : α → Bool) (n : Nat) :
    (((List.range n).map g).zipIdx.filter (fun p => P p.1)) =
      ((List.range n).filter (fun i => P (g i))).map (fun i => (g i, i)) := by
  rw [zipIdx_map_range, List.filter_map]
  rfl

theorem strictAsc_range (n : Nat) : StrictAsc (List.range n) := by
  unfold StrictAsc
  exact List.pairwise_lt_range

/-- the positions below `bits` that belong to a bounded ascending list are that list -/
theorem uniq_filter_range (l : List Nat) (bits : Nat) (P : Nat → Bool) (hs : StrictAsc l) (hlt : ∀ i ∈ l, i < bits)
    (hP : ∀ i, i < bits → (P i = true ↔ i ∈ l)) : uniq ((List.range bits).filter P) = l := by
  have hasc : StrictAsc ((List.range bits).filter P) := List.Pairwise.filter _ (strictAsc_range bits)
  rw [uniq_of_strictAsc _ hasc]
  apply strictAsc_ext _ _ hasc hs
  intro x
  rw [List.mem_filter, List.mem_range]
  constructor
  · rintro ⟨h1, h2⟩; exact (hP x h1).1 h2
  · intro h; exact ⟨hlt x h, (hP x (hlt x h)).2 h⟩

theorem filter_range_eq (l : List Nat) (bits : Nat) (P : Nat → Bool) (hs : StrictAsc l) (hlt : ∀ i ∈ l, i < bits)
    (hP : ∀ i, i < bits → (P i = true ↔ i ∈ l)) : (List.range bits).filter P = l := by
  have hasc : StrictAsc ((List.range bits).filter P) := List.Pairwise.filter _ (strictAsc_range bits)
  rw [← uniq_of_strictAsc _ hasc]
  exact uniq_filter_range l bits P hs hlt hP

end E3fpVerif
