import E3fpVerif.Model.Fprinter
import E3fpVerif.Lemmas.SortBy
import E3fpVerif.Lemmas.Uniq
/-!
# The order in which neighbours are enumerated never reaches the fingerprint

`genLevelE enum` is `genLevel` with the neighbour list of every (level, centre) passed through an
arbitrary reordering `enum k a` (Python's set iteration order).  The run built on it agrees with the
model's run up to the stored neighbour lists `GShell.nbrs`, which nothing reads.
-/
namespace E3fpVerif

/-- a shell without its stored neighbour list -/
def GShell.strip (s : GShell) : GShell := { s with nbrs := [] }

def FState.strip (s : FState) : FState :=
  { tbl := s.tbl, gen := s.gen.map (·.map GShell.strip), levelShells := s.levelShells.map (·.map GShell.strip),
    past := s.past }

theorem strip_shellOf (l : List GShell) (a : Nat) :
    (shellOf l a).strip = shellOf (l.map GShell.strip) a := by
  unfold shellOf
  rw [List.find?_map]
  have : ((fun s : GShell => decide (s.atom = a)) ∘ GShell.strip) = (fun s : GShell => decide (s.atom = a)) := rfl
  rw [this]
  cases l.find? (fun s => decide (s.atom = a)) <;> rfl

theorem shellOf_strip_congr {l l' : List GShell} (h : l.map GShell.strip = l'.map GShell.strip) (a : Nat) :
    (shellOf l a).ident = (shellOf l' a).ident ∧ (shellOf l a).sid = (shellOf l' a).sid
      ∧ (shellOf l a).sub = (shellOf l' a).sub := by
  have e : (shellOf l a).strip = (shellOf l' a).strip := by rw [strip_shellOf, strip_shellOf, h]
  have h1 := congrArg GShell.ident e
  have h2 := congrArg GShell.sid e
  have h3 := congrArg GShell.sub e
  exact ⟨h1, h2, h3⟩

theorem atomTuples_prev_congr (o : Opts) (m : MolG) (g : Geo) (prev prev' : List GShell) (a : Nat) (nb : List Nat)
    (h : ∀ b, (shellOf prev b).ident = (shellOf prev' b).ident) :
    atomTuples o m g prev a nb = atomTuples o m g prev' a nb := by
  unfold atomTuples
  have : (fun b => (conn m a b, (shellOf prev b).ident, b)) = (fun b => (conn m a b, (shellOf prev' b).ident, b)) :=
    funext (fun b => by rw [h b])
  simp only [this]

theorem shellIdent_prev_congr (o : Opts) (m : MolG) (g : Geo) (prev prev' : List GShell) (k a : Nat) (nb : List Nat)
    (h : ∀ b, (shellOf prev b).ident = (shellOf prev' b).ident) :
    shellIdent o m g prev k a nb = shellIdent o m g prev' k a nb := by
  unfold shellIdent
  rw [atomTuples_prev_congr o m g prev prev' a nb h, h a]

/-! ## sort, union and duplicate filter commute with stripping -/

theorem insertBy_map {β γ : Type} (lt : β → β → Bool) (lt' : γ → γ → Bool) (f : β → γ)
    (h : ∀ a b, lt' (f a) (f b) = lt a b) (x : β) (l : List β) :
    (insertBy lt x l).map f = insertBy lt' (f x) (l.map f) := by
  induction l with
  | nil => rfl
  | cons a as ih =>
    simp only [insertBy, List.map_cons, h]
    split
    · rfl
    · simp [ih]

theorem sortByLt_map {β γ : Type} (lt : β → β → Bool) (lt' : γ → γ → Bool) (f : β → γ)
    (h : ∀ a b, lt' (f a) (f b) = lt a b) (l : List β) :
    (sortByLt lt l).map f = sortByLt lt' (l.map f) := by
  induction l with
  | nil => rfl
  | cons a as ih =>
    have e1 : sortByLt lt (a :: as) = insertBy lt a (sortByLt lt as) := rfl
    have e2 : sortByLt lt' ((a :: as).map f) = insertBy lt' (f a) (sortByLt lt' (as.map f)) := rfl
    rw [e1, e2, insertBy_map lt lt' f h, ih]

theorem sortByLt_strip (l : List GShell) :
    (sortByLt ltShell l).map GShell.strip = sortByLt ltShell (l.map GShell.strip) :=
  sortByLt_map ltShell ltShell GShell.strip (fun _ _ => rfl) l

theorem unionShells_strip (old new : List GShell) :
    (unionShells old new).map GShell.strip = unionShells (old.map GShell.strip) (new.map GShell.strip) := by
  unfold unionShells
  induction new generalizing old with
  | nil => rfl
  | cons s ss ih =>
    simp only [List.foldl_cons, List.map_cons]
    rw [ih]
    congr 1
    have : (old.map GShell.strip).any (fun x => x.sid == s.strip.sid) = old.any (fun x => x.sid == s.sid) := by
      rw [List.any_map]; rfl
    rw [this]
    split <;> simp

theorem dedupShells_strip (past : List (List Nat)) (cands : List GShell) :
    (dedupShells past cands).1 = (dedupShells past (cands.map GShell.strip)).1 ∧
    (dedupShells past cands).2.map GShell.strip = (dedupShells past (cands.map GShell.strip)).2 := by
  unfold dedupShells
  suffices h : ∀ (acc : List (List Nat) × List GShell),
      (cands.foldl (fun (acc : List (List Nat) × List GShell) s =>
        if acc.1.contains s.sub then acc else (acc.1 ++ [s.sub], acc.2 ++ [s])) acc).1
        = ((cands.map GShell.strip).foldl (fun (acc : List (List Nat) × List GShell) s =>
            if acc.1.contains s.sub then acc else (acc.1 ++ [s.sub], acc.2 ++ [s])) (acc.1, acc.2.map GShell.strip)).1 ∧
      (cands.foldl (fun (acc : List (List Nat) × List GShell) s =>
        if acc.1.contains s.sub then acc else (acc.1 ++ [s.sub], acc.2 ++ [s])) acc).2.map GShell.strip
        = ((cands.map GShell.strip).foldl (fun (acc : List (List Nat) × List GShell) s =>
            if acc.1.contains s.sub then acc else (acc.1 ++ [s.sub], acc.2 ++ [s])) (acc.1, acc.2.map GShell.strip)).2 by
    simpa using h (past, [])
  induction cands with
  | nil => intro acc; exact ⟨rfl, rfl⟩
  | cons s ss ih =>
    intro acc
    simp only [List.foldl_cons, List.map_cons]
    have hs : s.strip.sub = s.sub := rfl
    rw [hs]
    by_cases hc : acc.1.contains s.sub = true
    · simp only [hc, if_true]
      exact ih acc
    · simp only [hc]
      have := ih (acc.1 ++ [s.sub], acc.2 ++ [s])
      simpa using this

theorem getLastD_map_strip (l : List (List GShell)) :
    (l.getLastD []).map GShell.strip = (l.map (·.map GShell.strip)).getLastD [] := by
  rw [List.getLastD_eq_getLast?, List.getLastD_eq_getLast?, List.getLast?_map]
  cases l.getLast? <;> rfl

theorem all_sub_strip (l : List GShell) (n : Nat) :
    l.all (fun x => x.sub.length == n) = (l.map GShell.strip).all (fun x => x.sub.length == n) := by
  rw [List.all_map]; rfl

/-! ## the iteration, generic in the level generator -/

abbrev LevelGen := List GShell → Nat → Intern → Intern × List GShell

/-- `stepState` with the level generator as a parameter -/
def stepStateG (gl : LevelGen) (o : Opts) (atoms : List Nat) (s : FState) : Option FState :=
  let cur := s.currentLevel
  if o.level ≠ -1 && (cur : Int) ≥ o.level then none
  else
    let curGen := s.gen.getLastD []
    if o.removeDup && curGen.all (fun x => x.sub.length == atoms.length) then none
    else
      let k := cur + 1
      let (t', shells) := gl curGen k s.tbl
      let sorted := sortByLt ltShell shells
      let (past', accepted) := if o.removeDup then dedupShells s.past sorted else (s.past, sorted)
      let prevLS := s.levelShells.getLastD []
      let ls := unionShells prevLS accepted
      if ls.length = prevLS.length then none
      else some { tbl := t', gen := s.gen ++ [shells], levelShells := s.levelShells ++ [ls], past := past' }

def iterateG (gl : LevelGen) (o : Opts) (atoms : List Nat) : Nat → FState → FState
  | 0, s => s
  | fuel + 1, s =>
    match stepStateG gl o atoms s with
    | none => s
    | some s' => iterateG gl o atoms fuel s'

def runFpG (gl : List Nat → LevelGen) (o : Opts) (m : MolG) : Except Err FState :=
  if o.level = -1 && !o.removeDup then .error .other
  else if m.bonds.any (fun e => e.2.2 = 0) then .error .key
  else
    let atoms := retained o m
    if atoms = [] then .error .value
    else
      let fuel := if o.level = -1 then 2 ^ atoms.length + 1 else o.level.toNat
      .ok (iterateG (gl atoms) o atoms fuel (initState o m atoms))

theorem stepState_eq_G (o : Opts) (m : MolG) (g : Geo) (atoms : List Nat) (s : FState) :
    stepState o m g atoms s = stepStateG (genLevel o m g atoms) o atoms s := rfl

theorem iterate_eq_G (o : Opts) (m : MolG) (g : Geo) (atoms : List Nat) (fuel : Nat) (s : FState) :
    iterate o m g atoms fuel s = iterateG (genLevel o m g atoms) o atoms fuel s := by
  induction fuel generalizing s with
  | zero => rfl
  | succ n ih =>
    unfold iterate iterateG
    rw [stepState_eq_G]
    generalize stepStateG (genLevel o m g atoms) o atoms s = r
    cases r with
    | none => rfl
    | some s' => exact ih s'

theorem runFp_eq_G (o : Opts) (m : MolG) (g : Geo) : runFp o m g = runFpG (genLevel o m g) o m := by
  unfold runFp runFpG
  simp only [iterate_eq_G]

/-- two level generators agree up to neighbour lists, on inputs that agree up to neighbour lists -/
def GenStripEq (gl gl' : LevelGen) : Prop :=
  ∀ prev prev' k t, prev.map GShell.strip = prev'.map GShell.strip →
    (gl prev k t).1 = (gl' prev' k t).1 ∧ (gl prev k t).2.map GShell.strip = (gl' prev' k t).2.map GShell.strip

theorem accepted_strip (b : Bool) (past : List (List Nat)) (S S' : List GShell)
    (hS : S.map GShell.strip = S'.map GShell.strip) :
    (if b = true then dedupShells past S else (past, S)).1 = (if b = true then dedupShells past S' else (past, S')).1 ∧
    (if b = true then dedupShells past S else (past, S)).2.map GShell.strip
      = (if b = true then dedupShells past S' else (past, S')).2.map GShell.strip := by
  cases b
  · exact ⟨rfl, hS⟩
  · simp only [if_true]
    have h1 := dedupShells_strip past S
    have h2 := dedupShells_strip past S'
    rw [hS] at h1
    exact ⟨h1.1.trans h2.1.symm, h1.2.trans h2.2.symm⟩

theorem stepStateG_strip (gl gl' : LevelGen) (hgl : GenStripEq gl gl') (o : Opts) (atoms : List Nat)
    (s s' : FState) (h : s.strip = s'.strip) :
    (stepStateG gl o atoms s).map FState.strip = (stepStateG gl' o atoms s').map FState.strip := by
  have htbl : s.tbl = s'.tbl := by have := congrArg FState.tbl h; exact this
  have hgen : s.gen.map (·.map GShell.strip) = s'.gen.map (·.map GShell.strip) := congrArg FState.gen h
  have hls : s.levelShells.map (·.map GShell.strip) = s'.levelShells.map (·.map GShell.strip) :=
    congrArg FState.levelShells h
  have hpast : s.past = s'.past := by have := congrArg FState.past h; exact this
  have hcur : s.currentLevel = s'.currentLevel := by
    unfold FState.currentLevel
    have := congrArg List.length hgen
    simp only [List.length_map] at this
    rw [this]
  have hc : (s.gen.getLastD []).map GShell.strip = (s'.gen.getLastD []).map GShell.strip := by
    rw [getLastD_map_strip, getLastD_map_strip, hgen]
  have hp : (s.levelShells.getLastD []).map GShell.strip = (s'.levelShells.getLastD []).map GShell.strip := by
    rw [getLastD_map_strip, getLastD_map_strip, hls]
  have hall : (s.gen.getLastD []).all (fun x => x.sub.length == atoms.length)
      = (s'.gen.getLastD []).all (fun x => x.sub.length == atoms.length) := by
    rw [all_sub_strip (s.gen.getLastD []), all_sub_strip (s'.gen.getLastD []), hc]
  obtain ⟨hg1, hg2⟩ := hgl (s.gen.getLastD []) (s'.gen.getLastD []) (s'.currentLevel + 1) s'.tbl hc
  have hS := sortByLt_strip (gl (s.gen.getLastD []) (s'.currentLevel + 1) s'.tbl).2
  rw [hg2, ← sortByLt_strip] at hS
  obtain ⟨ha1, ha2⟩ := accepted_strip o.removeDup s'.past _ _ hS
  have hU := unionShells_strip (s.levelShells.getLastD [])
    (if o.removeDup = true then dedupShells s'.past (sortByLt ltShell (gl (s.gen.getLastD []) (s'.currentLevel + 1) s'.tbl).2)
      else (s'.past, sortByLt ltShell (gl (s.gen.getLastD []) (s'.currentLevel + 1) s'.tbl).2)).2
  rw [ha2, hp, ← unionShells_strip] at hU
  have hlen := congrArg List.length hU
  have hplen := congrArg List.length hp
  simp only [List.length_map] at hlen hplen
  unfold stepStateG
  simp only []
  rw [hcur, hall, htbl, hpast]
  generalize (if o.removeDup = true then
      dedupShells s'.past (sortByLt ltShell (gl (s.gen.getLastD []) (s'.currentLevel + 1) s'.tbl).2)
    else (s'.past, sortByLt ltShell (gl (s.gen.getLastD []) (s'.currentLevel + 1) s'.tbl).2)) = A at ha1 ha2 hU hlen ⊢
  generalize (if o.removeDup = true then
      dedupShells s'.past (sortByLt ltShell (gl' (s'.gen.getLastD []) (s'.currentLevel + 1) s'.tbl).2)
    else (s'.past, sortByLt ltShell (gl' (s'.gen.getLastD []) (s'.currentLevel + 1) s'.tbl).2)) = A' at ha1 ha2 hU hlen ⊢
  by_cases h1 : (decide (o.level ≠ -1) && decide ((s'.currentLevel : Int) ≥ o.level)) = true
  · simp only [h1, if_true]
  · simp only [h1, Bool.false_eq_true, if_false]
    by_cases h2 : (o.removeDup && (s'.gen.getLastD []).all (fun x => x.sub.length == atoms.length)) = true
    · simp only [h2, if_true]
    · simp only [h2, Bool.false_eq_true, if_false]
      rw [hlen, hplen]
      by_cases h3 : (unionShells (s'.levelShells.getLastD []) A'.2).length = (s'.levelShells.getLastD []).length
      · simp only [h3, if_true]
      · simp only [h3, if_false, Option.map_some, FState.strip, List.map_append, List.map_cons, List.map_nil,
          hgen, hls, hg1, hg2, ha1, hU]

theorem iterateG_strip (gl gl' : LevelGen) (hgl : GenStripEq gl gl') (o : Opts) (atoms : List Nat) (fuel : Nat)
    (s s' : FState) (h : s.strip = s'.strip) :
    (iterateG gl o atoms fuel s).strip = (iterateG gl' o atoms fuel s').strip := by
  induction fuel generalizing s s' with
  | zero => exact h
  | succ n ih =>
    unfold iterateG
    have hs := stepStateG_strip gl gl' hgl o atoms s s' h
    cases h1 : stepStateG gl o atoms s with
    | none =>
      cases h2 : stepStateG gl' o atoms s' with
      | none => exact h
      | some r' => rw [h1, h2] at hs; cases hs
    | some r =>
      cases h2 : stepStateG gl' o atoms s' with
      | none => rw [h1, h2] at hs; cases hs
      | some r' =>
        rw [h1, h2] at hs
        exact ih r r' (Option.some.inj hs)

theorem runFpG_strip (gl gl' : List Nat → LevelGen) (hgl : ∀ atoms, GenStripEq (gl atoms) (gl' atoms))
    (o : Opts) (m : MolG) :
    (runFpG gl o m).map FState.strip = (runFpG gl' o m).map FState.strip := by
  unfold runFpG
  split
  · rfl
  · split
    · rfl
    · simp only
      split
      · rfl
      · simp only [Except.map]
        rw [iterateG_strip (gl (retained o m)) (gl' (retained o m)) (hgl _) o (retained o m) _ _ _ rfl]

/-! ## reading a fingerprint off a state never looks at the neighbour lists -/

theorem resolveLevel_strip (s : FState) (req : Option Int) : resolveLevel s.strip req = resolveLevel s req := by
  unfold resolveLevel FState.currentLevel FState.strip
  simp only [List.length_map]

theorem shellsAt_strip (s : FState) (req : Option Int) (mask : List Nat) :
    shellsAt s.strip req mask = (shellsAt s req mask).map GShell.strip := by
  unfold shellsAt
  rw [resolveLevel_strip]
  have : s.strip.levelShells.getD (resolveLevel s req) [] = (s.levelShells.getD (resolveLevel s req) []).map GShell.strip := by
    simp only [FState.strip, List.getD_eq_getElem?_getD, List.getElem?_map]
    cases s.levelShells[resolveLevel s req]? <;> rfl
  rw [this, List.filter_map]
  rfl

theorem fingerprintAt_strip (o : Opts) (s : FState) (req : Option Int) (bits : Option Nat) (mask : List Nat) :
    fingerprintAt o s.strip req bits mask = fingerprintAt o s req bits mask := by
  unfold fingerprintAt
  rw [shellsAt_strip, List.map_map]
  rfl

end E3fpVerif
