import E3fpVerif.Model.Basic
namespace E3fpVerif

theorem isPow2Multiple_iff (a b : Nat) (hb : 0 < b) : isPow2Multiple a b = true ↔ ∃ n, a = b * 2 ^ n := by
  induction a using Nat.strongRecOn with
  | _ a ih =>
    unfold isPow2Multiple
    split
    · omega
    · split
      · rename_i hlt
        simp only [Bool.false_eq_true, false_iff]
        rintro ⟨n, hn⟩
        have : 0 < 2 ^ n := Nat.pow_pos (by decide)
        have : b ≤ b * 2 ^ n := Nat.le_mul_of_pos_right b this
        omega
      · split
        · rename_i heq
          simp only [true_iff]
          exact ⟨0, by simp [heq]⟩
        · rename_i hnlt hne
          split
          · rename_i hodd
            simp only [Bool.false_eq_true, false_iff]
            rintro ⟨n, hn⟩
            cases n with
            | zero => simp at hn; omega
            | succ n =>
              rw [Nat.pow_succ] at hn
              have : a % 2 = 0 := by rw [hn, ← Nat.mul_assoc]; exact Nat.mul_mod_left _ _
              omega
          · rename_i heven
            have hlt : a / 2 < a := by omega
            rw [ih (a / 2) hlt]
            constructor
            · rintro ⟨n, hn⟩
              refine ⟨n + 1, ?_⟩
              rw [Nat.pow_succ, ← Nat.mul_assoc, ← hn]; omega
            · rintro ⟨n, hn⟩
              cases n with
              | zero => simp at hn; omega
              | succ n =>
                refine ⟨n, ?_⟩
                rw [Nat.pow_succ, ← Nat.mul_assoc] at hn
                omega

end E3fpVerif
