import E3fpVerif.Model.Fprinter
/-!
# A concrete tiny input for the non-vacuity examples of C12 and C02

A four-atom chain 0-1-2-3 in which every atom is within every shell; only bonded atoms are
neighbours.  Two iterations succeed (levels 0, 1, 2 have 4, 8, 9 shells), the third finds only
duplicate substructures.
-/
namespace E3fpVerif.Ex

def o : Opts :=
  { bits := 1024
    level := 3
    stereo := false
    counts := false
    includeDisconnected := false
    rdkitInvariants := false
    excludeFloating := true
    removeDup := true }

def mkAtom (i z d : Nat) : AtomInfo := { idx := i, atomicNum := z, degree := d, invD := [z, d], invR := [z] }

def m : MolG :=
  { atoms := [mkAtom 0 6 1, mkAtom 1 6 2, mkAtom 2 7 2, mkAtom 3 8 1]
    bonds := [(0, 1, 1), (1, 2, 1), (2, 3, 2)] }

def g : Geo := { within := fun _ _ _ => true, stereo := fun _ _ => [] }

def atoms : List Nat := [0, 1, 2, 3]

def s0 : FState := initState o m atoms

/-- the state after `n` iterations -/
def sN (n : Nat) : FState := iterate o m g atoms n s0

set_option maxRecDepth 100000 in
theorem retained_eq : retained o m = atoms := by decide

set_option maxRecDepth 100000 in
theorem step0_some : (stepState o m g atoms s0).isSome = true := by decide

set_option maxRecDepth 100000 in
theorem step1_some : (stepState o m g atoms (sN 1)).isSome = true := by decide

set_option maxRecDepth 100000 in
theorem lengths : (sN 3).levelShells.map (·.length) = [4, 8, 9] := by decide

end E3fpVerif.Ex
