import E3fpVerif.Lemmas.RelabelAux
import Mathlib.Data.List.Perm.Basic
import Mathlib.Data.List.Forall2
import Mathlib.Data.List.Nodup
/-!
# Lists that correspond elementwise after a permutation

`PermRel R l l'`: there is a bijection between the positions of `l` and `l'` along which `R` holds.
Plus fact (D) about the duplicate-substructure filter: run on two candidate lists that correspond
(same identifiers, corresponding substructures) and are both sorted by identifier, it accepts
corresponding lists, whatever the order among candidates with equal identifiers.
-/
namespace E3fpVerif.Rl
open E3fpVerif

section PermRel
variable {α β γ ι ι' : Type}

def PermRel (R : α → β → Prop) (l : List α) (l' : List β) : Prop :=
  ∃ l'', l''.Perm l' ∧ List.Forall₂ R l l''

theorem PermRel.nil (R : α → β → Prop) : PermRel R [] [] := ⟨[], List.Perm.refl _, List.Forall₂.nil⟩

theorem forall₂_mem {R : α → β → Prop} {l : List α} {l' : List β} (h : List.Forall₂ R l l') :
    List.Forall₂ (fun x x' => R x x' ∧ x ∈ l ∧ x' ∈ l') l l' := by
  induction h with
  | nil => exact .nil
  | cons hab _ ih =>
    refine .cons ⟨hab, by simp, by simp⟩ (ih.imp ?_)
    rintro x x' ⟨hR, hx, hx'⟩
    exact ⟨hR, List.mem_cons_of_mem _ hx, List.mem_cons_of_mem _ hx'⟩

theorem forall₂_map_eq {l : List α} {l' : List β} (f : α → γ) (f' : β → γ)
    (h : List.Forall₂ (fun x x' => f x = f' x') l l') : l.map f = l'.map f' := by
  induction h with
  | nil => rfl
  | cons hab _ ih => simp [hab, ih]

theorem PermRel.mono {R R' : α → β → Prop} {l : List α} {l' : List β}
    (h : ∀ x ∈ l, ∀ x' ∈ l', R x x' → R' x x') (hr : PermRel R l l') : PermRel R' l l' := by
  obtain ⟨l'', hp, hf⟩ := hr
  refine ⟨l'', hp, (forall₂_mem hf).imp ?_⟩
  rintro x x' ⟨hR, hx, hx'⟩
  exact h x hx x' (hp.mem_iff.1 hx') hR

theorem PermRel.length_eq {R : α → β → Prop} {l : List α} {l' : List β} (h : PermRel R l l') :
    l.length = l'.length := by
  obtain ⟨l'', hp, hf⟩ := h
  rw [hf.length_eq, hp.length_eq]

theorem PermRel.append {R : α → β → Prop} {l1 l2 : List α} {l1' l2' : List β}
    (h1 : PermRel R l1 l1') (h2 : PermRel R l2 l2') : PermRel R (l1 ++ l2) (l1' ++ l2') := by
  obtain ⟨m1, hp1, hf1⟩ := h1
  obtain ⟨m2, hp2, hf2⟩ := h2
  exact ⟨m1 ++ m2, hp1.append hp2, List.rel_append hf1 hf2⟩

theorem PermRel.perm_left {R : α → β → Prop} {l1 l2 : List α} {l' : List β}
    (hp : l1.Perm l2) (h : PermRel R l1 l') : PermRel R l2 l' := by
  obtain ⟨l'', hp', hf⟩ := h
  obtain ⟨w, hw, hwp⟩ := List.perm_comp_forall₂ hp.symm hf
  exact ⟨w, hwp.trans hp', hw⟩

theorem PermRel.perm_right {R : α → β → Prop} {l : List α} {l1' l2' : List β}
    (hp : l1'.Perm l2') (h : PermRel R l l1') : PermRel R l l2' := by
  obtain ⟨l'', hp', hf⟩ := h
  exact ⟨l'', hp'.trans hp, hf⟩

theorem PermRel.exists_right {R : α → β → Prop} {l : List α} {l' : List β} (h : PermRel R l l') :
    ∀ x ∈ l, ∃ x' ∈ l', R x x' := by
  obtain ⟨l'', hp, hf⟩ := h
  intro x hx
  suffices ∃ x' ∈ l'', R x x' by
    obtain ⟨x', hx', hR⟩ := this
    exact ⟨x', hp.mem_iff.1 hx', hR⟩
  clear hp
  induction hf with
  | nil => cases hx
  | @cons a b as bs hab _ ih =>
    rcases List.mem_cons.1 hx with rfl | hx
    · exact ⟨b, by simp, hab⟩
    · obtain ⟨x', hx', hR⟩ := ih hx
      exact ⟨x', List.mem_cons_of_mem _ hx', hR⟩

theorem PermRel.exists_left {R : α → β → Prop} {l : List α} {l' : List β} (h : PermRel R l l') :
    ∀ x' ∈ l', ∃ x ∈ l, R x x' := by
  obtain ⟨l'', hp, hf⟩ := h
  intro x' hx'
  have hx'' := hp.mem_iff.2 hx'
  clear hp hx'
  induction hf with
  | nil => cases hx''
  | @cons a b as bs hab _ ih =>
    rcases List.mem_cons.1 hx'' with rfl | hx
    · exact ⟨a, by simp, hab⟩
    · obtain ⟨x, hx, hR⟩ := ih hx
      exact ⟨x, List.mem_cons_of_mem _ hx, hR⟩

theorem PermRel.filter {R : α → β → Prop} {l : List α} {l' : List β} (p : α → Bool) (q : β → Bool)
    (hpq : ∀ x ∈ l, ∀ x' ∈ l', R x x' → p x = q x') (h : PermRel R l l') :
    PermRel R (l.filter p) (l'.filter q) := by
  obtain ⟨l'', hp, hf⟩ := h
  refine ⟨l''.filter q, hp.filter q, ?_⟩
  have := List.rel_filter (R := fun x x' => R x x' ∧ x ∈ l ∧ x' ∈ l'') (p := p) (q := q) ?_
    (forall₂_mem hf)
  · exact this.imp (fun _ _ h => h.1)
  · rintro x x' ⟨hR, hx, hx'⟩
    simp only [hpq x hx x' (hp.mem_iff.1 hx') hR]

theorem PermRel.all_eq {R : α → β → Prop} {l : List α} {l' : List β} (p : α → Bool) (q : β → Bool)
    (hpq : ∀ x ∈ l, ∀ x' ∈ l', R x x' → p x = q x') (h : PermRel R l l') : l.all p = l'.all q := by
  rw [Bool.eq_iff_iff, List.all_eq_true, List.all_eq_true]
  constructor
  · intro hall x' hx'
    obtain ⟨x, hx, hR⟩ := h.exists_left x' hx'
    rw [← hpq x hx x' hx' hR]; exact hall x hx
  · intro hall x hx
    obtain ⟨x', hx', hR⟩ := h.exists_right x hx
    rw [hpq x hx x' hx' hR]; exact hall x' hx'

theorem PermRel.any_eq {R : α → β → Prop} {l : List α} {l' : List β} (p : α → Bool) (q : β → Bool)
    (hpq : ∀ x ∈ l, ∀ x' ∈ l', R x x' → p x = q x') (h : PermRel R l l') : l.any p = l'.any q := by
  rw [Bool.eq_iff_iff, List.any_eq_true, List.any_eq_true]
  constructor
  · rintro ⟨x, hx, hpx⟩
    obtain ⟨x', hx', hR⟩ := h.exists_right x hx
    exact ⟨x', hx', by rw [← hpq x hx x' hx' hR]; exact hpx⟩
  · rintro ⟨x', hx', hqx⟩
    obtain ⟨x, hx, hR⟩ := h.exists_left x' hx'
    exact ⟨x, hx, by rw [hpq x hx x' hx' hR]; exact hqx⟩

/-- projections that agree along `R` give permuted lists -/
theorem PermRel.map_perm {R : α → β → Prop} {l : List α} {l' : List β} (f : α → γ) (f' : β → γ)
    (hf : ∀ x ∈ l, ∀ x' ∈ l', R x x' → f x = f' x') (h : PermRel R l l') : (l'.map f').Perm (l.map f) := by
  obtain ⟨l'', hp, hfa⟩ := h
  have : l.map f = l''.map f' := by
    refine forall₂_map_eq f f' ((forall₂_mem hfa).imp ?_)
    rintro x x' ⟨hR, hx, hx'⟩
    exact hf x hx x' (hp.mem_iff.1 hx') hR
  rw [this]; exact (hp.map f').symm

/-- two lists obtained by mapping over index lists that are permutations of each other up to `π` -/
theorem PermRel.of_map {R : α → β → Prop} (A : List ι) (A' : List ι') (π : ι → ι') (hA : A'.Perm (A.map π))
    (f : ι → α) (f' : ι' → β) (h : ∀ a ∈ A, R (f a) (f' (π a))) : PermRel R (A.map f) (A'.map f') := by
  refine ⟨(A.map π).map f', (hA.map f').symm, ?_⟩
  rw [List.forall₂_map_left_iff, List.map_map, List.forall₂_map_right_iff]
  clear hA
  induction A with
  | nil => exact .nil
  | cons a as ih =>
    exact .cons (h a (by simp)) (ih (fun b hb => h b (List.mem_cons_of_mem _ hb)))

/-- a relation that is a bijection between the members of two duplicate-free lists -/
theorem PermRel.of_biUnique [DecidableEq β] {R : α → β → Prop} {l : List α} {l' : List β}
    (hn : l.Nodup) (hn' : l'.Nodup)
    (hbi : ∀ x ∈ l, ∀ y ∈ l, ∀ x' ∈ l', ∀ y' ∈ l', R x x' → R y y' → (x = y ↔ x' = y'))
    (hr : ∀ x ∈ l, ∃ x' ∈ l', R x x') (hl : ∀ x' ∈ l', ∃ x ∈ l, R x x') : PermRel R l l' := by
  induction l generalizing l' with
  | nil =>
    cases l' with
    | nil => exact PermRel.nil R
    | cons b bs =>
      obtain ⟨x, hx, _⟩ := hl b (by simp)
      cases hx
  | cons x xs ih =>
    obtain ⟨x', hx', hxx'⟩ := hr x (by simp)
    rw [List.nodup_cons] at hn
    have hrec : PermRel R xs (l'.erase x') := by
      apply ih hn.2 (hn'.erase x')
      · intro a ha b hb a' ha' b' hb' hRa hRb
        exact hbi a (List.mem_cons_of_mem _ ha) b (List.mem_cons_of_mem _ hb)
          a' (List.mem_of_mem_erase ha') b' (List.mem_of_mem_erase hb') hRa hRb
      · intro y hy
        obtain ⟨y', hy', hyy'⟩ := hr y (List.mem_cons_of_mem _ hy)
        refine ⟨y', (hn'.mem_erase_iff).2 ⟨?_, hy'⟩, hyy'⟩
        intro he
        have := (hbi y (List.mem_cons_of_mem _ hy) x (by simp) y' hy' x' hx' hyy' hxx').2 he
        exact hn.1 (this ▸ hy)
      · intro y' hy'
        obtain ⟨hne, hy'l⟩ := (hn'.mem_erase_iff).1 hy'
        obtain ⟨y, hy, hyy'⟩ := hl y' hy'l
        rcases List.mem_cons.1 hy with rfl | hy
        · exact absurd ((hbi y (by simp) y (by simp) y' hy'l x' hx' hyy' hxx').1 rfl) hne
        · exact ⟨y, hy, hyy'⟩
    obtain ⟨l'', hp, hf⟩ := hrec
    exact ⟨x' :: l'', (hp.cons x').trans (List.perm_cons_erase hx').symm, .cons hxx' hf⟩

end PermRel

/-! ## fact (D): the duplicate filter on candidates sorted by identifier -/

/-- which `(identifier, substructure)` pairs the filter accepts: the new substructures, each with the
smallest identifier among the candidates carrying it -/
theorem dedupSpec_mem_iff (past : List (List Nat)) (cands : List GShell)
    (hs : cands.Pairwise (fun a b => a.ident ≤ b.ident)) (i : Int) (p : List Nat) :
    (∃ x ∈ dedupSpec past cands, x.ident = i ∧ x.sub = p) ↔
      p ∉ past ∧ (∃ x ∈ cands, x.sub = p ∧ x.ident = i) ∧ (∀ y ∈ cands, y.sub = p → i ≤ y.ident) := by
  induction cands generalizing past with
  | nil => simp [dedupSpec]
  | cons s rest ih =>
    rw [List.pairwise_cons] at hs
    obtain ⟨hs1, hs2⟩ := hs
    by_cases hc : past.contains s.sub = true
    · rw [dedupSpec_cons_pos _ _ _ hc, ih past hs2]
      have hmem : s.sub ∈ past := by simpa using hc
      constructor
      · rintro ⟨hp, ⟨x, hx, hx2⟩, hall⟩
        refine ⟨hp, ⟨x, List.mem_cons_of_mem _ hx, hx2⟩, ?_⟩
        intro y hy hyp
        rcases List.mem_cons.1 hy with rfl | hy
        · exact absurd (hyp ▸ hmem) hp
        · exact hall y hy hyp
      · rintro ⟨hp, ⟨x, hx, hx2⟩, hall⟩
        refine ⟨hp, ⟨x, ?_, hx2⟩, fun y hy => hall y (List.mem_cons_of_mem _ hy)⟩
        rcases List.mem_cons.1 hx with rfl | hx
        · exact absurd (hx2.1 ▸ hmem) hp
        · exact hx
    · rw [dedupSpec_cons_neg _ _ _ hc]
      have hnm : s.sub ∉ past := by simpa using hc
      have ih' := ih (past ++ [s.sub]) hs2
      constructor
      · rintro ⟨x, hx, hxi, hxp⟩
        rcases List.mem_cons.1 hx with rfl | hx
        · refine ⟨hxp ▸ hnm, ⟨x, by simp, hxp, hxi⟩, ?_⟩
          intro y hy _
          rcases List.mem_cons.1 hy with rfl | hy
          · exact Int.le_of_eq hxi.symm
          · exact hxi ▸ hs1 y hy
        · obtain ⟨hp, ⟨z, hz, hz2⟩, hall⟩ := ih'.1 ⟨x, hx, hxi, hxp⟩
          have hp1 : p ∉ past := fun h => hp (List.mem_append_left _ h)
          have hp2 : s.sub ≠ p := fun h => hp (by simp [h])
          refine ⟨hp1, ⟨z, List.mem_cons_of_mem _ hz, hz2⟩, ?_⟩
          intro y hy hyp
          rcases List.mem_cons.1 hy with rfl | hy
          · exact absurd hyp hp2
          · exact hall y hy hyp
      · rintro ⟨hp, ⟨x, hx, hxp, hxi⟩, hall⟩
        by_cases hsp : s.sub = p
        · refine ⟨s, by simp, ?_, hsp⟩
          have h1 : i ≤ s.ident := hall s (by simp) hsp
          have h2 : s.ident ≤ i := by
            rcases List.mem_cons.1 hx with rfl | hx
            · exact Int.le_of_eq hxi
            · exact hxi ▸ hs1 x hx
          exact Int.le_antisymm h2 h1
        · have hxr : x ∈ rest := by
            rcases List.mem_cons.1 hx with rfl | hx
            · exact absurd hxp hsp
            · exact hx
          have hp' : p ∉ past ++ [s.sub] := by
            simp only [List.mem_append, List.mem_singleton, not_or]
            exact ⟨hp, fun h => hsp h.symm⟩
          obtain ⟨z, hz, hz2⟩ := ih'.2 ⟨hp', ⟨x, hxr, hxp, hxi⟩,
            fun y hy => hall y (List.mem_cons_of_mem _ hy)⟩
          exact ⟨z, List.mem_cons_of_mem _ hz, hz2⟩

/-- one direction of totality for fact (D) -/
theorem dedupSpec_total (Rs : List Nat → List Nat → Prop)
    (hRs : ∀ p q p' q', Rs p p' → Rs q q' → (p = q ↔ p' = q'))
    (past past' : List (List Nat)) (hpast : ∀ p p', Rs p p' → (p ∈ past ↔ p' ∈ past'))
    (cands cands' : List GShell)
    (hr : ∀ x ∈ cands, ∃ x' ∈ cands', x'.ident = x.ident ∧ Rs x.sub x'.sub)
    (hl : ∀ x' ∈ cands', ∃ x ∈ cands, x'.ident = x.ident ∧ Rs x.sub x'.sub)
    (hs : cands.Pairwise (fun a b => a.ident ≤ b.ident))
    (hs' : cands'.Pairwise (fun a b => a.ident ≤ b.ident)) :
    ∀ x ∈ dedupSpec past cands, ∃ x' ∈ dedupSpec past' cands', x'.ident = x.ident ∧ Rs x.sub x'.sub := by
  intro x hx
  obtain ⟨hp, _, hall⟩ := (dedupSpec_mem_iff past cands hs x.ident x.sub).1 ⟨x, hx, rfl, rfl⟩
  have hxc : x ∈ cands := (dedupSpec_sublist past cands).subset hx
  obtain ⟨x0, hx0, hx0i, hx0s⟩ := hr x hxc
  obtain ⟨x', hx', hx'i, hx's⟩ := (dedupSpec_mem_iff past' cands' hs' x.ident x0.sub).2
    ⟨fun h => hp ((hpast _ _ hx0s).2 h), ⟨x0, hx0, rfl, hx0i⟩, by
      intro y' hy' hy's
      obtain ⟨y, hy, hyi, hys⟩ := hl y' hy'
      have : y.sub = x.sub := (hRs _ _ _ _ hys hx0s).2 hy's
      rw [hyi]; exact hall y hy this⟩
  exact ⟨x', hx', hx'i, hx's ▸ hx0s⟩

/-- **(D)** corresponding candidate lists, each sorted by identifier, are filtered to corresponding
lists; `Rs` is any partial bijection between substructures under which `past` and `past'` agree -/
theorem dedupSpec_permRel (Rs : List Nat → List Nat → Prop)
    (hRs : ∀ p q p' q', Rs p p' → Rs q q' → (p = q ↔ p' = q'))
    (past past' : List (List Nat)) (hpast : ∀ p p', Rs p p' → (p ∈ past ↔ p' ∈ past'))
    (cands cands' : List GShell)
    (hc : PermRel (fun x x' => x'.ident = x.ident ∧ Rs x.sub x'.sub) cands cands')
    (hs : cands.Pairwise (fun a b => a.ident ≤ b.ident))
    (hs' : cands'.Pairwise (fun a b => a.ident ≤ b.ident)) :
    PermRel (fun x x' => x'.ident = x.ident ∧ Rs x.sub x'.sub) (dedupSpec past cands) (dedupSpec past' cands') := by
  have hnd := dedupSpec_nodup past cands
  have hnd' := dedupSpec_nodup past' cands'
  apply PermRel.of_biUnique hnd.of_map hnd'.of_map
  · intro x hx y hy x' hx' y' hy' hxx' hyy'
    constructor
    · intro he
      exact List.inj_on_of_nodup_map hnd' hx' hy' ((hRs _ _ _ _ hxx'.2 hyy'.2).1 (he ▸ rfl))
    · intro he
      exact List.inj_on_of_nodup_map hnd hx hy ((hRs _ _ _ _ hxx'.2 hyy'.2).2 (he ▸ rfl))
  · exact dedupSpec_total Rs hRs past past' hpast cands cands' hc.exists_right hc.exists_left hs hs'
  · intro x' hx'
    obtain ⟨x, hx, hxi, hxs⟩ := dedupSpec_total (fun p' p => Rs p p')
      (fun p' q' p q h1 h2 => (hRs p q p' q' h1 h2).symm) past' past
      (fun p' p h => (hpast p p' h).symm) cands' cands
      (fun y' hy' => by
        obtain ⟨y, hy, hyi, hys⟩ := hc.exists_left y' hy'
        exact ⟨y, hy, hyi.symm, hys⟩)
      (fun y hy => by
        obtain ⟨y', hy', hyi, hys⟩ := hc.exists_right y hy
        exact ⟨y', hy', hyi.symm, hys⟩) hs' hs x' hx'
    exact ⟨x, hx, hxi.symm, hxs⟩

/-- the candidates `stepState` filters are sorted by identifier -/
theorem sortByLt_ltShell_ident_sorted (l : List GShell) :
    (sortByLt ltShell l).Pairwise (fun a b => a.ident ≤ b.ident) := by
  have h := sortByLt_sorted ltShell ltShell_irrefl ltShell_trans l
  unfold SortedBy at h
  refine h.imp ?_
  intro a b hab
  unfold ltShell at hab
  simp only [Bool.or_eq_false_iff, decide_eq_false_iff_not] at hab
  exact Int.not_lt.1 hab.1

end E3fpVerif.Rl
