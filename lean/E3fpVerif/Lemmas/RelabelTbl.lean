import E3fpVerif.Lemmas.RelabelAux
import Mathlib.Data.List.Perm.Basic
/-!
# The intern table of the shell generator, non-inductively

`genLevel`/`genLevel0` thread an intern table through a fold over the atoms.  Here the result is
characterised without the fold: the final table is `internAll t keys`, and every shell's structural
id is the index of its key in the *final* table.  On top of that: the relation between the intern
tables of two runs whose atoms are relabelled by `π`.
-/
namespace E3fpVerif.Rl
open E3fpVerif

abbrev Key := Nat × List Nat

/-- intern a list of keys, in order -/
def internAll (t : Intern) (ks : List Key) : Intern := ks.foldl (fun t k => (intern t k).1) t

theorem idxOf?_eq (t : Intern) (k : Key) :
    t.idxOf? k = if k ∈ t then some (List.idxOf k t) else none := by
  by_cases h : k ∈ t
  · rw [if_pos h]
    unfold List.idxOf? List.idxOf
    rw [List.findIdx?_eq_some_iff_findIdx_eq]
    exact ⟨List.idxOf_lt_length_iff.2 h, rfl⟩
  · rw [if_neg h]; exact List.idxOf?_eq_none_iff.2 h

theorem intern_fst (t : Intern) (k : Key) : (intern t k).1 = if k ∈ t then t else t ++ [k] := by
  unfold intern
  rw [idxOf?_eq]
  by_cases h : k ∈ t <;> simp [h]

theorem intern_snd (t : Intern) (k : Key) : (intern t k).2 = List.idxOf k (intern t k).1 := by
  unfold intern
  rw [idxOf?_eq]
  by_cases h : k ∈ t
  · simp [h]
  · simp only [h, if_false]
    rw [List.idxOf_append, if_neg h]
    simp

theorem internAll_nil (t : Intern) : internAll t [] = t := rfl

theorem internAll_cons (t : Intern) (k : Key) (ks : List Key) :
    internAll t (k :: ks) = internAll (intern t k).1 ks := rfl

/-- the table only grows at the end, by keys of the list -/
theorem internAll_eq_append (t : Intern) (ks : List Key) :
    ∃ r, internAll t ks = t ++ r ∧ ∀ x ∈ r, x ∈ ks := by
  induction ks generalizing t with
  | nil => exact ⟨[], by simp [internAll], by simp⟩
  | cons k ks ih =>
    rw [internAll_cons, intern_fst]
    by_cases h : k ∈ t
    · rw [if_pos h]
      obtain ⟨r, hr, hm⟩ := ih t
      exact ⟨r, hr, fun x hx => List.mem_cons_of_mem _ (hm x hx)⟩
    · rw [if_neg h]
      obtain ⟨r, hr, hm⟩ := ih (t ++ [k])
      refine ⟨k :: r, by rw [hr]; simp, ?_⟩
      intro x hx
      rcases List.mem_cons.1 hx with rfl | hx
      · simp
      · exact List.mem_cons_of_mem _ (hm x hx)

theorem internAll_prefix (t : Intern) (ks : List Key) : t <+: internAll t ks := by
  obtain ⟨r, hr, _⟩ := internAll_eq_append t ks
  exact ⟨r, hr.symm⟩

theorem mem_internAll (t : Intern) (ks : List Key) (x : Key) : x ∈ internAll t ks ↔ x ∈ t ∨ x ∈ ks := by
  induction ks generalizing t with
  | nil => simp [internAll]
  | cons k ks ih =>
    rw [internAll_cons, ih, intern_fst]
    by_cases h : k ∈ t
    · rw [if_pos h]
      simp only [List.mem_cons]
      constructor
      · rintro (h' | h')
        · exact Or.inl h'
        · exact Or.inr (Or.inr h')
      · rintro (h' | rfl | h')
        · exact Or.inl h'
        · exact Or.inl h
        · exact Or.inr h'
    · rw [if_neg h]
      simp only [List.mem_append, List.mem_cons, List.not_mem_nil, or_false]
      constructor
      · rintro ((h' | h') | h')
        · exact Or.inl h'
        · exact Or.inr (Or.inl h')
        · exact Or.inr (Or.inr h')
      · rintro (h' | h' | h')
        · exact Or.inl (Or.inl h')
        · exact Or.inl (Or.inr h')
        · exact Or.inr h'

theorem internAll_nodup (t : Intern) (ks : List Key) (h : t.Nodup) : (internAll t ks).Nodup := by
  induction ks generalizing t with
  | nil => exact h
  | cons k ks ih =>
    rw [internAll_cons]
    apply ih
    rw [intern_fst]
    by_cases hk : k ∈ t
    · rw [if_pos hk]; exact h
    · rw [if_neg hk]
      rw [List.nodup_append]
      refine ⟨h, by simp, ?_⟩
      intro a ha b hb
      rw [List.mem_singleton] at hb
      subst hb
      intro e; subst e; exact hk ha

theorem idxOf_prefix {t T : Intern} {k : Key} (h : t <+: T) (hk : k ∈ t) : List.idxOf k T = List.idxOf k t := by
  obtain ⟨r, rfl⟩ := h
  exact List.idxOf_append_of_mem hk

theorem idxOf_inj {T : Intern} {k1 k2 : Key} (h1 : k1 ∈ T) (h : List.idxOf k1 T = List.idxOf k2 T) : k1 = k2 := by
  have e1 := List.getElem?_idxOf h1
  have h2 : k2 ∈ T := by
    rw [← List.idxOf_lt_length_iff, ← h]; exact List.idxOf_lt_length_iff.2 h1
  have e2 := List.getElem?_idxOf h2
  rw [h, e2] at e1
  exact (Option.some.inj e1).symm

theorem getElem?_idxOf {T : Intern} {k : Key} (h : k ∈ T) : T[List.idxOf k T]? = some k :=
  List.getElem?_idxOf h

theorem idxOf_of_getElem? {T : Intern} (hn : T.Nodup) {k : Key} {i : Nat} (h : T[i]? = some k) :
    List.idxOf k T = i := by
  obtain ⟨hi, rfl⟩ := List.getElem?_eq_some_iff.1 h
  exact hn.idxOf_getElem i hi

theorem prefix_getElem? {t T : Intern} (h : t <+: T) {i : Nat} {k : Key} (hi : t[i]? = some k) : T[i]? = some k := by
  obtain ⟨hl, rfl⟩ := List.getElem?_eq_some_iff.1 hi
  exact List.prefix_iff_getElem?.1 h i hl

/-- the fold of the generators, closed form -/
theorem foldl_intern_eq (key : Nat → Key) (mk : Nat → Nat → GShell) (l : List Nat) (t0 : Intern) (acc : List GShell) :
    l.foldl (fun (p : Intern × List GShell) a =>
        ((intern p.1 (key a)).1, p.2 ++ [mk (intern p.1 (key a)).2 a])) (t0, acc)
      = (internAll t0 (l.map key),
          acc ++ l.map (fun a => mk (List.idxOf (key a) (internAll t0 (l.map key))) a)) := by
  induction l generalizing t0 acc with
  | nil => simp [internAll]
  | cons a l ih =>
    rw [List.foldl_cons, ih]
    simp only [List.map_cons, internAll_cons, List.append_assoc, List.singleton_append]
    congr 2
    rw [intern_snd]
    have hm : key a ∈ (intern t0 (key a)).1 := by
      rw [intern_fst]; by_cases h : key a ∈ t0 <;> simp [h]
    rw [idxOf_prefix (internAll_prefix _ _) hm]

/-- the neighbours of `a` at level `k` -/
def nbOf (o : Opts) (m : MolG) (g : Geo) (atoms : List Nat) (k a : Nat) : List Nat :=
  atoms.filter (fun b => b != a && g.within k a b && (o.includeDisconnected || bonded m a b))

/-- the structural key of the level-`k` shell of `a` -/
def genKey (o : Opts) (m : MolG) (g : Geo) (atoms : List Nat) (prev : List GShell) (k a : Nat) : Key :=
  (a, uniq ((nbOf o m g atoms k a).map (fun b => (shellOf prev b).sid)))

/-- the level-`k` shell of `a`, its id read off the table `T` -/
def genShellT (o : Opts) (m : MolG) (g : Geo) (atoms : List Nat) (prev : List GShell) (k : Nat)
    (T : Intern) (a : Nat) : GShell :=
  { atom := a
    sid := List.idxOf (genKey o m g atoms prev k a) T
    sub := uniq (a :: (nbOf o m g atoms k a).flatMap (fun b => (shellOf prev b).sub))
    nbrs := nbOf o m g atoms k a
    ident := shellIdent o m g prev k a (nbOf o m g atoms k a) }

theorem genLevel_eq_map (o : Opts) (m : MolG) (g : Geo) (atoms : List Nat) (prev : List GShell) (k : Nat)
    (t : Intern) :
    genLevel o m g atoms prev k t =
      (internAll t (atoms.map (genKey o m g atoms prev k)),
        atoms.map (genShellT o m g atoms prev k (internAll t (atoms.map (genKey o m g atoms prev k))))) := by
  have h := foldl_intern_eq (genKey o m g atoms prev k)
    (fun i a => { atom := a, sid := i
                  sub := uniq (a :: (nbOf o m g atoms k a).flatMap (fun b => (shellOf prev b).sub))
                  nbrs := nbOf o m g atoms k a
                  ident := shellIdent o m g prev k a (nbOf o m g atoms k a) }) atoms t []
  rw [List.nil_append] at h
  exact h

def gen0ShellT (o : Opts) (m : MolG) (T : Intern) (a : Nat) : GShell :=
  { atom := a, sid := List.idxOf ((a, []) : Key) T, sub := [a], nbrs := [], ident := initIdent o m a }

theorem genLevel0_eq_map (o : Opts) (m : MolG) (atoms : List Nat) (t : Intern) :
    genLevel0 o m atoms t =
      (internAll t (atoms.map (fun a => ((a, []) : Key))),
        atoms.map (gen0ShellT o m (internAll t (atoms.map (fun a => ((a, []) : Key)))))) := by
  have h := foldl_intern_eq (fun a => ((a, []) : Key))
    (fun i a => { atom := a, sid := i, sub := [a], nbrs := [], ident := initIdent o m a }) atoms t []
  rw [List.nil_append] at h
  exact h

/-- looking up the shell of an atom in a list built by mapping over the atoms -/
theorem shellOf_map (mk : Nat → GShell) (hmk : ∀ a, (mk a).atom = a) (l : List Nat) (a : Nat) (ha : a ∈ l) :
    shellOf (l.map mk) a = mk a := by
  unfold shellOf
  induction l with
  | nil => cases ha
  | cons b l ih =>
    rw [List.map_cons, List.find?_cons]
    by_cases hb : b = a
    · subst hb; simp [hmk]
    · have : decide ((mk b).atom = a) = false := by simp [hmk, hb]
      rw [this]
      rcases List.mem_cons.1 ha with h | h
      · exact absurd h.symm hb
      · exact ih h

/-! ## two tables related by a relabelling -/

/-- a relation between ids that is a partial bijection -/
def BiUnique (S : Nat → Nat → Prop) : Prop := ∀ i j i' j', S i j → S i' j' → (i = i' ↔ j = j')

/-- keys correspond: the centre is mapped by `π`, the member ids correspond as sets under `S` -/
def KRel (π : Nat → Nat) (S : Nat → Nat → Prop) (k k' : Key) : Prop :=
  k'.1 = π k.1 ∧ (∀ i ∈ k.2, ∃ j ∈ k'.2, S i j) ∧ (∀ j ∈ k'.2, ∃ i ∈ k.2, S i j)

theorem KRel.mono {π : Nat → Nat} {S S₂ : Nat → Nat → Prop} (h : ∀ i j, S i j → S₂ i j) {k k' : Key}
    (hk : KRel π S k k') : KRel π S₂ k k' := by
  obtain ⟨h1, h2, h3⟩ := hk
  refine ⟨h1, ?_, ?_⟩
  · intro i hi; obtain ⟨j, hj, hs⟩ := h2 i hi; exact ⟨j, hj, h _ _ hs⟩
  · intro j hj; obtain ⟨i, hi, hs⟩ := h3 j hj; exact ⟨i, hi, h _ _ hs⟩

theorem KRel.mem_fwd {π : Nat → Nat} {S : Nat → Nat → Prop} (hS : BiUnique S) {k k1' k2' : Key}
    (h1 : KRel π S k k1') (h2 : KRel π S k k2') : ∀ j ∈ k1'.2, j ∈ k2'.2 := by
  intro j hj
  obtain ⟨i, hi, hs⟩ := h1.2.2 j hj
  obtain ⟨j2, hj2, hs2⟩ := h2.2.1 i hi
  rw [(hS i j i j2 hs hs2).1 rfl]; exact hj2

theorem KRel.mem_bwd {π : Nat → Nat} {S : Nat → Nat → Prop} (hS : BiUnique S) {k1 k2 k' : Key}
    (h1 : KRel π S k1 k') (h2 : KRel π S k2 k') : ∀ i ∈ k1.2, i ∈ k2.2 := by
  intro i hi
  obtain ⟨j, hj, hs⟩ := h1.2.1 i hi
  obtain ⟨i2, hi2, hs2⟩ := h2.2.2 j hj
  rw [(hS i j i2 j hs hs2).2 rfl]; exact hi2

/-- related keys are equal on one side iff they are on the other -/
theorem KRel.eq_iff {π : Nat → Nat} (hinj : ∀ a b, π a = π b → a = b) {S : Nat → Nat → Prop} (hS : BiUnique S)
    {k1 k2 k1' k2' : Key} (h1 : KRel π S k1 k1') (h2 : KRel π S k2 k2')
    (a1 : StrictAsc k1.2) (a2 : StrictAsc k2.2) (a1' : StrictAsc k1'.2) (a2' : StrictAsc k2'.2) :
    k1 = k2 ↔ k1' = k2' := by
  constructor
  · intro e; subst e
    apply Prod.ext
    · exact h1.1.trans h2.1.symm
    · exact strictAsc_ext _ _ a1' a2' (fun j => ⟨KRel.mem_fwd hS h1 h2 j, KRel.mem_fwd hS h2 h1 j⟩)
  · intro e; subst e
    apply Prod.ext
    · exact hinj _ _ (h1.1.symm.trans h2.1)
    · exact strictAsc_ext _ _ a1 a2 (fun i => ⟨KRel.mem_bwd hS h1 h2 i, KRel.mem_bwd hS h2 h1 i⟩)

/-- the tables of two runs correspond under the id relation `S` -/
structure TblRel (π : Nat → Nat) (S : Nat → Nat → Prop) (t t' : Intern) : Prop where
  bi : BiUnique S
  nd : t.Nodup
  nd' : t'.Nodup
  asc : ∀ k ∈ t, StrictAsc k.2
  asc' : ∀ k ∈ t', StrictAsc k.2
  rel : ∀ i j, S i j → ∃ k k', t[i]? = some k ∧ t'[j]? = some k' ∧ KRel π S k k'

theorem TblRel.empty (π : Nat → Nat) : TblRel π (fun _ _ => False) [] [] :=
  ⟨by intro _ _ _ _ h; exact h.elim, List.nodup_nil, List.nodup_nil, by simp, by simp, by intro _ _ h; exact h.elim⟩

/-- the id relation after interning the keys of one more level -/
def extS (S : Nat → Nat → Prop) (π : Nat → Nat) (A : List Nat) (T T' : Intern) (key key' : Nat → Key) :
    Nat → Nat → Prop :=
  fun i j => S i j ∨ ∃ a ∈ A, i = List.idxOf (key a) T ∧ j = List.idxOf (key' (π a)) T'

theorem extS_old {S : Nat → Nat → Prop} {π : Nat → Nat} {A : List Nat} {T T' : Intern} {key key' : Nat → Key}
    {i j : Nat} (h : S i j) : extS S π A T T' key key' i j := Or.inl h

theorem extS_new {S : Nat → Nat → Prop} {π : Nat → Nat} {A : List Nat} {T T' : Intern} {key key' : Nat → Key}
    {a : Nat} (ha : a ∈ A) : extS S π A T T' key key' (List.idxOf (key a) T) (List.idxOf (key' (π a)) T') :=
  Or.inr ⟨a, ha, rfl, rfl⟩

/-- interning corresponding keys (in whatever order) keeps the tables related -/
theorem intern_relabel (π : Nat → Nat) (hinj : ∀ a b, π a = π b → a = b) (S : Nat → Nat → Prop) (t t' : Intern)
    (h : TblRel π S t t') (A A' : List Nat) (hA : A'.Perm (A.map π)) (key key' : Nat → Key)
    (hk : ∀ a ∈ A, KRel π S (key a) (key' (π a)))
    (hasc : ∀ a ∈ A, StrictAsc (key a).2) (hasc' : ∀ a ∈ A, StrictAsc (key' (π a)).2) :
    TblRel π (extS S π A (internAll t (A.map key)) (internAll t' (A'.map key')) key key')
      (internAll t (A.map key)) (internAll t' (A'.map key')) := by
  have hpre := internAll_prefix t (A.map key)
  have hpre' := internAll_prefix t' (A'.map key')
  have hnd := internAll_nodup t (A.map key) h.nd
  have hnd' := internAll_nodup t' (A'.map key') h.nd'
  have hmemT : ∀ a ∈ A, key a ∈ internAll t (A.map key) := fun a ha =>
    (mem_internAll _ _ _).2 (Or.inr (List.mem_map.2 ⟨a, ha, rfl⟩))
  have hmemT' : ∀ a ∈ A, key' (π a) ∈ internAll t' (A'.map key') := fun a ha =>
    (mem_internAll _ _ _).2 (Or.inr (List.mem_map.2 ⟨π a, hA.mem_iff.2 (List.mem_map.2 ⟨a, ha, rfl⟩), rfl⟩))
  generalize hT : internAll t (A.map key) = T at *
  generalize hT' : internAll t' (A'.map key') = T' at *
  have hasc_T : ∀ k ∈ T, StrictAsc k.2 := by
    intro k hk
    rw [← hT] at hk
    rcases (mem_internAll _ _ _).1 hk with hk | hk
    · exact h.asc k hk
    · obtain ⟨a, ha, rfl⟩ := List.mem_map.1 hk; exact hasc a ha
  have hasc_T' : ∀ k ∈ T', StrictAsc k.2 := by
    intro k hk
    rw [← hT'] at hk
    rcases (mem_internAll _ _ _).1 hk with hk | hk
    · exact h.asc' k hk
    · obtain ⟨a', ha', rfl⟩ := List.mem_map.1 hk
      obtain ⟨a, ha, rfl⟩ := List.mem_map.1 (hA.mem_iff.1 ha')
      exact hasc' a ha
  -- an old pair against a new pair
  have hon : ∀ i j, S i j → ∀ a ∈ A,
      (i = List.idxOf (key a) T ↔ j = List.idxOf (key' (π a)) T') := by
    intro i j hs a ha
    obtain ⟨k, k', e1, e2, hkk⟩ := h.rel i j hs
    have E1 := prefix_getElem? hpre e1
    have E2 := prefix_getElem? hpre' e2
    have hkt : k ∈ t := List.mem_of_getElem? e1
    have hkt' : k' ∈ t' := List.mem_of_getElem? e2
    have hiff := KRel.eq_iff hinj h.bi hkk (hk a ha) (h.asc k hkt) (hasc a ha) (h.asc' k' hkt') (hasc' a ha)
    constructor
    · intro e
      have := getElem?_idxOf (hmemT a ha)
      rw [← e, E1] at this
      have e' := hiff.1 (Option.some.inj this)
      rw [e'] at E2
      exact (idxOf_of_getElem? hnd' E2).symm
    · intro e
      have := getElem?_idxOf (hmemT' a ha)
      rw [← e, E2] at this
      have e' := hiff.2 (Option.some.inj this)
      rw [e'] at E1
      exact (idxOf_of_getElem? hnd E1).symm
  refine ⟨?_, hnd, hnd', hasc_T, hasc_T', ?_⟩
  · intro i j i2 j2 h1 h2
    rcases h1 with h1 | ⟨a, ha, rfl, rfl⟩ <;> rcases h2 with h2 | ⟨b, hb, rfl, rfl⟩
    · exact h.bi i j i2 j2 h1 h2
    · exact hon i j h1 b hb
    · rw [eq_comm, hon i2 j2 h2 a ha, eq_comm]
    · have hiff := KRel.eq_iff hinj h.bi (hk a ha) (hk b hb) (hasc a ha) (hasc b hb) (hasc' a ha) (hasc' b hb)
      constructor
      · intro e; rw [hiff.1 (idxOf_inj (hmemT a ha) e)]
      · intro e; rw [hiff.2 (idxOf_inj (hmemT' a ha) e)]
  · intro i j hs
    rcases hs with hs | ⟨a, ha, rfl, rfl⟩
    · obtain ⟨k, k', e1, e2, hkk⟩ := h.rel i j hs
      exact ⟨k, k', prefix_getElem? hpre e1, prefix_getElem? hpre' e2, hkk.mono (fun _ _ => Or.inl)⟩
    · exact ⟨key a, key' (π a), getElem?_idxOf (hmemT a ha), getElem?_idxOf (hmemT' a ha),
        (hk a ha).mono (fun _ _ => Or.inl)⟩

end E3fpVerif.Rl
