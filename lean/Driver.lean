import E3fpVerif.DriverFprint
import E3fpVerif.DriverDb
import E3fpVerif.DriverMetrics
import E3fpVerif.DriverFprinter
import E3fpVerif.DriverConfig
import E3fpVerif.DriverPipeline
import E3fpVerif.DriverSdf
import E3fpVerif.DriverBatch
import E3fpVerif.DriverConformer
import E3fpVerif.DriverFpHeap
open Lean E3fpVerif

structure St where
  dbs : Store := {}

def dispatch (st : St) (j : Json) : St × Json :=
  match (do
    let op ← jStr (← jField j "op")
    if op.startsWith "fph." then return (st, ← fpHeapOp op j)
    else if op.startsWith "fp." then return (st, ← fprintOp op j)
    else if op.startsWith "db." then
      let (s, r) ← dbOp st.dbs op j
      return ({ st with dbs := s }, r)
    else if op.startsWith "met." then return (st, ← metricsOp op j)
    else if op.startsWith "fpr." || op.startsWith "fpo." then return (st, ← fprinterOp op j)
    else if op.startsWith "cfg." then return (st, ← configOp op j)
    else if op.startsWith "pipe." then return (st, ← pipelineOp op j)
    else if op.startsWith "sdf." then return (st, ← sdfOp op j)
    else if op.startsWith "batch." then return (st, ← batchOp op j)
    else if op.startsWith "conf." then return (st, ← conformerOp op j)
    else .error s!"unknown op {op}" : Except String (St × Json)) with
  | .ok r => r
  | .error e => (st, Json.mkObj [("driver_error", e)])

partial def loop (h : IO.FS.Stream) (out : IO.FS.Stream) (st : St) : IO Unit := do
  let line ← h.getLine
  if line.isEmpty then return ()
  match Json.parse line with
  | .ok j =>
    let (st', r) := dispatch st j
    out.putStrLn r.compress
    loop h out st'
  | .error e =>
    out.putStrLn (Json.mkObj [("driver_error", e)]).compress
    loop h out st

def main : IO Unit := do loop (← IO.getStdin) (← IO.getStdout) {}
