import E3fpVerif.DriverFprint
open Lean E3fpVerif

def dispatch (j : Json) : Json :=
  match (do
    let op ← jStr (← jField j "op")
    if op.startsWith "fp." then fprintOp op j
    else .error s!"unknown op {op}" : Except String Json) with
  | .ok r => r
  | .error e => Json.mkObj [("driver_error", e)]

partial def loop (h : IO.FS.Stream) (out : IO.FS.Stream) : IO Unit := do
  let line ← h.getLine
  if line.isEmpty then return ()
  match Json.parse line with
  | .ok j => out.putStrLn (dispatch j).compress
  | .error e => out.putStrLn (Json.mkObj [("driver_error", e)]).compress
  loop h out

def main : IO Unit := do loop (← IO.getStdin) (← IO.getStdout)
