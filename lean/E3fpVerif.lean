import E3fpVerif.Model.Basic
import E3fpVerif.Model.Fprint
import E3fpVerif.Lemmas.Uniq
