"""Systematic self-test: AST-level mutants of e3fp's source, run against the checks (no proofs, scratch worktrees).

usage: python -m harness.mutscan list <relpath>            -> number of mutation sites
       python -m harness.mutscan run <relpath> <i> <wt>    -> applies mutant i of the file inside worktree <wt>, runs the
                                                               checks mapped to the file, prints one JSON line, restores the file
Not part of any registered check: a tool for finding blind spots of the generators (DESIGN.md section 11).
"""
from __future__ import annotations

import ast
import copy
import json
import os
import subprocess
import sys

CHECKS = {
    "src/e3fp/fingerprint/fprint.py": ["C07", "C09", "C10", "C11", "C17", "C06", "C14"],
    "src/e3fp/fingerprint/db.py": ["C05", "C08", "C16", "C17", "C07", "C09", "C06", "C15"],
    "src/e3fp/fingerprint/fprinter.py": ["C02", "C01", "C03", "C04", "C12", "C18", "C07", "C17", "C14"],
    "src/e3fp/fingerprint/structs.py": ["C02", "C03", "C04", "C12"],
    "src/e3fp/fingerprint/array_ops.py": ["C02", "C01"],
    "src/e3fp/fingerprint/metrics/__init__.py": ["C06"],
    "src/e3fp/fingerprint/metrics/fprint_metrics.py": ["C06"],
    "src/e3fp/fingerprint/metrics/array_metrics.py": ["C06"],
    "src/e3fp/fingerprint/generate.py": ["C14", "C15", "C20"],
    "src/e3fp/pipeline.py": ["C14", "C20"],
    "src/e3fp/conformer/util.py": ["C19", "C14", "C15"],
    "src/e3fp/conformer/generator.py": ["C13"],
    "src/e3fp/conformer/generate.py": ["C15", "C20"],
    "src/e3fp/config/params.py": ["C20"],
}

CMP = {ast.Lt: ast.LtE, ast.LtE: ast.Lt, ast.Gt: ast.GtE, ast.GtE: ast.Gt, ast.Eq: ast.NotEq, ast.NotEq: ast.Eq,
       ast.Is: ast.IsNot, ast.IsNot: ast.Is, ast.In: ast.NotIn, ast.NotIn: ast.In}
BIN = {ast.Add: ast.Sub, ast.Sub: ast.Add, ast.Mult: ast.FloorDiv, ast.FloorDiv: ast.Mult, ast.Mod: ast.FloorDiv, ast.Div: ast.Mult}


def sites(tree):
    """list of (kind, node id path) in a deterministic walk"""
    out = []
    for n in ast.walk(tree):
        if isinstance(n, ast.Compare) and len(n.ops) == 1 and type(n.ops[0]) in CMP:
            out.append(("cmp", n))
        elif isinstance(n, ast.BinOp) and type(n.op) in BIN and not (isinstance(n.left, ast.Constant) and isinstance(n.left.value, str)):
            out.append(("bin", n))
        elif isinstance(n, ast.BoolOp):
            out.append(("bool", n))
        elif isinstance(n, ast.If):
            out.append(("negif", n))
        elif isinstance(n, ast.Constant) and isinstance(n.value, int) and not isinstance(n.value, bool) and abs(n.value) < 1000:
            out.append(("const", n))
        elif isinstance(n, ast.Constant) and isinstance(n.value, bool):
            out.append(("boolconst", n))
        elif isinstance(n, (ast.Expr,)) and isinstance(n.value, ast.Call) and not ast.unparse(n.value).startswith(("logging.", "warnings.", "print(")):
            out.append(("delcall", n))
        elif isinstance(n, ast.AugAssign):
            out.append(("delaug", n))
    return out


def in_docstring_or_main(tree):
    skip = set()
    for n in ast.walk(tree):
        if isinstance(n, ast.If) and ast.unparse(n.test).startswith("__name__"):
            for m in ast.walk(n):
                skip.add(id(m))
    return skip


def mutate(src, i):
    tree = ast.parse(src)
    skip = in_docstring_or_main(tree)
    ss = [(k, n) for k, n in sites(tree) if id(n) not in skip]
    k, n = ss[i]
    before = ast.unparse(n)[:80]
    if k == "cmp":
        n.ops[0] = CMP[type(n.ops[0])]()
    elif k == "bin":
        n.op = BIN[type(n.op)]()
    elif k == "bool":
        n.op = ast.Or() if isinstance(n.op, ast.And) else ast.And()
    elif k == "negif":
        n.test = ast.UnaryOp(op=ast.Not(), operand=n.test)
    elif k == "const":
        n.value = n.value + 1
    elif k == "boolconst":
        n.value = not n.value
    elif k in ("delcall", "delaug"):
        n.__class__ = ast.Pass
        n._fields = ()
    ast.fix_missing_locations(tree)
    return ast.unparse(tree) + "\n", k, getattr(n, "lineno", 0), before, len(ss)


def main():
    cmd = sys.argv[1]
    rel = sys.argv[2]
    if cmd == "list":
        src = open(os.path.join(os.environ.get("E3FP_REPO", "/repo"), rel)).read()
        print(mutate(src, 0)[4])
        return
    i, wt = int(sys.argv[3]), sys.argv[4]
    path = os.path.join(wt, rel)
    orig = open(path).read()
    try:
        new, kind, line, before, n = mutate(orig, i)
    except Exception as e:  # noqa: BLE001
        print(json.dumps({"file": rel, "i": i, "skip": repr(e)}))
        return
    open(path, "w").write(new)
    res = {"file": rel, "i": i, "kind": kind, "line": line, "node": before, "caught_by": None, "keys": None}
    try:
        env = dict(os.environ, E3FP_REPO=wt, VERIF_EVIDENCE_DIR=os.path.join(wt, "_evid"), NUMBA_CACHE_DIR=os.path.join(wt, "_numba"), VERIF_TIMEOUT="600")
        # does it still import?
        p = subprocess.run(["/venv/bin/python", "-c", "import sys; sys.modules['mpi4py']=None; import e3fp.pipeline, e3fp.fingerprint.db, e3fp.conformer.generate"],
                           env=dict(env, PYTHONPATH=os.path.join(wt, "src")), capture_output=True, text=True, timeout=120)
        if p.returncode != 0:
            res["caught_by"] = "import"
        else:
            for c in CHECKS[rel]:
                try:
                    q = subprocess.run(["bin/check", c, "--tier", "quick", "--no-proof"], cwd="/verif", env=env, capture_output=True, text=True, timeout=700)
                    rc = q.returncode
                    out = q.stdout
                except subprocess.TimeoutExpired:
                    rc, out = 2, "TIMEOUT"
                if rc != 0:
                    res["caught_by"] = c
                    ks = [l for l in out.splitlines() if "failure keys" in l or "broken:" in l]
                    res["keys"] = (ks[0][:200] if ks else out[-200:])
                    res["rc"] = rc
                    break
    finally:
        open(path, "w").write(orig)
    print(json.dumps(res))


if __name__ == "__main__":
    main()
