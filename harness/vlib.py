"""Shared machinery of the /verif checks.

A check for property <ID> is a module harness/props/<ID>.py defining a subclass of
`Check`; `run_check` drives it through the fixed pipeline described in DESIGN.md
section 3:

  1. regenerate lean/E3fpVerif/Gen/*.lean from /repo (harness/extract.py)
  2. re-check the proofs (lake build of Props.<ID>) and audit their axioms
  3. replay the corpus, then run the seeded correspondence (implementation vs the
     compiled Lean model `driver`), and evaluate the property statement directly
     on the implementation for every generated case
  4. verdict; evidence/<ID>.json is rewritten on every run
"""
from __future__ import annotations

import fcntl
import hashlib
import json
import os
import random
import re
import shutil
import subprocess
import sys
import time
import traceback

VERIF = os.path.dirname(os.path.dirname(os.path.abspath(__file__)))
REPO = os.environ.get("E3FP_REPO", "/repo")
LEAN = os.path.join(VERIF, "lean")
WORK = os.path.join(VERIF, ".work")
EVID = os.environ.get("VERIF_EVIDENCE_DIR") or os.path.join(VERIF, "evidence")
CORPUS = os.path.join(VERIF, "corpus")
ALLOWED_AXIOMS = {"propext", "Classical.choice", "Quot.sound"}
FORBIDDEN_TOKENS = [
    r"\bsorry\b", r"\badmit\b", r"^\s*axiom\s", r"\bnative_decide\b", r"\bbv_decide\b",
    r"\bimplemented_by\b", r"\bunsafe\s", r"maxHeartbeats\s+0\b", r"\bextern\b",
]


def setup_env():
    """Environment for importing /repo's e3fp without dirtying /repo."""
    os.makedirs(WORK, exist_ok=True)
    os.environ.setdefault("NUMBA_CACHE_DIR", os.path.join(WORK, "numba"))
    os.environ.setdefault("PYTHONDONTWRITEBYTECODE", "1")
    sys.dont_write_bytecode = True
    # python_utilities.parallel imports mpi4py and only catches ImportError; there is no
    # MPI runtime here (RuntimeError).  Force the ImportError branch.
    sys.modules.setdefault("mpi4py", None)
    import logging
    logging.disable(logging.CRITICAL)
    import warnings
    warnings.filterwarnings("ignore")
    src = os.path.join(REPO, "src")
    if src not in sys.path:
        sys.path.insert(0, src)


# Optional measurement of the tie: which source lines of /repo's e3fp the check executes (correspondence + direct property
# evaluation, in this process).  Enabled by VERIF_COVERAGE=1 and by default in the thorough tier; started at import of this
# module, i.e. before any props module imports e3fp, so that definition lines count too.
_COV = None
if os.environ.get("VERIF_COVERAGE", "") == "1" or (os.environ.get("VERIF_COVERAGE", "") != "0" and "thorough" in sys.argv):
    try:
        import coverage as _coverage
        _COV = _coverage.Coverage(data_file=None, source=[os.path.join(REPO, "src", "e3fp")], config_file=False)
        _COV.start()
    except Exception:  # noqa: BLE001 - the measurement is optional
        _COV = None


def source_coverage(files):
    """Stop the measurement; per anchored file: statements, executed, and the missing line ranges."""
    global _COV
    if _COV is None:
        return None
    try:
        _COV.stop()
        out = {}
        for rel in files:
            path = os.path.join(REPO, rel)
            if not os.path.exists(path) or not path.endswith(".py"):
                continue
            _f, stmts, _excl, missing, missing_fmt = _COV.analysis2(path)
            out[rel] = {"statements": len(stmts), "executed": len(stmts) - len(missing), "missing": missing_fmt}
        return out
    except Exception as e:  # noqa: BLE001
        return {"error": repr(e)}
    finally:
        _COV = None


class Broken(Exception):
    """A proof obligation or the tie to the source no longer checks."""


# --------------------------------------------------------------------------------------
# Lean side
# --------------------------------------------------------------------------------------

class LakeLock:
    def __enter__(self):
        os.makedirs(WORK, exist_ok=True)
        self.f = open(os.path.join(WORK, "lake.lock"), "w")
        fcntl.flock(self.f, fcntl.LOCK_EX)
        return self

    def __exit__(self, *a):
        fcntl.flock(self.f, fcntl.LOCK_UN)
        self.f.close()


def run(cmd, cwd=None, timeout=3600, input=None, env=None):
    p = subprocess.run(cmd, cwd=cwd, timeout=timeout, input=input, env=env,
                       stdout=subprocess.PIPE, stderr=subprocess.STDOUT, text=True)
    return p.returncode, p.stdout


def write_if_changed(path, text):
    try:
        with open(path) as f:
            if f.read() == text:
                return False
    except FileNotFoundError:
        pass
    os.makedirs(os.path.dirname(path), exist_ok=True)
    tmp = path + ".tmp%d" % os.getpid()
    with open(tmp, "w") as f:
        f.write(text)
    os.replace(tmp, path)
    return True


def regenerate(scratch=False):
    """Run the translator; returns (ok, report).  `scratch`: a debugging run against another checkout (E3FP_REPO) without the
    proof step writes the generated files to a scratch directory, so that it cannot disturb a check running on /repo."""
    from harness import extract
    if scratch:
        import tempfile
        d = tempfile.mkdtemp(prefix="gen_", dir=WORK)
        try:
            return extract.regenerate_all(REPO, d)
        finally:
            import shutil
            shutil.rmtree(d, ignore_errors=True)
    return extract.regenerate_all(REPO, os.path.join(LEAN, "E3fpVerif", "Gen"))


def lake_build(targets, timeout=3600):
    with LakeLock():
        rc, out = run(["lake", "build"] + list(targets), cwd=LEAN, timeout=timeout)
    return rc, out


_AUDIT_TMPL = """import {mod}
import Lean
open Lean Elab Command in
run_cmd do
  let env ← getEnv
  let some idx := env.getModuleIdx? `{mod} | throwError "module not found"
  let names := env.header.moduleData[idx]!.constNames
  for c in names do
    if c.isInternalDetail then continue
    match env.find? c with
    | some (.thmInfo _) =>
      let axs ← Lean.collectAxioms c
      logInfo m!"AUDIT|{{c}}|{{axs.toList}}"
    | _ => pure ()
"""


def audit(mod):
    """Enumerate the theorems declared in module `mod` and the axioms of each."""
    os.makedirs(WORK, exist_ok=True)
    path = os.path.join(WORK, "Audit_%s_%d.lean" % (mod.replace(".", "_"), os.getpid()))
    with open(path, "w") as f:
        f.write(_AUDIT_TMPL.format(mod=mod))
    try:
        rc, out = run(["lake", "env", "lean", path], cwd=LEAN, timeout=1800)
    finally:
        try:
            os.remove(path)
        except OSError:
            pass
    thms = {}
    for line in out.splitlines():
        m = re.search(r"AUDIT\|([^|]+)\|\[(.*)\]", line)
        if m:
            axs = [a.strip() for a in m.group(2).split(",") if a.strip()]
            thms[m.group(1).strip()] = axs
    if rc != 0:
        raise Broken("audit of %s failed:\n%s" % (mod, out[-2000:]))
    return thms


def strip_lean_comments(text):
    text = re.sub(r"/-.*?-/", "", text, flags=re.S)
    text = re.sub(r"--.*", "", text)
    return text


def scan_lean_sources():
    """Textual scan for escape hatches in every .lean file of the project."""
    hits = []
    for root, _dirs, files in os.walk(LEAN):
        if ".lake" in root:
            continue
        for fn in files:
            if not fn.endswith(".lean"):
                continue
            p = os.path.join(root, fn)
            body = strip_lean_comments(open(p).read())
            for pat in FORBIDDEN_TOKENS:
                for m in re.finditer(pat, body, flags=re.M):
                    hits.append("%s: %s" % (os.path.relpath(p, VERIF), m.group(0).strip()))
    return hits


class Driver:
    """The compiled Lean model behind a line protocol (one JSON op in, one answer out)."""

    def __init__(self):
        self.exe = os.environ.get("VERIF_DRIVER_EXE") or os.path.join(LEAN, ".lake", "build", "bin", "driver")

    def ensure_built(self):
        rc, out = lake_build(["driver"])
        if rc != 0 or not os.path.exists(self.exe):
            raise Broken("driver does not build:\n" + out[-3000:])

    def run_lines(self, ops, timeout=3600):
        if not ops:
            return []
        data = "\n".join(json.dumps(o, separators=(",", ":")) for o in ops) + "\n"
        p = subprocess.run([self.exe], input=data, stdout=subprocess.PIPE,
                           stderr=subprocess.PIPE, text=True, timeout=timeout)
        lines = p.stdout.splitlines()
        if p.returncode != 0 or len(lines) != len(ops):
            raise Broken("driver failed rc=%s, %d answers for %d ops: %s" % (
                p.returncode, len(lines), len(ops), p.stderr[-2000:]))
        return [json.loads(l) for l in lines]

    def run_sharded(self, ops, shards=8, timeout=3600):
        """Stateless ops only: split over several driver processes."""
        if len(ops) < 2000 or shards <= 1:
            return self.run_lines(ops, timeout)
        from concurrent.futures import ThreadPoolExecutor
        n = len(ops)
        chunks = [ops[i * n // shards:(i + 1) * n // shards] for i in range(shards)]
        with ThreadPoolExecutor(shards) as ex:
            parts = list(ex.map(lambda c: self.run_lines(c, timeout), chunks))
        return [a for part in parts for a in part]


# --------------------------------------------------------------------------------------
# known findings
# --------------------------------------------------------------------------------------

def load_known_findings():
    p = os.path.join(VERIF, "known_findings.json")
    try:
        return json.load(open(p))
    except FileNotFoundError:
        return []


# --------------------------------------------------------------------------------------
# the check base class
# --------------------------------------------------------------------------------------

class Check:
    id = "C00"
    props_modules: list = []          # Lean modules holding the property theorems
    gen_items: list = []              # names of extract.py items this property depends on
    assumptions: list = []
    trusted_base: list = []
    rule = ""
    stateful_driver = False           # True: ops of one case must go to one driver process in order

    def __init__(self, tier, seed):
        self.tier = tier
        self.seed = seed
        self.rng = random.Random((seed * 1000003) ^ int(hashlib.sha1(self.id.encode()).hexdigest()[:8], 16))
        self.dist = {}

    # -- to be provided by subclasses ----------------------------------------------
    def corpus_cases(self):
        d = os.path.join(CORPUS, self.id)
        out = []
        if os.path.isdir(d):
            for fn in sorted(os.listdir(d)):
                if fn.endswith(".json"):
                    j = json.load(open(os.path.join(d, fn)))
                    if isinstance(j, dict) and "cases" in j:
                        out.extend(j["cases"])
                    else:
                        out.append(j)
        return out

    def gen_cases(self):
        """Yield JSON-able cases."""
        return []

    def impl(self, case):
        """Run the real code; canonical JSON-able answer."""
        raise NotImplementedError

    def model_ops(self, case):
        """List of driver ops for this case (answers are handed to `model_answer`)."""
        raise NotImplementedError

    def model_answer(self, case, answers):
        """Canonical answer of the model, comparable with `impl(case)`."""
        return answers[0] if len(answers) == 1 else answers

    def compare(self, case, a_impl, a_model):
        """None when equal; otherwise a description."""
        if canon(a_impl) == canon(a_model):
            return None
        return {"impl": a_impl, "model": a_model}

    def prop(self, case):
        """Evaluate the property statement directly on the implementation.
        None when it holds; otherwise a JSON-able failure description
        {"key": <canonical witness key>, "what": text, ...}."""
        return None

    def neighbours(self, case):
        """Cases near a disagreeing case, for the failing-input search."""
        return []

    def nontrivial(self, case, a_impl):
        """A hashable key when the case is non-trivial, else None."""
        return json.dumps(case, sort_keys=True)

    def count(self, key, n=1):
        self.dist[key] = self.dist.get(key, 0) + n

    def extra_obligations(self):
        """Additional per-run obligations (e.g. golden corpus); list of (name, ok, detail)."""
        return []


def canon(x):
    """Canonical JSON text for comparison."""
    return json.dumps(x, sort_keys=True, separators=(",", ":"))


def short(x, n=600):
    s = canon(x)
    return s if len(s) <= n else s[:n] + "...(%d chars)" % len(s)


def anchored_files(pid):
    """the source files the property is anchored in (properties.jsonl)"""
    try:
        for line in open(os.path.join(VERIF, "properties.jsonl")):
            p = json.loads(line)
            if p.get("id") == pid:
                return list(p.get("anchors", {}).get("files", []))
    except Exception:  # noqa: BLE001
        pass
    return []


def finding_key(prop_id, failure):
    return "%s:%s" % (prop_id, failure.get("key", ""))


def run_check(cls, argv=None):
    import argparse
    ap = argparse.ArgumentParser()
    ap.add_argument("--tier", default=os.environ.get("VERIF_TIER", "quick"), choices=["quick", "thorough"])
    ap.add_argument("--replay", default=None)
    ap.add_argument("--no-proof", action="store_true", help="debug: skip the lake/audit step")
    args = ap.parse_args(argv)
    seed = int(os.environ.get("VERIF_SEED", "0") or 0)
    setup_env()
    t0 = time.time()
    # a check that runs out of time is a harness problem (exit 2), never a VIOLATION
    import signal
    budget = int(os.environ.get("VERIF_TIMEOUT", "1500" if args.tier == "quick" else "14400"))

    def on_alarm(signum, frame):
        print("%s TIMEOUT after %d s (tier %s) - no verdict" % (cls.id, budget, args.tier))
        sys.stdout.flush()
        os._exit(2)
    try:
        signal.signal(signal.SIGALRM, on_alarm)
        signal.alarm(budget)
    except (ValueError, AttributeError):
        pass
    chk = cls(args.tier, seed)
    pid = chk.id
    os.makedirs(EVID, exist_ok=True)
    os.makedirs(os.path.join(WORK, "replay"), exist_ok=True)

    if args.replay:
        return replay(chk, args.replay)

    broken = []            # list of (kind, name, detail)
    obligations = 0
    discharged = 0
    theorem_names = []
    axioms_used = set()

    # 1. translator ------------------------------------------------------------------
    try:
        ok, report = regenerate(scratch=bool(args.no_proof and os.path.realpath(REPO) != "/repo"))
        for item, (iok, detail) in report.items():
            if chk.gen_items and item not in chk.gen_items:
                continue
            obligations += 1
            if iok:
                discharged += 1
            else:
                broken.append(("extract", item, detail))
    except Exception as e:  # the extractor itself crashed
        broken.append(("extract", "extract.py", "".join(traceback.format_exception_only(type(e), e))))

    # 2. proofs ----------------------------------------------------------------------
    if not args.no_proof:
        hits = scan_lean_sources()
        obligations += 1
        if hits:
            broken.append(("scan", "forbidden token in lean/", "; ".join(hits[:10])))
        else:
            discharged += 1
        rc, out = lake_build(chk.props_modules + ["driver"])
        if rc != 0:
            errs = [l for l in out.splitlines() if "error" in l.lower()][:20]
            # which theorems?  name them from the error lines
            broken.append(("proof", "lake build " + " ".join(chk.props_modules),
                           "\n".join(errs) or out[-1500:]))
            obligations += 1
        else:
            for mod in chk.props_modules:
                try:
                    thms = audit(mod)
                except Broken as e:
                    broken.append(("proof", "audit " + mod, str(e)))
                    obligations += 1
                    continue
                if not thms:
                    broken.append(("proof", mod, "no theorems found in module"))
                    obligations += 1
                for name, axs in sorted(thms.items()):
                    obligations += 1
                    theorem_names.append(name)
                    axioms_used.update(axs)
                    bad = [a for a in axs if a not in ALLOWED_AXIOMS]
                    if bad:
                        broken.append(("proof", name, "depends on axioms %s" % bad))
                    else:
                        discharged += 1
            if args.tier == "thorough" and not broken:
                with LakeLock():
                    rc, out = run(["lake", "env", "leanchecker"] + chk.props_modules, cwd=LEAN, timeout=3600)
                obligations += 1
                if rc != 0:
                    broken.append(("proof", "leanchecker", out[-1500:]))
                else:
                    discharged += 1

    for name, ok, detail in chk.extra_obligations():
        obligations += 1
        if ok:
            discharged += 1
        else:
            broken.append(("obligation", name, detail))

    # 3. correspondence + direct property evaluation ---------------------------------
    driver = Driver()
    evaluations = 0
    nontriv = set()
    samples = []
    disagreements = []     # (case, diff)
    failures = []          # (case, failure)
    corpus_n = 0

    def run_cases(cases, label):
        nonlocal evaluations
        cases = list(cases)
        impl_answers = []
        ops = []
        spans = []
        for c in cases:
            try:
                a = chk.impl(c)
            except Exception as e:
                a = {"harness_exc": "".join(traceback.format_exception_only(type(e), e)).strip()}
            impl_answers.append(a)
            try:
                o = chk.model_ops(c)
            except Exception as e:
                o = [{"op": "harness_error", "msg": str(e)}]
            spans.append((len(ops), len(ops) + len(o)))
            ops.extend(o)
        try:
            if chk.stateful_driver:
                answers = driver.run_lines(ops)
            else:
                answers = driver.run_sharded(ops, shards=12 if chk.tier == "thorough" else 4)
        except Broken as e:
            broken.append(("correspondence", "driver", str(e)))
            answers = None
        for i, c in enumerate(cases):
            evaluations += 1
            a_impl = impl_answers[i]
            k = chk.nontrivial(c, a_impl)
            if k is not None:
                nontriv.add(k if isinstance(k, str) else canon(k))
            if len(samples) < 3 and label == "gen":
                samples.append({"case": json.loads(short_json(c)), "impl": json.loads(short_json(a_impl))})
            if answers is not None:
                lo, hi = spans[i]
                try:
                    a_model = chk.model_answer(c, answers[lo:hi])
                    diff = chk.compare(c, a_impl, a_model)
                except Exception as e:
                    diff = {"harness_exc": repr(e)}
                if diff is not None:
                    disagreements.append((c, diff))
            try:
                f = chk.prop(c)
            except Exception as e:
                f = {"key": "exception:" + type(e).__name__, "what": "property evaluation raised " +
                     "".join(traceback.format_exception_only(type(e), e)).strip()}
            if f is not None:
                failures.append((c, f))

    try:
        driver.ensure_built()
    except Broken as e:
        broken.append(("correspondence", "driver build", str(e)))
    cc = chk.corpus_cases()
    corpus_n = len(cc)
    run_cases(cc, "corpus")
    run_cases(chk.gen_cases(), "gen")

    for c, diff in disagreements[:50]:
        broken.append(("correspondence", "model/implementation disagree", short({"case": c, "diff": diff}, 1500)))

    # 4. search when something broke ------------------------------------------------
    searched = 0
    if broken and not failures:
        t_search = time.time()
        box = 60 if args.tier == "quick" else 600
        seeds = [c for c, _ in disagreements[:20]]
        pool = []
        for c in seeds:
            pool.append(c)
            try:
                pool.extend(chk.neighbours(c))
            except Exception:
                pass
        chk2 = cls(args.tier, seed + 7919)
        import itertools
        for c in itertools.chain(pool, chk2.gen_cases()):
            if time.time() - t_search > box:
                break
            searched += 1
            try:
                f = chk.prop(c)
            except Exception as e:
                f = {"key": "exception:" + type(e).__name__, "what": repr(e)}
            if f is not None:
                failures.append((c, f))
                break

    # 5. verdict ---------------------------------------------------------------------
    known = [k for k in load_known_findings() if k.get("property") == pid and k.get("kind") == "finding"]
    known_keys = {k["key"]: k for k in known}
    lines = []
    unlisted = []
    printed_known = set()
    for c, f in failures:
        key = f.get("key", "")
        if key in known_keys:
            if key not in printed_known:
                printed_known.add(key)
                lines.append("KNOWN-FINDING: property=%s %s" % (pid, known_keys[key].get("what", f.get("what", ""))))
        else:
            unlisted.append((c, f))
    # disagreements / broken proofs that coincide with known findings are tolerated only if
    # every broken item is explained by a listed finding's `explains` patterns
    unexplained = []
    for kind, name, detail in broken:
        expl = False
        for k in known:
            for pat in k.get("explains", []):
                if re.search(pat, name + "\n" + detail):
                    expl = True
        if not expl:
            unexplained.append((kind, name, detail))

    rc = 0
    replay_path = None
    if unlisted:
        c, f = unlisted[0]
        replay_path = os.path.join(WORK, "replay", "%s_%d.json" % (pid, int(time.time())))
        json.dump({"property": pid, "kind": "failing-input", "case": c, "failure": f,
                   "broken": [list(b) for b in broken[:10]],
                   "rerun": "bin/check %s --replay %s" % (pid, replay_path)}, open(replay_path, "w"), indent=1)
        lines.append("VIOLATION property=%s replay=%s" % (pid, replay_path))
        rc = 1
    elif unexplained:
        replay_path = os.path.join(WORK, "replay", "%s_%d.json" % (pid, int(time.time())))
        json.dump({"property": pid, "kind": "broken-obligation",
                   "broken": [list(b) for b in unexplained[:20]],
                   "searched_cases": searched + evaluations,
                   "rerun": "bin/check %s --tier %s" % (pid, args.tier)}, open(replay_path, "w"), indent=1)
        lines.append("VIOLATION property=%s replay=%s no-failing-input-found" % (pid, replay_path))
        rc = 1

    wall = time.time() - t0
    ev = {
        "property_id": pid, "tier": args.tier, "seed": seed, "level": "proof",
        "coverage": {
            "obligations": max(obligations, 1), "discharged": discharged,
            "checker_cmd": "cd lean && lake build %s && lake env lean <generated audit: collectAxioms on every theorem of the module>%s" % (
                " ".join(chk.props_modules), " && lake env leanchecker " + " ".join(chk.props_modules) if args.tier == "thorough" else ""),
            "trusted_base": ["Lean 4.33.0 kernel", "axioms: " + ", ".join(sorted(axioms_used) or ["none"]),
                             "harness/extract.py (translator)", "correspondence harness + lean driver parsing"] + chk.trusted_base,
            "theorems": theorem_names,
            "evaluations": evaluations, "distinct_nontrivial": len(nontriv), "rule": chk.rule,
            "samples": samples or [{"note": "no generated cases"}],
            "corpus_replayed": corpus_n, "disagreements": len(disagreements),
            "search_cases_after_break": searched,
            "distribution": chk.dist,
            "broken": [list(b) for b in broken[:10]],
            "source_lines_executed": source_coverage(anchored_files(pid)) or "not measured (set VERIF_COVERAGE=1; on in the thorough tier)",
        },
        "assumptions": chk.assumptions,
        "wall_s": round(wall, 2),
        "violations": len(unlisted) + (1 if (not unlisted and unexplained) else 0),
    }
    with open(os.path.join(EVID, pid + ".json"), "w") as f:
        json.dump(ev, f, indent=1, sort_keys=True)
    for l in lines:
        print(l)
    print("%s %s tier=%s seed=%d obligations=%d/%d cases=%d nontrivial=%d disagreements=%d failures=%d wall=%.1fs" % (
        pid, "OK" if rc == 0 else "FAIL", args.tier, seed, discharged, obligations, evaluations, len(nontriv),
        len(disagreements), len(failures), wall))
    if rc != 0:
        hist = {}
        for c, f in failures:
            hist[f.get("key", "")] = hist.get(f.get("key", ""), 0) + 1
        if hist:
            print("  failure keys:", json.dumps(hist, sort_keys=True))
        for b in (unexplained or broken)[:5]:
            print("  broken:", b[0], b[1], "|", b[2][:800].replace("\n", "\n    "))
        for c, f in unlisted[:3]:
            print("  failing input:", short(c, 800), "->", short(f, 800))
    return rc


def short_json(x, n=1500):
    s = canon(x)
    if len(s) <= n:
        return s
    return json.dumps({"truncated": s[:n]})


def replay(chk, path):
    j = json.load(open(path))
    pid = chk.id
    if j.get("kind") == "failing-input":
        f = chk.prop(j["case"])
        if f is not None:
            print("VIOLATION property=%s replay=%s" % (pid, path))
            print("  ", short(f, 1000))
            return 1
        print("%s replay: property holds on the recorded input" % pid)
        return 0
    print("%s replay: recorded broken obligations (re-run the check):" % pid)
    for b in j.get("broken", []):
        print("  ", b[0], b[1])
    return run_check(type(chk), ["--tier", chk.tier])
