"""Base class of the fingerprinter checks (C01-C04, C12, C18) and helpers shared by them.

A case is {"ref", "conf", "tr", "perm", "opts", "queries", ...}; `build(case)` returns the RDKit
molecule and conformer it denotes.  Correspondence: the implementation and the Lean float model are
run on the same molecule facts / coordinates.  A case whose model answer changes under a 3e-14 A
perturbation of the coordinates lies within floating-point round-off of a decision threshold (the
band the properties exclude); it is discarded and counted."""
from __future__ import annotations

import random

import numpy as np

from harness import vlib
from harness import molgen as MG
from rdkit import Chem

PERT = 3e-14


def build(case):
    mol = MG.load_ref(case["ref"])
    ci = case.get("conf", 0) % max(1, mol.GetNumConformers())
    tr = case.get("tr")
    perm = case.get("perm")
    delete = case.get("delete")
    if perm or delete:
        m, c = MG.transformed(mol, ci, tr)
        if delete:
            rw = Chem.RWMol(m)
            for a in sorted(delete, reverse=True):
                rw.RemoveAtom(a)
            m = rw.GetMol()
            Chem.SanitizeMol(m)
        if perm:
            m = Chem.RenumberAtoms(m, perm)
        return m, m.GetConformer(0)
    if tr:
        return MG.transformed(mol, ci, tr)
    return mol, mol.GetConformer(ci)


def levels_multiset(dump):
    """per level: sorted list of (identifier, substructure) - what a fingerprint can see"""
    return [sorted((s[1], tuple(s[2])) for s in lvl) for lvl in dump["levels"]]


def ident_multisets(dump):
    return [sorted(s[1] for s in lvl) for lvl in dump["levels"]]


def observable(dump, relabel=None):
    """What the properties compare: per level the multiset of (identifier, substructure), the stop level
    and every queried fingerprint.  `relabel` maps atom indices (for renumbered twins)."""
    def sub(t):
        return tuple(sorted(relabel[a] for a in t)) if relabel else tuple(t)
    return {"current": dump["current"],
            "levels": [sorted((s[1], sub(s[2])) for s in lvl) for lvl in dump["levels"]],
            "fps": [q["fp"] for q in dump["queries"]]}


class FprCheck(vlib.Check):
    gen_items = ["fprinter_consts", "fprint_fold"]
    trusted_base = ["RDKit atom properties / bond types / coordinates (read directly by the harness)", "mmh3 C library (re-implemented in the model, compared)",
                    "SciPy pdist, NumPy arccos/dot/mean: IEEE double vs the model's Float (round-off band filtered, counted)"]
    assumptions = ["cases whose model answer changes under a 3e-14 A coordinate perturbation are within round-off of a decision threshold and are discarded (counted in distribution.margin_discarded)"]

    huge_in = ("C02", "C03")

    def refs(self):
        return MG.all_refs()

    def sample_confs(self, n):
        """n (ref, conf index) pairs, seeded: every SMILES molecule and a sample of SDF conformers"""
        rng = self.rng
        out = []
        refs = self.refs()
        for k in range(n):
            ref = rng.choice(refs)
            if k == 1 and self.id in self.huge_in:
                ref = MG.HUGE_REF          # the molecule of more than 256 heavy atoms, once per run
                self.count("molecule>256-heavy-atoms")
            mol = MG.load_ref(ref)
            out.append((ref, rng.randrange(mol.GetNumConformers())))
        return out

    # -- correspondence -----------------------------------------------------------------
    def impl(self, case):
        mol, conf = build(case)
        return MG.run_impl(mol, conf, case["opts"], case.get("queries", []))

    def model_ops(self, case):
        mol, conf = build(case)
        ops = [MG.model_run_op(mol, conf, case["opts"], case.get("queries", []))]
        for k in (1, 2):
            c2 = dict(case)
            tr = dict(case.get("tr") or {})
            tr["perturb"] = [k, PERT]
            # perturb in the frame of the stored conformer (before the rigid motion)
            c2["tr"] = tr
            m2, cf2 = build(c2)
            ops.append(MG.model_run_op(m2, cf2, case["opts"], case.get("queries", [])))
        return ops

    def model_answer(self, case, answers):
        base = answers[0]
        if any(vlib.canon(a) != vlib.canon(base) for a in answers[1:]):
            return {"margin": True}
        return base

    def compare(self, case, a_impl, a_model):
        if isinstance(a_model, dict) and a_model.get("margin"):
            self.count("margin_discarded")
            return None
        return super().compare(case, a_impl, a_model)

    # -- helpers for the direct property evaluation ----------------------------------------
    def robust_impl(self, case):
        """Implementation answer, or None when it is not stable under the 3e-14 A perturbation."""
        mol, conf = build(case)
        base = MG.run_impl(mol, conf, case["opts"], case.get("queries", []))
        for k in (1, 2):
            c2 = dict(case)
            tr = dict(case.get("tr") or {})
            tr["perturb"] = [k, PERT]
            c2["tr"] = tr
            m2, cf2 = build(c2)
            if vlib.canon(MG.run_impl(m2, cf2, case["opts"], case.get("queries", []))) != vlib.canon(base):
                self.count("margin_discarded_prop")
                return None
        return base

    def nontrivial(self, case, a_impl):
        if "ok" in a_impl and isinstance(a_impl["ok"], dict) and len(a_impl["ok"].get("levels", [])) >= 2:
            return vlib.canon([case["ref"], case.get("conf"), case["opts"], case.get("tr"), case.get("perm")])
        return None
