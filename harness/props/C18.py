"""C18 - only the positions of bonded heavy atoms influence a fingerprint."""
from __future__ import annotations

import sys

from harness import vlib
from harness import molgen as MG
from harness.fprcheck import FprCheck, build, observable

FLOATERS = ["[Na+].[Cl-]", "CC(=O)[O-].[Na+]", "C[NH3+].[Cl-]", "O.CCO", "[K+].[O-]C(=O)c1ccccc1", "O.O.CC(=O)O",
            "[Ca+2].[Cl-].[Cl-].CCO", "[Na+].CCO", "[Cl-].C[N+](C)(C)C", "C[S+](C)C.[I-]",
            "[NH4+].[Cl-]", "C.[Na+].O", "O.[Na+]", "[NH4+].[NH4+].[O-]S(=O)(=O)[O-]"]


def floating_atoms(mol):
    return [a.GetIdx() for a in mol.GetAtoms() if a.GetAtomicNum() > 1 and a.GetDegree() == 0]


def hydrogens(mol):
    return [a.GetIdx() for a in mol.GetAtoms() if a.GetAtomicNum() == 1]


class C18(FprCheck):
    id = "C18"
    props_modules = ["E3fpVerif.Props.C18"]
    rule = ("molecules with explicit hydrogens (every embedded SMILES molecule and the shipped SDF conformers) and salts / "
            "hydrates with unbonded heavy atoms: hydrogens and (exclusion on) floating atoms displaced by seeded random "
            "vectors up to 3 A, by up to 1e6 A, exactly onto another atom or the origin, or to NaN / inf coordinates (also through fprints_dict_from_mol); floating atoms deleted with RWMol.RemoveAtom; exclusion off: floating atoms must appear as "
            "level-0 centres. Non-trivial: >= 2 levels and at least one displaced/deleted atom; distinct by case.")

    def gen_cases(self):
        rng = self.rng
        n = 40 if self.tier == "quick" else 700
        refs = self.refs()
        salts = [r for r in refs if r.get("smiles") in FLOATERS]
        # molecules whose hydrogens RDKit never makes implicit (isotopically labelled: [2H], [3H]): hydrogens all the same, under
        # both invariant types
        labelled = [r for r in refs if "[2H]" in r.get("smiles", "") or "[3H]" in r.get("smiles", "")]
        picks = [(r, inv) for r in labelled for inv in (True, False)]
        for k in range(n + len(picks)):
            ref = rng.choice(salts) if k % 2 == 0 else rng.choice(refs)
            forced_inv = None
            if k >= n:
                ref, forced_inv = picks[k - n]
                self.count("labelled-hydrogens")
            mol = MG.load_ref(ref)
            ci = rng.randrange(mol.GetNumConformers())
            o = MG.gen_opts(rng)
            if forced_inv is not None:
                o["rdkit_invariants"] = forced_inv
                o["level"] = rng.choice([2, 3, 5])
            if rng.random() < 0.7:
                o["exclude_floating"] = True
            elif k % 2 == 0:
                o["exclude_floating"] = False
                o["include_disconnected"] = rng.random() < 0.5      # exclusion off in both neighbour modes on the salts
            qs = MG.gen_queries(rng, o, 1)
            base = {"t": "base", "ref": ref, "conf": ci, "tr": None, "opts": o, "queries": qs}
            yield base
            hs = hydrogens(mol)
            fl = floating_atoms(mol)
            # "all displacements": a few angstroms, a million of them, exactly onto another atom, onto the origin, and coordinates
            # that are not numbers (NaN / inf, as a reader leaves them when a file carries none for these atoms)
            mode = rng.choice(["near", "near", "far", "onto", "origin", "nonfinite", "nonfinite"])
            if hs:
                self.count("displace-H:" + mode)
                yield dict(base, t="displace", tr={"displace": {"seed": rng.randrange(10 ** 6), "atoms": rng.sample(hs, max(1, len(hs) // 2)), "mode": mode}})
            if fl:
                self.count("displace-floating:" + mode)
                yield dict(base, t="displace", tr={"displace": {"seed": rng.randrange(10 ** 6), "atoms": fl, "mode": mode}})
                self.count("delete-floating")
                yield dict(base, t="delete", delete=fl)

    def prop(self, case):
        o = case["opts"]
        base = dict(case, t="base", tr=None, delete=None)
        mol0, _ = build(base)
        if not MG.in_domain(mol0, o):
            return None
        fl = floating_atoms(mol0)
        nheavy = sum(1 for a in mol0.GetAtoms() if a.GetAtomicNum() > 1)
        bonded_heavy = nheavy - len(fl)
        if case["t"] == "base":
            if fl and not o["exclude_floating"]:
                mol, conf = build(case)
                r = MG.run_impl(mol, conf, o, [])
                if "ok" in r:
                    centres = {s[0] for s in r["ok"]["levels"][0]}
                    missing = [a for a in fl if a not in centres]
                    if missing:
                        return {"key": "floating-atoms-do-not-contribute", "what": "with exclusion off, floating atoms %s have no identifier" % missing}
                    # the same through the entry point the pipeline uses (options travel through another layer there)
                    from e3fp.fingerprint.generate import fprints_dict_from_mol
                    from harness.fpgen import dump_fp
                    lvl = -1 if o["level"] is None else o["level"]
                    try:
                        d = fprints_dict_from_mol(mol, first=-1, **o)
                        got = dump_fp(d[lvl][case["conf"] % mol.GetNumConformers()])
                    except Exception as e:  # noqa: BLE001
                        return {"key": "entry-raises:" + type(e).__name__, "what": "fprints_dict_from_mol raised %r" % e}
                    f = MG.make_fprinter(o)
                    f.run(conf, mol)
                    want = dump_fp(f.get_fingerprint_at_level(lvl))
                    if got != want:
                        return {"key": "floating-atoms-do-not-contribute:entry-point",
                                "what": "with exclusion off (include_disconnected=%s) fprints_dict_from_mol differs from the fingerprinter on a molecule with floating atoms %s" % (o["include_disconnected"], fl)}
            return None
        if case["t"] == "delete" and (not o["exclude_floating"] or bonded_heavy < 1 or nheavy <= 1):
            return None      # the property speaks about molecules that retain a bonded heavy atom, with exclusion on
        a = self.robust_impl(base)
        if a is None or "err" in a:
            return None
        mol, conf = build(case)
        b = MG.run_impl(mol, conf, o, case.get("queries", []))
        if "err" in b:
            return {"key": "%s-raises:%s" % (case["t"], b["err"]), "what": "fingerprinting raised %s after %s" % (b["err"], case["t"])}
        if case["t"] == "displace":
            moved = set(case["tr"]["displace"]["atoms"])
            ignored = set(hydrogens(mol0)) | (set(fl) if (o["exclude_floating"] and nheavy > 1) else set())
            if not moved <= ignored:
                return None            # floating atoms count when exclusion is off
            which = "hydrogens" if moved <= set(hydrogens(mol0)) else "floating atoms"
            if observable(a["ok"]) != observable(b["ok"]):
                return {"key": "ignored-atom-position-matters:" + which, "what": "displacing %s %s changed the fingerprint" % (which, sorted(moved))}
            # the same through the entry point users call (one fingerprint per conformer, whatever the ignored atoms' coordinates)
            from e3fp.fingerprint.generate import fprints_dict_from_mol
            from harness.fpgen import dump_fp
            mol1, _ = build(dict(base, tr={"displace": dict(case["tr"]["displace"], atoms=[])}))    # the same one-conformer twin, nothing moved
            res = []
            for m_ in (mol1, mol):
                try:
                    d = fprints_dict_from_mol(m_, first=-1, **o)
                    res.append({k: [dump_fp(f) for f in v] for k, v in d.items()})
                except Exception as e:  # noqa: BLE001
                    res.append("raised " + type(e).__name__)
            if isinstance(res[0], dict) and res[0] and res[1] != res[0]:
                n1 = {k: len(v) for k, v in res[0].items()}
                n2 = {k: len(v) for k, v in res[1].items()} if isinstance(res[1], dict) else res[1]
                return {"key": "ignored-atom-position-matters:entry-point:" + which,
                        "what": "fprints_dict_from_mol: displacing %s %s (%s) changed the result (fingerprints per level %s -> %s)" % (
                            which, sorted(moved), case["tr"]["displace"].get("mode"), n1, n2)}
            return None
        if case["t"] == "delete":
            if not o["exclude_floating"] or bonded_heavy < 1 or nheavy <= 1:
                return None
            if bonded_heavy == 1:
                # a single remaining heavy atom is kept by the `len(atoms) > 1` guard in either molecule
                pass
            dele = sorted(case["delete"])
            remap = {}
            j = 0
            for i in range(mol0.GetNumAtoms()):
                if i in dele:
                    continue
                remap[j] = i
                j += 1
            if observable(a["ok"]) != observable(b["ok"], relabel=remap):
                return {"key": "floating-atom-presence-matters", "what": "deleting floating atoms %s changed the fingerprint" % dele}
            return None
        return None


if __name__ == "__main__":
    sys.exit(vlib.run_check(C18))
