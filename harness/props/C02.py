"""C02 - identifiers are exactly those of the published E3FP algorithm."""
from __future__ import annotations

import json
import os
import sys

from harness import vlib
from harness import molgen as MG
from harness.fprcheck import FprCheck, build, observable

GOLDEN = os.path.join(vlib.CORPUS, "C02", "golden.json")


class C02(FprCheck):
    id = "C02"
    props_modules = ["E3fpVerif.Props.C02"]
    rule = ("seeded conformers x option draws over the full product (level incl. -1, multiplier, stereo, counts, bits, "
            "include_disconnected, rdkit_invariants, exclude_floating, remove_duplicate_substructs) x atom masks (every "
            "singleton of small molecules, random subsets); the Lean model is the executable specification (own MurmurHash3, "
            "own geometry); plus the golden corpus of identifiers per level; heavy atoms labelled 11C / 32P / 33P / 75Se / 25Na / 13C / 15N / 18O under both invariant schemes; every second level query made with a NumPy integer. Non-trivial: >= 2 levels; distinct by case.")

    def corpus_cases(self):
        # the golden file holds complete cases with the identifiers the model produced when it was written
        out = []
        if os.path.exists(GOLDEN):
            for g in json.load(open(GOLDEN))["cases"]:
                out.append(dict(g["case"], golden=g["levels"]))
        return out + [c for c in super().corpus_cases() if isinstance(c, dict) and c.get("t") == "witness"]

    def gen_cases(self):
        rng = self.rng
        n = 60 if self.tier == "quick" else 1200
        for ref, ci in self.sample_confs(n):
            o = MG.cap_opts(ref, MG.gen_opts(rng))
            mol = MG.load_ref(ref)
            heavy = [a.GetIdx() for a in mol.GetAtoms() if a.GetAtomicNum() > 1]
            qs = MG.gen_queries(rng, o, 2)
            for _ in range(2):
                if heavy:
                    k = rng.randint(1, min(3, len(heavy)))
                    qs.append({"level": rng.choice([-1, 1, 2]), "bits": None, "mask": sorted(rng.sample(heavy, k))})
            self.count("level:%s" % o["level"])
            for k in ("stereo", "counts", "include_disconnected", "rdkit_invariants", "exclude_floating", "remove_duplicate_substructs"):
                self.count("%s:%s" % (k, o[k]))
            yield {"t": "spec", "ref": ref, "conf": ci, "tr": None, "opts": o, "queries": qs}
        for _ in range(3 if self.tier == "quick" else 40):
            self.count("other-thread-fingerprinting")
            yield {"t": "preempt", "sample": rng.randrange(10 ** 6), "points": 40}
        # conformers with coincident heavy atoms (distance exactly 0): the algorithm is defined on them - a pair at distance 0 is
        # within every positive shell radius - and the library fingerprints them (with a warning)
        refs = [r for r in self.refs() if "smiles" in r or "sdf" in r]
        for k in range(8 if self.tier == "quick" else 100):
            base = rng.choice(refs)
            o = MG.gen_opts(rng)
            o["stereo"] = rng.random() < 0.2
            o["level"] = rng.choice([1, 2, 3, 5, -1])
            if o["level"] == -1:
                o["remove_duplicate_substructs"] = True
            if rng.random() < 0.3:
                o["radius_multiplier"] = rng.choice([0.5, 1.0, 1.718])
            self.count("coincident-atoms")
            yield {"t": "spec", "ref": {"overlap": base, "mode": ["pair", "pair", "allzero"][k % 3], "seed": rng.randrange(1000)}, "conf": 0, "tr": None,
                   "opts": o, "queries": MG.gen_queries(rng, o, 1)}

        # heavy atoms carrying an isotope label whose exact mass and mass number fall on different sides of an integer offset from the
        # standard weight (11C, 32P, 33P, 75Se, 25Na) beside the common labels (13C, 15N, 18O): both invariant schemes
        for smi in ("[11CH3]Oc1ccccc1", "CO[32P](=O)(O)O", "CO[33P](=O)(O)O", "C[75Se]CC[C@H](N)C(=O)O", "[13CH3]C(=O)[15NH2]", "CC(=[18O])O", "[25Na+].[O-]C(C)=O"):
            for inv in (True, False):
                ref = {"smiles": smi, "nconf": 1, "seed": 7, "hs": True}
                o = MG.gen_opts(rng)
                o["rdkit_invariants"] = inv
                o["level"] = rng.choice([0, 1, 2])
                self.count("isotope-labelled-heavy-atoms")
                yield {"t": "spec", "ref": ref, "conf": 0, "tr": None, "opts": o, "queries": MG.gen_queries(rng, o, 1)}

    def model_ops(self, case):
        if case.get("t") == "preempt":
            return [{"op": "fpr.hash", "words": []}]
        return super().model_ops(case)

    def model_answer(self, case, answers):
        if case.get("t") == "preempt":
            return {"ok": "see prop"}
        return super().model_answer(case, answers)

    def nontrivial(self, case, a_impl):
        if case.get("t") == "preempt":
            return vlib.canon(case)
        return super().nontrivial(case, a_impl)

    def impl(self, case):
        if case.get("t") == "preempt":
            return {"ok": "see prop"}
        if case.get("t") == "witness":
            mol, conf = build(case)
            return MG.run_impl(mol, conf, case["opts"], [])
        return super().impl({k: v for k, v in case.items() if k != "golden"})

    def compare(self, case, a_impl, a_model):
        d = super().compare(case, a_impl, a_model)
        if d is None and case.get("golden") is not None and "ok" in a_impl:
            got = [sorted(s[1] for s in lvl) for lvl in a_impl["ok"]["levels"]]
            if got != case["golden"]:
                return {"golden": case["golden"], "impl": got}
        return d

    def prop(self, case):
        if case.get("t") == "preempt":
            # "the same input yields the same identifiers" also while other fingerprinting runs in another thread of the process: a
            # chosen interleaving (harness/props/C04.preempted), the undisturbed run being the one compared with the specification
            from harness.props import C04 as H4
            if sys.gettrace() is not None:
                return None
            jobs = [j for j in H4.sample_jobs(case["sample"], 8) if MG.in_domain(MG.load_ref(j[0]), j[2])]
            if len(jobs) < 2:
                return None
            want = H4.job_result(jobs[0])
            got, hits = H4.preempted(jobs[0], jobs[1], case["points"], case["sample"])
            if got != want:
                return {"key": "identifiers-differ-from-spec:other-thread-fingerprinting",
                        "what": "identifiers computed while another thread of the process fingerprints another molecule (pre-empted at %d chosen entries) differ from an undisturbed run" % hits}
            return None
        o = case["opts"]
        mol, conf = build(case)
        if case.get("t") == "witness":
            r = MG.run_impl(mol, conf, o, [])
            if "err" in r:
                return {"key": case["key"], "what": "%s: fingerprinting raised %s" % (case["what"], r["err"])}
            return None
        if not MG.in_domain(mol, o):
            return None
        # the specification: the Lean model on the same facts; a case on which the *specification* changes under the 3e-14 A
        # perturbation lies in the round-off band and is skipped - the implementation's own stability is not asked for (an
        # implementation that loses a pair at distance exactly 0 is unstable there, and wrong)
        ans = vlib.Driver().run_lines(self.model_ops(case))
        m = self.model_answer(case, ans)
        if isinstance(m, dict) and m.get("margin"):
            self.count("margin_discarded_prop")
            return None
        a = MG.run_impl(mol, conf, o, case.get("queries", []))
        if "err" in a:
            return {"key": "fingerprinting-fails:" + a["err"], "what": "fingerprinting a sanitised molecule with a retained heavy atom raised " + a["err"]}
        if "ok" not in m or observable(m["ok"]) != observable(a["ok"]):
            lv = None
            if "ok" in m:
                lv = next((i for i, (x, y) in enumerate(zip(observable(m["ok"])["levels"], observable(a["ok"])["levels"])) if x != y), None)
            return {"key": "identifiers-differ-from-spec", "what": "identifiers differ from the E3FP specification (first differing level %s)" % lv}
        d = a["ok"]
        for lvl in d["levels"]:
            for s in lvl:
                if not (-2 ** 31 <= s[1] < 2 ** 31):
                    return {"key": "identifier-range", "what": "identifier %d outside 32 bits" % s[1]}
        # determinism: a second run in a fresh object
        b = MG.run_impl(mol, conf, o, case.get("queries", []))
        if b != a:
            return {"key": "not-deterministic", "what": "two runs on the same input differ"}
        # ... and in an object that has just processed a near twin of the molecule (an isotopologue: same atoms in the same
        # order, same elements, charges and bonds - only an atom invariant differs): the identifiers are those of *this* molecule
        from rdkit import Chem
        heavy = [x.GetIdx() for x in mol.GetAtoms() if x.GetAtomicNum() > 1]
        twin = Chem.Mol(mol)
        at = twin.GetAtomWithIdx(heavy[len(heavy) // 2])
        at.SetIsotope(0 if at.GetIsotope() else at.GetAtomicNum() * 2 + 1)
        shared = MG.make_fprinter(o)
        try:
            shared.run(conf.GetId(), twin)
            shared.run(conf, mol)
            c = {"ok": MG.dump_run(shared, case.get("queries", []))}
        except Exception as e:  # noqa: BLE001
            c = {"err": type(e).__name__}
        if c != a:
            return {"key": "identifiers-differ-from-spec:after-isotopologue",
                    "what": "a fingerprinter that has just processed an isotopologue of the molecule (same atom order, elements, charges, bonds) "
                            "does not give the molecule the identifiers of the specification"}
        # masks remove exactly the shells whose substructure touches the mask
        fp = MG.make_fprinter(o)
        fp.run(conf, mol)
        for q in case.get("queries", []):
            if not q.get("mask"):
                continue
            full = fp.get_shells_at_level(q["level"])
            masked = fp.get_shells_at_level(q["level"], atom_mask=set(q["mask"]))
            want = {s for s in full if not (set(s.substruct.atoms) & set(q["mask"]))}
            if set(masked) != want:
                return {"key": "mask-not-exact", "what": "atom mask %s does not remove exactly the shells touching it" % q["mask"]}
        return None


if __name__ == "__main__":
    if "--write-golden" in sys.argv:
        vlib.setup_env()
        import random
        c = C02("quick", 0)
        c.rng = random.Random(20260929)
        cases = []
        refs = MG.all_refs()
        picks = refs[:10] + refs[12:40:3]
        d = vlib.Driver()
        for ref in picks:
            for _ in range(3):
                o = MG.gen_opts(c.rng)
                case = {"t": "spec", "ref": ref, "conf": 0, "tr": None, "opts": o, "queries": []}
                m = c.model_answer(case, d.run_lines(c.model_ops(case)))
                if isinstance(m, dict) and "ok" in m:
                    cases.append({"case": case, "levels": [sorted(s[1] for s in lvl) for lvl in m["ok"]["levels"]]})
        os.makedirs(os.path.dirname(GOLDEN), exist_ok=True)
        json.dump({"note": "identifiers per level produced by the Lean model (lean/E3fpVerif/Model/Fprinter.lean) at the commit that introduced this file",
                   "cases": cases}, open(GOLDEN, "w"))
        print("wrote", len(cases), "golden cases")
        sys.exit(0)
    sys.exit(vlib.run_check(C02))
