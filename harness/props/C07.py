"""C07 - folding is index reduction and commutes with every route to a folded result."""
from __future__ import annotations

import sys
from fractions import Fraction

from harness import vlib
from harness import fpheap
from harness.fpgen import (CLS, POW2_BITS, ODD_BITS, attempt, dump_fp, gen_fp, make_fp, key, rat)

CM = {"sum": sum, "max": max, "min": min}


def is_pow2_multiple(a, b):
    if b <= 0 or a < b:
        return False
    q, r = divmod(a, b)
    return r == 0 and (q & (q - 1)) == 0


def dump_maps(src, folded):
    um = folded.get_unfolding_index_map()
    fm = src.get_folding_index_map()
    ks = lambda p: (0, p[0]) if isinstance(p[0], int) else (1, repr(p[0]))
    unfold = sorted(([key(k), sorted(int(x) for x in v)] for k, v in (um or {}).items()), key=ks)
    fold = sorted(([key(k), key(v)] for k, v in (fm or {}).items()), key=ks)
    return {"unfold": unfold, "fold": fold}


@fpheap.with_heap_cases(("repr",), 60, 1500)
class C07(vlib.Check):
    id = "C07"
    props_modules = ["E3fpVerif.Props.C07", "E3fpVerif.Props.C07Route", "E3fpVerif.Props.C09Heap"]
    gen_items = ["fprint_fold", "fprinter_consts", "decisions"]
    rule = ("seeded fingerprints of the three kinds (bits over powers of two up to 2^32 and non-powers for the "
            "rejection paths; index sets empty/sparse/low/high/colliding/dense), folded to every admissible and "
            "several inadmissible lengths with both methods, linked on/off, counts_method sum/max/min, one- and "
            "two-step; 300 - 300 000 on-bits colliding on 1 - 8 positions; a case is non-trivial when the fold succeeds on a non-empty fingerprint; distinct by "
            "(kind, bits, target, method, indices)")
    trusted_base = ["NumPy unique / log2 / int64 casts (compared on every run)"]
    assumptions = ["IEEE division and log2 of an exact power of two are exact (the float test in fold agrees with b*2^n=a)"]

    # ------------------------------------------------------------------ generation
    def gen_cases(self):
        rng = self.rng
        n = 400 if self.tier == "quick" else 6000
        for _ in range(n):
            r = rng.random()
            if r < 0.12:
                bits = rng.choice(ODD_BITS)
            else:
                bits = rng.choice(POW2_BITS)
            fp = gen_fp(rng, bits=bits)
            # targets: divisors by powers of two, plus wrong ones
            targets = []
            b = bits
            while b >= 1:
                targets.append(b)
                if b % 2:
                    break
                b //= 2
            wrong = [bits * 2, bits + 1, max(1, bits - 1), 3, 5, 6, 12, 1000]
            t = rng.choice(targets) if rng.random() < 0.8 else rng.choice(wrong)
            method = rng.choice([0, 0, 1, 1, 2]) if rng.random() < 0.1 else rng.choice([0, 1])
            case = {"t": "fold", "fp": fp, "bits": t, "method": method,
                    "linked": rng.random() < 0.7, "cm": rng.choice(["sum", "sum", None, "max", "min"])}
            self.count("kind:" + fp["kind"])
            self.count("method:%d" % method)
            yield case
            if t in targets and t > 1 and method in (0, 1) and rng.random() < 0.5:
                t2 = rng.choice([x for x in targets if x <= t])
                self.count("two-step")
                yield {"t": "fold2", "fp": fp, "mid": t, "bits": t2, "method": method}
        # many on-bits folded onto few positions: more than 255 / 65 535 of them collide on one position (what a narrow
        # accumulator would hold), counts of one and larger
        for non, tb in ([(300, 1), (70000, 1), (70000, 8), (2000, 4)] if self.tier == "quick" else
                        [(300, 1), (70000, 1), (70000, 8), (2000, 4), (140000, 2), (66000, 1), (1000, 1), (300000, 4)]):
            bits = rng.choice([2 ** 20, 2 ** 32])
            idx = sorted(rng.sample(range(bits), non))
            kind = rng.choice(["bit", "count", "count"])
            cnt = [] if kind == "bit" else [[i, rng.choice(["1", "1", "2", "3"])] for i in idx]
            self.count("many-collisions")
            yield {"t": "fold", "fp": {"kind": kind, "bits": bits, "level": 5, "idx": idx, "cnt": cnt}, "bits": tb, "method": rng.choice([0, 1]),
                   "linked": rng.random() < 0.5, "cm": "sum"}
        # several folds of ONE object (the linked results are cached on it): each must equal the fold of a fresh copy
        for _ in range(120 if self.tier == "quick" else 1500):
            bits = rng.choice([64, 256, 1024, 4096, 2 ** 32])
            fp = gen_fp(rng, bits=bits, kind=rng.choice(["count", "float", "count", "bit"]))
            tg = [bits >> k for k in range(1, 7) if (bits >> k) >= 1]
            steps = []
            b, method = rng.choice(tg), rng.choice([0, 1])
            for _k in range(rng.randrange(2, 5)):
                if rng.random() < 0.35:
                    b, method = rng.choice(tg), rng.choice([0, 1])
                steps.append({"bits": b, "method": method, "linked": rng.random() < 0.85, "cm": rng.choice(["sum", None, "max", "min"])})
            if rng.random() < 0.4 and len(tg) >= 2:
                # A, B, A(, B): return to a folding that is already cached after another folding was computed in between
                (ba, bb) = rng.sample(tg, 2)
                ma, mb = rng.choice([0, 1]), rng.choice([0, 1])
                pat = [(ba, ma), (bb, mb), (ba, ma)] + ([(bb, mb)] if rng.random() < 0.5 else [])
                if rng.random() < 0.3:
                    pat = [(ba, 0), (ba, 1), (ba, 0)]        # same length, the other method in between
                steps = [{"bits": b_, "method": m_, "linked": True, "cm": rng.choice(["sum", None])} for b_, m_ in pat]
                self.count("fold-sequence:A-B-A")
            self.count("fold-sequence-on-one-object")
            yield {"t": "foldseq", "fp": fp, "steps": steps}
        # the fingerprinter route and the database route
        from harness import molgen as MG
        refs = MG.all_refs()
        for _ in range(25 if self.tier == "quick" else 400):
            ref = rng.choice(refs)
            mol = MG.load_ref(ref)
            o = MG.gen_opts(rng)
            o["bits"] = 2 ** 32
            self.count("fprinter-route")
            yield {"t": "fprinter", "ref": ref, "conf": rng.randrange(mol.GetNumConformers()), "opts": o,
                   "bits": rng.choice([2 ** 31, 4096, 1024, 64, 8, 1])}
        for _ in range(25 if self.tier == "quick" else 400):
            kind = rng.choice(["bit", "count", "float"])
            # lengths that are a power of two times an odd factor are as legitimate as powers of two: the folded length
            # only has to be the current length divided by a power of two (1000 -> 250, 1536 -> 384, 96 -> 24)
            bits = rng.choice([64, 1024, 2 ** 32, 96, 1000, 1536])
            fps = []
            for _ in range(rng.randint(1, 4)):
                f = gen_fp(rng, kind, bits, level=5, maxn=10)
                if kind == "count":
                    f["cnt"] = [[i, v if int(v) <= 255 else "255"] for i, v in f["cnt"]]
                fps.append(f)
            b = bits
            for _ in range(rng.choice([0, 0, 1, 2, 3, 4, 6])):     # 0: a fold to the current length is a legitimate fold (2^0)
                if b > 1 and b % 2 == 0:
                    b //= 2
            self.count("db-route")
            yield {"t": "dbfold", "kind": kind, "fps": fps, "bits": b}

    # ------------------------------------------------------------------ implementation
    def _fold(self, f, case):
        kw = {}
        if not case.get("linked", True):
            kw["linked"] = False
        if case.get("cm") and f.__class__ is not CLS["bit"]:
            kw["counts_method"] = CM[case["cm"]]
        return f.fold(case["bits"], method=case["method"], **kw)

    def _fprinter_pair(self, case):
        from harness import molgen as MG
        mol = MG.load_ref(case["ref"])
        conf = mol.GetConformer(case["conf"])
        o = case["opts"]
        if not MG.in_domain(mol, o):
            return None
        big = MG.make_fprinter(o)
        big.run(conf, mol)
        small = MG.make_fprinter(dict(o, bits=case["bits"]))
        small.run(conf, mol)
        return big.get_fingerprint_at_level(-1), small.get_fingerprint_at_level(-1), big.get_fingerprint_at_level(-1, bits=case["bits"])

    def _db_pair(self, case):
        from harness.dbgen import FingerprintDatabase, dump_db
        from harness.fpgen import CLS
        db = FingerprintDatabase(fp_type=CLS[case["kind"]], level=5)
        db.add_fingerprints([make_fp(f) for f in case["fps"]])
        before = dump_db(db)
        folded = db.fold(case["bits"])
        return db, before, folded

    def impl(self, case):
        if case["t"] == "fprinter":
            def go():
                r = self._fprinter_pair(case)
                if r is None:
                    return None
                return {"unfolded": dump_fp(r[0]), "direct": dump_fp(r[1]), "requested": dump_fp(r[2])}
            return attempt(go)
        if case["t"] == "dbfold":
            def go():
                db, before, folded = self._db_pair(case)
                return [dump_fp(folded[i]) for i in range(len(case["fps"]))]
            return attempt(go)
        f = make_fp(case["fp"])
        if case["t"] == "foldseq":
            return [attempt(lambda st=st: self._fold(f, st), dump_fp) for st in case["steps"]]
        if case["t"] == "fold":
            res = attempt(lambda: self._fold(f, case), lambda g: {"fp": dump_fp(g), "maps": dump_maps(f, g)})
            return {"res": res, "src_after": dump_fp(f)}
        if case["t"] == "fold2":
            a = attempt(lambda: f.fold(case["mid"], method=case["method"]).fold(case["bits"], method=case["method"]), dump_fp)
            b = attempt(lambda: make_fp(case["fp"]).fold(case["bits"], method=case["method"]), dump_fp)
            return {"two": a, "one": b}
        raise ValueError(case["t"])

    def model_ops(self, case):
        if case["t"] == "fprinter":
            r = self.impl(case)
            if "ok" not in r or r["ok"] is None:
                return [{"op": "fpr.hash", "words": []}]
            return [{"op": "fp.fold", "fp": r["ok"]["unfolded"], "bits": case["bits"], "method": 0}]
        if case["t"] == "dbfold":
            return [{"op": "fp.fold", "fp": f, "bits": case["bits"], "method": 0} for f in case["fps"]]
        if case["t"] == "foldseq":
            return [{"op": "fp.fold", "fp": case["fp"], "bits": st["bits"], "method": st["method"],
                     "counts_method": st.get("cm") if case["fp"]["kind"] != "bit" else None} for st in case["steps"]]
        if case["t"] == "fold":
            cm = case.get("cm") if case["fp"]["kind"] != "bit" else None
            return [{"op": "fp.fold", "fp": case["fp"], "bits": case["bits"], "method": case["method"], "counts_method": cm}]
        if case["t"] == "fold2":
            return [{"op": "fp.fold", "fp": case["fp"], "bits": case["mid"], "method": case["method"]},
                    {"op": "fp.fold", "fp": case["fp"], "bits": case["bits"], "method": case["method"]}]

    def model_answer(self, case, answers):
        if case["t"] == "fprinter":
            return answers[0]
        if case["t"] == "dbfold":
            return answers
        if case["t"] == "foldseq":
            return answers
        if case["t"] == "fold":
            return {"res": answers[0], "src_after": case["fp"]}
        mid, one = answers
        return {"mid": mid, "one": one}

    def compare(self, case, a_impl, a_model):
        if case["t"] == "fprinter":
            if "ok" not in a_impl or a_impl["ok"] is None:
                return None
            want = a_model.get("ok", {}).get("fp")
            if a_impl["ok"]["direct"] != want or a_impl["ok"]["requested"] != want:
                return {"impl": a_impl["ok"], "model_fold_of_unfolded": want}
            return None
        if case["t"] == "dbfold":
            if "ok" not in a_impl:
                return {"impl": a_impl}
            want = [dict(a["ok"]["fp"], level=5) if "ok" in a else a for a in a_model]
            return None if a_impl["ok"] == want else {"impl": a_impl["ok"], "model": want}
        if case["t"] == "fold":
            return super().compare(case, a_impl, a_model)
        if case["t"] == "foldseq":
            want = [{"ok": a["ok"]["fp"]} if "ok" in a else a for a in a_model]
            return super().compare(case, a_impl, want)
        # two-step: the model's second step is run on the model's own intermediate
        mid, one = a_model["mid"], a_model["one"]
        if "ok" in mid:
            two = self._driver_fold(mid["ok"]["fp"], case["bits"], case["method"])
        else:
            two = mid
        m = {"two": {"ok": two["ok"]["fp"]} if "ok" in two else two,
             "one": {"ok": one["ok"]["fp"]} if "ok" in one else one}
        return super().compare(case, a_impl, m)

    def _driver_fold(self, fp, bits, method):
        return vlib.Driver().run_lines([{"op": "fp.fold", "fp": fp, "bits": bits, "method": method}])[0]

    # ------------------------------------------------------------------ the property itself
    def prop(self, case):
        if case["t"] == "fprinter":
            r = self._fprinter_pair(case)
            if r is None:
                return None
            big, small, req = r
            want = dump_fp(big.fold(case["bits"]))
            for name, got in (("Fingerprinter(bits=b)", small), ("get_fingerprint_at_level(bits=b)", req)):
                if dump_fp(got) != want:
                    return {"key": "fprinter-route-differs", "what": "%s differs from folding the 2^32-bit fingerprint to %d" % (name, case["bits"])}
            # a fingerprinter built for b bits asked, per call, for another length b2 (smaller, equal, larger, up to 2^32): the answer
            # is the 2^32-bit fingerprint folded to b2 - the constructor's length is only the default
            from harness import molgen as MG
            mol = MG.load_ref(case["ref"])
            conf = mol.GetConformer(case["conf"])
            sm = MG.make_fprinter(dict(case["opts"], bits=case["bits"]))
            sm.run(conf, mol)
            for b2 in (1, 64, 1024, 4096, 2 ** 20, 2 ** 32):
                try:
                    got = dump_fp(sm.get_fingerprint_at_level(-1, bits=b2))
                except Exception as e:  # noqa: BLE001
                    return {"key": "fprinter-route-raises:" + type(e).__name__, "what": "Fingerprinter(bits=%d).get_fingerprint_at_level(bits=%d) raised %r" % (case["bits"], b2, e)}
                if got != dump_fp(big.fold(b2)):
                    return {"key": "fprinter-route-differs:per-call-bits", "what": "Fingerprinter(bits=%d) asked per call for %d bits returns %d bits / other positions than the 2^32-bit fingerprint folded to %d" % (
                        case["bits"], b2, got["bits"], b2)}
            # ... and a length that is not 2^32 divided by a power of two is refused on this route too
            for bad in (2 ** 33, 3):
                try:
                    sm.get_fingerprint_at_level(-1, bits=bad)
                    return {"key": "fprinter-route-accepts-bad-length", "what": "get_fingerprint_at_level(bits=%d) was accepted" % bad}
                except Exception:  # noqa: BLE001
                    pass
            return None
        if case["t"] == "dbfold":
            from harness.dbgen import dump_db
            db, before, folded = self._db_pair(case)
            if dump_db(db) != before:
                return {"key": "dbfold-mutates-source", "what": "FingerprintDatabase.fold changed the source database"}
            for i, spec in enumerate(case["fps"]):
                want = dump_fp(make_fp(spec).fold(case["bits"]))
                got = dump_fp(folded[i])
                if got != want:
                    return {"key": "db-route-differs:" + case["kind"], "what": "row %d of the folded database differs from folding the fingerprint" % i, "want": want, "got": got}
            # folding returns a NEW object (also when the length does not change): what is then done to the result must not
            # reach the source
            if folded is db:
                return {"key": "dbfold-returns-source", "what": "FingerprintDatabase.fold(%d) of a %d-bit database returned the source object itself" % (case["bits"], db.bits)}
            import numpy as np
            folded.name = "renamed"
            folded.add_fingerprints([make_fp(dict(case["fps"][0], bits=case["bits"], idx=[], cnt=[]))])
            folded.set_prop("extra", np.arange(len(case["fps"]) + 1))
            if dump_db(db) != before or db.name == "renamed":
                return {"key": "dbfold-result-aliases-source", "what": "changing the database returned by fold(%d) changed the source" % case["bits"]}
            return None
        spec = case["fp"]
        f = make_fp(spec)
        before = dump_fp(f)
        if case["t"] == "foldseq":
            for k, st in enumerate(case["steps"]):
                got = attempt(lambda: self._fold(f, st), dump_fp)
                fresh = attempt(lambda: self._fold(make_fp(spec), st), dump_fp)
                if got != fresh:
                    return {"key": "fold-depends-on-earlier-folds", "what": "step %d (%s) on an object already folded by %s differs from the same fold of a fresh copy" % (
                        k, st, case["steps"][:k]), "got": got, "fresh": fresh}
            return None
        a, b, method = spec["bits"], case["bits"], case["method"]
        if case["t"] == "fold2":
            try:
                two = f.fold(case["mid"], method=method).fold(b, method=method)
                one = make_fp(spec).fold(b, method=method)
            except Exception as e:  # noqa: BLE001
                return {"key": "fold2-raises:" + type(e).__name__, "what": "two-step fold of admissible lengths raised %r" % e}
            if dump_fp(two) != dump_fp(one):
                return {"key": "fold2-differs", "what": "two-step fold differs from one-step fold",
                        "two": dump_fp(two), "one": dump_fp(one)}
            return None
        should_reject = b > a or not is_pow2_multiple(a, b) or method not in (0, 1)
        try:
            g = self._fold(f, case)
        except Exception as e:  # noqa: BLE001
            if should_reject:
                return None
            return {"key": "fold-raises:%s:%s" % (type(e).__name__, self._variant(case)),
                    "what": "fold(%d -> %d, method=%d, linked=%s, counts_method=%s) raised %s" % (
                        a, b, method, case.get("linked"), case.get("cm"), type(e).__name__)}
        if should_reject:
            return {"key": "fold-accepts-bad-length", "what": "fold(%d -> %d, method %s) was accepted" % (a, b, method)}
        if g is f:
            return {"key": "fold-returns-self", "what": "fold returned the source object"}
        if dump_fp(f) != before:
            return {"key": "fold-mutates-source", "what": "source content changed by fold", "before": before, "after": dump_fp(f)}
        ratio = a // b
        fi = (lambda i: i % b) if method == 0 else (lambda i: i // ratio)
        want_idx = sorted({fi(i) for i in spec["idx"]})
        got = dump_fp(g)
        if got["idx"] != want_idx or got["bits"] != b or got["level"] != spec["level"] or got["kind"] != spec["kind"]:
            return {"key": "fold-indices:method%d" % method, "what": "folded indices/bits/level/kind are not the index reduction",
                    "want_idx": want_idx, "got": got}
        if spec["kind"] != "bit":
            comb = CM[case.get("cm") or "sum"]
            src = {i: Fraction(v) for i, v in spec["cnt"]}
            want = {}
            for j in want_idx:
                vals = [src[i] for i in spec["idx"] if fi(i) == j]
                v = comb(vals)
                if spec["kind"] == "count":
                    v = Fraction(int(v))
                want[j] = v
            gotc = {}
            for k, v in got["cnt"]:
                gotc[k if isinstance(k, int) else repr(k)] = Fraction(v)
            if gotc != want:
                return {"key": "fold-counts:method%d" % method, "what": "folded counts are not the %s of colliding counts" % (case.get("cm") or "sum"),
                        "want": {str(k): str(v) for k, v in want.items()}, "got": got["cnt"]}
        # index maps
        um = g.get_unfolding_index_map()
        fm = f.get_folding_index_map()
        want_um = {j: sorted(i for i in spec["idx"] if fi(i) == j) for j in want_idx}
        try:
            got_um = {}
            for k, v in (um or {}).items():
                kk = key(k)
                got_um[kk if isinstance(kk, int) else repr(kk)] = sorted(int(x) for x in v)
        except Exception:  # noqa: BLE001
            got_um = None
        if got_um != want_um:
            return {"key": "fold-unfold-map:method%d" % method, "what": "unfolding index map does not record the original positions of each folded position",
                    "want": {str(k): v for k, v in want_um.items()}, "got": repr(um)[:300]}
        got_fm = {}
        for k, v in (fm or {}).items():
            vv = key(v)
            got_fm[int(k)] = vv if isinstance(vv, int) else repr(vv)
        if got_fm != {i: fi(i) for i in spec["idx"]}:
            return {"key": "fold-fold-map:method%d" % method, "what": "folding index map is not i -> fold(i)", "got": repr(fm)[:300]}
        return None

    def _variant(self, case):
        v = []
        if not case.get("linked", True):
            v.append("linked=False")
        if case.get("cm") and case["fp"]["kind"] != "bit":
            v.append("counts_method")
        return ",".join(v) or "plain"

    def nontrivial(self, case, a_impl):
        if case["t"] in ("fprinter", "dbfold"):
            return vlib.canon(case) if "ok" in a_impl and a_impl["ok"] else None
        if case["t"] == "fold" and "ok" in a_impl.get("res", {}) and case["fp"]["idx"]:
            return (case["fp"]["kind"], case["fp"]["bits"], case["bits"], case["method"], tuple(case["fp"]["idx"]))
        if case["t"] == "foldseq" and case["fp"]["idx"]:
            return vlib.canon(case)
        if case["t"] == "fold2" and case["fp"]["idx"]:
            return ("2", case["fp"]["kind"], case["fp"]["bits"], case["mid"], case["bits"], case["method"], tuple(case["fp"]["idx"]))
        return None

    def neighbours(self, case):
        if case["t"] not in ("fold", "fold2"):
            return []
        out = []
        for m in (0, 1):
            c = dict(case)
            c["method"] = m
            out.append(c)
        return out


if __name__ == "__main__":
    sys.exit(vlib.run_check(C07))
