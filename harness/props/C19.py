"""C19 - conformer and SMILES files round-trip."""
from __future__ import annotations

import os
import shutil
import sys
import tempfile
from fractions import Fraction

from rdkit import Chem

from harness import vlib
from harness import molgen as MG
from harness.fpgen import attempt

from e3fp.conformer import util as CU  # noqa: E402

EXTS = [".sdf", ".sdf.gz", ".sdf.bz2"]


def mol_state(mol):
    confs = []
    for c in mol.GetConformers():
        confs.append([c.GetId(), [[round(x, 10) for x in c.GetAtomPosition(i)] for i in range(mol.GetNumAtoms())]])
    props = {k: mol.GetProp(k) for k in mol.GetPropNames(includePrivate=True, includeComputed=False)}
    return {"smiles": Chem.MolToSmiles(mol), "confs": confs, "props": props}


def coords(mol):
    """heavy-atom coordinates per conformer (mol_from_sdf reads with RDKit's default hydrogen removal)"""
    heavy = [a.GetIdx() for a in mol.GetAtoms() if a.GetAtomicNum() > 1]
    return [[list(c.GetAtomPosition(i)) for i in heavy] for c in mol.GetConformers()]


def round4(e):
    return float("{:.4f}".format(e))


class C19(vlib.Check):
    id = "C19"
    props_modules = ["E3fpVerif.Props.C19", "E3fpVerif.Props.C19Smiles"]
    gen_items = ["sdf_io"]
    rule = ("molecules with 1..12 conformers (shipped SDFs / embedded SMILES), with or without stored energies (4-decimal and "
            "full-precision values), sequential and non-sequential conformer ids, an own `Energy` property or not; three "
            "compressions; all write / read conformer limits in {None, -1, 1, 2, n, n+3}; SMILES tables with whitespace-free "
            "ASCII / Unicode names; molecule names that begin like a compressed stream or container; 100 - 130 conformers. Non-trivial: >= 2 conformers written; distinct by case.")
    trusted_base = ["RDKit SDWriter / ForwardSDMolSupplier (record format, 4-decimal coordinates), gzip/bz2 via smart_open (compared)"]
    assumptions = ["SDF coordinate precision and codec correctness are observed on samples, not proved (partial by nature)"]

    def tmp(self):
        if not hasattr(self, "_tmp"):
            self._tmp = tempfile.mkdtemp(prefix="c19_", dir=vlib.WORK)
        return self._tmp

    def __del__(self):
        t = getattr(self, "_tmp", None)
        if t:
            shutil.rmtree(t, ignore_errors=True)

    def gen_cases(self):
        rng = self.rng
        n = 80 if self.tier == "quick" else 1500
        refs = MG.all_refs()
        # molecules whose hydrogens are implicit (as mol_from_sdf returns them) and carry information the mol block must keep:
        # aromatic N-H (pyrrole, indole, imidazole, pyrazolone), charged aromatic N, N-oxide
        implicit = [{"smiles": s_, "nconf": 2, "seed": 7, "hs": False} for s_ in
                    ("c1cc[nH]c1", "c1ccc2[nH]ccc2c1", "NCCc1c[nH]cn1", "Cc1cc(=O)[nH][nH]1", "C[n+]1ccccc1", "[O-][n+]1ccccc1", "c1ccoc1", "Cn1cnc2c1c(=O)n(C)c(=O)n2C")]
        for k_ in range(n):
            ref = rng.choice(implicit) if rng.random() < 0.15 else rng.choice(refs)
            nconf = rng.choice([1, 2, 3, 5, 12])
            if k_ < 2 or rng.random() < 0.02:
                nconf = rng.choice([100, 101, 130])        # conformer counts of three digits (order is numeric, not lexicographic)
                self.count("conformers>=100")
            energies = None
            if rng.random() < 0.7:
                energies = [round(rng.uniform(-50, 200), rng.choice([4, 4, 9])) for _ in range(nconf)]
                energies.sort()
                r2 = rng.random()
                if r2 < 0.25:
                    # energies relative to the minimum / degenerate conformers / placeholders: zeros, also every value zero or
                    # below the 4-decimal precision of the file format
                    kind = rng.choice(["all-zero", "relative", "below-precision", "negative-zero"])
                    energies = {"all-zero": [0.0] * nconf, "relative": [0.0] + sorted(round(rng.uniform(0, 9), 4) for _ in range(nconf - 1)),
                                "below-precision": sorted(rng.uniform(0, 4e-5) for _ in range(nconf)), "negative-zero": [-0.0] * nconf}[kind]
                    self.count("energies:" + kind)
            case = {"t": "sdf", "ref": ref, "nconf": nconf, "energies": energies, "ext": rng.choice(EXTS),
                    "wlim": rng.choice([None, None, -1, 1, 2, nconf, nconf + 3]), "rlim": rng.choice([None, None, 1, 2, nconf, nconf + 3]),
                    "gaps": rng.random() < 0.25 and nconf >= 3, "own_energy": rng.random() < 0.15,
                    # the name is the first line of the file: names that begin like a compressed stream or another container
                    # format (bzip2 "BZh", zip "PK", 7z, xz, a UTF-8 byte-order mark) are ordinary names
                    "name": rng.choice(["mol", "CHEMBL1", "a b", None, "mol", rng.choice(["BZh91AY&SY-3", "BZhydrazide-2", "BZh", "PK11195", "7z\xbc\xaf-x", "\ufeffmol", "ý7zXZ"])])}
            if case["name"] not in ("mol", "CHEMBL1", "a b", None):
                self.count("name-like-file-signature")
            self.count("ext:" + case["ext"])
            self.count("energies:%s" % (energies is not None))
            self.count("gaps:%s" % case["gaps"])
            yield case
        # ... and every such name once with every extension (stratified, so that no run depends on the draw above)
        for nm in ["BZh91AY&SY-3", "BZhydrazide-2", "BZh", "PK11195", "7z\xbc\xaf-x", "\ufeffmol", "ý7zXZ"]:
            for ext in EXTS:
                nconf = rng.choice([1, 2, 3])
                self.count("name-like-file-signature")
                yield {"t": "sdf", "ref": rng.choice(refs), "nconf": nconf, "energies": rng.choice([None, [float(j) for j in range(nconf)]]), "ext": ext,
                       "wlim": None, "rlim": rng.choice([None, 2]), "gaps": False, "own_energy": False, "name": nm}
        for _ in range(max(n // 4, 30)):
            k = rng.randint(1, 8)
            names = rng.sample(["a", "b", "mol_1", "CHEMBL25", "é", "x-1", "Z", "q.r", "n7", "3'-deoxyadenosine", 'say"x"', "a\\b", "p#1", "$v", "(R)-x"], k)
            table = {nm: rng.choice(["CCO", "c1ccccc1", "CC(=O)O", "C[C@H](N)C(=O)O", "[Na+].[Cl-]", "C/C=C/C", "F/C=C\\F", "C(/F)=C/F",
                                     "Cl\\C=C\\Cl", "C#N", "[13CH4]", "C%10CCCCC%10"]) for nm in names}
            self.count("smiles-table")
            case = {"t": "smi", "table": table, "ext": rng.choice([".smi", ".smi.gz", ".smi.bz2"])}
            if rng.random() < 0.5:
                # the same path written again afterwards: the empty table, a smaller table, a larger one - each read back
                sub = dict(list(table.items())[:max(0, len(table) - 2)])
                case["rewrites"] = rng.choice([[{}], [sub, {}], [{}, table], [sub]])
                self.count("smiles-table:path-rewritten")
            yield case
        for ext in (".smi", ".smi.gz", ".smi.bz2"):
            self.count("smiles-table:empty")
            yield {"t": "smi", "table": {}, "ext": ext}
        for _ in range(max(n // 4, 30)):
            # hand-written SMILES files as they occur: tabs and runs of blanks, extra columns, short and empty lines, repeated
            # names and repeated SMILES, a header line; read with every option of smiles_to_dict
            toks = ["CCO", "c1ccccc1", "CC(=O)O", "N", "C/C=C/C"]
            nms = ["a", "b", "a", "mol_1", "x-1", "é"]
            lines = []
            for _k in range(rng.randint(0, 7)):
                kind = rng.choice(["ok", "ok", "ok", "tab", "multi", "extra", "short", "empty", "lead"])
                sm, nm = rng.choice(toks), rng.choice(nms)
                lines.append({"ok": "%s %s" % (sm, nm), "tab": "%s\t%s" % (sm, nm), "multi": "%s   %s  " % (sm, nm),
                              "extra": "%s %s 12.5 note" % (sm, nm), "short": sm, "empty": "", "lead": "  %s %s" % (sm, nm)}[kind])
            self.count("smiles-file-raw")
            yield {"t": "smiraw", "lines": lines, "unique": rng.random() < 0.4, "has_header": rng.random() < 0.3 and len(lines) > 0,
                   "ext": rng.choice([".smi", ".smi.gz"]), "crlf": rng.random() < 0.2}

    # ------------------------------------------------------------------
    def _mol(self, case):
        src = MG.load_ref(case["ref"])
        m = Chem.Mol(src)
        m.RemoveAllConformers()
        total = case["nconf"] + (2 if case["gaps"] else 0)
        for j in range(total):
            m.AddConformer(Chem.Conformer(src.GetConformer(j % src.GetNumConformers())), assignId=True)
        if case["gaps"]:
            m.RemoveConformer(0)
            m.RemoveConformer(2)
        if case["name"] is None:
            if m.HasProp("_Name"):
                m.ClearProp("_Name")
        else:
            m.SetProp("_Name", case["name"])
        if case["energies"] is not None:
            CU.add_conformer_energies_to_mol(m, case["energies"])
        if case["own_energy"]:
            m.SetProp("Energy", "12.5000")
        return m

    def _cycle(self, case, m):
        path = os.path.join(self.tmp(), "c%d%s" % (id(case) % 99999, case["ext"]))
        try:
            if case["wlim"] is None:
                CU.mol_to_sdf(m, path)
            else:
                CU.mol_to_sdf(m, path, conf_num=case["wlim"])
            back = CU.mol_from_sdf(path) if case["rlim"] is None else CU.mol_from_sdf(path, conf_num=case["rlim"])
        finally:
            if os.path.exists(path):
                os.remove(path)
        return back

    def expected_count(self, case):
        n = case["nconf"]
        w = n if case["wlim"] in (None, -1) else min(case["wlim"], n)
        return w if case["rlim"] is None else min(w, case["rlim"])

    def _smi_io(self, case):
        import smart_open
        path = os.path.join(self.tmp(), "s%d%s" % (id(case) % 99999, case["ext"]))
        try:
            if case["t"] == "smi":
                CU.dict_to_smiles(path, case["table"])
                with smart_open.open(path, "r") as f:
                    lines = f.read().split("\n")
                if lines and lines[-1] == "":
                    lines = lines[:-1]
                back = CU.smiles_to_dict(path)
                return {"lines": lines, "back": sorted([k, v] for k, v in back.items())}
            with smart_open.open(path, "w", newline="") as f:
                for ln in case["lines"]:
                    f.write(ln + ("\r\n" if case["crlf"] else "\n"))
            try:
                back = CU.smiles_to_dict(path, unique=case["unique"], has_header=case["has_header"])
            except StopIteration:
                return {"back": "StopIteration"}        # has_header on a file without any record
            return {"back": sorted([k, v] for k, v in back.items())}
        finally:
            if os.path.exists(path):
                os.remove(path)

    def impl(self, case):
        if case["t"] in ("smi", "smiraw"):
            return attempt(lambda: self._smi_io(case))

        def go():
            m = self._mol(case)
            back = self._cycle(case, m)
            e = CU.get_conformer_energies_from_mol(back)
            return {"n": back.GetNumConformers(), "energies": None if e is None else ["%.4f" % (x + 0.0) for x in e]}
        return attempt(go)

    def model_ops(self, case):
        if case["t"] == "smi":
            return [{"op": "sdf.smiles_table", "table": sorted([k, v] for k, v in case["table"].items())[::-1]}]
        if case["t"] == "smiraw":
            return [{"op": "sdf.smiles_table", "lines": case["lines"], "unique": case["unique"], "has_header": case["has_header"]}]
        return [{"op": "sdf.roundtrip", "nconf": case["nconf"], "energies": None if case["energies"] is None else [str(Fraction(repr(e))) for e in case["energies"]],
                 "wlim": case["wlim"], "rlim": case["rlim"]}]

    def model_answer(self, case, answers):
        if case["t"] == "smi":
            a = answers[0]
            return {"ok": {"lines": a["ok"]["lines"], "back": sorted(a["ok"]["back"])}} if "ok" in a else a
        if case["t"] == "smiraw":
            a = answers[0]
            if "ok" not in a:
                return a
            if case["has_header"] and not any(len(ln.split()) >= 2 for ln in case["lines"]):
                return {"ok": {"back": "StopIteration"}}      # next() on the exhausted generator: Python's own error, not modelled
            return {"ok": {"back": sorted(a["ok"])}}
        a = answers[0]
        if "ok" not in a:
            return a
        e = a["ok"]["energies"]
        if e is None and case["own_energy"]:
            # the molecule's own `Energy` tag is written with every record and read as the conformer energy (format semantics)
            return {"ok": {"n": a["ok"]["n"], "energies": ["12.5000"] * a["ok"]["n"]}}
        return {"ok": {"n": a["ok"]["n"], "energies": None if e is None else ["%.4f" % float(Fraction(x)) for x in e]}}

    # ------------------------------------------------------------------ property
    def prop(self, case):
        if case["t"] == "smiraw":
            return None
        if case["t"] == "smi":
            path = os.path.join(self.tmp(), "t%d%s" % (id(case) % 99999, case["ext"]))
            try:
                CU.dict_to_smiles(path, case["table"])
                back = CU.smiles_to_dict(path)
            except Exception as e:  # noqa: BLE001
                return {"key": "smiles-table-raises:" + type(e).__name__, "what": "SMILES table round trip raised %r" % e}
            finally:
                if os.path.exists(path):
                    os.remove(path)
            if back != case["table"]:
                return {"key": "smiles-table-differs", "what": "SMILES table read back differs", "got": back}
            if case.get("rewrites"):
                path = os.path.join(self.tmp(), "tr%d%s" % (id(case) % 99999, case["ext"]))
                try:
                    hist = []
                    for tb in [case["table"]] + case["rewrites"]:
                        CU.dict_to_smiles(path, tb)
                        back = CU.smiles_to_dict(path)
                        hist.append(len(tb))
                        if back != tb:
                            return {"key": "smiles-table-differs:path-rewritten", "what": "a table of %d entries written to a path that held tables of %s entries before reads back as %d entries" % (len(tb), hist[:-1], len(back)), "got": back}
                except Exception as e:  # noqa: BLE001
                    return {"key": "smiles-table-raises:path-rewritten:" + type(e).__name__, "what": "rewriting a SMILES file raised %r" % e}
                finally:
                    if os.path.exists(path):
                        os.remove(path)
            return None
        m = self._mol(case)
        before = mol_state(m)
        src_coords = coords(m)
        try:
            back = self._cycle(case, m)
        except Exception as e:  # noqa: BLE001
            return {"key": "sdf-raises:" + type(e).__name__, "what": "SDF write/read raised %r" % e}
        after = mol_state(m)
        if after != before:
            diff = [k for k in before if before[k] != after[k]]
            pk = sorted(set(before["props"]) ^ set(after["props"])) + [k for k in before["props"] if k in after["props"] and before["props"][k] != after["props"][k]]
            return {"key": "write-alters-molecule:%s" % ",".join(pk or diff), "what": "mol_to_sdf changed the in-memory molecule (%s %s)" % (diff, pk)}
        want_n = self.expected_count(case)
        if back.GetNumConformers() != want_n:
            return {"key": "conformer-count:%s" % ("gaps" if case["gaps"] else "sequential"),
                    "what": "read %d conformers, expected %d (n=%d, write limit %s, read limit %s)" % (back.GetNumConformers(), want_n, case["nconf"], case["wlim"], case["rlim"])}
        # stereo is re-perceived by RDKit from the 3D record; the shipped multi-conformer files mix enantiomeric conformers,
        # so identity is compared on the heavy-atom graph
        if Chem.MolToSmiles(Chem.RemoveHs(back), isomericSmiles=False) != Chem.MolToSmiles(Chem.RemoveHs(m), isomericSmiles=False):
            return {"key": "identity-differs", "what": "molecule identity changed"}
        want_name = case["name"]
        if want_name is not None and back.GetProp("_Name") != want_name:
            return {"key": "name-differs", "what": "name %r became %r" % (want_name, back.GetProp("_Name"))}
        bc = coords(back)
        for j in range(want_n):
            for p, q in zip(src_coords[j], bc[j]):
                if any(abs(a - b) > 1.01e-4 for a, b in zip(p, q)):
                    return {"key": "coordinates-differ", "what": "conformer %d read back with different coordinates (order changed?)" % j}
        e = CU.get_conformer_energies_from_mol(back)
        if case["energies"] is None:
            if e is not None and not case["own_energy"]:      # an own `Energy` tag is, by the format, read as conformer energy
                return {"key": "energies-appear", "what": "energies %s read back although none were stored" % e}
        else:
            want = [round4(round4(x)) for x in case["energies"]][:want_n]
            if e is None or [round4(x) for x in e] != want:
                return {"key": "energies-differ:%s" % ("gaps" if case["gaps"] else "sequential"),
                        "what": "energies read back %s, expected %s" % (e, want)}
        return None

    def nontrivial(self, case, a_impl):
        if case["t"] == "smi":
            return vlib.canon(case) if len(case["table"]) >= 2 else None
        if case["t"] == "smiraw":
            return vlib.canon(case) if len(case["lines"]) >= 2 else None
        if "ok" in a_impl and isinstance(a_impl["ok"], dict) and a_impl["ok"]["n"] >= 2:
            return vlib.canon(case)
        return None


if __name__ == "__main__":
    sys.exit(vlib.run_check(C19))
