"""C13 - generated conformers satisfy the selection contract and are reproducible."""
from __future__ import annotations

import sys
from fractions import Fraction

import numpy as np
from rdkit import Chem
from rdkit.Chem import AllChem

from harness import vlib
from harness.fpgen import attempt

vlib.setup_env()

from e3fp.conformer import generator as GEN  # noqa: E402
from e3fp.conformer.generator import ConformerGenerator  # noqa: E402
from e3fp.conformer.generate import generate_conformers  # noqa: E402
from e3fp.conformer.util import mol_from_smiles, get_conformer_energies_from_mol  # noqa: E402

NO_H_SMILES = ["FC(F)(F)C(F)(F)C(F)(F)F", "ClC(Cl)=C(Cl)C(Cl)(Cl)Cl", "FC(F)(F)C(=O)C(F)(F)C(F)(F)F", "ClC(Cl)(Cl)SSC(Cl)(Cl)Cl"]
SMILES = ["CC(C)Cc1ccc(cc1)C(C)C(=O)O", "CCCCOC(=O)CCN", "CN1CCC[C@H]1c1cccnc1", "NCCCCC(=O)O", "CCOC(=O)C", "OCC(O)CO",
          "CC(=O)Nc1ccc(O)cc1", "CCN(CC)CC", "C[C@H](N)C(=O)O", "c1ccccc1CCN", "CCCCCC", "O=C(O)CCC(=O)O", "CSCC[C@H](N)C(=O)O",
          "C1CCCCC1O", "FC(F)(F)CCO"]


# heavy-atom graphs with more than a thousand automorphisms (1296): the symmetry-aware RMSD has to try every mapping
SYM_SMILES = ["CC(C)(C)c1cc(C(C)(C)C)cc(C(C)(C)C)c1", "FC(F)(F)C(C(F)(F)F)(C(F)(F)F)C(F)(F)F"]


def fr(x):
    f = Fraction(float(x))
    return str(f.numerator) if f.denominator == 1 else "%d/%d" % (f.numerator, f.denominator)


def coords(mol):
    return [[list(c.GetAtomPosition(i)) for i in range(mol.GetNumAtoms())] for c in mol.GetConformers()]


def record_run(gen, mol):
    """Run gen.generate_conformers(mol) recording the pool energies and every RMSD the loop asked for."""
    rec = {"energies": None, "rmsd": {}}
    orig_e = ConformerGenerator.get_conformer_energies
    orig_r = AllChem.GetBestRMS

    def get_e(self, m):
        e = orig_e(self, m)
        rec["energies"] = [float(x) for x in e]
        rec["conf_ids"] = [c.GetId() for c in m.GetConformers()]
        return e

    def best(m1, m2, a, b, *args, **kw):
        v = orig_r(m1, m2, a, b, *args, **kw)
        rec["rmsd"][(a, b)] = float(v)
        return v
    ConformerGenerator.get_conformer_energies = get_e
    AllChem.GetBestRMS = best
    try:
        out = gen.generate_conformers(mol)
    finally:
        ConformerGenerator.get_conformer_energies = orig_e
        AllChem.GetBestRMS = orig_r
    return out, rec


def make_gen(o, get_values=True):
    return ConformerGenerator(num_conf=o["num_conf"], first=o["first"], rmsd_cutoff=o["rmsd_cutoff"], max_energy_diff=o["max_energy_diff"],
                              forcefield=o["forcefield"], pool_multiplier=o["pool_multiplier"], seed=o["seed"], get_values=get_values, sparse_rmsd=False)


class C13(vlib.Check):
    id = "C13"
    props_modules = ["E3fpVerif.Props.C13"]
    gen_items = ["defaults", "decisions"]
    rule = ("15 small drug-like molecules (from SMILES; with explicit hydrogens and a stored conformer; four hydrogen-free molecules) x seeded options (num_conf 3-12, first, pool_multiplier 1-2, RMSD cutoff in {-1, 0.2, 0.5, 1.0}, "
            "energy window in {None, 0.5, 5}, three force fields, fixed seeds): the pool energies and every RMSD the real loop asked for "
            "are recorded and fed to the model of filter_conformers; the returned molecule is re-measured independently (pairwise "
            "GetBestRMS, SMILES, input unmodified, repeat for bit-identical coordinates); one generator object is reused across molecules. "
            "Non-trivial: pool of >= 3 conformers with at least one rejection or >= 2 accepted; distinct by case.")
    trusted_base = ["RDKit embedding, force fields, GetBestRMS (numerical engines; enter as recorded numbers)"]
    assumptions = ["seed reproducibility and 'same molecule' are observed on samples, not proved (partial by nature)"]

    def gen_cases(self):
        rng = self.rng
        n = 20 if self.tier == "quick" else 300
        for _ in range(n):
            o = {"num_conf": rng.choice([3, 5, 8, 12]), "first": rng.choice([-1, -1, 1, 2, 4]), "pool_multiplier": rng.choice([1, 1, 2]),
                 "rmsd_cutoff": rng.choice([-1.0, 0.2, 0.5, 0.5, 1.0]), "max_energy_diff": rng.choice([None, None, 0.5, 5.0]),
                 "forcefield": rng.choice(["uff", "uff", "mmff94", "mmff94s"]), "seed": rng.choice([0, 0, 1, 7, 42, 2 ** 31 - 1])}
            self.count("ff:" + o["forcefield"])
            form = rng.choice(["smiles", "smiles", "explicit-h", "no-h"])
            self.count("input:" + form)
            yield {"t": "gen", "smiles": rng.choice(NO_H_SMILES) if form == "no-h" else rng.choice(SMILES), "opts": o, "input": form}
        # stereochemistry carried by a hydrogen atom (N-H imines, H/D-labelled centres): "the same molecule" includes it;
        # inputs that are valid but not in RDKit's normalised form (Kekule rings, pentavalent nitro): the input stays as given
        special = [("[H]/N=C(/C)CC", "smiles"), ("[H]/N=C(\\C)c1ccccc1", "smiles"), ("[2H][C@H](O)CC", "smiles"), ("[2H][C@@H](F)Cl", "smiles"),
                   ("Cc1ccccc1O", "kekule"), ("c1ccc2ccccc2c1", "kekule"), ("CCN(=O)=O", "unsanitised"), ("O=N(=O)c1ccccc1", "unsanitised")]
        for k in range(4 if self.tier == "quick" else len(special) * 2):
            quick_pick = [self.seed % 4, 4 + self.seed % 2, 6 + self.seed % 2, (self.seed + 2) % 4]
            smi, form = special[quick_pick[k]] if self.tier == "quick" else special[k % len(special)]
            self.count("input:" + ("h-stereo" if form == "smiles" else form))
            yield {"t": "gen", "smiles": smi, "input": form,
                   "opts": {"num_conf": 4, "first": -1, "pool_multiplier": 1, "rmsd_cutoff": 0.5, "max_energy_diff": None,
                            "forcefield": "uff", "seed": 7}}
        for k in range(2 if self.tier == "quick" else 6):
            self.count("input:highly-symmetric")
            yield {"t": "gen", "smiles": SYM_SMILES[k % len(SYM_SMILES)], "input": "smiles",
                   # a pool large enough to hold the same geometry with equivalent groups listed in another order
                   "opts": {"num_conf": rng.choice([20, 30]), "first": -1, "pool_multiplier": 1, "rmsd_cutoff": 0.5,
                            "max_energy_diff": None, "forcefield": "uff", "seed": rng.choice([1, 7, 42])}}
        for k in range(1 if self.tier == "quick" else 3):
            # ... and one with 93 312 automorphisms (five freely permutable CF3 groups): two pool conformers that are one geometry up
            # to a late-enumerated relabelling of equivalent atoms are still one conformer
            self.count("input:symmetric-93312-automorphisms")
            yield {"t": "gen", "smiles": "FC(F)(F)CC(CC(F)(F)F)(CC(F)(F)F)CC(C(F)(F)F)C(F)(F)F", "input": "smiles",
                   "opts": {"num_conf": 10, "first": -1, "pool_multiplier": 1, "rmsd_cutoff": 0.5, "max_energy_diff": None,
                            "forcefield": "uff", "seed": [1, 3, 1][k]}}
        for k in range(4 if self.tier == "quick" else 16):
            self.count("generator-reuse")
            smis = rng.sample(SMILES, 3)
            nc = rng.choice([-1, 4])
            if k == 0:
                # molecules of different rotatable-bond classes: the automatic target differs (200 vs 50)
                smis = ["CCCCCCCCCCCC", rng.choice(["CCOC(=O)C", "OCC(O)CO", "CCN(CC)CC"])]
                nc = -1
            ff = "uff"
            if k % 2 == 1:
                # the same compound written in another atom order (a duplicate entry of a SMILES table), same name, any force
                # field: everything a generator could key a per-molecule cache on except the atom order is equal
                pairs = [("OCCN", "NCCO"), ("CC(=O)Nc1ccc(O)cc1", "Oc1ccc(NC(C)=O)cc1"), ("CCOC(=O)C", "CC(=O)OCC"), ("OCC(O)CO", "C(O)C(CO)O"),
                         ("NCCCCC(=O)O", "OC(=O)CCCCN")]
                a_, b_ = rng.choice(pairs)
                smis = [a_, b_, a_] if rng.random() < 0.5 else [b_, a_]
                ff = rng.choice(["mmff94", "mmff94s", "uff"])
                nc = 4
                self.count("generator-reuse:same-compound-other-atom-order:" + ff)
            yield {"t": "reuse", "smiles": smis, "opts": {"num_conf": nc, "first": rng.choice([-1, 2]), "pool_multiplier": 1,
                                                          "rmsd_cutoff": 0.5, "max_energy_diff": None, "forcefield": ff, "seed": 5}}

        # the generator object's own bookkeeping over a history of molecules (Model/Conformer CGen): automatic / fixed targets,
        # `first`, pool multiplier; molecules of every rotatable-bond class; RDKit's embedding is asked for one conformer only
        for k in range(12 if self.tier == "quick" else 200):
            smis = []
            for _ in range(rng.randint(2, 6)):
                smis.append(rng.choice(["C" * rng.randint(2, 20), "CCOC(=O)C", "OCC(O)CO", "c1ccccc1", "CCN(CC)CC", "OC(=O)CCCCCCCCCCCN",
                                        "CC(C)Cc1ccc(cc1)C(C)C(=O)O", "NCCCCCCCCN", "CCCCCCCCCCCCOCCOCCO"]))
            self.count("generator-bookkeeping-history")
            yield {"t": "genhist", "smiles": smis, "num_conf": rng.choice([-1, -1, 3, 10]), "first": rng.choice([-1, -1, 1, 5]), "pool": rng.choice([1, 2, 3])}

    # ------------------------------------------------------------------
    def _genhist(self, case):
        g = ConformerGenerator(num_conf=case["num_conf"], first=case["first"], pool_multiplier=case["pool"], seed=3)
        orig = AllChem.EmbedMultipleConfs
        asked = []

        def embed(m, *a, **kw):
            asked.append(int(kw.get("numConfs", a[0] if a else -1)))
            kw["numConfs"] = 1
            kw["maxAttempts"] = 5
            return orig(m, **kw)
        out, rots = [], []
        AllChem.EmbedMultipleConfs = embed
        try:
            for smi in case["smiles"]:
                mol = mol_from_smiles(smi, "m")
                rots.append(int(AllChem.CalcNumRotatableBonds(Chem.AddHs(mol))))
                g.embed_molecule(mol)
                out.append([asked[-1], int(g.max_conformers), int(g.first_conformers)])
        finally:
            AllChem.EmbedMultipleConfs = orig
        return out, rots

    def _input(self, case):
        """the input molecule: from SMILES (implicit hydrogens, no conformer), with hydrogens already explicit and one stored
        conformer (as read from an SDF with removeHs=False), or without any hydrogen at all"""
        mol = mol_from_smiles(case["smiles"], "m")
        if case.get("input") == "explicit-h":
            mol = Chem.AddHs(mol)
            AllChem.EmbedMolecule(mol, randomSeed=11)
            mol.SetProp("_Name", "m")
        elif case.get("input") == "no-h":
            AllChem.EmbedMolecule(mol, randomSeed=11)
        elif case.get("input") == "kekule":
            # a legitimate molecule that is not in RDKit's sanitised form: Kekule structure with the aromatic flags cleared
            Chem.Kekulize(mol, clearAromaticFlags=True)
        elif case.get("input") == "unsanitised":
            mol = Chem.MolFromSmiles(case["smiles"], sanitize=False)
            mol.UpdatePropertyCache(strict=False)
            mol.SetProp("_Name", "m")
        return mol

    def _gen(self, case):
        mol = self._input(case)
        (out, vals), rec = record_run(make_gen(case["opts"]), mol)
        return mol, out, vals, rec

    def impl(self, case):
        if case["t"] == "genhist":
            return attempt(lambda: self._genhist(case)[0])
        if case["t"] != "gen":
            return {"ok": "see prop"}
        try:
            mol, out, vals, rec = self._gen(case)
        except Exception as e:  # noqa: BLE001
            return {"err": type(e).__name__}
        target, indices, energies, rmsds = vals
        return {"ok": {"accepted": [int(i) for i in indices], "energies": [fr(e) for e in energies],
                       "rmsds": [[fr(x) for x in row] for row in np.asarray(rmsds)]}}

    def model_ops(self, case):
        if case["t"] == "genhist":
            return [{"op": "conf.gen_hist", "num_conf": case["num_conf"], "first": case["first"], "pool": case["pool"], "rots": self._genhist(case)[1]}]
        if case["t"] != "gen":
            return [{"op": "fpr.hash", "words": []}]
        try:
            mol, out, vals, rec = self._gen(case)
        except Exception:  # noqa: BLE001
            return [{"op": "fpr.hash", "words": []}]
        o = case["opts"]
        n = len(rec["energies"])
        ids = rec["conf_ids"]
        pos = {cid: k for k, cid in enumerate(ids)}
        pairs = [[pos[a], pos[b], fr(v)] for (a, b), v in rec["rmsd"].items()]
        target = o["num_conf"]
        first = target if o["first"] == -1 else o["first"]
        return [{"op": "conf.filter", "n": n, "energies": [fr(e) for e in rec["energies"]], "rmsd": pairs, "first": first,
                 "cutoff": fr(o["rmsd_cutoff"]), "window": None if o["max_energy_diff"] is None else fr(o["max_energy_diff"])}]

    def model_answer(self, case, answers):
        if case["t"] == "genhist":
            return answers[0]
        if case["t"] != "gen":
            return {"ok": "see prop"}
        return answers[0]

    def compare(self, case, a_impl, a_model):
        if case["t"] == "gen" and "ok" in a_impl:
            # RDKit returns identical conformers for some seeds (0, 2^31-1): exact energy ties, whose relative order is
            # np.argsort's business, not the property's.  The contract itself is still evaluated on them by prop().
            try:
                _, _, _, rec = self._gen(case)
                if len(set(rec["energies"])) != len(rec["energies"]):
                    self.count("energy-ties-skipped")
                    return None
            except Exception:  # noqa: BLE001
                pass
        return super().compare(case, a_impl, a_model)

    # ------------------------------------------------------------------ property
    def prop(self, case):
        o = case.get("opts")
        if case["t"] == "genhist":
            # each molecule of the history gets the targets a fresh generator resolves for it
            out, rots = self._genhist(case)
            for k, smi in enumerate(case["smiles"]):
                fresh, _ = self._genhist(dict(case, smiles=[smi]))
                if fresh[0] != out[k]:
                    return {"key": "generator-history-dependent:targets", "what": "molecule %d (%s, %d rotatable bonds) of a history gets (pool, target, first) = %s, "
                            "from a fresh generator %s" % (k, smi, rots[k], out[k], fresh[0])}
            return None
        if case["t"] == "reuse":
            g = make_gen(o, get_values=False)
            for smi in case["smiles"]:
                mol = mol_from_smiles(smi, "m")
                try:
                    a = g.generate_conformers(mol)
                except Exception as e:  # noqa: BLE001
                    return {"key": "generator-history-dependent:raises:" + type(e).__name__, "what": "a reused generator raised %r for %s (molecules before: %s)" % (e, smi, case["smiles"])}
                b = make_gen(o, get_values=False).generate_conformers(mol_from_smiles(smi, "m"))
                if a.GetNumConformers() != b.GetNumConformers() or not np.allclose(coords(a), coords(b), atol=0, rtol=0):
                    return {"key": "generator-history-dependent", "what": "a reused generator returns %d conformers for %s, a fresh one %d" % (
                        a.GetNumConformers(), smi, b.GetNumConformers())}
            return None
        mol = self._input(case)

        def snap(m):
            return (Chem.MolToSmiles(m), m.GetNumAtoms(), m.GetNumConformers(), [c.GetId() for c in m.GetConformers()], coords(m),
                    {k: m.GetProp(k) for k in m.GetPropNames(includePrivate=True)})
        before = snap(mol)
        try:
            (out, vals), rec = record_run(make_gen(o), mol)
        except Exception as e:  # noqa: BLE001
            return {"key": "generation-raises:" + type(e).__name__, "what": "generation raised %r" % e}
        after = snap(mol)
        if after != before:
            diff = [n for n, x, y in zip(("smiles", "atoms", "conformers", "conformer ids", "coordinates", "properties"), before, after) if x != y]
            return {"key": "input-modified:" + case.get("input", "smiles"), "what": "the input molecule was modified (%s)" % ", ".join(diff)}
        target, indices, energies, rmsds = vals
        energies = [float(e) for e in energies]
        rmsds = np.asarray(rmsds)
        k = out.GetNumConformers()
        if k != len(indices) or k != len(energies) or rmsds.shape != (k, k):
            return {"key": "reported-shapes", "what": "returned %d conformers, %d indices, %d energies, rmsd %s" % (k, len(indices), len(energies), rmsds.shape)}
        if any(energies[i] > energies[i + 1] for i in range(k - 1)):
            return {"key": "not-energy-sorted", "what": "energies %s" % energies}
        first = o["num_conf"] if o["first"] == -1 else o["first"]
        if k > max(1, min(first, o["num_conf"] * o["pool_multiplier"])):
            return {"key": "too-many-conformers", "what": "%d conformers for first=%s num_conf=%s" % (k, o["first"], o["num_conf"])}
        if o["max_energy_diff"] is not None and any(e > energies[0] + o["max_energy_diff"] + 1e-9 for e in energies):
            return {"key": "outside-energy-window", "what": "energies %s, window %s" % (energies, o["max_energy_diff"])}
        if min(rec["energies"]) < energies[0] - 1e-9:
            return {"key": "lowest-not-first", "what": "lowest pool energy %s, first returned %s" % (min(rec["energies"]), energies[0])}
        stored = get_conformer_energies_from_mol(out)
        if stored is None or [round(x, 4) for x in stored] != [round(x, 4) for x in energies]:
            return {"key": "stored-energies-differ", "what": "energies stored on the molecule %s vs reported %s" % (stored, energies)}
        # independent re-measurement on the returned molecule
        for a in range(k):
            for b in range(a + 1, k):
                m2 = Chem.RemoveHs(out)      # the cutoff is on the heavy-atom RMSD, every symmetry-equivalent mapping tried
                v = AllChem.GetBestRMS(m2, m2, out.GetConformer(a).GetId(), out.GetConformer(b).GetId())
                if o["rmsd_cutoff"] > 0 and v < o["rmsd_cutoff"] - 1e-6:
                    return {"key": "closer-than-cutoff", "what": "conformers %d and %d are %.4f apart, cutoff %s" % (a, b, v, o["rmsd_cutoff"])}
                if abs(rmsds[a, b] - v) > 1e-4 or abs(rmsds[b, a] - v) > 1e-4:
                    return {"key": "reported-rmsd-wrong", "what": "reported RMSD[%d,%d] = %.4f / %.4f, re-measured %.4f" % (a, b, rmsds[a, b], rmsds[b, a], v)}
        if Chem.MolToSmiles(Chem.RemoveHs(out)) != Chem.MolToSmiles(Chem.MolFromSmiles(case["smiles"])):
            return {"key": "not-same-molecule", "what": "result %s vs input %s" % (Chem.MolToSmiles(Chem.RemoveHs(out)), case["smiles"])}
        # a fixed seed reproduces the result exactly
        (out2, vals2), _ = record_run(make_gen(o), self._input(case))
        if coords(out2) != coords(out):
            return {"key": "seed-not-reproducible", "what": "two runs with seed %s differ" % o["seed"]}
        # the condensed form of the reported RMSD matrix (sparse_rmsd=True, the generator's default): the strict upper triangle, row by row
        g3 = ConformerGenerator(num_conf=o["num_conf"], first=o["first"], rmsd_cutoff=o["rmsd_cutoff"], max_energy_diff=o["max_energy_diff"],
                                forcefield=o["forcefield"], pool_multiplier=o["pool_multiplier"], seed=o["seed"], get_values=True, sparse_rmsd=True)
        out3, vals3 = g3.generate_conformers(self._input(case))
        want = [float(rmsds[a, b]) for a in range(k) for b in range(a + 1, k)]
        got3 = [float(x) for x in np.asarray(vals3[3]).ravel().tolist()]
        if len(got3) != len(want) or any(abs(x - y) > 1e-9 for x, y in zip(got3, want)):
            return {"key": "reported-rmsd-wrong:condensed", "what": "the condensed RMSD report has %d values %s, the upper triangle of the matrix is %s" % (len(got3), got3[:4], want[:4])}
        return None

    def nontrivial(self, case, a_impl):
        if case["t"] != "gen":
            return vlib.canon(case)
        if "ok" in a_impl and len(a_impl["ok"]["accepted"]) >= 2:
            return vlib.canon(case)
        return None


if __name__ == "__main__":
    sys.exit(vlib.run_check(C13))
