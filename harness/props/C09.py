"""C09 - fingerprint equality is a content-based equivalence; copies are independent."""
from __future__ import annotations

import copy
import pickle
import sys

import numpy as np
from fractions import Fraction

from harness import vlib
from harness.fpgen import CLS, KINDS, POW2_BITS, attempt, dump_fp, gen_fp, gen_value, make_fp
from harness import fpheap


def variants(rng, f):
    """Fingerprints near `f`: equal, subset, superset, other level, other bits, one count changed."""
    out = [("same", copy.deepcopy(f))]
    if f["idx"]:
        g = copy.deepcopy(f)
        k = rng.randrange(len(g["idx"]))
        del g["idx"][k]
        if g["kind"] != "bit":
            del g["cnt"][k]
        out.append(("subset", g))
    free = [i for i in range(min(f["bits"], 64)) if i not in f["idx"]]
    if free:
        g = copy.deepcopy(f)
        i = rng.choice(free)
        g["idx"] = sorted(g["idx"] + [i])
        if g["kind"] != "bit":
            g["cnt"] = sorted(g["cnt"] + [[i, gen_value(rng, g["kind"])]])
        out.append(("superset", g))
    g = copy.deepcopy(f)
    g["level"] = f["level"] + 1
    out.append(("level", g))
    g = copy.deepcopy(f)
    g["bits"] = f["bits"] * 2
    out.append(("bits", g))
    # the level may be None (documented "int or None"; what get_fingerprint_at_level(level=None) returns): another level than -1
    g = copy.deepcopy(f)
    g["level"] = None
    out.append(("level-none", g))
    if f["level"] != -1:
        h = copy.deepcopy(f)
        h["level"] = -1
        out.append(("level-minus-one", h))
    if f["kind"] != "bit" and f["cnt"]:
        g = copy.deepcopy(f)
        k = rng.randrange(len(g["cnt"]))
        g["cnt"][k][1] = "7" if g["cnt"][k][1] != "7" else "9"
        out.append(("count", g))
    if f["kind"] == "float" and f["cnt"]:
        # one count differing in its last decimal places (dyadic factors, so the doubles are exact): equality is identity of
        # the counts, not closeness; a chain a, a(1+2^-17), a(1+2^-16) makes a tolerance-based comparison non-transitive
        k = rng.randrange(len(f["cnt"]))
        for tag, e in (("near20", 20), ("near17", 17), ("near16", 16), ("near40", 40)):
            g = copy.deepcopy(f)
            g["cnt"][k][1] = str(Fraction(g["cnt"][k][1]) * (1 + Fraction(1, 2 ** e)))
            out.append((tag, g))
    if f["kind"] != "bit":
        g = copy.deepcopy(f)
        g["kind"] = "float" if f["kind"] == "count" else "count"
        if g["kind"] == "count":
            g["cnt"] = [[i, str(max(1, int(Fraction(v))))] for i, v in g["cnt"]]
        out.append(("otherkind", g))
    return out


def content(d):
    return (d["kind"], d["bits"], d["level"], tuple(d["idx"]), tuple(map(tuple, d["cnt"])))


@fpheap.with_heap_cases(("eq", "repr"), 150, 3000)
class C09(vlib.Check):
    id = "C09"
    props_modules = ["E3fpVerif.Props.C09", "E3fpVerif.Props.C09Db", "E3fpVerif.Props.C09Heap"]
    gen_items = ["fprint_fold"]
    rule = ("pairs and triples built from a seeded fingerprint and its near variants (equal, subset, superset, level, bits, "
            "one count, one float count changed by a factor 1+2^-k for k in {16,17,20,40}, other kind), compared with ==/!= in both directions; copies (from_fingerprint, pickle, conversion "
            "to another kind and back) mutated through every public setter; half of the originals are folded (linked) before being "
            "copied and the copy's folded child is then changed; fingerprints of 5 - 1000 on-bits that were compared, then edited in place / pickled and compared in another interpreter process. Non-trivial: non-empty operands; distinct by case.")
    trusted_base = ["pickle (compared on every run)"]

    def gen_cases(self):
        rng = self.rng
        n = 120 if self.tier == "quick" else 2500
        # database equality: a database, its copies (copy, conversion with copy, pickle, savez+load, rebuilt from the same
        # fingerprints) and read-only use of one of them in between (look-ups incl. absent names, iteration, refused subsets)
        for _ in range(40 if self.tier == "quick" else 600):
            kind = rng.choice(KINDS)
            bits = rng.choice([32, 1024, 2 ** 32])
            self.count("db-equality")
            yield {"t": "dbeq", "kind": kind, "bits": bits, "n": rng.randint(1, 6), "seed": rng.randrange(10 ** 6),
                   "reads": [rng.choice(["absent", "absent", "name", "index", "iter", "subset-absent", "contains", "density", "eq"]) for _ in range(rng.randint(1, 4))]}
        # fingerprints that have already taken part in comparisons (whatever an implementation memoises then travels with them):
        # edited in place through `indices` and compared again; pickled and compared in another interpreter process (another hash
        # salt) with fingerprints built there; small ones and ones with hundreds of on-bits
        import random
        r2 = random.Random(self.seed * 15485863 + 9)      # (own stream)
        for k in range(6 if self.tier == "quick" else 60):
            self.count("compared-before:other-process")
            yield {"t": "xproc", "non": [300, 20, 1000, 256, 257, 5][k % 6], "bits": r2.choice([2 ** 20, 2 ** 32]), "seed": r2.randrange(10 ** 6), "hashseed": r2.randrange(1, 1000)}
        for _ in range(n):
            f = gen_fp(rng, bits=rng.choice([1, 8, 32, 1024, 2 ** 20, 2 ** 32]), maxn=10)
            vs = variants(rng, f)
            for name, g in vs:
                self.count("pair:" + name)
                yield {"t": "pair", "a": f, "b": g, "variant": name}
            # cross-kind pairs
            g = gen_fp(rng, bits=f["bits"], level=f["level"], maxn=10)
            self.count("pair:random")
            yield {"t": "pair", "a": f, "b": g, "variant": "random"}
            trip = [rng.choice(vs)[1] for _ in range(3)]
            self.count("triple")
            yield {"t": "triple", "fps": trip}
            near = {n: g for n, g in vs if n.startswith("near")}
            if near:
                self.count("triple:near-chain")
                yield {"t": "triple", "fps": [f, near["near17"], near["near16"]]}
            self.count("copy")
            yield {"t": "copy", "fp": f, "how": rng.choice(["from_fingerprint", "pickle", "deepcopy"]),
                   "via": rng.choice(KINDS), "mut": rng.choice(["indices", "counts", "level", "bits", "set_prop", "name", "fold"]),
                   # fold the original (linked: the folded child is cached on it) *before* it is copied
                   "prefold": rng.random() < 0.5}

    # ------------------------------------------------------------------
    def impl(self, case):
        t = case["t"]
        if t in ("dbeq", "xproc"):
            return {"ok": "see prop"}
        if t == "pair":
            a, b = make_fp(case["a"]), make_fp(case["b"])
            return {"eq": attempt(lambda: bool(a == b)), "ne": attempt(lambda: bool(a != b)),
                    "eq_rev": attempt(lambda: bool(b == a)), "ne_rev": attempt(lambda: bool(b != a))}
        if t == "triple":
            fs = [make_fp(s) for s in case["fps"]]
            return {"m": [[attempt(lambda x=x, y=y: bool(x == y)) for y in fs] for x in fs]}
        if t == "copy":
            f = make_fp(case["fp"])
            return {"copy": attempt(lambda: self._copy(f, case), dump_fp)}

    def _copy(self, f, case):
        if case["how"] == "pickle":
            return pickle.loads(pickle.dumps(f))
        if case["how"] == "deepcopy":
            return copy.deepcopy(f)
        return f.__class__.from_fingerprint(f)

    def model_ops(self, case):
        t = case["t"]
        if t in ("dbeq", "xproc"):
            return [{"op": "fpr.hash", "words": []}]
        def m(spec):
            # the model's level is an integer: `None` is sent as a level no fingerprint uses (it equals only itself)
            return dict(spec, level=-(2 ** 40)) if spec["level"] is None else spec
        if t == "pair":
            a, b = m(case["a"]), m(case["b"])
            return [{"op": "fp.eq", "a": a, "b": b}, {"op": "fp.ne", "a": a, "b": b},
                    {"op": "fp.eq", "a": b, "b": a}, {"op": "fp.ne", "a": b, "b": a}]
        if t == "triple":
            return [{"op": "fp.eq", "a": m(x), "b": m(y)} for x in case["fps"] for y in case["fps"]]
        if t == "copy":
            if case["how"] == "from_fingerprint":
                return [{"op": "fp.from_fingerprint", "kind": case["fp"]["kind"], "fp": case["fp"]}]
            return [{"op": "fp.pickle", "fp": case["fp"]}]

    def model_answer(self, case, answers):
        t = case["t"]
        if t in ("dbeq", "xproc"):
            return {"ok": "see prop"}
        if t == "pair":
            return dict(zip(["eq", "ne", "eq_rev", "ne_rev"], answers))
        if t == "triple":
            n = len(case["fps"])
            return {"m": [answers[i * n:(i + 1) * n] for i in range(n)]}
        return {"copy": answers[0]}

    # ------------------------------------------------------------------ property
    def _prop_dbeq(self, case):
        import os
        import random
        import tempfile
        from e3fp.fingerprint.db import FingerprintDatabase
        rr = random.Random(case["seed"])
        specs = [gen_fp(rr, case["kind"], case["bits"], level=5, maxn=8) for _ in range(case["n"])]
        for sp in specs:
            if sp["kind"] == "count":
                sp["cnt"] = [[i, v if int(v) <= 255 else "255"] for i, v in sp["cnt"]]
        names = [rr.choice(["a", "b", "c", "a"]) + ("_%d" % j if rr.random() < 0.5 else "") for j in range(len(specs))]

        def build():
            db = FingerprintDatabase(fp_type=CLS[case["kind"]], level=5, name="D")
            fps = [make_fp(sp) for sp in specs]
            for f, nm in zip(fps, names):
                f.name = nm
            db.add_fingerprints(fps)
            return db
        db = build()
        others = {"rebuilt": build(), "copy": copy.copy(db), "as_type": db.as_type(CLS[case["kind"]], copy=True),
                  "pickle": pickle.loads(pickle.dumps(db))}
        fd, p = tempfile.mkstemp(suffix=".fpz", dir=vlib.WORK)
        os.close(fd)
        try:
            db.savez(p)
            others["savez"] = FingerprintDatabase.load(p)
        finally:
            os.remove(p)
        for r in case["reads"]:
            try:
                if r == "absent":
                    db["no-such-name"]
                elif r == "name":
                    db[names[0]]
                elif r == "index":
                    db[0], db[-1]
                elif r == "iter":
                    list(db)
                elif r == "subset-absent":
                    db.get_subset([names[0], "no-such-name"])
                elif r == "contains":
                    "no-such-name" in db.fp_names
                elif r == "density":
                    db.get_density()
                elif r == "eq":
                    db == others["copy"]
            except Exception:  # noqa: BLE001
                pass
        for label, o in others.items():
            try:
                res = [bool(db == o), bool(o == db), bool(db != o)]
            except Exception as e:  # noqa: BLE001
                return {"key": "db-eq-raises:" + type(e).__name__, "what": "comparing a database with its %s raised %r" % (label, e)}
            if res != [True, True, False]:
                return {"key": "db-eq-wrong:after-reads:" + label,
                        "what": "after the read-only calls %s a database no longer equals its %s (==, reflected ==, != give %s)" % (case["reads"], label, res)}
        return None

    def prop(self, case):
        t = case["t"]
        if t == "dbeq":
            return self._prop_dbeq(case)
        if t == "xproc":
            return self._prop_xproc(case)
        if t == "pair":
            a, b = case["a"], case["b"]
            same_family = (a["kind"] == "bit") == (b["kind"] == "bit")
            if not same_family:
                return None          # equality across bit / count families is outside the quantifier
            r = self.impl(case)
            want = content(a) == content(b)
            for k in ("eq", "eq_rev"):
                if "err" in r[k]:
                    return {"key": "eq-raises:" + r[k]["err"], "what": "== raised %s for fingerprints of the same kind" % r[k]["err"]}
                if r[k]["ok"] != want:
                    return {"key": "eq-wrong:" + case.get("variant", ""),
                            "what": "== returned %s but contents are %s (%s)" % (r[k]["ok"], "equal" if want else "different", case.get("variant"))}
            for k in ("ne", "ne_rev"):
                if "err" in r[k]:
                    return {"key": "ne-raises:" + r[k]["err"], "what": "!= raised " + r[k]["err"]}
                if r[k]["ok"] != (not want):
                    return {"key": "ne-not-negation", "what": "!= is not the negation of =="}
            return None
        if t == "triple":
            fs = case["fps"]
            if len({f["kind"] == "bit" for f in fs}) != 1:
                return None
            m = self.impl(case)["m"]
            n = len(fs)
            for i in range(n):
                for j in range(n):
                    if "err" in m[i][j]:
                        return {"key": "eq-raises:" + m[i][j]["err"], "what": "== raised"}
            for i in range(n):
                if not m[i][i]["ok"]:
                    return {"key": "eq-not-reflexive", "what": "f == f is False"}
                for j in range(n):
                    if m[i][j]["ok"] != m[j][i]["ok"]:
                        return {"key": "eq-not-symmetric", "what": "a == b differs from b == a", "a": fs[i], "b": fs[j]}
                    for k in range(n):
                        if m[i][j]["ok"] and m[j][k]["ok"] and not m[i][k]["ok"]:
                            return {"key": "eq-not-transitive", "what": "a == b and b == c but not a == c"}
            return None
        if t == "copy":
            spec = case["fp"]
            f = make_fp(spec)
            f.set_prop("tag", 1)
            f.name = "orig"
            half = spec["bits"] // 2 if spec["bits"] % 2 == 0 and spec["bits"] >= 2 else None
            ff = f.fold(half) if case.get("prefold") and half else None
            try:
                c = self._copy(f, case)
            except Exception as e:  # noqa: BLE001
                return {"key": "copy-raises:%s:%s" % (case["how"], type(e).__name__), "what": "copy raised %r" % e}
            if ff is not None:
                # the cached folded children belong to the fold cache, which is mutable state: the copy's must be its own
                kinds_chain = [spec["kind"]] + ([case["via"], spec["kind"]] if case["via"] != spec["kind"] else [])
                objs = [("copy (%s)" % case["how"], c)]
                try:
                    x = f
                    for k2 in kinds_chain[1:]:
                        x = CLS[k2].from_fingerprint(x)
                    if x is not f:
                        objs.append(("conversion %s" % "->".join(kinds_chain), x))
                except Exception:  # noqa: BLE001
                    pass
                for label, o in objs:
                    before_child = (dump_fp(ff), ff.name, dict(ff.props))
                    try:
                        cf = o.fold(half)
                    except Exception as e:  # noqa: BLE001
                        return {"key": "fold-of-copy-raises:" + type(e).__name__, "what": "folding the %s raised %r" % (label, e)}
                    if cf is ff:
                        return {"key": "copy-shares-state:%s:folded-child" % case["how"],
                                "what": "the %s of a fingerprint folded before copying returns the original's cached folded fingerprint object" % label}
                    try:
                        if cf.unfold() is f:
                            return {"key": "copy-shares-state:%s:unfold-link" % case["how"],
                                    "what": "the folded fingerprint of the %s unfolds to the original, not to the copy" % label}
                    except Exception:  # noqa: BLE001
                        pass
                    cf.name = "child-of-copy"
                    cf.level = 63
                    cf.set_prop("tag", "changed")
                    if (dump_fp(ff), ff.name, dict(ff.props)) != before_child:
                        return {"key": "copy-shares-state:%s:folded-child" % case["how"],
                                "what": "changing the folded fingerprint of the %s changed the original's folded fingerprint" % label}
                    if spec["kind"] != "bit":
                        # re-folding a count fingerprint with another counts_method rewrites the cached child in place
                        try:
                            o.fold(half, counts_method=max)
                        except Exception:  # noqa: BLE001
                            pass
                        if dump_fp(f.fold(half)) != before_child[0] and dump_fp(ff) != before_child[0]:
                            return {"key": "copy-shares-state:%s:folded-child" % case["how"],
                                    "what": "re-folding the %s with another counts_method changed the original's cached fold" % label}
            try:
                if not (c == f) or (c != f):
                    return {"key": "copy-not-equal:" + case["how"], "what": "copy does not compare equal to the original"}
            except Exception as e:  # noqa: BLE001
                return {"key": "eq-raises:" + type(e).__name__, "what": "comparison of a copy with its original raised %r" % e}
            if dump_fp(c) != dump_fp(f):
                return {"key": "copy-content-differs:" + case["how"], "what": "copy content differs", "copy": dump_fp(c), "orig": dump_fp(f)}
            # conversion there and back, where representable
            via = case["via"]
            if via != spec["kind"]:
                representable = (spec["kind"] == "bit") or (spec["kind"] == "count" and via == "float")
                if representable:
                    try:
                        back = CLS[spec["kind"]].from_fingerprint(CLS[via].from_fingerprint(f))
                        if dump_fp(back) != dump_fp(f) or not (back == f):
                            return {"key": "convert-back-differs:%s->%s" % (spec["kind"], via), "what": "conversion and back changed the fingerprint"}
                    except Exception as e:  # noqa: BLE001
                        return {"key": "convert-raises:" + type(e).__name__, "what": "conversion raised %r" % e}
            # no mutable state is shared: index buffers, counts / props / fold-cache dictionaries
            shared = []
            if len(f.indices) and np.shares_memory(c.indices, f.indices):
                shared.append("indices buffer")
            if spec["kind"] != "bit" and c.counts is f.counts:
                shared.append("counts dict")
            if c.props is f.props:
                shared.append("props dict")
            if c.folded_fingerprint is f.folded_fingerprint:
                shared.append("fold cache")
            if shared:
                return {"key": "copy-shares-state:%s:%s" % (case["how"], "+".join(shared)),
                        "what": "the copy (%s) shares its %s with the original" % (case["how"], ", ".join(shared))}
            for k2 in KINDS:      # conversions too
                try:
                    conv = CLS[k2].from_fingerprint(f)
                except Exception:  # noqa: BLE001
                    continue
                if len(f.indices) and np.shares_memory(conv.indices, f.indices):
                    return {"key": "conversion-shares-state:%s->%s" % (spec["kind"], k2),
                            "what": "converting to %s returns an object that shares the index buffer of the original" % k2}
            # independence: mutate the copy through a public setter, the original must not change
            before = (dump_fp(f), dict(f.props))
            mut = case["mut"]
            try:
                if mut == "indices":
                    if len(c.indices):
                        c.indices[...] = 0          # in place
                    c.indices = np.array([0], dtype=np.int64)
                elif mut == "counts" and spec["kind"] != "bit":
                    for k in list(c.counts):
                        c.counts[k] = 99
                    c.counts[0] = 5
                elif mut == "level":
                    c.level = 77
                elif mut == "bits":
                    c.bits = 1
                elif mut == "set_prop":
                    c.set_prop("tag", 2)
                    c.set_prop("new", 3)
                elif mut == "name":
                    c.name = "copy"
                elif mut == "fold" and spec["bits"] % 2 == 0:
                    g = c.fold(spec["bits"] // 2)
                    g.level = 55
                    if len(c.indices):
                        c.indices[0] = c.indices[0]
            except Exception:  # noqa: BLE001
                pass
            if (dump_fp(f), dict(f.props)) != before:
                return {"key": "copy-shares-state:%s:%s" % (case["how"], mut),
                        "what": "mutating the copy (%s) through %s changed the original" % (case["how"], mut)}
            # and the other way round
            c2 = self._copy(f, case)
            before2 = (dump_fp(c2), dict(c2.props))
            f.level = 31
            f.set_prop("tag", 9)
            if len(f.indices):
                f.indices[...] = 0                  # in place
            if spec["kind"] != "bit":
                for k in list(f.counts):
                    f.counts[k] = 42
            if (dump_fp(c2), dict(c2.props)) != before2:
                return {"key": "copy-shares-state-reverse:%s" % case["how"], "what": "mutating the original changed the copy"}
            return None

    def _prop_xproc(self, case):
        import os
        import pickle
        import subprocess
        import tempfile
        import numpy as np
        r = np.random.RandomState(case["seed"])
        idx = np.sort(r.choice(min(case["bits"], 2 ** 24), size=case["non"], replace=False)).astype(np.int64)
        objs = {}
        for kind in KINDS:
            kw = {} if kind == "bit" else {"counts": {int(i): (1 + int(i) % 7) if kind == "count" else 0.5 + (int(i) % 5) for i in idx}}
            a = CLS[kind].from_indices(idx, bits=case["bits"], level=5, **kw)
            b = CLS[kind].from_indices(idx.copy(), bits=case["bits"], level=5, **kw)
            if not (a == b) or (a != b):
                return {"key": "eq-wrong:rebuilt:%s" % kind, "what": "two %s fingerprints built from the same %d indices do not compare equal" % (kind, len(idx))}
            objs[kind] = (a, b)
        # (1) in place: the bit fingerprint's first index replaced through the public array, after it was compared
        a, b = objs["bit"]
        free = next(v for v in range(int(idx[0]) + 1) if v not in set(idx[:2].tolist())) if idx[0] > 0 else None
        if free is not None:
            a.indices[0] = free
            c = CLS["bit"].from_indices(a.indices.copy(), bits=case["bits"], level=5)
            if not (a == c) or (a != c) or (a == b) or not (a != b):
                return {"key": "eq-wrong:after-inplace-edit", "what": "a bit fingerprint of %d on-bits compared, then edited in place (indices[0] = %d): == with a fresh fingerprint of its content is %s, == with its former equal is %s" % (
                    len(idx), free, a == c, a == b)}
            a.indices[0] = idx[0]
        # (2) another process
        d = tempfile.mkdtemp(prefix="c09x_", dir=vlib.WORK)
        try:
            with open(os.path.join(d, "objs.pkl"), "wb") as f:
                pickle.dump({k: v[0] for k, v in objs.items()}, f)
            child = (
                "import sys, pickle, json\n"
                "sys.path.insert(0, %r)\n"
                "from e3fp.fingerprint import fprint as F\n"
                "objs = pickle.load(open(%r, 'rb'))\n"
                "bad = []\n"
                "for kind, x in objs.items():\n"
                "    cls = x.__class__\n"
                "    kw = {} if kind == 'bit' else {'counts': dict(x.counts)}\n"
                "    y = cls.from_indices(x.indices.copy(), bits=x.bits, level=x.level, **kw)\n"
                "    z = cls.from_fingerprint(x)\n"
                "    if not (x == y) or (x != y) or not (y == x): bad.append(kind + ': loaded == rebuilt is %%s, != is %%s' %% (x == y, x != y))\n"
                "    if not (x == z) or not (z == y): bad.append(kind + ': copy of loaded: x == z %%s, z == y %%s' %% (x == z, z == y))\n"
                "print(json.dumps(bad))\n") % (os.path.join(vlib.REPO, "src"), os.path.join(d, "objs.pkl"))
            env = dict(os.environ, PYTHONHASHSEED=str(case["hashseed"]), PYTHONDONTWRITEBYTECODE="1")
            p = subprocess.run([sys.executable, "-c", child], capture_output=True, text=True, timeout=300, env=env)
            if p.returncode != 0:
                return {"key": "eq-raises:other-process", "what": "comparing unpickled fingerprints in another process failed: %s" % p.stderr[-400:]}
            import json as _json
            bad = _json.loads(p.stdout.strip().splitlines()[-1])
            if bad:
                return {"key": "eq-wrong:other-process", "what": "fingerprints of %d on-bits that had been compared, pickled and loaded in another interpreter process: %s" % (len(idx), "; ".join(bad))}
        finally:
            import shutil
            shutil.rmtree(d, ignore_errors=True)
        return None

    def nontrivial(self, case, a_impl):
        if case["t"] == "pair" and not (case["a"]["idx"] and case["b"]["idx"]):
            return None
        return vlib.canon(case)


if __name__ == "__main__":
    sys.exit(vlib.run_check(C09))
