"""C17 - bit, count and float views of the same data agree."""
from __future__ import annotations

import sys
from fractions import Fraction

from harness import vlib
from harness import fpheap
from harness.fpgen import CLS, KINDS, attempt, dump_fp, gen_fp, make_fp
from harness.dbgen import FingerprintDatabase, dump_db, gen_fpin, make_fpin, dump_fpin


def support(d):
    """positions with a non-zero value, from a model-format dump"""
    if d["kind"] == "bit":
        return sorted(d["idx"])
    return sorted(i for i, v in d["cnt"] if Fraction(v) != 0)


def values(d):
    if d["kind"] == "bit":
        return {i: Fraction(1) for i in d["idx"]}
    return {i: Fraction(v) for i, v in d["cnt"] if Fraction(v) != 0}


@fpheap.with_heap_cases(("repr",), 40, 1500)
class C17(vlib.Check):
    id = "C17"
    props_modules = ["E3fpVerif.Props.C17", "E3fpVerif.Props.C17Db"]
    gen_items = ["fprint_fold", "fprinter_consts"]
    stateful_driver = True      # database cases reset the store first; fingerprinter cases are stateless
    rule = ("fingerprints of each kind (generated, and derived by +/- of count fingerprints so that zero differences occur) "
            "converted to each kind with from_fingerprint; databases of each kind converted with as_type and filled with "
            "fingerprints of every kind; the fingerprinter run in bit and in count mode on the same conformer at several "
            "lengths; databases converted twice with the first result or the source changed in between. Non-trivial: non-empty source; distinct by case.")
    trusted_base = ["NumPy astype casts (compared on every run)"]

    def gen_cases(self):
        rng = self.rng
        n = 150 if self.tier == "quick" else 3000
        for _ in range(n):
            bits = rng.choice([8, 32, 1024, 2 ** 32])
            f = gen_fp(rng, bits=bits, maxn=10)
            if f["kind"] == "float" and rng.random() < 0.5:
                f["cnt"] = [[i, v if Fraction(v) >= 1 else "2"] for i, v in f["cnt"]]
            self.count("conv")
            yield {"t": "conv", "fp": f, "to": rng.choice(KINDS)}
            # a fingerprint derived by subtraction: equal counts cancel
            a = gen_fp(rng, "count", bits, maxn=8)
            b = gen_fp(rng, "count", bits, maxn=8)
            sign = rng.choice([-1, -1, 1])
            if sign == -1:
                # b below a position by position (counts are positive by the class's documented invariant,
                # so negative differences are outside the quantifier); equal counts cancel
                ac = dict(a["cnt"])
                sel = rng.sample(sorted(ac), len(ac) // 2) if ac else []
                b["cnt"] = sorted([[i, ac[i] if rng.random() < 0.6 else str(rng.randint(1, int(ac[i])))] for i in sel])
                b["idx"] = [i for i, _ in b["cnt"]]
            self.count("derived")
            yield {"t": "derived", "a": a, "b": b, "sign": sign, "to": rng.choice(KINDS)}
            kind = rng.choice(KINDS)
            fps = [gen_fpin(rng, kind, bits, 5, []) for _ in range(rng.randint(1, 4))]
            if kind == "float":
                for f2 in fps:
                    f2["fp"]["cnt"] = [[i, v if Fraction(v) >= 1 else "2"] for i, v in f2["fp"]["cnt"]]
            to = rng.choice(KINDS)
            if kind == "float" and rng.random() < 0.35:
                # a float database of difference fingerprints / signed weights: negative entries are non-zero positions like any other
                # (into the count kind they are not representable - uint16 - so only the bit and float views are asked for)
                for f2 in fps:
                    f2["fp"]["cnt"] = [[i, v if rng.random() < 0.5 else str(-Fraction(v))] for i, v in f2["fp"]["cnt"]]
                to = rng.choice(["bit", "bit", "float"])
                self.count("dbconv:negative-entries")
            self.count("dbconv")
            yield {"t": "dbconv", "kind": kind, "fps": fps, "to": to}
            # views of one count fingerprint through vectors of another dtype, with counts that are ordinary Python ints but do not
            # fit the count vector dtype (sums over many fingerprints): where representable (float64), the values are kept
            g = gen_fp(rng, "count", bits, maxn=8)
            if g["cnt"]:
                big = rng.choice(["70000", "65536", "131072", "65537", "1000000"])
                g["cnt"][rng.randrange(len(g["cnt"]))][1] = big
                self.count("vector-view:big-counts")
                yield {"t": "vecview", "fp": g}
            # folding a database into another kind: fold first (collisions merge in the source kind), then convert
            if bits >= 8 and kind != "count":
                self.count("dbfold-to-kind")
                yield {"t": "dbfoldkind", "kind": kind, "bits": bits, "to": rng.choice([k for k in KINDS if k != kind]),
                       "fps": [gen_fpin(rng, kind, bits, 5, []) for _ in range(2)], "fold": rng.choice([2, 4, 8]) if bits <= 1024 else 2 ** 30}
        # one add_fingerprints call with fingerprints of several kinds, in every order of kinds, into a database of each kind:
        # every row is the fingerprint cast to the database's kind, whichever kind the batch starts with
        for _ in range(40 if self.tier == "quick" else 600):
            bits = rng.choice([64, 1024, 2 ** 32])
            dbkind = rng.choice(KINDS)
            kinds = [rng.choice(["bit", "count", "count", "float"]) for _ in range(rng.randint(2, 5))]
            fps = [gen_fp(rng, k, bits, level=5, maxn=6, style="sparse") for k in kinds]
            for f in fps:
                if f["kind"] == "float":      # values every kind can hold: whole numbers >= 1
                    f["cnt"] = [[i, str(max(1, int(Fraction(v))))] for i, v in f["cnt"]]
                if f["kind"] != "bit":
                    f["cnt"] = [[i, v if int(Fraction(v)) <= 255 else "255"] for i, v in f["cnt"]]
            self.count("mixed-batch:first-" + kinds[0])
            yield {"t": "mixedadd", "dbkind": dbkind, "fps": fps, "split": rng.random() < 0.3}
        yield from self.gen_convtwice()
        from harness import molgen as MG
        refs = MG.all_refs()
        for _ in range(30 if self.tier == "quick" else 500):
            ref = rng.choice(refs)
            mol = MG.load_ref(ref)
            o = MG.gen_opts(rng)
            o["bits"] = rng.choice([2 ** 32, 4096, 1024, 64, 8])
            self.count("fprinter-pair")
            yield {"t": "fprinter", "ref": ref, "conf": rng.randrange(mol.GetNumConformers()), "opts": o}

    # ------------------------------------------------------------------
    def _derive(self, case):
        a, b = make_fp(case["a"]), make_fp(case["b"])
        return (a + b) if case["sign"] == 1 else (a - b)

    def _pair(self, case):
        from harness import molgen as MG
        mol = MG.load_ref(case["ref"])
        conf = mol.GetConformer(case["conf"])
        o = case["opts"]
        if not MG.in_domain(mol, o):
            return None
        out = {}
        for counts in (False, True):
            f = MG.make_fprinter(dict(o, counts=counts))
            f.run(conf, mol)
            out["count" if counts else "bit"] = dump_fp(f.get_fingerprint_at_level(-1))
            if counts:
                ids = [(int(s.identifier) + 2 ** 32) % 2 ** 32 % o["bits"] for s in f.get_shells_at_level(-1)]
                out["positions"] = sorted(ids)
        return out

    def impl(self, case):
        t = case["t"]
        if t in ("vecview", "dbfoldkind", "mixedadd", "convtwice"):
            return {"res": {"ok": "see prop"}}
        if t == "fprinter":
            return {"res": attempt(lambda: self._pair(case))}
        if t == "conv":
            f = make_fp(case["fp"])
            return {"res": attempt(lambda: CLS[case["to"]].from_fingerprint(f), dump_fp), "src_after": dump_fp(f)}
        if t == "derived":
            def go():
                d = self._derive(case)
                return {"d": dump_fp(d), "conv": dump_fp(CLS[case["to"]].from_fingerprint(d))}
            return {"res": attempt(go)}
        if t == "dbconv":
            def go():
                db = FingerprintDatabase(fp_type=CLS[case["kind"]], level=5)
                db.add_fingerprints([make_fpin(f) for f in case["fps"]])
                out = db.as_type(CLS[case["to"]], copy=True)
                return {"src": dump_db(db), "out": dump_db(out)}
            return {"res": attempt(go)}

    def model_ops(self, case):
        t = case["t"]
        if t in ("vecview", "dbfoldkind", "mixedadd", "convtwice"):
            return [{"op": "fpr.hash", "words": []}]
        if t == "fprinter":
            from harness import molgen as MG
            mol = MG.load_ref(case["ref"])
            conf = mol.GetConformer(case["conf"])
            q = [{"level": -1, "bits": None, "mask": []}]
            return [MG.model_run_op(mol, conf, dict(case["opts"], counts=False), q), MG.model_run_op(mol, conf, dict(case["opts"], counts=True), q)]
        if t == "conv":
            return [{"op": "fp.from_fingerprint", "kind": case["to"], "fp": case["fp"]}]
        if t == "derived":
            return [{"op": "fp.addsub", "sign": case["sign"], "a": case["a"], "b": case["b"]}]
        return [{"op": "db.reset"}, {"op": "db.new", "id": "d", "kind": case["kind"], "level": 5, "name": None},
                {"op": "db.add", "id": "d", "fps": case["fps"]},
                {"op": "db.as_type", "id": "d", "out": "o", "kind": case["to"]}]

    def model_answer(self, case, answers):
        t = case["t"]
        if t in ("vecview", "dbfoldkind", "mixedadd", "convtwice"):
            return {"res": {"ok": "see prop"}}
        if t == "fprinter":
            if "ok" not in answers[0]:
                return {"res": {"ok": None}} if answers[0].get("err") in ("ValueError", "KeyError") else {"res": answers[0]}
            b = answers[0]["ok"]["queries"][0]["fp"]["ok"]
            c = answers[1]["ok"]["queries"][0]["fp"]["ok"]
            bits = case["opts"]["bits"]
            pos = sorted((s[1] + 2 ** 32) % 2 ** 32 % bits for s in answers[1]["ok"]["queries"][0]["shells"])
            return {"res": {"ok": {"bit": b, "count": c, "positions": pos}}}
        if t == "conv":
            return {"res": answers[0], "src_after": case["fp"]}
        if t == "derived":
            a = answers[0]
            if "ok" not in a:
                return {"res": a}
            c = vlib.Driver().run_lines([{"op": "fp.from_fingerprint", "kind": case["to"], "fp": a["ok"]}])[0]
            if "ok" not in c:
                return {"res": c}
            return {"res": {"ok": {"d": a["ok"], "conv": c["ok"]}}}
        if "ok" not in answers[2] or "ok" not in answers[3]:
            return {"res": {"err": (answers[3].get("err") or answers[2].get("err"))}}
        return {"res": {"ok": {"src": answers[2]["ok"], "out": answers[3]["ok"]}}}

    # ------------------------------------------------------------------ property
    def _check_conv(self, src, out, to, where):
        if out["kind"] != to or out["bits"] != src["bits"] or out["level"] != src["level"]:
            return {"key": "conv-header:" + where, "what": "conversion changed kind/bits/level wrongly"}
        s_in = support(src)
        vin = values(src)
        if to == "count" and src["kind"] == "float":
            s_in = sorted(i for i in s_in if abs(vin[i]) >= 1)      # truncation toward zero
        s_out_idx = sorted(out["idx"])
        if s_out_idx != s_in and not (to == "count" and src["kind"] == "float" and set(s_in) <= set(s_out_idx)):
            return {"key": "conv-support:%s->%s:%s" % (src["kind"], to, where),
                    "what": "set bits / indexed positions after conversion %s -> %s are %s, the non-zero positions were %s" % (
                        src["kind"], to, s_out_idx[:10], s_in[:10]), "src": src, "out": out}
        if to != "bit":
            vout = values(out)
            for i in s_in:
                want = Fraction(1) if src["kind"] == "bit" else vin[i]
                if to == "count":
                    want = Fraction(int(want))
                if vout.get(i) != want:
                    return {"key": "conv-values:%s->%s:%s" % (src["kind"], to, where), "what": "value at %d is %s, expected %s" % (i, vout.get(i), want)}
        return None

    def gen_convtwice(self):
        """a database converted to another kind twice, with something done in between to the first result (rows added to it, a column
        set on it) or to the source (rows added, its stored values rescaled in place through `array.data`): the second conversion is
        the conversion of the source as it is then, and an object of its own"""
        import random
        rng = random.Random(self.seed * 7919 + 17)         # (own stream: the cases above keep theirs)
        for k in range(12 if self.tier == "quick" else 200):
            src = ["count", "float", "bit", "count"][k % 4]
            dst = rng.choice([x for x in KINDS if x != src])
            bits = rng.choice([64, 1024, 2 ** 32])
            fps = []
            for _ in range(rng.randint(2, 5)):
                f = gen_fp(rng, src, bits, level=5, maxn=6)
                if src != "bit":
                    f["cnt"] = [[i, str(1 + (int(Fraction(v)) % 50))] for i, v in f["cnt"]]
                fps.append(f)
            extra = gen_fp(rng, src, bits, level=5, maxn=6)
            if src != "bit":
                extra["cnt"] = [[i, str(1 + (int(Fraction(v)) % 50))] for i, v in extra["cnt"]]
            self.count("converted-twice")
            yield {"t": "convtwice", "src": src, "dst": dst, "fps": fps, "extra": extra,
                   "between": ["extend-result", "scale-source", "extend-source", "setprop-result", "extend-result"][k % 5] if src != "bit" or k % 5 != 1 else "extend-result"}

    def _prop_convtwice(self, case):
        src, dst = case["src"], case["dst"]
        db = FingerprintDatabase(fp_type=CLS[src], level=5)
        db.add_fingerprints([make_fp(f) for f in case["fps"]])
        rows = [dict(({j: Fraction(1) for j in f["idx"]} if src == "bit" else {j: Fraction(v) for j, v in f["cnt"]})) for f in case["fps"]]
        try:
            d1 = db.as_type(CLS[dst])
            n1 = len(d1)
            b = case["between"]
            if b == "extend-result":
                d1.add_fingerprints([CLS[dst].from_fingerprint(make_fp(case["extra"]))])
            elif b == "setprop-result":
                d1.set_prop("tag", list(range(len(d1))))
            elif b == "extend-source":
                db.add_fingerprints([make_fp(case["extra"])])
                e = case["extra"]
                rows.append({j: Fraction(1) for j in e["idx"]} if src == "bit" else {j: Fraction(v) for j, v in e["cnt"]})
            else:
                db.array.data *= 2
                rows = [{j: 2 * v for j, v in r.items()} for r in rows]
            d2 = db.as_type(CLS[dst])
        except Exception as e:  # noqa: BLE001
            return {"key": "dbconv-raises:twice:" + type(e).__name__, "what": "as_type twice (%s -> %s, %s in between) raised %r" % (src, dst, case["between"], e)}
        if d2 is d1:
            return {"key": "dbconv-returns-earlier-result:%s" % case["between"], "what": "the second as_type(%s) returned the very database the first one handed out" % dst}
        if len(d2) != len(rows):
            return {"key": "dbconv-rows:twice:%s" % case["between"], "what": "second conversion %s -> %s after %s has %d rows, the source has %d" % (src, dst, case["between"], len(d2), len(rows))}
        for i, r in enumerate(rows):
            want = {j: (Fraction(1) if dst == "bit" else v) for j, v in r.items()}
            row = d2.array[i].tocsr()
            got = {int(c): Fraction(float(x)) for c, x in zip(row.indices.tolist(), row.data.tolist()) if x != 0}
            if got != want:
                return {"key": "dbconv-values:twice:%s" % case["between"],
                        "what": "row %d of the second conversion %s -> %s (%s in between) stores %s, the source row is %s" % (i, src, dst, case["between"], sorted(got.items())[:4], sorted(r.items())[:4])}
        return None

    def prop(self, case):
        t = case["t"]
        if t == "convtwice":
            return self._prop_convtwice(case)
        if t == "mixedadd":
            db = FingerprintDatabase(fp_type=CLS[case["dbkind"]], level=5)
            objs = [make_fp(f) for f in case["fps"]]
            try:
                if case["split"]:
                    db.add_fingerprints(objs[:1])
                    db.add_fingerprints(objs[1:])
                else:
                    db.add_fingerprints(objs)
            except Exception as e:  # noqa: BLE001
                return {"key": "mixed-batch-raises:" + type(e).__name__, "what": "adding a batch of kinds %s to a %s database raised %r" % ([f["kind"] for f in case["fps"]], case["dbkind"], e)}
            for i, f in enumerate(case["fps"]):
                want = {j: Fraction(1) for j in f["idx"]} if (f["kind"] == "bit" or case["dbkind"] == "bit") else {j: Fraction(v) for j, v in f["cnt"]}
                row = db.array[i].tocsr()
                got = {int(c): Fraction(float(x)) for c, x in zip(row.indices.tolist(), row.data.tolist()) if x != 0}
                back = db[i]
                gotfp = {int(j): Fraction(1) for j in back.indices.tolist()} if case["dbkind"] == "bit" else {int(j): Fraction(float(v)) for j, v in back.counts.items()}
                if got != want or gotfp != want:
                    return {"key": "mixed-batch-values:first-%s:db-%s" % (case["fps"][0]["kind"], case["dbkind"]),
                            "what": "row %d (a %s fingerprint added in a batch of kinds %s to a %s database) stores %s, the fingerprint holds %s" % (
                                i, f["kind"], [x["kind"] for x in case["fps"]], case["dbkind"], sorted(got.items())[:4], sorted(want.items())[:4])}
            return None
        if t == "vecview":
            import numpy as np
            spec = case["fp"]
            f = make_fp(spec)
            want = {i: float(Fraction(v)) for i, v in spec["cnt"]}
            try:
                v = f.to_vector(sparse=True, dtype=np.float64)
                got = {int(c): float(x) for c, x in zip(v.indices.tolist(), v.data.tolist())}
            except Exception as e:  # noqa: BLE001
                return {"key": "vector-view-raises:float:" + type(e).__name__, "what": "to_vector(dtype=float64) raised %r" % e}
            if got != want:
                return {"key": "vector-view-values:float", "what": "to_vector(dtype=float64) of a count fingerprint gives %s, counts are %s" % (
                    sorted(got.items())[:4], sorted(want.items())[:4])}
            try:
                bv = f.to_vector(sparse=True, dtype=np.bool_)
                sup = sorted(int(c) for c, x in zip(bv.indices.tolist(), bv.data.tolist()) if x)
            except Exception as e:  # noqa: BLE001
                return {"key": "vector-view-raises:bool:" + type(e).__name__, "what": "to_vector(dtype=bool) raised %r" % e}
            if sup != sorted(want):
                return {"key": "vector-view-support:bit", "what": "the boolean vector view has positions %s, non-zero counts are at %s" % (sup[:6], sorted(want)[:6])}
            # into a float database (cast on add)
            db = FingerprintDatabase(fp_type=CLS["float"], level=spec["level"])
            db.add_fingerprints([f])
            row = dump_db(db)["rows"][0]
            if {c: float(Fraction(x)) for c, x in row} != want:
                return {"key": "vector-view-values:float-db", "what": "a count fingerprint added to a float database is stored as %s" % row[:4]}
            return None
        if t == "dbfoldkind":
            db = FingerprintDatabase(fp_type=CLS[case["kind"]], level=5)
            db.add_fingerprints([make_fpin(f) for f in case["fps"]])
            b = case["bits"] // case["fold"]
            try:
                direct = dump_db(db.fold(b, fp_type=CLS[case["to"]]))
                twostep = dump_db(db.fold(b).as_type(CLS[case["to"]], copy=True))
            except Exception as e:  # noqa: BLE001
                return {"key": "dbfold-kind-raises:" + type(e).__name__, "what": "fold(bits, fp_type) raised %r" % e}
            if direct["rows"] != twostep["rows"] or direct["kind"] != twostep["kind"]:
                return {"key": "dbfold-to-kind-differs:%s->%s" % (case["kind"], case["to"]),
                        "what": "db.fold(%d, fp_type=%s) differs from db.fold(%d).as_type(%s)" % (b, case["to"], b, case["to"]),
                        "direct": direct["rows"], "twostep": twostep["rows"]}
            return None
        if t == "fprinter":
            r = self._pair(case)
            if r is None:
                return None
            b, c = r["bit"], r["count"]
            if b["idx"] != c["idx"]:
                return {"key": "bit-count-support-differs", "what": "count and bit fingerprints of the same conformer have different positions"}
            mult = {}
            for p in r["positions"]:
                mult[p] = mult.get(p, 0) + 1
            got = {i: int(Fraction(v)) for i, v in c["cnt"]}
            if got != mult:
                return {"key": "count-not-multiplicity", "what": "counts are not the number of accepted substructures hashing to each position"}
            # the two views stay in agreement when both unfolded fingerprints are folded again and again (A, B, A): the folded
            # results are cached on the objects
            from harness import molgen as MG
            mol = MG.load_ref(case["ref"])
            conf = mol.GetConformer(case["conf"])
            o = dict(case["opts"], bits=2 ** 32)
            objs = {}
            for counts in (False, True):
                f = MG.make_fprinter(dict(o, counts=counts))
                f.run(conf, mol)
                objs[counts] = f.get_fingerprint_at_level(-1)
                if counts:
                    ids = [(int(sh.identifier) + 2 ** 32) % 2 ** 32 for sh in f.get_shells_at_level(-1)]
            import random
            r2 = random.Random(case["conf"] * 7919 + len(ids))
            A, B = r2.sample([4096, 1024, 256, 64, 16], 2)
            for x in (A, B, A, B):
                gb, gc = objs[False].fold(x), objs[True].fold(x)
                m2 = {}
                for i in ids:
                    m2[i % x] = m2.get(i % x, 0) + 1
                gcc = {int(k): int(v) for k, v in gc.counts.items() if v != 0}
                if sorted(gcc) != sorted(int(i) for i in gb.indices) or sorted(int(i) for i in gc.indices) != sorted(int(i) for i in gb.indices):
                    return {"key": "bit-count-support-differs:after-folds", "what": "after folding both views to %s (sequence %s) the positions with non-zero count are not the set bits" % (x, [A, B, A, B])}
                if gcc != m2:
                    return {"key": "count-not-multiplicity:after-folds", "what": "after folding to %s (sequence %s) the counts are not the multiplicities of the folded positions" % (x, [A, B, A, B])}
            return None
        r = self.impl(case)["res"]
        if "err" in r:
            return {"key": "conv-raises:%s:%s" % (t, r["err"]), "what": "%s conversion raised %s" % (t, r["err"])}
        if t == "conv":
            return self._check_conv(case["fp"], r["ok"], case["to"], "fp")
        if t == "derived":
            return self._check_conv(r["ok"]["d"], r["ok"]["conv"], case["to"], "derived")
        src, out = r["ok"]["src"], r["ok"]["out"]
        for i, (a, b) in enumerate(zip(src["rows"], out["rows"])):
            sa = sorted(c for c, v in a if Fraction(v) != 0)
            sb = sorted(c for c, v in b if Fraction(v) != 0)
            if sa != sb:
                return {"key": "dbconv-support:%s->%s" % (case["kind"], case["to"]), "what": "row %d: non-zero positions changed by as_type" % i}
            if case["to"] != "bit":
                for (c1, v1), (c2, v2) in zip(a, b):
                    want = Fraction(v1) if case["to"] == "float" or case["kind"] != "float" else Fraction(int(Fraction(v1)))
                    if case["kind"] == "bit":
                        want = Fraction(1)
                    if Fraction(v2) != want:
                        return {"key": "dbconv-values:%s->%s" % (case["kind"], case["to"]), "what": "row %d col %d: %s became %s" % (i, c1, v1, v2)}
        return None

    def nontrivial(self, case, a_impl):
        if case["t"] == "fprinter":
            return vlib.canon(case) if a_impl.get("res", {}).get("ok") else None
        if case["t"] in ("vecview", "dbfoldkind", "mixedadd", "convtwice"):
            return vlib.canon(case)
        src = case.get("fp") or case.get("a") or (case["fps"][0]["fp"] if case.get("fps") else None)
        if src and src["idx"]:
            return vlib.canon(case)
        return None


if __name__ == "__main__":
    sys.exit(vlib.run_check(C17))
