"""C14 - high-level entry points equal direct fingerprinting of the first N conformers."""
from __future__ import annotations

import os
import shutil
import sys
import tempfile

from rdkit import Chem
from rdkit.Geometry import Point3D

from harness import vlib
from harness import molgen as MG
from harness.fpgen import attempt, dump_fp, fpm

from e3fp import pipeline as PL  # noqa: E402
from e3fp.fingerprint import generate as FG  # noqa: E402
from e3fp.conformer.util import mol_to_sdf  # noqa: E402

NAMES = [None, "mol", "CHEMBL12345", "a-b", "x_y", "m.1", "ZINC000012", "cpd 7", "é", "a_b_c", "n-", "v1.2-beta"]
SUFFIX_NAMES = ["abc_7", "abc-2", "abc-2_7", "abc-02", "a_7_8", "_7", "-3", "a-1-2_3", "7", "a_", "x-1_"]
EXTS = [".fp.pkl", ".fp.gz", ".fp.bz2"]
FULL_ENTRIES = ("dict", "dict_all_iters")


def sub_mol(ref, nconf, name, idmode=None):
    """molecule with the first `nconf` conformers of ref (cycled if it has fewer) and the given name.  `idmode`: the ids the
    conformers carry - sequential (None), all 0 (a molecule assembled with Mol.AddConformer(conf), whose default keeps the id),
    arbitrary, or reversed: a conformer is identified by its position"""
    src = MG.load_ref(ref)
    m = Chem.Mol(src)
    m.RemoveAllConformers()
    for j in range(nconf):
        c = Chem.Conformer(src.GetConformer(j % src.GetNumConformers()))
        if idmode in (None, "sequential"):
            m.AddConformer(c, assignId=True)
        else:
            c.SetId({"all-zero": 0, "arbitrary": 7 * j + 3, "reversed": nconf - 1 - j}[idmode])
            m.AddConformer(c, assignId=False)
    if name is None:
        if m.HasProp("_Name"):
            m.ClearProp("_Name")
    else:
        m.SetProp("_Name", name)
    return m


def in_dom(mol, o, entry):
    """in the property's domain - for the SDF route as the molecule is after RDKit's default hydrogen removal on reading"""
    if not MG.in_domain(mol, o):
        return False
    if entry == "from_sdf":
        try:
            return MG.in_domain(Chem.RemoveHs(mol), o)
        except Exception:  # noqa: BLE001
            return False
    return True


def fp_params(o, first, all_iters=None):
    p = dict(o)
    p["first"] = first
    return p


class C14(vlib.Check):
    id = "C14"
    props_modules = ["E3fpVerif.Props.C14", "E3fpVerif.Props.C14Entry", "E3fpVerif.Props.C14Save"]
    gen_items = ["fprinter_consts"]
    rule = ("molecules with 1..12 conformers (from the shipped SDFs and embedded SMILES), named / unnamed / with names from a "
            "suffix-free list (and, for the naming model only, names with -digits/_digits suffixes); first in {-1,1,2,n-1,n,n+5}; "
            "level in {0,2,5,-1,None}; bits; all_iters; the entry points fprints_from_mol, fprints_dict_from_mol, "
            "fprints_from_sdf (through mol_to_sdf), fprints_from_smiles (seeded generation, repeated calls with different "
            "`first`), saved files reloaded for the three extensions; for the direct calls of fprints_dict_from_mol the whole "
            "returned dictionary (keys, order, names, fingerprints) is compared with the model of the conformer loop on one "
            "reused fingerprinter object (driver op fpo.entry); the same molecule object handed in again after in-place edits; 101 - 112 conformers. Non-trivial: >= 2 conformers processed; distinct by case.")
    trusted_base = ["RDKit SDF I/O, pickle/compression (compared on every run)"]

    def tmp(self):
        if not hasattr(self, "_tmp"):
            self._tmp = tempfile.mkdtemp(prefix="c14_", dir=vlib.WORK)
        return self._tmp

    def __del__(self):
        t = getattr(self, "_tmp", None)
        if t:
            shutil.rmtree(t, ignore_errors=True)

    def gen_cases(self):
        rng = self.rng
        n = 60 if self.tier == "quick" else 900
        refs = MG.all_refs()
        for k in range(n):
            ref = rng.choice(refs)
            nconf = rng.choice([1, 2, 3, 5, 12])
            if k == 0 or rng.random() < 0.02:
                nconf = rng.choice([101, 112])       # conformer indices of three digits in the names
                self.count("conformers>=100")
            first = rng.choice([-1, 1, 2, max(1, nconf - 1), nconf, nconf + 5])
            o = MG.gen_opts(rng)
            o["level"] = rng.choice([0, 2, 5, -1, None])
            if nconf > 100:
                o["level"] = rng.choice([0, 1, 2])
            if o["level"] in (-1, None):
                o["remove_duplicate_substructs"] = True
            entry = rng.choice(["from_mol", "from_mol", "dict", "dict_all_iters", "from_sdf", "save", "from_mol_all_iters", "select"])
            if rng.random() < 0.4:
                # conformers of one molecule that converge at different iterations (scaled copies of a conformer), and a
                # requested level in the range where some have converged and others have not: whatever the one reused
                # fingerprinter object keeps from an earlier conformer would show in a later one
                ref = dict(ref, scales=[1.0, 0.55, 1.6, 2.4, 0.8, 1.3])
                nconf = rng.choice([3, 5, 6])
                first = rng.choice([-1, nconf])
                o["level"] = rng.choice([1, 2, 3, 4, 5, 6, 7])
                self.count("scaled-conformers")
            name = rng.choice(NAMES)
            if entry in ("from_sdf", "save") and name is None:
                name = "named"
            case = {"t": "entry", "ref": ref, "nconf": nconf, "first": first, "opts": o, "entry": entry, "name": name}
            if entry != "from_sdf" and rng.random() < 0.4:
                case["idmode"] = rng.choice(["all-zero", "arbitrary", "reversed"])
                self.count("conformer-ids:" + case["idmode"])
            if k in (2, 3, 4):
                ref = {k_: v_ for k_, v_ in ref.items() if k_ != "scales"}
                # (stratified: every run has saving runs that find part of the molecule's per-level files already there,
                #  written by a shorter run with fewer conformers)
                entry, nconf, first = "save", rng.choice([2, 3, 5]), -1
                o["level"] = rng.choice([2, 3, 5])
                case = {"t": "entry", "ref": ref, "nconf": nconf, "first": first, "opts": o, "entry": entry, "name": name or "named"}
            if entry == "save":
                case["ext"] = rng.choice(EXTS)
                case["all_iters"] = rng.random() < 0.5 or k in (2, 3, 4)
                if case["all_iters"] and o["level"] not in (-1, None, 0) and (rng.random() < 0.6 or k in (2, 3, 4)):
                    # the output directories already hold this molecule's files for *some* of the levels, left by an earlier
                    # (shorter, fewer-conformer) or killed run: not all are there, so the molecule is not skipped
                    case["prior"] = {"level": rng.randrange(0, o["level"]), "first": 1, "truncate": rng.random() < 0.3}
                    self.count("save:partial-earlier-output")
            self.count("entry:" + entry)
            yield case
        for nm in SUFFIX_NAMES + [x for x in NAMES if x]:
            self.count("naming")
            yield {"t": "naming", "name": nm, "n": 3}
        for k in range(12 if self.tier == "quick" else 150):
            # the same molecule object handed to an entry point again after it was edited in place (an isotope label, moved
            # coordinates, a new name), and other molecules in between: each call answers for the molecule as it is now
            o = MG.gen_opts(rng)
            o["level"] = rng.choice([2, 3, 5])
            self.count("same-object-edited")
            yield {"t": "reuse", "ref": rng.choice(refs), "other": rng.choice(refs), "nconf": rng.choice([1, 2, 3]), "first": rng.choice([-1, 1, 2]), "opts": o,
                   "entry": rng.choice(["from_mol", "dict"]), "name": rng.choice(["mol", "x", None]), "between": rng.random() < 0.3,
                   "edits": rng.sample(["isotope", "isotope", "coords", "name", "hcount"], 2), "atom": rng.randrange(64)}
        for k in range(2 if self.tier == "quick" else 8):
            self.count("from_smiles")
            yield {"t": "smiles", "smiles": rng.choice(["CCCCOC(=O)CCN", "CCCCCCO", "NCCCCC(=O)O"]), "firsts": [1, 3, 2], "seed": 11}

    # ------------------------------------------------------------------ running an entry point
    def _run_entry(self, case):
        o = dict(case["opts"])
        mol = sub_mol(case["ref"], case["nconf"], case["name"], case.get("idmode"))
        params = fp_params(o, case["first"])
        e = case["entry"]
        if e == "from_mol":
            return {"list": [(f.name, dump_fp(f)) for f in PL.fprints_from_mol(mol, fprint_params=params)]}
        if e == "from_mol_all_iters":
            # all iterations requested and no explicit level: the packaged default level applies and its fingerprints are returned
            p2 = dict(params, all_iters=True)
            p2.pop("level")
            p2["remove_duplicate_substructs"] = True
            return {"list": [(f.name, dump_fp(f)) for f in PL.fprints_from_mol(mol, fprint_params=p2)]}
        if e == "select":
            lvl = 3
            d = FG.fprints_dict_from_mol(mol, all_iters=True, **dict(params, level=lvl))
            return {"sel": {str(q): [(f.name, dump_fp(f)) for f in PL.fprints_from_fprints_dict(d, level=q)] for q in (0, 2, 3, -1, 7)},
                    "default": [(f.name, dump_fp(f)) for f in PL.fprints_from_fprints_dict(d)]}
        if e in ("dict", "dict_all_iters"):
            d = FG.fprints_dict_from_mol(mol, all_iters=(e == "dict_all_iters"), **params)
            return {"dict": {str(k): [(f.name, dump_fp(f)) for f in v] for k, v in sorted(d.items(), key=lambda kv: kv[0])}}
        if e == "from_sdf":
            path = os.path.join(self.tmp(), "m%d.sdf.bz2" % (id(case) % 99999))
            try:
                mol_to_sdf(mol, path)
                return {"list": [(f.name, dump_fp(f)) for f in PL.fprints_from_sdf(path, fprint_params=params)]}
            finally:
                if os.path.exists(path):
                    os.remove(path)
        if e == "save":
            base = os.path.join(self.tmp(), "out%d_" % (id(case) % 99999))
            try:
                if case.get("prior"):
                    pr = dict(params, level=case["prior"]["level"], first=case["prior"]["first"])
                    FG.fprints_dict_from_mol(mol, save=True, out_dir_base=base, out_ext=case["ext"], all_iters=True, **pr)
                    if case["prior"]["truncate"]:
                        for root in [x for x in os.listdir(self.tmp()) if x.startswith(os.path.basename(base))][:1]:
                            for fn in os.listdir(os.path.join(self.tmp(), root)):
                                fpm.savez(os.path.join(self.tmp(), root, fn))      # a file holding no fingerprint (what a killed run leaves)
                d = FG.fprints_dict_from_mol(mol, save=True, out_dir_base=base, out_ext=case["ext"], all_iters=case["all_iters"], **params)
                files = {}
                for root in sorted(x for x in os.listdir(self.tmp()) if x.startswith(os.path.basename(base))):
                    for fn in sorted(os.listdir(os.path.join(self.tmp(), root))):
                        files[root[len(os.path.basename(base)):]] = [(f.name, dump_fp(f)) for f in fpm.loadz(os.path.join(self.tmp(), root, fn))]
                return {"dict": {str(k): [(f.name, dump_fp(f)) for f in v] for k, v in sorted(d.items(), key=lambda kv: kv[0])}, "files": files}
            finally:
                for root in [x for x in os.listdir(self.tmp()) if x.startswith(os.path.basename(base))]:
                    shutil.rmtree(os.path.join(self.tmp(), root), ignore_errors=True)

    def impl(self, case):
        if case["t"] == "naming":
            from e3fp.conformer.util import MolItemName
            return {"ok": [MolItemName.from_str(case["name"]).to_conf_name(j) for j in range(case["n"])]}
        if case["t"] in ("smiles", "reuse"):
            return {"ok": "see prop"}
        r = attempt(lambda: self._run_entry(case))
        if "ok" not in r:
            return r
        out = r["ok"]
        if "sel" in out:
            return {"ok": {"n": len(out["default"]), "names": [n for n, _ in out["default"]]}}
        if "list" in out:
            return {"ok": {"n": len(out["list"]), "names": [n for n, _ in out["list"]]}}
        keys = sorted(int(k) for k in out["dict"])
        first = out["dict"][str(keys[-1])] if keys else []
        res = {"n": len(first), "names": [n for n, _ in first], "keys": keys}
        if case["entry"] == "save":
            # the state of the molecule's output files after the call: holding the list just returned ("fresh") or something else
            res["files"] = sorted([-1 if sfx == "_complete" else int(sfx), "fresh" if content == out["dict"].get("-1" if sfx == "_complete" else sfx) else "prior"]
                                  for sfx, content in out["files"].items())
        if case["entry"] in FULL_ENTRIES:
            # the whole result goes to the comparison with the model of the conformer loop (`fpo.entry`)
            res["dict"] = [[k, [[d, n] for n, d in out["dict"][str(k)]]] for k in keys]
        return {"ok": res}

    def model_ops(self, case):
        if case["t"] == "naming":
            return [{"op": "pipe.plan", "name": case["name"], "nconf": case["n"], "first": -1, "level": 0, "all_iters": False, "select": 0}]
        if case["t"] in ("smiles", "reuse"):
            return [{"op": "fpr.hash", "words": []}]
        lvl = case["opts"]["level"]
        lvl = -1 if lvl is None else lvl
        ops = [{"op": "pipe.plan", "name": case["name"], "nconf": case["nconf"], "first": case["first"], "level": lvl,
                "all_iters": case["entry"] == "dict_all_iters" or bool(case.get("all_iters")), "select": lvl}]
        if case["entry"] == "save":
            pre = [[k, "prior"] for k in range(case["prior"]["level"] + 1)] if case.get("prior") else []
            ops.append({"op": "pipe.save_run", "name": "m", "level": lvl, "all_iters": bool(case.get("all_iters")), "overwrite": False, "ok": True, "pre": pre})
        if case["entry"] in FULL_ENTRIES:
            import numpy as np
            mol = sub_mol(case["ref"], case["nconf"], case["name"], case.get("idmode"))
            o = dict(case["opts"], level=lvl)
            mult = o.pop("radius_multiplier")
            for k in (0, 1, 2):      # the conformers as they are, and two 3e-14 A perturbations (round-off band detection)
                confs = []
                for ci in range(mol.GetNumConformers()):
                    cs = MG.coords_of(list(mol.GetConformers())[ci])
                    if k:
                        r = np.random.RandomState(k)
                        X = np.array([[p.x, p.y, p.z] for p in (list(mol.GetConformers())[ci].GetAtomPosition(i) for i in range(mol.GetNumAtoms()))])
                        X = X + r.uniform(-1, 1, X.shape) * 3e-14
                        cs = [[i, MG.fbits(X[i, 0]), MG.fbits(X[i, 1]), MG.fbits(X[i, 2])] for i in range(len(X))]
                    confs.append(cs)
                ops.append({"op": "fpo.entry", "opts": o, "mol": MG.mol_facts(mol), "confs": confs, "mult": MG.fbits(mult),
                            "name": case["name"], "first": case["first"], "all_iters": case["entry"] == "dict_all_iters"})
        return ops

    def model_answer(self, case, answers):
        a = answers[0]
        if case["t"] == "naming":
            return {"ok": a["ok"]["names"]} if "ok" in a else a
        if case["t"] in ("smiles", "reuse"):
            return {"ok": "see prop"}
        if "ok" not in a:
            return a
        o = a["ok"]
        if case["entry"] in ("from_mol", "from_sdf", "from_mol_all_iters", "select"):
            return {"ok": {"n": o["n"], "names": o["names"]}}
        res = {"n": o["n"], "names": o["names"], "keys": sorted(o["keys"])}
        if case["entry"] == "save":
            res["files"] = sorted(answers[1]["ok"]["files"]) if "ok" in answers[1] else answers[1]
        if case["entry"] in FULL_ENTRIES:
            ents = answers[1:4]
            if any(vlib.canon(e) != vlib.canon(ents[0]) for e in ents[1:]):
                res["dict"] = "margin"
            elif "ok" in ents[0]:
                res["dict"] = sorted(ents[0]["ok"] or [], key=lambda kv: kv[0])
            else:
                res["dict"] = ents[0]
        return {"ok": res}

    def compare(self, case, a_impl, a_model):
        if case["t"] == "entry" and not in_dom(sub_mol(case["ref"], 1, case["name"]), case["opts"], case["entry"]):
            return None        # no retained heavy atom: outside the quantifier
        if case["t"] == "entry" and "ok" in a_model and isinstance(a_model["ok"], dict) and a_model["ok"].get("dict") == "margin":
            self.count("margin_discarded")
            a_model = {"ok": {k: v for k, v in a_model["ok"].items() if k != "dict"}}
            if "ok" in a_impl:
                a_impl = {"ok": {k: v for k, v in a_impl["ok"].items() if k != "dict"}}
        return super().compare(case, a_impl, a_model)

    # ------------------------------------------------------------------ property
    def _direct(self, mol, o, level, n):
        out = []
        for j in range(n):
            f = MG.make_fprinter(dict(o, level=level))
            f.run(list(mol.GetConformers())[j], mol)      # by position: ids need not be 0..n-1
            out.append(dump_fp(f.get_fingerprint_at_level(level)))
        return out

    def prop(self, case):
        if case["t"] == "naming":
            return None
        if case["t"] == "smiles":
            outs = []
            for first in case["firsts"]:
                try:
                    fps = PL.fprints_from_smiles(case["smiles"], "mol", fprint_params={"first": first, "level": 2, "bits": 1024})
                except Exception as e:  # noqa: BLE001
                    return {"key": "from-smiles-raises:" + type(e).__name__, "what": "fprints_from_smiles raised %r" % e}
                outs.append(len(fps))
            # each call must return min(first, available) fingerprints, independent of earlier calls
            ref = []
            for first in case["firsts"]:
                fps = PL.fprints_from_smiles(case["smiles"], "mol", confgen_params={}, fprint_params={"first": first, "level": 2, "bits": 1024})
                ref.append(len(fps))
            if outs != ref:
                return {"key": "from-smiles-history-dependent", "what": "fprints_from_smiles with first=%s returned %s fingerprints; each call alone returns %s" % (case["firsts"], outs, ref)}
            return None
        if case["t"] == "reuse":
            return self._prop_reuse(case)
        o = case["opts"]
        mol = sub_mol(case["ref"], case["nconf"], case["name"], case.get("idmode"))
        if not in_dom(mol, o, case["entry"]):
            return None
        name = case["name"]
        first = case["first"]
        N = case["nconf"] if first == -1 or first >= case["nconf"] else first
        lvl = -1 if o["level"] is None else o["level"]
        try:
            got = self._run_entry(case)
        except Exception as e:  # noqa: BLE001
            return {"key": "entry-raises:%s:%s" % (case["entry"], type(e).__name__), "what": "%s raised %r" % (case["entry"], e)}
        src = mol
        if case["entry"] == "from_sdf":
            # coordinates pass through SDF text (4 decimals): compare with direct fingerprinting of the re-read molecule
            from e3fp.conformer.util import mol_from_sdf
            path = os.path.join(self.tmp(), "r%d.sdf.bz2" % (id(case) % 99999))
            mol_to_sdf(mol, path)
            src = mol_from_sdf(path)
            os.remove(path)
        want_names = [None if name is None else "%s_%d" % (name, j) for j in range(N)]

        def check_list(lst, level, what):
            want = self._direct(src, o, level, N)
            if len(lst) != N:
                return {"key": "wrong-count:" + case["entry"], "what": "%s returned %d fingerprints for first=%d and %d conformers" % (what, len(lst), first, case["nconf"])}
            for j, (nm, d) in enumerate(lst):
                w = dict(want[j])
                if d != w:
                    return {"key": "differs-from-direct:" + case["entry"], "what": "%s: conformer %d differs from direct fingerprinting at level %s" % (what, j, level)}
                if nm != want_names[j]:
                    return {"key": "wrong-name:" + case["entry"], "what": "%s: conformer %d is named %r, expected %r" % (what, j, nm, want_names[j])}
            return None
        if case["entry"] == "from_mol_all_iters":
            o = dict(o, remove_duplicate_substructs=True)
            return check_list(got["list"], FG.LEVEL_DEF, "fprints_from_mol(all_iters, default level)")
        if "sel" in got:
            o = dict(o, level=3)
            for q, want_level in ((0, 0), (2, 2), (3, 3), (-1, 3), (7, 3)):
                f = check_list(got["sel"][str(q)], want_level, "fprints_from_fprints_dict(level=%d)" % q)
                if f:
                    f["key"] = "level-selection:%s" % q
                    return f
            f = check_list(got["default"], 3, "fprints_from_fprints_dict()")
            if f:
                f["key"] = "level-selection:default"
            return f
        if "list" in got:
            return check_list(got["list"], lvl, case["entry"])
        d = got["dict"]
        all_iters = case["entry"] == "dict_all_iters" or bool(case.get("all_iters"))
        want_keys = [lvl] if (lvl == -1 or not all_iters) else list(range(lvl + 1))
        if sorted(int(k) for k in d) != want_keys:
            return {"key": "wrong-level-keys:" + case["entry"], "what": "per-level dict has keys %s, expected %s" % (sorted(d), want_keys)}
        for k in want_keys:
            f = check_list(d[str(k)], k, "%s level %d" % (case["entry"], k))
            if f:
                return f
        if "files" in got:
            fk = sorted(got["files"])
            wantf = ["_complete"] if lvl == -1 else [str(k) for k in want_keys]
            if sorted(fk) != sorted(wantf):
                return {"key": "wrong-files", "what": "saved directories %s, expected %s" % (fk, wantf)}
            for sfx in fk:
                k = lvl if sfx == "_complete" else int(sfx)
                if got["files"][sfx] != d[str(k)]:
                    return {"key": "saved-reload-differs:" + case["ext"], "what": "fingerprints reloaded from %s differ from the returned ones" % sfx}
        return None

    def _prop_reuse(self, case):
        o = case["opts"]
        mol = sub_mol(case["ref"], case["nconf"], case["name"])
        other = sub_mol(case["other"], 1, "other")
        if not in_dom(mol, o, case["entry"]) or not in_dom(other, o, case["entry"]):
            return None
        params = fp_params(o, case["first"])
        lvl = o["level"]

        def entry(m):
            if case["entry"] == "from_mol":
                return [(f.name, dump_fp(f)) for f in PL.fprints_from_mol(m, fprint_params=params)]
            return [(f.name, dump_fp(f)) for f in FG.fprints_dict_from_mol(m, **params)[lvl]]

        def expected(m, name):
            n = m.GetNumConformers()
            N = n if case["first"] == -1 or case["first"] >= n else case["first"]
            return [(None if name is None else "%s_%d" % (name, j), d) for j, d in enumerate(self._direct(m, o, lvl, N))]
        name = case["name"]
        try:
            got0 = entry(mol)
            if got0 != expected(mol, name):
                return None          # (the plain case belongs to the entry cases above)
            for e in case["edits"]:
                if case["between"]:
                    entry(other)
                heavy = [a for a in mol.GetAtoms() if a.GetAtomicNum() > 1]
                a = heavy[case["atom"] % len(heavy)]
                if e == "isotope":
                    a.SetIsotope(a.GetIsotope() + 1 if a.GetIsotope() else {6: 13, 7: 15, 8: 18}.get(a.GetAtomicNum(), 2 * a.GetAtomicNum() + 3))
                elif e == "hcount":
                    a.SetNoImplicit(True)
                    a.SetNumExplicitHs(a.GetTotalNumHs() + 1 if a.GetTotalNumHs() < 3 else 0)
                elif e == "coords":
                    for c in mol.GetConformers():
                        for i in range(c.GetNumAtoms()):
                            q = c.GetAtomPosition(i)
                            c.SetAtomPosition(i, Point3D(q.x * 1.25, q.y * 0.8, q.z * 1.1))
                else:
                    name = "renamed"
                    mol.SetProp("_Name", name)
                if not in_dom(mol, o, case["entry"]):
                    return None
                got = entry(mol)
                want = expected(mol, name)
                if got != want:
                    bad = [j for j in range(min(len(got), len(want))) if got[j] != want[j]]
                    return {"key": "differs-from-direct:%s:same-object-edited:%s" % (case["entry"], e),
                            "what": "%s on a molecule object it was given before, after an in-place edit (%s): %d fingerprints returned, %d expected, conformers %s differ from direct fingerprinting of the molecule as it is now" % (
                                case["entry"], e, len(got), len(want), bad)}
        except Exception as ex:  # noqa: BLE001
            return {"key": "entry-raises:%s:%s" % (case["entry"], type(ex).__name__), "what": "%s raised %r" % (case["entry"], ex)}
        return None

    def nontrivial(self, case, a_impl):
        if case["t"] == "entry" and "ok" in a_impl and a_impl["ok"]["n"] >= 2:
            return vlib.canon(case)
        if case["t"] != "entry":
            return vlib.canon(case)
        return None


if __name__ == "__main__":
    sys.exit(vlib.run_check(C14))
