"""C05 - a fingerprint database is a faithful, order-preserving container."""
from __future__ import annotations

import copy
import os
import shutil
import sys
import tempfile

from harness import vlib
from harness import dbgen
from harness.dbgen import (HistGen, ImplRun, ODb, READ_OPS, dump_db, dump_fpin, model_op, model_result, oracle_step)


def ids_after(ops):
    """ids declared by the ops so far, in order."""
    out = []
    for op in ops:
        for k in ("id", "out"):
            v = op.get(k)
            if v and v not in out and (k == "out" or op["op"] in ("new", "from_array")):
                out.append(v)
    return out


def observe(db, odb):
    """Compare the observable behaviour of a real database with the oracle rows; None or a failure."""
    n = len(odb.rows)
    if len(db) != n:
        return {"key": "len", "what": "len(db) = %d, expected %d rows" % (len(db), n)}
    if n and db.bits != odb.bits:
        return {"key": "bits", "what": "db.bits = %r, expected %r" % (db.bits, odb.bits)}
    for i in range(n):
        want = odb.expected_row(odb.rows[i])
        try:
            got = dump_fpin(db[i])
        except Exception as e:  # noqa: BLE001
            return {"key": "getitem-raises:" + type(e).__name__, "what": "db[%d] raised %r" % (i, e)}
        if got != want:
            return {"key": "row-differs", "what": "db[%d] is not the fingerprint that was put in" % i, "want": want, "got": got}
        try:
            gotn = dump_fpin(db[i - n])
        except Exception as e:  # noqa: BLE001
            return {"key": "getitem-raises:" + type(e).__name__, "what": "db[%d] raised %r" % (i - n, e)}
        if gotn != want:
            return {"key": "row-differs-negative-index", "what": "db[%d] differs from db[%d]" % (i - n, i)}
    for nm in odb.names():
        want = [odb.expected_row(r) for r in odb.rows_named(nm)]
        try:
            got = [dump_fpin(x) for x in db[nm]]
        except Exception as e:  # noqa: BLE001
            return {"key": "getname-raises:" + type(e).__name__, "what": "db[%r] raised %r" % (nm, e)}
        if got != want:
            return {"key": "name-lookup-differs", "what": "db[%r] does not list the rows carrying that name in insertion order" % nm,
                    "want": want, "got": got}
    # the name index
    idx = {}
    for i, r in enumerate(odb.rows):
        idx.setdefault(r["name"], []).append(i)
    got_idx = {k: [int(x) for x in v] for k, v in db.fp_names_to_indices.items() if len(v)}
    if got_idx != idx:
        return {"key": "name-index-differs", "what": "fp_names_to_indices does not list every row of each name",
                "want": {str(k): v for k, v in idx.items()}, "got": {str(k): v for k, v in got_idx.items()}}
    # iteration
    try:
        it = [(dump_fpin(x)["fp"], x.name) for x in db]
    except Exception as e:  # noqa: BLE001
        return {"key": "iter-raises:" + type(e).__name__, "what": "iteration raised %r" % e}
    if it != [(r["fp"], r["name"]) for r in odb.rows]:
        return {"key": "iter-differs", "what": "iteration does not yield the rows in insertion order"}
    return None


def shared_containers(live):
    """(id1, id2, what) for the first container two live databases share, else None"""
    import numpy as np
    ids = sorted(live)
    for a in range(len(ids)):
        for b in range(a + 1, len(ids)):
            x, y = live[ids[a]], live[ids[b]]
            if x is y:
                continue
            if x.array is not None and y.array is not None:
                for part in ("data", "indices", "indptr"):
                    u, v = getattr(x.array, part), getattr(y.array, part)
                    if u.size and v.size and np.shares_memory(u, v):
                        return ids[a], ids[b], part
            if x.fp_names is y.fp_names and x.fp_names is not None:
                return ids[a], ids[b], "fp_names list"
            if x.fp_names_to_indices is y.fp_names_to_indices:
                return ids[a], ids[b], "name index"
            lists = {id(v) for v in x.fp_names_to_indices.values() if isinstance(v, list)}
            if any(id(v) in lists for v in y.fp_names_to_indices.values() if isinstance(v, list)):
                return ids[a], ids[b], "name index row list"
            if x.props is y.props:
                return ids[a], ids[b], "props dict"
            # (the column arrays inside `props` are handed on by reference - np.asanyarray - also from the caller's own arrays; no
            #  operation of the library writes into a column in place, so that sharing is not observable through the library and
            #  is not claimed, like caller-supplied mutable values stored in a fingerprint's props)
    return None


class C05(vlib.Check):
    id = "C05"
    props_modules = ["E3fpVerif.Props.C05", "E3fpVerif.Props.C05Hist", "E3fpVerif.Props.C05Cols"]
    gen_items = ["fprint_fold"]
    stateful_driver = True
    rule = ("seeded histories of 3-16 operations (add, lookup by index / name / absent name, subset, as_type, copy, fold, "
            "concat, set_prop, update_props, pickle, savez+load, ==, iteration, density, similarity) over a pool of live "
            "databases of the three kinds, bits in {8,64,1024,2^32}, duplicate and None names, 0-3 typed property columns; "
            "after every step every live database is dumped and compared with the model, and observed through db[i], "
            "db[name], the name index and iteration against a plain list-of-rows oracle; databases whose matrix holds explicitly "
            "stored zeros are put through every read-only operation (frame only); directed histories with the same property columns declared in "
            "different orders and then concatenated; one accepted batch of 66 000+ fingerprints read back around every power-of-two row; get_subset requests of every shape; narrow-dtype property columns receiving wider values. Non-trivial: history with at least "
            "one derived database and one read; distinct by history.")
    trusted_base = ["SciPy CSR vstack / slicing / sum_duplicates, NumPy savez/load, pickle (compared on every run)"]
    faults = False
    n_quick, n_thorough = 120, 3000

    def gen_cases(self):
        n = self.n_quick if self.tier == "quick" else self.n_thorough
        g = HistGen(self.rng, faults=self.faults)
        for _ in range(n):
            c = g.gen()
            for op in c["ops"]:
                self.count("op:" + op["op"] + (":fault" if op.get("fault") else ""))
            yield c
        for _ in range(10 if self.tier == "quick" else 150):
            c = dbgen.gen_colorder(self.rng)
            self.count("columns-declared-in-different-orders")
            yield c
        for _ in range(8 if self.tier == "quick" else 120):
            c = dbgen.gen_subsetpat(self.rng)
            self.count("subset-request-shapes")
            yield c
        if self.id == "C05":
            # one very large accepted batch (a whole library added at once, beyond 2^16 rows; thorough: beyond 2^17), duplicate
            # names and a property column; rows, names, name index and the column are then read back around every power-of-two
            # boundary and at seeded positions
            for n in ([66000] if self.tier == "quick" else [66000, 70000, 131100, 140000]):
                self.count("very-large-batch-accepted:%d" % n)
                yield {"t": "bigadd", "n": n + self.rng.randrange(40), "kind": self.rng.choice(["bit", "count"]), "split": self.rng.choice([None, None, 3, 40000]),
                       "seed": self.rng.randrange(10 ** 6)}
        yield from self.gen_zero_cases()
        if self.id == "C05":
            # property columns held in a narrow NumPy dtype (given as a typed array, as NumPy scalars on the fingerprints, or reloaded
            # from a file) that later receive values the narrow dtype cannot hold: what was put in comes back
            import random
            r2 = random.Random(self.seed * 104729 + 5)       # (own stream)
            for k in range(8 if self.tier == "quick" else 100):
                self.count("narrow-dtype-column")
                yield {"t": "narrowcol", "dtype": ["int16", "int32", "float32", "int8", "uint8", "float16", "int32", "int16"][k % 8],
                       "how": ["set_prop", "scalars", "reload", "from_array"][k % 4], "then": r2.choice(["add", "concat", "concat-reversed"]),
                       "kind": r2.choice(["bit", "count"]), "seed": r2.randrange(10 ** 6)}

    def _narrowcol_prop(self, case):
        import numpy as np
        from harness.fpgen import CLS
        r = np.random.RandomState(case["seed"])
        cls, dt = CLS[case["kind"]], np.dtype(case["dtype"])
        small = [1, 2, 3] if dt.kind in "iu" else [0.5, 1.5, 2.0]
        big = {"int8": [300, -200], "uint8": [256, 70000], "int16": [70000, -40000], "int32": [3000000000, 2 ** 40 + 3], "float32": [0.1, 1e-50],
               "float16": [0.1, 70000.0]}[case["dtype"]]

        def mk(i, v, scalar=False):
            f = cls.from_indices(r.randint(0, 64, size=3), bits=64, level=5)
            f.name = "m%d" % i
            f.set_prop("col", dt.type(v) if scalar else v)
            return f
        try:
            db = dbgen.FingerprintDatabase(fp_type=cls, level=5)
            how = case["how"]
            if how == "scalars":
                db.add_fingerprints([mk(i, v, True) for i, v in enumerate(small)])
            else:
                fps = [mk(i, v) for i, v in enumerate(small)]
                if how == "from_array":
                    tmp = dbgen.FingerprintDatabase(fp_type=cls, level=5)
                    tmp.add_fingerprints(fps)
                    db = dbgen.FingerprintDatabase.from_array(tmp.array, [f.name for f in fps], fp_type=cls, level=5, props={"col": np.array(small, dtype=dt)})
                else:
                    db.add_fingerprints(fps)
                    db.set_prop("col", np.array(small, dtype=dt))
                    if how == "reload":
                        p = os.path.join(self.tmp(), "narrow%d.fpz" % case["seed"])
                        db.savez(p)
                        db = dbgen.FingerprintDatabase.load(p)
                        os.remove(p)
            later = [mk(10 + i, v) for i, v in enumerate(big)]
            want = [float(x) if dt.kind == "f" else int(x) for x in small] + list(big)
            if case["then"] == "add":
                db.add_fingerprints(later)
                out = db
            else:
                other = dbgen.FingerprintDatabase(fp_type=cls, level=5)
                other.add_fingerprints(later)
                if case["then"] == "concat":
                    out = dbgen.concat([db, other])
                else:
                    out = dbgen.concat([other, db])
                    want = list(big) + want[:len(small)]
        except Exception as e:  # noqa: BLE001
            return {"key": "narrow-column-raises:" + type(e).__name__, "what": "a %s column (%s) followed by %s raised %r" % (case["dtype"], case["how"], case["then"], e)}
        got = [x.item() if hasattr(x, "item") else x for x in out.get_prop("col")]
        byrow = [out[i].get_prop("col") for i in range(len(out))]
        byrow = [x.item() if hasattr(x, "item") else x for x in byrow]
        if got != want or byrow != want:
            return {"key": "props-value-changed:narrow-dtype:%s" % case["then"],
                    "what": "column first held as %s (%s), then %s with values %s: the column reads %s / per row %s, put in were %s" % (case["dtype"], case["how"], case["then"], big, got, byrow, want)}
        return None

    def _bigadd_prop(self, case):
        import numpy as np
        from harness.fpgen import CLS, dump_fp
        r = np.random.RandomState(case["seed"])
        cls, n = CLS[case["kind"]], case["n"]
        idx = r.randint(0, 4096, size=(n, 3))
        fps = []
        for i in range(n):
            f = cls.from_indices(idx[i], bits=4096, level=5)
            f.name = "m%d" % (i // 2)
            f.set_prop("pi", i)
            fps.append(f)
        db = dbgen.FingerprintDatabase(fp_type=cls, level=5, name="big")
        try:
            if case["split"]:
                db.add_fingerprints(fps[:case["split"]])
                db.add_fingerprints(fps[case["split"]:])
            else:
                db.add_fingerprints(fps)
        except Exception as e:  # noqa: BLE001
            return {"key": "add-raises:very-large-batch:" + type(e).__name__, "what": "adding %d fingerprints raised %r" % (n, e)}
        if len(db) != n or len(db.fp_names) != n:
            return {"key": "len:very-large-batch", "what": "%d rows / %d names after adding %d fingerprints" % (len(db), len(db.fp_names), n)}
        pos = {0, 1, n - 1, n - 2}
        for k in (14, 15, 16, 17):
            pos |= {p for p in (2 ** k - 2, 2 ** k - 1, 2 ** k, 2 ** k + 1) if p < n}
        pos |= {int(x) for x in r.randint(0, n, size=60)}
        for i in sorted(pos):
            got = db[i]
            if dump_fp(got) != dump_fp(fps[i]) or got.name != fps[i].name or got.get_prop("pi") != i:
                return {"key": "row-differs:very-large-batch", "what": "db[%d] of a %d-row batch is not the fingerprint that was put in (name %r, pi %r)" % (i, n, got.name, got.props.get("pi"))}
            nm = fps[i].name
            want = [j for j in (i - 1, i, i + 1) if 0 <= j < n and fps[j].name == nm]
            if [int(x) for x in db.fp_names_to_indices[nm]] != want:
                return {"key": "name-index-differs:very-large-batch", "what": "rows of name %r: %s, expected %s" % (nm, list(db.fp_names_to_indices[nm]), want)}
            if [dump_fp(x) for x in db[nm]] != [dump_fp(fps[j]) for j in want]:
                return {"key": "name-lookup-differs:very-large-batch", "what": "db[%r] does not return rows %s" % (nm, want)}
        if list(db.fp_names) != [f.name for f in fps]:
            return {"key": "names-differ:very-large-batch", "what": "fp_names is not the list of names in insertion order"}
        if [int(x) for x in db.get_prop("pi")] != list(range(n)):
            return {"key": "props-misaligned:very-large-batch", "what": "the property column is not aligned with the rows"}
        return None

    def gen_zero_cases(self):
        """databases whose matrix holds explicitly stored zeros (legitimate CSR: `X.data[X.data < t] = 0` leaves them behind;
        also what casting small float weights to a count database stores), put through every read-only operation; only the
        frame is checked here - the source must read the same before and after - because what an explicit zero *means* as a
        fingerprint is outside the properties."""
        rng = self.rng
        for _ in range(10 if self.tier == "quick" else 120):
            kind = rng.choice(["count", "float", "bit"])
            bits = rng.choice([64, 1024])
            rows = []
            for _r in range(rng.randint(1, 4)):
                cols = rng.sample(range(bits), rng.randint(1, 6))
                ent = [[c, "1" if kind == "bit" else rng.choice(["1", "2", "5"])] for c in cols]
                for z in rng.sample(range(len(ent)), rng.randint(1, min(2, len(ent)))):
                    ent[z][1] = "0"
                rng.shuffle(ent)
                rows.append(ent)
            self.count("explicit-zeros")
            yield {"t": "zeros", "kind": kind, "bits": bits, "rows": rows, "names": [rng.choice(["a", "b", None, "a"]) for _ in rows],
                   "reads": rng.sample(["get_index", "get_name", "iter", "density", "density_i", "metric", "eq", "subset", "as_type", "copy",
                                        "fold", "pickle", "savez", "concat"], 8)}

    def _zeros_prop(self, case):
        import numpy as np
        from scipy.sparse import csr_matrix
        from harness.fpgen import CLS
        data, indices, indptr = [], [], [0]
        for ent in case["rows"]:
            for c, v in ent:
                indices.append(c)
                data.append(float(v))
            indptr.append(len(indices))
        arr = csr_matrix((np.array(data, dtype=dbgen.DTYPE[case["kind"]]), np.array(indices, dtype=np.int64), np.array(indptr, dtype=np.int64)),
                         shape=(len(case["rows"]), case["bits"]))
        db = dbgen.FingerprintDatabase.from_array(arr, list(case["names"]), fp_type=CLS[case["kind"]], level=5)
        nm = next((n for n in case["names"] if n is not None), None)
        run = ImplRun(self.tmp())
        run.live["z"] = db

        def observe_all():
            return (dump_db(db), [dump_fpin(db[i]) for i in range(len(db))], [dump_fpin(x) for x in db])
        for r in case["reads"]:
            before = observe_all()
            twin = copy.copy(db)
            op = {"get_index": {"op": "get_index", "id": "z", "i": 0}, "get_name": {"op": "get_name", "id": "z", "nm": nm or "absent"},
                  "iter": {"op": "iter", "id": "z"}, "density": {"op": "density", "id": "z"}, "metric": {"op": "metric", "id": "z"},
                  "eq": {"op": "eq", "a": "z", "b": "z"}, "subset": {"op": "subset", "id": "z", "out": "o", "names": [nm] if nm else ["absent"], "name": None},
                  "as_type": {"op": "as_type", "id": "z", "out": "o", "kind": case["kind"]}, "copy": {"op": "copy", "id": "z", "out": "o", "kind": case["kind"]},
                  "fold": {"op": "fold", "id": "z", "out": "o", "bits": case["bits"] // 2, "kind": None, "name": None},
                  "pickle": {"op": "pickle", "id": "z", "out": "o"}, "savez": {"op": "savez", "id": "z", "out": "o"},
                  "concat": {"op": "concat", "ids": ["z", "z"], "out": "o"}}.get(r)
            try:
                if r == "density_i":
                    db.get_density(int(case["rows"][0][0][0]))
                else:
                    run.step(op)
            except Exception:  # noqa: BLE001 - what the read answers is not the question here
                pass
            after = observe_all()
            if after != before:
                return {"key": "read-changes-source:%s:explicit-zeros" % r,
                        "what": "read-only %s changed a database whose matrix holds explicitly stored zeros" % r,
                        "before": before[0]["rows"], "after": after[0]["rows"]}
            try:
                same = bool(db == twin)
            except Exception as e:  # noqa: BLE001
                return {"key": "db-eq-raises:" + type(e).__name__, "what": "== raised %r" % e}
            if not same:
                return {"key": "read-changes-equality:%s:explicit-zeros" % r, "what": "after read-only %s the database no longer equals its copy" % r}
        return None

    def tmp(self):
        if not hasattr(self, "_tmp"):
            self._tmp = tempfile.mkdtemp(prefix="db_", dir=vlib.WORK)
        return self._tmp

    def __del__(self):
        t = getattr(self, "_tmp", None)
        if t:
            shutil.rmtree(t, ignore_errors=True)

    # ------------------------------------------------------------------ correspondence
    def impl(self, case):
        if case.get("t") in ("zeros", "bigadd", "narrowcol"):
            return {"steps": []}
        run = ImplRun(self.tmp())
        steps = []
        for k, op in enumerate(case["ops"]):
            try:
                res = run.step(op)
            except Exception as e:  # noqa: BLE001
                res = {"harness_exc": repr(e)}
            ids = ids_after(case["ops"][:k + 1])
            steps.append({"res": res, "dbs": {i: (dump_db(run.live[i]) if i in run.live else None) for i in ids}})
        return {"steps": steps}

    def model_ops(self, case):
        if case.get("t") in ("zeros", "bigadd", "narrowcol"):
            return [{"op": "db.reset"}]
        lines = [{"op": "db.reset"}]
        for k, op in enumerate(case["ops"]):
            lines.extend(model_op(op))
            for i in ids_after(case["ops"][:k + 1]):
                lines.append({"op": "db.dump", "id": i})
        return lines

    def model_answer(self, case, answers):
        if case.get("t") in ("zeros", "bigadd", "narrowcol"):
            return {"steps": []}
        pos = 1
        steps = []
        for k, op in enumerate(case["ops"]):
            res = model_result(op, answers[pos])
            pos += 1
            dbs = {}
            for i in ids_after(case["ops"][:k + 1]):
                a = answers[pos]
                pos += 1
                dbs[i] = a.get("ok") if "ok" in a else None
            steps.append({"res": res, "dbs": dbs})
        return {"steps": steps}

    def compare(self, case, a_impl, a_model):
        for k, (si, sm) in enumerate(zip(a_impl["steps"], a_model["steps"])):
            if vlib.canon(si["res"]) != vlib.canon(sm["res"]):
                return {"step": k, "op": case["ops"][k], "impl_res": si["res"], "model_res": sm["res"]}
            for i in si["dbs"]:
                if vlib.canon(si["dbs"][i]) != vlib.canon(sm["dbs"].get(i)):
                    return {"step": k, "op": case["ops"][k], "db": i, "impl": si["dbs"][i], "model": sm["dbs"].get(i)}
        return None

    # ------------------------------------------------------------------ the property itself
    def prop(self, case):
        if case.get("t") == "bigadd":
            return self._bigadd_prop(case)
        if case.get("t") == "narrowcol":
            return self._narrowcol_prop(case)
        if case.get("t") == "zeros":
            return self._zeros_prop(case)
        run = ImplRun(self.tmp())
        olive = {}
        for k, op in enumerate(case["ops"]):
            o = op["op"]
            src_ids = [op[x] for x in ("id", "a", "b") if x in op and op[x] in run.live] + [j for j in op.get("ids", []) if j in run.live]
            before = {j: dump_db(run.live[j]) for j in src_ids}
            twins = {}
            if o in READ_OPS and not op.get("fault"):
                for j in src_ids:
                    try:
                        twins[j] = copy.copy(run.live[j])
                    except Exception:  # noqa: BLE001
                        pass
            twins_f = {}
            if op.get("fault") and o in READ_OPS:
                for j in src_ids:
                    try:
                        twins_f[j] = copy.copy(run.live[j])
                    except Exception:  # noqa: BLE001
                        pass
            res = run.step(op)
            oracle_step(olive, op)
            where = "step %d (%s)" % (k, o)
            if op.get("fault"):
                if "err" not in res:
                    return {"key": "fault-accepted:%s:%s" % (o, op["fault"]), "what": "%s: %s with a %s fault was accepted" % (where, o, op["fault"]), "step": k}
                for j in src_ids:
                    if j in twins_f:
                        try:
                            same = bool(run.live[j] == twins_f[j])
                        except Exception as e:  # noqa: BLE001
                            return {"key": "db-eq-raises:" + type(e).__name__, "what": "%s: == raised %r" % (where, e)}
                        if not same:
                            return {"key": "refused-read-changes-equality:%s" % o,
                                    "what": "%s: after the refused %s the database no longer equals its copy" % (where, o), "step": k}
                    if dump_db(run.live[j]) != before[j]:
                        return {"key": "refusal-not-atomic:%s:%s" % (o, op["fault"]),
                                "what": "%s: database %s changed although the %s was refused" % (where, j, o), "step": k,
                                "before": before[j], "after": dump_db(run.live[j])}
                continue
            if "err" in res and o not in ("get_index",):
                return {"key": "op-raises:%s:%s" % (o, res["err"]), "what": "%s raised %s on valid input" % (where, res["err"]), "step": k}
            if o == "get_index":
                n = len(olive[op["id"]].rows)
                if -n <= op["i"] < n:
                    if "err" in res:
                        return {"key": "getitem-raises:" + res["err"], "what": "%s: db[%d] raised" % (where, op["i"])}
                elif "err" not in res or res["err"] != "IndexError":
                    return {"key": "getitem-oob", "what": "%s: db[%d] out of range did not raise IndexError (%s)" % (where, op["i"], res)}
            if o == "get_name" and op["nm"].startswith("absent"):
                if res != {"ok": []}:
                    return {"key": "absent-name-lookup", "what": "%s: lookup of an absent name returned %s" % (where, res)}
            if o in READ_OPS:
                for j in src_ids:
                    after = dump_db(run.live[j])
                    if after != before[j]:
                        return {"key": "read-changes-source:%s" % o, "what": "%s: read-only %s changed database %s" % (where, o, j),
                                "step": k, "before": before[j], "after": after}
                    if j in twins:
                        try:
                            same = bool(run.live[j] == twins[j])
                        except Exception as e:  # noqa: BLE001
                            return {"key": "db-eq-raises:" + type(e).__name__, "what": "%s: == raised %r" % (where, e)}
                        if not same:
                            return {"key": "read-changes-equality:%s" % o,
                                    "what": "%s: after read-only %s the database no longer equals its copy" % (where, o), "step": k}
            # databases are independent snapshots of one another: after every step no two live databases share a container -
            # matrix buffers (SciPy canonicalises CSR matrices in place, so a shared buffer is observable), the names list, the
            # name index or any of the row lists inside it, the property dictionary or any column array
            sh = shared_containers(run.live)
            if sh is not None:
                j1, j2, part = sh
                derived = o in ("subset", "as_type", "copy", "fold", "concat", "pickle", "savez") and op.get("out") in (j1, j2)
                return {"key": ("derived-shares-buffer:%s:%s" % (o, part)) if derived and part in ("data", "indices", "indptr")
                        else "databases-share-state:%s:%s" % (o, part),
                        "what": "%s: databases %s and %s share their %s" % (where, j1, j2, part), "step": k}
            # every live database still holds what was put in
            for j, odb in olive.items():
                if j not in run.live:
                    return {"key": "derived-missing:" + o, "what": "%s: derived database %s was not produced" % (where, j)}
                f = observe(run.live[j], odb)
                if f is not None:
                    f = dict(f)
                    f["key"] = f["key"] + ":after-" + o
                    f["what"] = "%s, database %s: %s" % (where, j, f["what"])
                    f["step"] = k
                    return f
        return None

    def nontrivial(self, case, a_impl):
        if case.get("t") in ("zeros", "bigadd", "narrowcol"):
            return vlib.canon(case)
        ops = [o["op"] for o in case["ops"]]
        if any(o in ("subset", "as_type", "copy", "fold", "concat", "pickle", "savez") for o in ops) and \
                any(o in ("get_index", "get_name", "iter", "eq") for o in ops):
            return vlib.canon(case)
        return None

    def neighbours(self, case):
        if case.get("t") in ("zeros", "bigadd", "narrowcol"):
            return []
        # prefixes of the history
        return [{"t": "hist", "ops": case["ops"][:k]} for k in range(len(case["ops"]) - 1, 0, -1)]


if __name__ == "__main__":
    sys.exit(vlib.run_check(C05))
