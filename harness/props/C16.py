"""C16 - a database refuses incompatible input atomically."""
from __future__ import annotations

import sys

from harness import vlib
from harness.props.C05 import C05


class C16(C05):
    id = "C16"
    props_modules = ["E3fpVerif.Props.C16", "E3fpVerif.Props.C16Hist"]
    faults = True
    n_quick, n_thorough = 160, 4000
    rule = ("the histories of C05 with injected faults: additions carrying one fingerprint of the wrong length, wrong level "
            "or missing a database property at the first, middle or last position; set_prop / update_props with one column "
            "of the wrong length at any position; concat of incompatible databases (kind, bits, level, property set) in "
            "either order; get_subset with an absent name. After each refused operation every component of every database "
            "involved (rows, names, name index incl. empty entries, properties) must equal its dump before the call. "
            "Non-trivial: history with at least one refused operation on a non-empty database; distinct by history.")

    def gen_zero_cases(self):
        return iter(())          # the read-only frame on explicit zeros belongs to C05

    def nontrivial(self, case, a_impl):
        if any(o.get("fault") for o in case.get("ops", [])):
            return vlib.canon(case)
        return None


if __name__ == "__main__":
    sys.exit(vlib.run_check(C16))
