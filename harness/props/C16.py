"""C16 - a database refuses incompatible input atomically."""
from __future__ import annotations

import sys

from harness import vlib
from harness.props.C05 import C05


class C16(C05):
    id = "C16"
    props_modules = ["E3fpVerif.Props.C16", "E3fpVerif.Props.C16Hist"]
    faults = True
    n_quick, n_thorough = 160, 4000
    rule = ("the histories of C05 with injected faults: additions carrying one fingerprint of the wrong length, wrong level "
            "or missing a database property at the first, middle or last position; set_prop / update_props with one column "
            "of the wrong length at any position; concat of incompatible databases (kind, bits, level, property set) in "
            "either order; get_subset with an absent name. After each refused operation every component of every database "
            "involved (rows, names, name index incl. empty entries, properties) must equal its dump before the call; batches of 20 000 - 262 200 with one offender. "
            "Non-trivial: history with at least one refused operation on a non-empty database; distinct by history.")

    def gen_zero_cases(self):
        # (the read-only frame on explicit zeros belongs to C05; here:) one very large batch - tens to hundreds of thousands of
        # fingerprints, as a whole library is added - whose single incompatible member sits anywhere, also far behind the first
        # 2^14, 2^16 or 2^17 of them (the sizes at which a batch would plausibly be cut into blocks)
        rng = self.rng
        sizes = [20000, 66000, 70000, 131100] if self.tier == "quick" else [17000, 33000, 66000, 70000, 131100, 131100, 262200]
        for k in range(3 if self.tier == "quick" else 14):
            n = sizes[-1] if k == 0 and self.tier == "quick" else rng.choice(sizes)
            self.count("very-large-batch:%d" % n)
            yield {"t": "bigbatch", "n": n, "pos": rng.choice([n - 1, n - 2, n - 1 - rng.randrange(min(n, 64)), rng.randrange(n - n // 8, n), rng.randrange(n)]),
                   "fault": rng.choice(["bits", "level"]), "kind": rng.choice(["bit", "count"]), "pre": rng.choice([0, 3]), "seed": rng.randrange(10 ** 6)}

    def impl(self, case):
        if case.get("t") == "bigbatch":
            return {"ok": "see prop"}
        return super().impl(case)

    def model_ops(self, case):
        if case.get("t") == "bigbatch":
            return [{"op": "fpr.hash", "words": []}]
        return super().model_ops(case)

    def model_answer(self, case, answers):
        if case.get("t") == "bigbatch":
            return {"ok": "see prop"}
        return super().model_answer(case, answers)

    def compare(self, case, a_impl, a_model):
        if case.get("t") == "bigbatch":
            return None
        return super().compare(case, a_impl, a_model)

    def prop(self, case):
        if case.get("t") != "bigbatch":
            return super().prop(case)
        import numpy as np
        from harness.fpgen import CLS
        from harness.dbgen import FingerprintDatabase, dump_db
        r = np.random.RandomState(case["seed"])
        cls = CLS[case["kind"]]

        def mk(i, bits=64, level=5):
            f = cls.from_indices(r.randint(0, bits, size=3), bits=bits, level=level)
            f.name = "m%d" % i
            return f
        db = FingerprintDatabase(fp_type=cls, level=5, name="big")
        if case["pre"]:
            db.add_fingerprints([mk(-1 - i) for i in range(case["pre"])])
        before = dump_db(db)
        batch = [mk(i) for i in range(case["n"])]
        batch[case["pos"]] = mk(case["pos"], bits=128) if case["fault"] == "bits" else mk(case["pos"], level=2)
        try:
            db.add_fingerprints(batch)
            return {"key": "fault-accepted:add:" + case["fault"], "what": "a batch of %d with a wrong-%s member at %d was accepted" % (case["n"], case["fault"], case["pos"])}
        except Exception:  # noqa: BLE001
            pass
        if dump_db(db) != before:
            return {"key": "refusal-not-atomic:add:%s:very-large-batch" % case["fault"],
                    "what": "a batch of %d fingerprints whose member %d has the wrong %s was refused, but the database went from %d to %d rows" % (
                        case["n"], case["pos"], case["fault"], before["n"], dump_db(db)["n"])}
        return None

    def nontrivial(self, case, a_impl):
        if case.get("t") == "bigbatch":
            return vlib.canon(case)
        if any(o.get("fault") for o in case.get("ops", [])):
            return vlib.canon(case)
        return None


if __name__ == "__main__":
    sys.exit(vlib.run_check(C16))
