"""C10 - fingerprint representations round-trip without loss."""
from __future__ import annotations

import os
import pickle
import shutil
import sys
import tempfile
from fractions import Fraction

import numpy as np

from harness import vlib
from harness import fpheap
from harness.fpgen import CLS, KINDS, attempt, dump_fp, gen_fp, make_fp, fpm, rat

BITS = [1, 2, 7, 64, 1024, 99999, 100000, 2 ** 20, 2 ** 31 - 1, 2 ** 31, 2 ** 32]
ROUTES = ["indices", "dense", "sparse", "bitstring", "rdkit", "pickle", "file"]
# a compression suffix in upper / mixed case is not recognised by the file layer (smart_open matches it case-sensitively): such a
# name is an ordinary, uncompressed file for both directions and must round-trip like any other
EXTS = [".fp.pkl", ".fp.gz", ".fp.bz2", ".fps.gz", ".pkl", ".fp.xz", ".FP.GZ", ".fps.Bz2", ".fp.XZ", ".fp.Gz", ".PKL"]


@fpheap.with_heap_cases(("repr",), 60, 1500)
class C10(vlib.Check):
    id = "C10"
    props_modules = ["E3fpVerif.Props.C10"]
    gen_items = ["fprint_fold"]
    rule = ("seeded fingerprints of the three kinds, bits over {1,2,7,64,1024,99999,100000,2^20,2^31-1,2^31,2^32} "
            "(dense and bit-string routes only up to 2^20), index sets incl. empty / full / extreme, counts up to 65535, "
            "names and props; each of the seven routes; exported vectors edited in place by their owner before the round trip proper. Non-trivial: non-empty fingerprint; distinct by (route, content).")
    trusted_base = ["RDKit bit vectors, pickle, gzip/bz2 via smart_open, SciPy CSR construction (compared on every run)"]

    def setup_tmp(self):
        if not hasattr(self, "tmp"):
            self.tmp = tempfile.mkdtemp(prefix="c10_", dir=vlib.WORK)
        return self.tmp

    def gen_cases(self):
        rng = self.rng
        n = 250 if self.tier == "quick" else 4000
        try:
            for k in range(n):
                route = ROUTES[k % len(ROUTES)] if k < 7 * 20 else rng.choice(ROUTES)
                bits = rng.choice(BITS)
                if route in ("dense", "bitstring") and bits > (2 ** 16 if self.tier == 'quick' else 2 ** 20):
                    bits = rng.choice([1, 2, 7, 64, 1024, 9999, 2 ** 16])
                kind = rng.choice(KINDS)
                f = gen_fp(rng, kind, bits)
                if route == "dense" and kind == "count":
                    f["cnt"] = [[i, str(min(int(v), 65535))] for i, v in f["cnt"]]
                if rng.random() < 0.15 and bits >= 2:
                    # extreme indices
                    ext = sorted(set(f["idx"]) | {0, bits - 1})
                    old = dict(f["cnt"])
                    f["idx"] = ext
                    if kind != "bit":
                        f["cnt"] = [[i, old.get(i, "3")] for i in ext]
                case = {"t": "rt", "route": route, "fp": f, "name": rng.choice([None, "mol_1", "x y", "é"]),
                        # values of every JSON-able kind, including the falsy ones and None (a property that is set to None is set)
                        "props": rng.choice([{}, {"a": 1}, {"a": 1.5, "b": "s"}, {"act": None, "n": 0}, {"e": "", "f": False, "g": None},
                                             {"l": [1, 2], "d": {"k": None}}])}
                if route == "file":
                    case["ext"] = rng.choice(EXTS)
                    case["many"] = rng.choice([1, 1, 3])
                self.count("route:" + route)
                self.count("kind:" + kind)
                yield case
            # the exported representation belongs to the caller: whatever is done to it in place afterwards (SciPy's own in-place
            # canonicalisers, or plain writes into its buffers), the fingerprint it came from still round-trips to itself.  The
            # lengths at and above 2^31 matter: there the column indices of the exported CSR row have the dtype of the fingerprint's
            for k in range(24 if self.tier == "quick" else 400):
                route = rng.choice(["sparse", "sparse", "sparse", "dense"])
                bits = rng.choice([2 ** 31, 2 ** 32, 2 ** 32, 2 ** 31 - 1, 1024, 64]) if route == "sparse" else rng.choice([7, 64, 1024])
                kind = rng.choice(KINDS)
                f = gen_fp(rng, kind, bits)
                if route == "dense" and kind == "count":
                    f["cnt"] = [[i, str(min(int(v), 65535))] for i, v in f["cnt"]]
                self.count("exported-object-edited:" + route)
                yield {"t": "rt", "route": route, "fp": f, "name": None, "props": {},
                       "edit": rng.choice(["eliminate_zeros", "reverse", "zero", "sort", "shift"])}
        finally:
            pass

    def __del__(self):
        t = getattr(self, "tmp", None)
        if t and os.path.isdir(t):
            shutil.rmtree(t, ignore_errors=True)

    # ------------------------------------------------------------------
    def _obj(self, case):
        f = make_fp(case["fp"])
        if case.get("name"):
            f.name = case["name"]
        for k, v in (case.get("props") or {}).items():
            f.set_prop(k, v)             # the public setter, one property at a time
        return f

    def _roundtrip(self, case, f):
        """Returns (list of result objects, carries_level, carries_props)."""
        r = case["route"]
        cls = f.__class__
        if case.get("edit"):
            # a first export, edited in place by its owner; the round trip proper follows
            v = f.to_vector(sparse=(r == "sparse"))
            e = case["edit"]
            if r == "dense":
                v[...] = 0 if e in ("zero", "eliminate_zeros") else v[..., ::-1].copy()
            elif e == "eliminate_zeros":
                v.data[::2] = 0
                v.eliminate_zeros()
            elif e == "reverse":
                v.indices[:] = v.indices[::-1].copy()
            elif e == "zero":
                v.indices[:] = 0
                v.data[:] = 0
            elif e == "sort":
                v.indices[:] = v.indices[::-1].copy()
                v.has_sorted_indices = False
                v.sort_indices()
            else:
                v.indices[:] = (v.indices + 1) % f.bits
        if r == "indices":
            kw = {} if cls is CLS["bit"] else {"counts": dict(f.counts)}
            return [cls.from_indices(f.indices, bits=f.bits, level=f.level, **kw)], True, False
        if r == "dense":
            return [cls.from_vector(f.to_vector(sparse=False), level=f.level)], True, False
        if r == "sparse":
            return [cls.from_vector(f.to_vector(sparse=True), level=f.level)], True, False
        if r == "bitstring":
            return [cls.from_bitstring(f.to_bitstring(), level=f.level)], True, False
        if r == "rdkit":
            return [cls.from_rdkit(f.to_rdkit())], False, False
        if r == "pickle":
            return [pickle.loads(pickle.dumps(f))], True, True
        if r == "file":
            path = os.path.join(self.setup_tmp(), "f%d%s" % (id(case) % 100000, case["ext"]))
            try:
                if case["many"] == 1:
                    fpm.save(path, f)
                    out = [fpm.load(path)]
                else:
                    fs = [f] + [self._obj(case) for _ in range(case["many"] - 1)]
                    fpm.savez(path, *fs)
                    out = fpm.loadz(path)
                    if len(out) != len(fs):
                        raise ValueError("loadz returned %d of %d fingerprints" % (len(out), len(fs)))
            finally:
                if os.path.exists(path):
                    os.remove(path)
            return out, True, True

    def impl(self, case):
        f = self._obj(case)

        def go():
            outs, lvl, props = self._roundtrip(case, f)
            return {"fps": [dump_fp(o) for o in outs],
                    "names": [o.name for o in outs] if props else None}
        return {"res": attempt(go), "src_after": dump_fp(f)}

    def model_ops(self, case):
        f, r = case["fp"], case["route"]
        k = f["kind"]
        if r == "indices":
            return [{"op": "fp.new", "kind": k, "indices": f["idx"], "counts": None if k == "bit" else f["cnt"], "bits": f["bits"], "level": f["level"]}]
        if r == "dense":
            return [{"op": "fp.rt_dense", "fp": f}]
        if r == "sparse":
            stored = [[i, "1"] for i in f["idx"]] if k == "bit" else f["cnt"]
            return [{"op": "fp.from_sparse", "kind": k, "stored": stored, "bits": f["bits"], "level": f["level"]}]
        if r == "bitstring":
            return [{"op": "fp.rt_bitstring", "fp": f}]
        if r == "rdkit":
            return [{"op": "fp.rt_rdkit", "fp": f}]
        return [{"op": "fp.pickle", "fp": f}]

    def model_answer(self, case, answers):
        f, r = case["fp"], case["route"]
        a = answers[0]
        if "ok" in a:
            n = case.get("many", 1) if r == "file" else 1
            names = None
            if r in ("pickle", "file"):
                names = [case.get("name")] * n
            return {"res": {"ok": {"fps": [a["ok"]] * n, "names": names}}, "src_after": f}
        return {"res": a, "src_after": f}

    # ------------------------------------------------------------------ property
    def prop(self, case):
        spec, r = case["fp"], case["route"]
        if r == "rdkit" and spec["bits"] >= 2 ** 31:
            return None
        if r == "bitstring" and spec["kind"] != "bit":
            # a bit string carries no counts; the property is about what the format carries
            pass
        f = self._obj(case)
        before = dump_fp(f)
        try:
            outs, carries_level, carries_props = self._roundtrip(case, f)
        except Exception as e:  # noqa: BLE001
            return {"key": "rt-raises:%s:%s" % (r, type(e).__name__), "what": "%s round trip raised %r" % (r, e)}
        for o in outs:
            got = dump_fp(o)
            want = dict(before)
            if not carries_level:
                want["level"] = -1
            if r in ("bitstring", "rdkit") and spec["kind"] != "bit":
                want["cnt"] = [[i, "1"] for i in want["idx"]]     # counts not carried by these formats
            if got != want:
                return {"key": "rt-differs:%s:%s" % (r, spec["kind"]), "what": "%s round trip changed the fingerprint" % r, "want": want, "got": got}
            if carries_props:
                if o.name != f.name:
                    return {"key": "rt-name:%s" % r, "what": "name not preserved: %r vs %r" % (o.name, f.name)}
                for k, v in (case.get("props") or {}).items():
                    if k not in o.props or o.props.get(k) != v:
                        return {"key": "rt-props:%s" % r, "what": "property %r = %r not preserved (got %r)" % (k, v, o.props.get(k, "<absent>"))}
                extra = sorted(set(o.props) - set(f.props))
                if extra:
                    return {"key": "rt-props-extra:%s" % r, "what": "properties %s appeared" % extra}
        if dump_fp(f) != before:
            return {"key": "rt-mutates-source:%s" % r, "what": "source changed"}
        return None

    def nontrivial(self, case, a_impl):
        if not case["fp"]["idx"] or "ok" not in a_impl.get("res", {}):
            return None
        return vlib.canon([case["route"], case.get("edit"), case["fp"]])


if __name__ == "__main__":
    sys.exit(vlib.run_check(C10))
