"""C11 - fingerprint operators implement set algebra and pointwise arithmetic."""
from __future__ import annotations

import itertools
import operator
import sys
from fractions import Fraction

from harness import vlib
from harness import fpheap
from harness.fpgen import (CLS, POW2_BITS, attempt, dump_fp, gen_fp, gen_indices, make_fp, fpm)

SETOPS = {"or": ("__or__", "__ror__", "__ior__", operator.or_, operator.ior, lambda a, b: a | b),
          "add": ("__add__", "__radd__", "__iadd__", operator.add, operator.iadd, lambda a, b: a | b),
          "and": ("__and__", "__rand__", "__iand__", operator.and_, operator.iand, lambda a, b: a & b),
          "sub": ("__sub__", "__rsub__", "__isub__", operator.sub, operator.isub, lambda a, b: a - b),
          "xor": ("__xor__", "__rxor__", "__ixor__", operator.xor, operator.ixor, lambda a, b: a ^ b)}


def counts_of(spec):
    if spec["kind"] == "bit":
        return {i: Fraction(1) for i in spec["idx"]}
    return {i: Fraction(v) for i, v in spec["cnt"]}


def nonzero(d):
    return {k: v for k, v in d.items() if v != 0}


@fpheap.with_heap_cases(("repr", "eq"), 40, 1500)
class C11(vlib.Check):
    id = "C11"
    props_modules = ["E3fpVerif.Props.C11", "E3fpVerif.Props.C09Heap"]
    gen_items = ["fprint_fold"]
    rule = ("all ordered pairs of bit fingerprints over lengths 1..4 (exhaustive: every subset pair x 5 operators x 3 forms) "
            "plus seeded pairs up to 2^32; count/float pairs with overlapping and disjoint supports; scalars 1..9; "
            "batches of 1-6 with integer and dyadic weights, a third of them holding difference fingerprints with negative counts; mismatched lengths for the rejection path; add / mean of 256 - 131 100 operands sharing a position; weight sums of 1 +- 1e-5..1e-6. Non-trivial: both "
            "operands non-empty and the operation succeeded; distinct by full case.")
    trusted_base = ["NumPy set routines (union1d, intersect1d, setdiff1d, setxor1d), compared on every run"]
    assumptions = ["float arithmetic is exact on the generated dyadic values (checked: results compared as exact rationals)"]

    def gen_cases(self):
        rng = self.rng
        # exhaustive small universe
        maxb = 3 if self.tier == "quick" else 4
        for bits in range(1, maxb + 1):
            subsets = [[i for i in range(bits) if m >> i & 1] for m in range(1 << bits)]
            for a, b in itertools.product(subsets, subsets):
                for op in SETOPS:
                    for form in ("plain", "reflected", "inplace"):
                        self.count("setop-exhaustive")
                        yield {"t": "setop", "o": op, "form": form,
                               "a": {"kind": "bit", "bits": bits, "level": 5, "idx": a, "cnt": []},
                               "b": {"kind": "bit", "bits": bits, "level": 5, "idx": b, "cnt": []}}
        n = 150 if self.tier == "quick" else 3000
        for _ in range(n):
            bits = rng.choice(POW2_BITS + [100, 1000, 99999])
            a = gen_fp(rng, "bit", bits)
            b = gen_fp(rng, "bit", bits if rng.random() < 0.9 else rng.choice(POW2_BITS))
            if rng.random() < 0.5 and a["idx"]:
                # force overlap
                b["idx"] = sorted(set(b["idx"]) | set(rng.sample(a["idx"], max(1, len(a["idx"]) // 2)))) if b["bits"] == bits else b["idx"]
            self.count("setop-sampled")
            for f in (a, b):
                if f["kind"] == "bit" and f["idx"] and rng.random() < 0.3:
                    # the operand is built from an index list with repeats: merged ordered lists (non-decreasing), or unordered
                    raw = list(f["idx"]) + [rng.choice(f["idx"]) for _ in range(rng.randint(1, 3))]
                    if rng.random() < 0.6:
                        raw.sort()
                    else:
                        rng.shuffle(raw)
                    f["raw_idx"] = raw
                    self.count("operand-built-from-repeated-indices")
            yield {"t": "setop", "o": rng.choice(list(SETOPS)), "form": rng.choice(["plain", "reflected", "inplace"]), "a": a, "b": b}
        for _ in range(n):
            bits = rng.choice([8, 32, 1024, 2 ** 32, 100])
            ka, kb = rng.choice(["count", "float"]), rng.choice(["count", "float", "count", "float", "bit"])
            a = gen_fp(rng, ka, bits)
            b = gen_fp(rng, kb, bits if rng.random() < 0.9 else 16)
            if rng.random() < 0.6 and a["idx"] and b["bits"] == bits and kb != "bit":
                extra = rng.sample(a["idx"], max(1, len(a["idx"]) // 2))
                have = {i for i, _ in b["cnt"]}
                for i in extra:
                    if i not in have:
                        # equal values give exact zero differences
                        b["cnt"].append([i, dict((x, y) for x, y in a["cnt"])[i] if rng.random() < 0.5 else "3"])
                b["cnt"].sort()
                b["idx"] = [i for i, _ in b["cnt"]]
                if kb == "count":
                    b["cnt"] = [[i, str(int(Fraction(v))) if Fraction(v) >= 1 else "1"] for i, v in b["cnt"]]
            self.count("addsub")
            sign = rng.choice([1, -1])
            case = {"t": "addsub", "sign": sign, "a": a, "b": b}
            # operands that were stored in a database (or a narrow-dtype vector) and read back are fingerprints like any other
            if all(Fraction(v) <= 65535 and Fraction(v).denominator == 1 for f in (a, b) for _, v in f["cnt"]) and rng.random() < 0.5:
                case["via"] = rng.choice(["db", "db", "vector"])
                self.count("addsub:operands-read-back-from-" + case["via"])
            yield case
        for _ in range(n // 3):
            # large counts on shared positions: sums beyond 2^16, read back from a count database first
            bits = rng.choice([64, 1024, 2 ** 32])
            idx = sorted(rng.sample(range(min(bits, 4096)), rng.randint(1, 6)))
            mk = lambda: {"kind": "count", "bits": bits, "level": 5, "idx": idx,  # noqa: E731
                          "cnt": [[i, str(rng.choice([30000, 40000, 65535, 50000, 3]))] for i in idx]}
            self.count("addsub:large-counts-via-db")
            yield {"t": "addsub", "sign": 1, "a": mk(), "b": mk(), "via": rng.choice(["db", "vector"])}
            fps = [mk() for _ in range(rng.randint(2, 4))]
            self.count("batch:large-counts-via-db")
            yield {"t": "batch", "o": rng.choice(["add", "mean"]), "fps": fps, "w": None, "via": "db"}
        for _ in range(n // 2):
            # a bit fingerprint combined with a count / float one, written as an expression: Python's operator dispatch
            # (reflected methods of the subclass are tried first when it overrides them) is part of the surface
            bits = rng.choice([8, 64, 1024, 2 ** 32])
            a = gen_fp(rng, "bit", bits, maxn=8)
            b = gen_fp(rng, rng.choice(["count", "float"]), bits, maxn=8)
            if a["idx"] and rng.random() < 0.6:
                extra = [i for i in rng.sample(a["idx"], max(1, len(a["idx"]) // 2)) if i not in b["idx"]]
                b["cnt"] = sorted(b["cnt"] + [[i, "2"] for i in extra])
                b["idx"] = [i for i, _ in b["cnt"]]
            self.count("setop-mixed-kinds")
            yield {"t": "setop", "o": rng.choice(list(SETOPS)), "form": rng.choice(["plain", "plain", "inplace"]), "a": a, "b": b}
        for _ in range(n):
            a = gen_fp(rng, rng.choice(["count", "float"]), rng.choice([8, 1024, 2 ** 32]))
            self.count("scalar")
            oo = rng.choice(["mul", "div", "floordiv"])
            case = {"t": "scalar", "o": oo, "x": rng.randint(1, 9), "a": a,
                    # x * fp (reflected) exists for the commutative operator; every operator has an in-place form
                    "form": rng.choice(["plain", "plain", "inplace"] + (["reflected"] if oo == "mul" else []))}
            if rng.random() < 0.5 and case["form"] != "reflected":
                # (not the reflected form: `np.int64(3) * fp` is NumPy's operator, which first tries to read the fingerprint as a
                #  sequence of `bits` items - nothing e3fp's operators are asked)
                # the factor as a NumPy scalar (an element read out of a count vector, a small-int array, a float32 weight) and a
                # larger factor: the product is the mathematical one whatever the factor's own dtype could hold
                case["xtype"] = rng.choice(["uint8", "int16", "uint16", "int32", "int64", "float32", "float64"])
                case["x"] = rng.choice([3, 7, 9, 100, 255]) if case["xtype"] == "uint8" else rng.choice([3, 9, 255, 400, 1000, 30000])
                if a["kind"] == "count" and a["cnt"]:
                    a["cnt"][rng.randrange(len(a["cnt"]))][1] = str(rng.choice([130, 200, 255, 1000, 65535]))
                self.count("scalar:factor-is-numpy-" + case["xtype"])
            yield case
        for _ in range(n):
            bits = rng.choice([8, 64, 1024, 2 ** 32])
            k = rng.randint(1, 6)
            fps = [gen_fp(rng, rng.choice(["bit", "count", "count", "float"]), bits, level=5, maxn=8) for _ in range(k)]
            if rng.random() < 0.3 and k >= 2:
                # difference fingerprints (what `a - b` returns when b exceeds a at some positions): negative counts, and
                # positions shared with other members so that partial sums pass through zero and below
                shared = sorted({i for f in fps if f["kind"] != "bit" for i in f["idx"]})[:4]
                for f in fps[:max(1, k // 2)]:
                    if f["kind"] == "bit":
                        continue
                    cur = {i: Fraction(v) for i, v in f["cnt"]}
                    for i in shared:
                        cur.setdefault(i, Fraction(rng.choice([1, 2, 3])))
                    for i in list(cur)[::2]:
                        cur[i] = -cur[i]
                    if f["kind"] == "count":
                        cur = {i: Fraction(int(v)) for i, v in cur.items() if int(v) != 0}
                    f["idx"] = sorted(cur)
                    f["cnt"] = [[i, str(cur[i])] for i in sorted(cur)]
                self.count("batch-with-negative-counts")
            w = None
            if rng.random() < 0.5:
                w = [rng.choice(["1", "2", "3", "1/2", "1/4", "0", "5"]) for _ in range(k)]
                if sum(Fraction(x) for x in w) == 0:
                    w[0] = "1"
                if rng.random() < 0.25:
                    # un-normalised weights of tiny magnitude (Boltzmann factors): only their ratios matter
                    sc = Fraction(1, 2 ** rng.choice([30, 40, 100]))
                    w = [str(Fraction(x) * sc) for x in w]
                    self.count("tiny-weights")
                # keep the normalised weights dyadic so doubles stay exact
                tot = sum(Fraction(x) for x in w)
                if tot.numerator & (tot.numerator - 1):
                    w = None if rng.random() < 0.5 else ["1"] * k
                    if w and (k & (k - 1)):
                        w = ["1"] + ["0"] * (k - 1)
            self.count("batch")
            yield {"t": "batch", "o": rng.choice(["add", "mean"]), "fps": fps, "w": w}
        # weights that are normalised only up to the precision they were written with (probabilities rounded to five or six decimals,
        # a sum that is 1 +- 1e-5 .. 1e-6 but not 1): the mean divides by the actual sum
        for wv in [["33333/100000"] * 3, ["499999/1000000", "1/2"], ["1/4", "1/4", "1/4", "250003/1000000"], ["1/2", "1/2", "1/131072"],
                   ["99999/100000"], ["3/2", "-3/4", "249992/1000000"]][: 6 if self.tier == "quick" else 6]:
            for o_ in ("mean", "add"):
                bits = rng.choice([64, 1024, 2 ** 32])
                kinds = rng.choice([["bit"], ["count"], ["float"], ["bit", "count", "float"]])
                fps = [gen_fp(rng, rng.choice(kinds), bits, level=5, maxn=8) for _ in wv]
                if any(Fraction(x) < 0 for x in wv):
                    # (a negative weight: disjoint supports, so that no position cancels)
                    for j, f in enumerate(fps):
                        f["idx"] = [i for i in f["idx"] if i % len(wv) == j]
                        f["cnt"] = [[i, v] for i, v in f["cnt"] if i % len(wv) == j]
                self.count("batch:weights-sum-near-one")
                yield {"t": "batch", "o": o_, "fps": fps, "w": list(wv)}
        # many operands: the count at a position shared by all of them passes 255 / 65 535 (what narrow accumulators hold)
        for k, o in ([(256, "mean"), (512, "add"), (300, "add"), (66000, "add")] if self.tier == "quick" else
                     [(256, "mean"), (512, "add"), (300, "add"), (66000, "add"), (1024, "mean"), (257, "add"), (70000, "add"), (131100, "add"), (65536, "mean")]):
            bits = rng.choice([8, 64, 2 ** 32]) if k <= 1024 else rng.choice([8, 64])      # (the list model's sum is quadratic in the number of distinct positions)
            common = rng.randrange(bits)
            kinds = rng.choice([["bit"], ["bit", "count"], ["count"]])
            fps = []
            for _j in range(k):
                f = gen_fp(rng, rng.choice(kinds), bits, level=5, maxn=2)
                if common not in f["idx"]:
                    f["idx"] = sorted(f["idx"] + [common])
                    if f["kind"] != "bit":
                        f["cnt"] = sorted(f["cnt"] + [[common, "1"]])
                fps.append(f)
            self.count("batch:many-operands")
            yield {"t": "batch", "o": o, "fps": fps, "w": None}

    # ------------------------------------------------------------------ implementation
    def _apply_setop(self, case, a, b):
        plain, refl, inpl, f_plain, f_inpl, _ = SETOPS[case["o"]]
        if case["form"] == "plain":
            return f_plain(a, b)
        if case["form"] == "reflected":
            return getattr(b, refl)(a)       # Python evaluates `a op b` as b.__rop__(a)
        return f_inpl(a, b)

    @staticmethod
    def _via(case, fp):
        """the operand after a trip through a database row or a narrow-dtype vector (content unchanged)"""
        via = case.get("via")
        if via is None or fp.__class__ is CLS["bit"]:
            return fp
        import numpy as np
        if via == "db":
            from e3fp.fingerprint.db import FingerprintDatabase
            db = FingerprintDatabase(fp_type=fp.__class__, level=fp.level)
            db.add_fingerprints([fp])
            return db[0]
        dt = np.uint16 if fp.__class__ is CLS["count"] else np.float32
        return fp.__class__.from_vector(fp.to_vector(sparse=True, dtype=dt), level=fp.level)

    def impl(self, case):
        t = case["t"]
        if t == "setop":
            a, b = make_fp(case["a"]), make_fp(case["b"])
            r = attempt(lambda: self._apply_setop(case, a, b), dump_fp)
            return {"res": r, "a_after": dump_fp(a) if case["form"] != "inplace" or "err" in r else None, "b_after": dump_fp(b)}
        if t == "addsub":
            a, b = self._via(case, make_fp(case["a"])), self._via(case, make_fp(case["b"]))
            r = attempt(lambda: (a + b) if case["sign"] == 1 else (a - b), dump_fp)
            return {"res": r, "a_after": dump_fp(a), "b_after": dump_fp(b)}
        if t == "scalar":
            a = make_fp(case["a"])
            form = case.get("form", "plain")
            if case.get("xtype"):
                import numpy as np
                case = dict(case, x=getattr(np, case["xtype"])(case["x"]))
            if form == "reflected":
                r = attempt(lambda: case["x"] * a, dump_fp)
            elif form == "inplace":
                f = {"mul": operator.imul, "div": operator.itruediv, "floordiv": operator.ifloordiv}[case["o"]]
                keep = a       # the object `a` was bound to must not change (other references to it remain valid)
                r = attempt(lambda: f(a, case["x"]), dump_fp)
                a = keep
            else:
                f = {"mul": operator.mul, "div": operator.truediv, "floordiv": operator.floordiv}[case["o"]]
                r = attempt(lambda: f(a, case["x"]), dump_fp)
            return {"res": r, "a_after": dump_fp(a)}
        if t == "batch":
            fps = [self._via(case, make_fp(s)) for s in case["fps"]]
            w = None if case["w"] is None else [float(Fraction(x)) for x in case["w"]]
            f = fpm.add if case["o"] == "add" else fpm.mean
            r = attempt(lambda: f(fps, weights=w), lambda x: None if x is None else dump_fp(x))
            return {"res": r, "after": [dump_fp(x) for x in fps]}

    def model_ops(self, case):
        t = case["t"]
        if t == "setop":
            return [{"op": "fp.setop", "o": case["o"], "a": case["a"], "b": case["b"]}]
        if t == "addsub":
            return [{"op": "fp.addsub", "sign": case["sign"], "a": case["a"], "b": case["b"]}]
        if t == "scalar":
            return [{"op": "fp." + case["o"], "a": case["a"], "x": str(case["x"])}]
        if t == "batch":
            return [{"op": "fp.%s_batch" % case["o"], "fps": case["fps"], "weights": case["w"]}]

    def model_answer(self, case, answers):
        t = case["t"]
        r = answers[0]
        if t == "setop":
            return {"res": r, "a_after": self._content(case["a"]) if case["form"] != "inplace" or "err" in r else None, "b_after": self._content(case["b"])}
        if t == "addsub":
            return {"res": r, "a_after": self._content(case["a"]), "b_after": self._content(case["b"])}
        if t == "scalar":
            return {"res": r, "a_after": self._content(case["a"])}
        return {"res": r, "after": case["fps"]}

    # ------------------------------------------------------------------ property
    @staticmethod
    def _content(spec):
        """the content of an operand spec (how it was built - `raw_idx` - is not content)"""
        return {k: v for k, v in spec.items() if k != "raw_idx"}

    def prop(self, case):
        t = case["t"]
        got = self.impl(case)
        res = got["res"]
        if t == "setop":
            a, b = case["a"], case["b"]
            if a["bits"] != b["bits"]:
                return None if "err" in res else {"key": "setop-accepts-length-mismatch", "what": "set operator accepted operands of different length"}
            if "err" in res:
                return {"key": "setop-raises:%s:%s:%s" % (case["o"], case["form"], res["err"]),
                        "what": "%s (%s form) raised %s on equal-length bit fingerprints" % (case["o"], case["form"], res["err"])}
            want = sorted(SETOPS[case["o"]][5](set(a["idx"]), set(b["idx"])))
            if res["ok"]["idx"] != want or res["ok"]["bits"] != a["bits"]:
                return {"key": "setop-wrong:%s:%s" % (case["o"], case["form"]),
                        "what": "%s (%s form) is not the set %s of the operands' bits" % (case["o"], case["form"], case["o"]),
                        "want": want, "got": res["ok"]}
            if got["b_after"] != self._content(b) or (got["a_after"] is not None and got["a_after"] != self._content(a)):
                return {"key": "setop-mutates-operand", "what": "operand changed"}
            return None
        if t == "addsub":
            a, b = case["a"], case["b"]
            if b["kind"] == "bit":
                return None     # mixing kinds is outside the property's quantifier
            if a["bits"] != b["bits"]:
                return None if "err" in res else {"key": "addsub-accepts-length-mismatch", "what": "count +/- accepted different lengths"}
            if "err" in res:
                return {"key": "addsub-raises:%d:%s" % (case["sign"], res["err"]),
                        "what": "count fingerprint %s raised %s" % ("+" if case["sign"] == 1 else "-", res["err"])}
            ca, cb = counts_of(a), counts_of(b)
            want = {i: ca.get(i, 0) + case["sign"] * cb.get(i, 0) for i in set(ca) | set(cb)}
            gotc = {i: Fraction(v) for i, v in res["ok"]["cnt"]}
            if nonzero(gotc) != nonzero(want) or res["ok"]["bits"] != a["bits"]:
                return {"key": "addsub-wrong:%d" % case["sign"], "what": "counts are not added/subtracted position by position",
                        "got": res["ok"]}
            if got["a_after"] != self._content(a) or got["b_after"] != self._content(b):
                return {"key": "addsub-mutates-operand", "what": "operand changed"}
            return None
        if t == "scalar":
            a, x = case["a"], case["x"]
            if "err" in res:
                return {"key": "scalar-raises:%s:%s" % (case["o"], res["err"]), "what": "scalar %s raised %s" % (case["o"], res["err"])}
            ca = counts_of(a)
            if case["o"] == "mul":
                want = {i: v * x for i, v in ca.items()}
                if a["kind"] == "count":
                    want = {i: Fraction(int(v)) for i, v in want.items()}
            elif case["o"] == "div":
                want = {i: v / x for i, v in ca.items()}
            else:
                want = {i: Fraction(int(v / x)) for i, v in ca.items() if v >= x}
            o = res["ok"]
            gotc = {i: Fraction(v) for i, v in o["cnt"]}
            exact = all((Fraction(float(v)) == v) for v in want.values())
            if not exact:
                ok = set(gotc) == set(want) and all(abs(float(gotc[i]) - float(want[i])) <= 1e-12 * max(1, abs(float(want[i]))) for i in want)
            else:
                ok = gotc == want
            if not ok or o["bits"] != a["bits"]:
                return {"key": "scalar-wrong:%s" % case["o"], "what": "scalar %s does not scale the counts" % case["o"], "got": o}
            if sorted(gotc) != o["idx"]:
                return {"key": "scalar-indices-inconsistent:%s" % case["o"],
                        "what": "result of scalar %s has indices %s but counts at %s" % (case["o"], o["idx"][:8], sorted(gotc)[:8])}
            if got["a_after"] != self._content(a):
                return {"key": "scalar-mutates-operand", "what": "operand changed"}
            return None
        if t == "batch":
            fps, w = case["fps"], case["w"]
            if "err" in res:
                return {"key": "batch-raises:%s:%s" % (case["o"], res["err"]), "what": "batch %s raised %s" % (case["o"], res["err"])}
            ws = [Fraction(1)] * len(fps) if w is None else [Fraction(x) for x in w]
            tot = sum(ws)
            want = {}
            for f, wi in zip(fps, ws):
                for i, v in counts_of(f).items():
                    want[i] = want.get(i, 0) + v * wi
            if case["o"] == "mean":
                want = {i: v / (len(fps) if w is None else tot) for i, v in want.items()}
            elif w is None and not any(f["kind"] == "float" for f in fps):
                pass
            o = res["ok"]
            gotc = {i: Fraction(v) for i, v in o["cnt"]}
            okv = set(nonzero(gotc)) == set(nonzero(want)) and all(
                abs(float(gotc[i]) - float(want[i])) <= 1e-9 * max(1.0, abs(float(want[i]))) for i in nonzero(want))
            if not okv or o["bits"] != fps[0]["bits"]:
                return {"key": "batch-wrong:%s" % case["o"], "what": "batch %s is not the position-wise %s" % (case["o"], case["o"]), "got": o}
            if got["after"] != fps:
                return {"key": "batch-mutates-operand", "what": "operand changed"}
            return None

    def compare(self, case, a_impl, a_model):
        if case["t"] == "batch" and any(Fraction(v) < 0 for f in case["fps"] for _, v in f["cnt"]):
            # negative counts lie outside the class invariant the fingerprint model covers (counts > 0): how a negative or
            # cancelled position is *stored* is not modelled; the position-wise values are decided by the direct evaluation
            self.count("negative-batch:property-only")
            return None
        if case["t"] == "batch" or (case["t"] == "scalar" and case["o"] == "div"):
            # float arithmetic may round: compare values to 1e-12 relative, structure exactly
            ri, rm = a_impl["res"], a_model["res"]
            if ("ok" in ri) != ("ok" in rm) or ("err" in ri and ri != rm):
                return {"impl": ri, "model": rm}
            if "ok" in ri and ri["ok"] is not None and rm["ok"] is not None:
                fi, fm_ = ri["ok"], rm["ok"]
                same = all(fi[k] == fm_[k] for k in ("kind", "bits", "level", "idx")) and \
                    [i for i, _ in fi["cnt"]] == [i for i, _ in fm_["cnt"]] and \
                    all(abs(float(Fraction(x)) - float(Fraction(y))) <= 1e-12 * max(1.0, abs(float(Fraction(y))))
                        for (_, x), (_, y) in zip(fi["cnt"], fm_["cnt"]))
                if not same:
                    return {"impl": fi, "model": fm_}
                a2, m2 = dict(a_impl), dict(a_model)
                a2["res"] = m2["res"] = None
                return super().compare(case, a2, m2)
        return super().compare(case, a_impl, a_model)

    def nontrivial(self, case, a_impl):
        if "ok" not in a_impl.get("res", {}):
            return None
        if case["t"] in ("setop", "addsub") and not (case["a"]["idx"] and case["b"]["idx"]):
            return None
        return vlib.canon(case)


if __name__ == "__main__":
    sys.exit(vlib.run_check(C11))
