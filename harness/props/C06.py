"""C06 - similarity measures equal their definitions in every representation."""
from __future__ import annotations

import math
import random
import sys
from fractions import Fraction

import numpy as np
from scipy.sparse import csr_matrix

from harness import vlib
from harness import fpheap
from harness.fpgen import CLS, KINDS, attempt, dump_fp, gen_fp, gen_value, make_fp
from harness.dbgen import DTYPE, FingerprintDatabase

from e3fp.fingerprint import metrics as M  # noqa: E402
from e3fp.fingerprint.metrics import array_metrics as AM, fprint_metrics as FM  # noqa: E402

MEASURES = ["tanimoto", "dice", "soergel", "cosine", "pearson"]
BINARY = ("tanimoto", "dice")
FORMS = ["fp-fp", "fp-db", "db-fp", "db-db", "single-db", "fprint_metrics", "dense", "sparse", "sparse-unsorted", "sparse-zeros",
         "cosine-binary", "sparse-native-unsorted", "dbarr-dbarr", "arr-single", "dense-nojit", "sparse-nojit"]


class OperandChanged(Exception):
    """A similarity call altered one of its operands."""


def csr_content(X):
    """Canonical content of a CSR matrix: per row the sorted (column, value) pairs without zeros."""
    out = []
    for i in range(X.shape[0]):
        lo, hi = X.indptr[i], X.indptr[i + 1]
        acc = {}
        for c, v in zip(X.indices[lo:hi].tolist(), X.data[lo:hi].tolist()):
            acc[c] = acc.get(c, 0) + float(v)
        out.append(sorted((c, v) for c, v in acc.items() if v != 0))
    return out


def vec(spec):
    """position -> Fraction"""
    if spec["kind"] == "bit":
        return {i: Fraction(1) for i in spec["idx"]}
    return {i: Fraction(v) for i, v in spec["cnt"]}


def definition(m, x, y, bits):
    """The mathematical definition on two finitely supported vectors (exact where rational)."""
    sx = {i for i, v in x.items() if v != 0}
    sy = {i for i, v in y.items() if v != 0}
    if m == "tanimoto":
        u = len(sx | sy)
        return Fraction(len(sx & sy), u) if u else Fraction(0)
    if m == "dice":
        t = len(sx) + len(sy)
        return Fraction(2 * len(sx & sy), t) if t else Fraction(0)
    keys = set(x) | set(y)
    if m == "soergel":
        smax = sum(max(x.get(i, 0), y.get(i, 0)) for i in keys)
        sad = sum(abs(x.get(i, 0) - y.get(i, 0)) for i in keys)
        return 1 - Fraction(sad) / smax if smax else Fraction(0)
    dot = sum(x.get(i, 0) * y.get(i, 0) for i in keys)
    if m == "cosine":
        rad = sum(v * v for v in x.values()) * sum(v * v for v in y.values())
        return float(dot) / math.sqrt(rad) if rad else 0.0
    n = Fraction(bits)
    mx, my = sum(x.values()) / n, sum(y.values()) / n
    cov = dot / n - mx * my
    vx = sum(v * v for v in x.values()) / n - mx * mx
    vy = sum(v * v for v in y.values()) / n - my * my
    return float(cov) / math.sqrt(vx * vy) if vx * vy > 0 else 0.0


def close(a, b, tol=1e-9):
    a, b = float(a), float(b)
    if math.isnan(a) or math.isnan(b):
        return False
    return abs(a - b) <= tol * max(1.0, abs(b))


def model_value(ans):
    if "ok" not in ans:
        return ans
    o = ans["ok"]
    if "q" in o:
        return float(Fraction(o["q"]))
    num, rad = Fraction(o["num"]), Fraction(o["rad"])
    return float(num) / math.sqrt(rad) if rad > 0 else 0.0


def csr_rows(specs, bits, dtype, order=None, zeros=False, rng=None):
    data, indices, indptr = [], [], [0]
    for s in specs:
        ent = sorted(vec(s).items())
        if zeros:
            free = [i for i in range(min(bits, 64)) if i not in dict(ent)]
            for i in free[:2]:
                ent.append((i, Fraction(0)))
        if order == "shuffle":
            rng.shuffle(ent)
        elif order is None:
            ent.sort()
        for i, v in ent:
            indices.append(i)
            data.append(float(v))
        indptr.append(len(indices))
    return csr_matrix((np.array(data, dtype=dtype), np.array(indices, dtype=np.int64), np.array(indptr, dtype=np.int64)),
                      shape=(len(specs), bits))


@fpheap.with_heap_cases(("metric",), 60, 1500)
class C06(vlib.Check):
    id = "C06"
    props_modules = ["E3fpVerif.Props.C06", "E3fpVerif.Props.C06Real", "E3fpVerif.Props.C06Csr", "E3fpVerif.Props.C06Counts"]
    gen_items = ["metrics"]
    rule = ("pairs of fingerprints of all kinds (empty, identical, subset, disjoint, random; bits 8..2^32 for the fingerprint "
            "forms, <= 4096 for the matrix forms) x five measures x sixteen calling forms (metrics.* with fp/fp, fp/db, db/fp, "
            "db/db, single argument; fprint_metrics.*; array_metrics.* on dense arrays, canonical CSR, CSR with shuffled "
            "column order, CSR with explicit zeros; cosine(assume_binary); CSR in the kind's own dtype with shuffled columns and "
            "databases built by from_array on such matrices, each with an operand-unchanged check; array_metrics.*(X) alone; the two Soergel kernels also without the optional Numba JIT; 2^25-column 0/1 rows sharing more than 2^24 on-bits against the closed forms of Model/MetricsCounts (driver op met.counts)). Non-trivial: both operands non-empty and not "
            "identical; distinct by (measure, form, operands).")
    trusted_base = ["SciPy sparse product / norms, np.corrcoef, cdist, nan_to_num, Numba-compiled Soergel kernels (compared on every run)"]
    assumptions = ["float results are compared with the exact rational (or num/sqrt(rad)) to 1e-9 relative"]

    def gen_cases(self):
        rng = self.rng
        n = 60 if self.tier == "quick" else 1200
        for _ in range(n):
            bits = rng.choice([8, 32, 64, 1024, 4096])
            ka = rng.choice(KINDS)
            kb = ka if rng.random() < 0.7 else rng.choice(KINDS)
            a = gen_fp(rng, ka, bits, level=5, maxn=10)
            rel = rng.choice(["random", "random", "identical", "subset", "disjoint", "empty-b", "empty-both", "overlap"])
            if rel == "identical":
                b = dict(a)
                kb = ka
            elif rel == "empty-b":
                b = gen_fp(rng, kb, bits, level=5, style="empty")
            elif rel == "empty-both":
                a = gen_fp(rng, ka, bits, level=5, style="empty")
                b = gen_fp(rng, kb, bits, level=5, style="empty")
            else:
                b = gen_fp(rng, kb, bits, level=5, maxn=10)
                if rel in ("subset", "overlap") and a["idx"]:
                    extra = rng.sample(a["idx"], max(1, len(a["idx"]) // 2))
                    cur = vec(b) if rel == "overlap" else {}
                    for i in extra:
                        cur[i] = Fraction(gen_value(rng, kb)) if kb != "bit" else Fraction(1)
                    b = {"kind": kb, "bits": bits, "level": 5, "idx": sorted(cur),
                         "cnt": [] if kb == "bit" else [[i, str(cur[i])] for i in sorted(cur)]}
                elif rel == "disjoint":
                    keep = [i for i in b["idx"] if i not in set(a["idx"])]
                    cb = vec(b)
                    b = {"kind": kb, "bits": bits, "level": 5, "idx": keep, "cnt": [] if kb == "bit" else [[i, str(cb[i])] for i in keep]}
            for f in (a, b):
                if f["kind"] == "count":
                    f["cnt"] = [[i, v if int(v) <= 255 else "255"] for i, v in f["cnt"]]
            self.count("rel:" + rel)
            for m in MEASURES:
                for form in FORMS:
                    if form == "cosine-binary" and m != "cosine":
                        continue
                    if form in ("dense-nojit", "sparse-nojit") and m != "soergel":
                        continue      # the only kernels behind the optional JIT are the two Soergel loops
                    yield {"t": "metric", "m": m, "form": form, "a": a, "b": b, "seed": rng.randrange(10 ** 6)}
            # operands of different length must be rejected
            b2 = gen_fp(rng, kb, bits * 2, level=5, maxn=6)
            for form in ("fp-fp", "fp-db", "db-db", "fprint_metrics", "dense", "sparse"):
                yield {"t": "mismatch", "m": rng.choice(MEASURES), "form": form, "a": a, "b": b2}
        # every ordered pair of kinds with overlapping supports and non-unit values: the dispatch treats mixed kinds without
        # a common cast (only tanimoto / dice cast to bit), so the operand order matters to the route taken
        for ka in KINDS:
            for kb in KINDS:
                for _ in range(2 if self.tier == "quick" else 12):
                    bits = rng.choice([32, 64, 1024])
                    common = sorted(rng.sample(range(bits), rng.randint(2, 6)))
                    def mk(kind):
                        own = rng.sample(range(bits), rng.randint(0, 4))
                        idx = sorted(set(common) | set(own))
                        if kind == "bit":
                            return {"kind": kind, "bits": bits, "level": 5, "idx": idx, "cnt": []}
                        vals = [rng.choice(["2", "3", "5", "7", "12"]) if kind == "count" else rng.choice(["3/2", "5/4", "7", "1/2", "9/8"])
                                for _ in idx]
                        return {"kind": kind, "bits": bits, "level": 5, "idx": idx, "cnt": [[i, v] for i, v in zip(idx, vals)]}
                    a, b = mk(ka), mk(kb)
                    self.count("mixed:%s-%s" % (ka, kb))
                    for m in MEASURES:
                        for form in ("fp-fp", "fp-db", "db-fp", "db-db", "dbarr-dbarr", "fprint_metrics"):
                            yield {"t": "metric", "m": m, "form": form, "a": a, "b": b, "seed": rng.randrange(10 ** 6)}
        # float fingerprints of tiny magnitude (a fingerprint times a small weight: every count scaled by 2^-k): the measures
        # are ratios, so every form must still return the definition's value - which is that of the unscaled pair
        for _ in range(6 if self.tier == "quick" else 100):
            bits = rng.choice([32, 1024])
            sc = Fraction(1, 2 ** rng.choice([17, 20, 30, 40, 60]))
            a = gen_fp(rng, "float", bits, level=5, maxn=8, style="sparse")
            b = gen_fp(rng, "float", bits, level=5, maxn=8, style="sparse")
            cur = vec(b)
            for i in a["idx"][::2]:
                cur[i] = vec(a)[i] * rng.choice([1, 2])
            b = {"kind": "float", "bits": bits, "level": 5, "idx": sorted(cur), "cnt": [[i, str(cur[i])] for i in sorted(cur)]}
            which = rng.choice(["both", "both", "a"])
            for f in ((a, b) if which == "both" else (a,)):
                f["cnt"] = [[i, str(Fraction(v) * sc)] for i, v in f["cnt"]]
            self.count("tiny-magnitude-floats")
            for m in MEASURES:
                for form in FORMS:
                    if form == "cosine-binary" or form in ("dense-nojit", "sparse-nojit"):
                        continue
                    yield {"t": "metric", "m": m, "form": form, "a": a, "b": b, "seed": rng.randrange(10 ** 6)}
                    yield {"t": "metric", "m": m, "form": form, "a": a, "b": a, "seed": rng.randrange(10 ** 6)}
        # whole matrices: several rows on either side, empty rows at the first / middle / last position, every measure and route -
        # entry (i, j) is the definition's value for row i of X and row j of Y
        for _ in range(10 if self.tier == "quick" else 200):
            bits = rng.choice([16, 64, 1024])
            kind = rng.choice(KINDS)
            def rows(n):
                out = []
                for _k in range(n):
                    f = gen_fp(rng, kind, bits, level=5, maxn=6, style=rng.choice(["sparse", "sparse", "low", "empty"]))
                    if kind == "count":
                        f["cnt"] = [[i, v if int(v) <= 255 else "255"] for i, v in f["cnt"]]
                    out.append(f)
                return out
            xs, ys = rows(rng.randint(2, 6)), rows(rng.randint(2, 6))
            for pos in rng.sample(["x-first", "x-last", "y-first", "y-middle", "y-last"], 2):
                tgt = xs if pos[0] == "x" else ys
                k = {"first": 0, "middle": len(tgt) // 2, "last": len(tgt) - 1}[pos[2:]]
                tgt[k] = {"kind": kind, "bits": bits, "level": 5, "idx": [], "cnt": []}
            self.count("whole-matrix")
            yield {"t": "matrix", "kind": kind, "bits": bits, "xs": xs, "ys": ys, "seed": rng.randrange(10 ** 6),
                   "a": xs[0], "b": ys[0], "m": "tanimoto", "form": "matrix"}
        # the sparse Soergel kernel called on raw CSR arrays (data / indices / indptr), the index-walking loop that Model/Csr.lean
        # mirrors statement by statement: several rows, empty rows anywhere, jitted and plain-Python versions
        for _ in range(25 if self.tier == "quick" else 400):
            bits = rng.choice([8, 64, 1024])
            def csr(nrows):
                data, indices, indptr = [], [], [0]
                for _r in range(nrows):
                    cols = sorted(rng.sample(range(bits), rng.choice([0, 0, 1, 2, 3, 5]) if bits > 5 else 0))
                    for c in cols:
                        indices.append(c)
                        data.append(rng.choice(["1", "2", "3", "1/2", "5/4", "7"]))
                    indptr.append(len(indices))
                return {"data": data, "indices": indices, "indptr": indptr}
            self.count("csr-kernel")
            yield {"t": "csr", "bits": bits, "X": csr(rng.randint(1, 5)), "Y": csr(rng.randint(1, 5)), "nojit": rng.random() < 0.5,
                   "a": {"idx": [1]}, "b": {"idx": [1]}, "m": "soergel", "form": "csr"}
        # very dense rows of a long binary matrix: more than 2^24 bits in common (counts that single-precision arithmetic can no
        # longer hold exactly), rows given as unions of ranges; every measure has a closed form in |A|, |B|, |A & B| and the length
        for m in (["tanimoto", "dice", "cosine", "soergel"] if self.tier == "quick" else MEASURES * 2):
            n1, n2, off = 2 ** 24 + rng.randrange(1, 5000), 2 ** 24 + rng.randrange(1, 5000), rng.randrange(0, 900)
            extra = rng.randrange(1, 4000)
            self.count("very-dense-rows")
            yield {"t": "huge", "m": m, "bits": 2 ** 25, "A": [[0, n1], [2 ** 25 - extra, 2 ** 25]], "B": [[off, off + n2]],
                   "routes": ["sparse", "db-db"] + (["dense"] if m in BINARY else []), "a": {"idx": [1]}, "b": {"idx": [1]}, "form": "huge"}
        # large unfolded fingerprints: fingerprint forms only
        for _ in range(n // 3):
            ka = rng.choice(KINDS)
            a = gen_fp(rng, ka, 2 ** 32, level=5, maxn=12)
            b = gen_fp(rng, ka, 2 ** 32, level=5, maxn=12)
            cur = vec(b)
            for i in a["idx"][::2]:
                cur[i] = vec(a)[i]
            b = {"kind": ka, "bits": 2 ** 32, "level": 5, "idx": sorted(cur), "cnt": [] if ka == "bit" else [[i, str(cur[i])] for i in sorted(cur)]}
            for m in MEASURES:
                for form in ("fp-fp", "fprint_metrics"):
                    yield {"t": "metric", "m": m, "form": form, "a": a, "b": b, "seed": 0}

    # ------------------------------------------------------------------ what each form computes on
    def effective(self, case):
        """(kind the operands are seen as, vector a, vector b): binary measures cast to bit."""
        a, b, m, form = case["a"], case["b"], case["m"], case["form"]
        xa, xb = vec(a), vec(b)
        binary = m in BINARY or form == "cosine-binary"
        if binary:
            xa = {i: Fraction(1) for i, v in xa.items() if v != 0}
            xb = {i: Fraction(1) for i, v in xb.items() if v != 0}
        return xa, xb

    def _db(self, spec, kind=None):
        db = FingerprintDatabase(fp_type=CLS[kind or spec["kind"]], level=spec["level"])
        db.add_fingerprints([make_fp(spec)])
        return db

    def _call(self, case):
        a, b, m, form = case["a"], case["b"], case["m"], case["form"]
        f = getattr(M, m)
        if form == "fp-fp":
            return float(f(make_fp(a), make_fp(b)))
        if form == "fprint_metrics":
            return float(getattr(FM, m)(make_fp(a), make_fp(b)))
        if form == "fp-db":
            return float(np.asarray(f(make_fp(a), self._db(b)))[0, 0])
        if form == "db-fp":
            return float(np.asarray(f(self._db(a), make_fp(b)))[0, 0])
        if form == "db-db":
            return float(np.asarray(f(self._db(a), self._db(b)))[0, 0])
        if form == "single-db":
            db = FingerprintDatabase(fp_type=CLS[a["kind"]], level=a["level"])
            b2 = dict(b, kind=a["kind"])
            if a["kind"] == "bit":
                b2["cnt"] = []
            elif b["kind"] == "bit":
                b2["cnt"] = [[i, "1"] for i in b["idx"]]
            elif a["kind"] == "count":
                b2["cnt"] = [[i, str(int(Fraction(v)))] for i, v in b["cnt"]]
            db.add_fingerprints([make_fp(a), make_fp(b2)])
            return float(np.asarray(f(db))[0, 1])
        if form == "dbarr-dbarr":
            # databases handed over as CSR matrices with rows in arbitrary column order, in the kind's own dtype
            r = random.Random(case.get("seed", 0))
            dbs = []
            for spec in (a, b):
                X = csr_rows([spec], spec["bits"], DTYPE[spec["kind"]], "shuffle", rng=r)
                dbs.append(FingerprintDatabase.from_array(X, ["x"], fp_type=CLS[spec["kind"]], level=spec["level"]))
            before = [csr_content(d.array) for d in dbs]
            v = float(np.asarray(f(dbs[0], dbs[1]))[0, 0])
            if [csr_content(d.array) for d in dbs] != before:
                raise OperandChanged("%s(db, db) changed the content of a database built from an unsorted CSR matrix" % m)
            return v
        # raw arrays
        xa, xb = self.effective(case)
        binary = m in BINARY or form == "cosine-binary"
        if form == "sparse-native-unsorted":
            r = random.Random(case.get("seed", 0))
            sa = {"kind": "float", "idx": sorted(xa), "cnt": [[i, str(xa[i])] for i in sorted(xa)]}
            sb = {"kind": "float", "idx": sorted(xb), "cnt": [[i, str(xb[i])] for i in sorted(xb)]}
            X = csr_rows([sa], a["bits"], np.bool_ if binary else DTYPE[a["kind"]], "shuffle", rng=r)
            Y = csr_rows([sb], b["bits"], np.bool_ if binary else DTYPE[b["kind"]], "shuffle", rng=r)
            before = (csr_content(X), csr_content(Y))
            v = float(getattr(AM, m)(X, Y)[0, 0])
            if (csr_content(X), csr_content(Y)) != before:
                raise OperandChanged("array_metrics.%s changed the content of a sparse operand with unsorted rows" % m)
            return v
        if form == "arr-single":
            sa = {"kind": "float", "idx": sorted(xa), "cnt": [[i, str(xa[i])] for i in sorted(xa)]}
            sb = {"kind": "float", "idx": sorted(xb), "cnt": [[i, str(xb[i])] for i in sorted(xb)]}
            X = csr_rows([sa, sb], a["bits"], float)
            if case.get("seed", 0) % 2:
                X = X.toarray()
            return float(np.asarray(getattr(AM, m)(X))[0, 1])
        sa = {"kind": "float", "idx": sorted(xa), "cnt": [[i, str(xa[i])] for i in sorted(xa)]}
        sb = {"kind": "float", "idx": sorted(xb), "cnt": [[i, str(xb[i])] for i in sorted(xb)]}
        bits = a["bits"]
        g = getattr(AM, m)
        r = random.Random(case.get("seed", 0))
        kw = {"assume_binary": True} if form == "cosine-binary" else {}
        if form in ("dense-nojit", "sparse-nojit"):
            # what an installation without Numba runs: the undecorated Python loops (maybe_jit returns the function itself)
            saved = (AM._dense_soergel, AM._sparse_soergel)
            try:
                AM._dense_soergel = getattr(saved[0], "py_func", saved[0])
                AM._sparse_soergel = getattr(saved[1], "py_func", saved[1])
                if form == "dense-nojit":
                    X = csr_rows([sa], bits, float).toarray()
                    Y = csr_rows([sb], b["bits"], float).toarray()
                else:
                    X = csr_rows([sa], bits, float, "shuffle", rng=r)
                    Y = csr_rows([sb], b["bits"], float, "shuffle", rng=r)
                return float(g(X, Y)[0, 0])
            finally:
                AM._dense_soergel, AM._sparse_soergel = saved
        if form == "dense":
            X = csr_rows([sa], bits, float).toarray()
            Y = csr_rows([sb], b["bits"], float).toarray()
            return float(g(X, Y, **kw)[0, 0])
        order = "shuffle" if form == "sparse-unsorted" else None
        X = csr_rows([sa], bits, float, order, zeros=(form == "sparse-zeros"), rng=r)
        Y = csr_rows([sb], b["bits"], float, order, zeros=(form == "sparse-zeros"), rng=r)
        return float(g(X, Y, **kw)[0, 0])

    def single_b(self, case):
        """In the single-db form the second row is `b` cast to a's kind."""
        a, b = case["a"], case["b"]
        xb = vec(b)
        if a["kind"] == "bit":
            return {i: Fraction(1) for i in xb}
        if a["kind"] == "count":
            return {i: Fraction(int(v)) for i, v in xb.items()}
        return xb

    def _matrix_prop(self, case):
        r = random.Random(case["seed"])
        xs, ys, bits, kind = case["xs"], case["ys"], case["bits"], case["kind"]
        fl = lambda f: {"kind": "float", "bits": bits, "level": 5, "idx": sorted(vec(f)), "cnt": [[i, str(v)] for i, v in sorted(vec(f).items())]}  # noqa: E731
        for m in MEASURES:
            binary = m in BINARY
            routes = {}
            dbx, dby = FingerprintDatabase(fp_type=CLS[kind], level=5), FingerprintDatabase(fp_type=CLS[kind], level=5)
            dbx.add_fingerprints([make_fp(f) for f in xs])
            dby.add_fingerprints([make_fp(f) for f in ys])
            routes["db-db"] = lambda: np.asarray(getattr(M, m)(dbx, dby))
            routes["db-single"] = None
            dt = np.bool_ if binary else float
            X, Y = csr_rows([fl(f) for f in xs], bits, dt), csr_rows([fl(f) for f in ys], bits, dt)
            routes["sparse"] = lambda: np.asarray(getattr(AM, m)(X, Y))
            Xs, Ys = csr_rows([fl(f) for f in xs], bits, dt, "shuffle", rng=r), csr_rows([fl(f) for f in ys], bits, dt, "shuffle", rng=r)
            routes["sparse-unsorted"] = lambda: np.asarray(getattr(AM, m)(Xs, Ys))
            routes["dense"] = lambda: np.asarray(getattr(AM, m)(X.toarray(), Y.toarray()))
            for name, fn in routes.items():
                if fn is None:
                    continue
                try:
                    S = fn()
                except Exception as e:  # noqa: BLE001
                    return {"key": "metric-raises:%s:matrix-%s:%s" % (m, name, type(e).__name__), "what": "%s on a %dx%d problem (%s) raised %r" % (m, len(xs), len(ys), name, e)}
                if S.shape != (len(xs), len(ys)):
                    return {"key": "metric-shape:%s:matrix-%s" % (m, name), "what": "result shape %s for %d x %d rows" % (S.shape, len(xs), len(ys))}
                for i, fx in enumerate(xs):
                    for j, fy in enumerate(ys):
                        xa, xb = vec(fx), vec(fy)
                        if binary:
                            xa = {k: Fraction(1) for k, v in xa.items() if v != 0}
                            xb = {k: Fraction(1) for k, v in xb.items() if v != 0}
                        want = definition(m, xa, xb, bits)
                        if not close(S[i, j], want):
                            return {"key": "metric-wrong:%s:matrix-%s" % (m, name),
                                    "what": "%s, %s route: entry (%d, %d) of a %d x %d matrix is %r, the definition gives %r (empty rows: X %s, Y %s)" % (
                                        m, name, i, j, len(xs), len(ys), float(S[i, j]), float(want),
                                        [k for k, f in enumerate(xs) if not f["idx"]], [k for k, f in enumerate(ys) if not f["idx"]])}
        return None

    @staticmethod
    def _huge_counts(case):
        def size(rs):
            return sum(e - s_ for s_, e in rs)

        def inter(r1, r2):
            return sum(max(0, min(e1, e2) - max(s1, s2)) for s1, e1 in r1 for s2, e2 in r2)
        return size(case["A"]), size(case["B"]), inter(case["A"], case["B"])

    def _huge_values(self, case):
        """{route: value | "raised <type>"} - computed once per case (impl and prop both look at it)"""
        key = vlib.canon(case)
        cache = self.__dict__.setdefault("_huge_cache", {})
        if key in cache:
            return cache[key]
        bits, m = case["bits"], case["m"]
        dt = np.bool_ if m in BINARY else np.float64

        def row(rs):
            idx = np.concatenate([np.arange(s_, e, dtype=np.int32) for s_, e in rs])
            return csr_matrix((np.ones(len(idx), dtype=dt), idx, np.array([0, len(idx)], dtype=np.int32)), shape=(1, bits))
        X, Y = row(case["A"]), row(case["B"])
        out = {}
        for route in case["routes"]:
            try:
                if route == "sparse":
                    v = getattr(AM, m)(X, Y)
                elif route == "dense":
                    v = getattr(AM, m)(X.toarray(), Y.toarray())
                else:
                    kind = "bit" if m in BINARY else "float"
                    dbx = FingerprintDatabase.from_array(X.astype(DTYPE[kind]), ["x"], fp_type=CLS[kind], level=5)
                    dby = FingerprintDatabase.from_array(Y.astype(DTYPE[kind]), ["y"], fp_type=CLS[kind], level=5)
                    v = getattr(M, m)(dbx, dby)
                out[route] = float(np.asarray(v).reshape(-1)[0])
            except Exception as e:  # noqa: BLE001
                out[route] = "raised " + type(e).__name__
        cache.clear()
        cache[key] = out
        return out

    def _huge_prop(self, case):
        bits, m = case["bits"], case["m"]
        a, b, c = self._huge_counts(case)
        want = {"tanimoto": Fraction(c, a + b - c), "soergel": Fraction(c, a + b - c), "dice": Fraction(2 * c, a + b),
                "cosine": c / math.sqrt(a * b), "pearson": (bits * c - a * b) / math.sqrt(a * (bits - a) * b * (bits - b))}[m]
        for route, v in self._huge_values(case).items():
            if isinstance(v, str):
                return {"key": "metric-raises:%s:very-dense-%s:%s" % (m, route, v.split()[-1]), "what": "%s on rows of %d and %d on-bits (%s) %s" % (m, a, b, route, v)}
            if not close(v, want):
                return {"key": "metric-wrong:%s:very-dense-%s" % (m, route),
                        "what": "%s, %s route: rows with %d and %d on-bits of %d, %d in common: got %r, the definition gives %r" % (m, route, a, b, bits, c, v, float(want))}
        return None

    def _csr_call(self, case):
        def arrs(m):
            return (np.array([float(Fraction(v)) for v in m["data"]], dtype=np.float64), np.array(m["indices"], dtype=np.int32),
                    np.array(m["indptr"], dtype=np.int32))
        xd, xi, xp = arrs(case["X"])
        yd, yi, yp = arrs(case["Y"])
        S = np.zeros((len(xp) - 1, len(yp) - 1), dtype=np.float64)
        f = getattr(AM._sparse_soergel, "py_func", AM._sparse_soergel) if case["nojit"] else AM._sparse_soergel
        f(xd, xi, xp, yd, yi, yp, S)
        return [[float(v) for v in row] for row in S.tolist()]

    def impl(self, case):
        if case["t"] == "csr":
            return attempt(lambda: self._csr_call(case))
        if case["t"] == "huge":
            return {"ok": self._huge_values(case)}
        if case["t"] == "matrix":
            return {"ok": "see prop"}
        if case["t"] == "mismatch":
            return attempt(lambda: self._call(case) and "accepted")
        r = attempt(lambda: self._call(case))
        if "ok" in r:
            return {"ok": "nan" if math.isnan(r["ok"]) else r["ok"]}
        return r

    def model_ops(self, case):
        if case["t"] == "csr":
            return [{"op": "met.csr_soergel", "X": case["X"], "Y": case["Y"]}]
        if case["t"] == "huge":
            # the closed forms of Model/MetricsCounts (Props/C06Counts: the definitions' values on 0/1 rows) at the rows' counts
            a_, b_, c_ = self._huge_counts(case)
            return [{"op": "met.counts", "m": case["m"], "a": a_, "b": b_, "c": c_, "bits": case["bits"]}]
        if case["t"] == "matrix":
            return [{"op": "fpr.hash", "words": []}]
        a, b, m, form = case["a"], case["b"], case["m"], case["form"]
        if case["t"] == "mismatch":
            if form in ("fp-fp", "fp-db", "db-db"):
                wa = {"fp": a} if form.startswith("fp") else {"db": {"kind": a["kind"], "level": a["level"], "fps": [a]}}
                wb = {"fp": b} if form.endswith("fp") else {"db": {"kind": b["kind"], "level": b["level"], "fps": [b]}}
                return [{"op": "met.dispatch", "m": m, "a": wa, "b": wb}]
            return [{"op": "met.def", "m": m, "x": [], "y": [], "bits": 1}]
        if form == "fprint_metrics":
            return [{"op": "met.fp", "m": m, "a": a, "b": b}]
        # the public dispatching functions: the model decides the route, the wrapping into one-row databases and the casts
        def as_db(f):
            return {"db": {"kind": f["kind"], "level": f["level"], "fps": [f]}}
        if form == "fp-fp":
            return [{"op": "met.dispatch", "m": m, "a": {"fp": a}, "b": {"fp": b}}]
        if form == "fp-db":
            return [{"op": "met.dispatch", "m": m, "a": {"fp": a}, "b": as_db(b)}]
        if form == "db-fp":
            return [{"op": "met.dispatch", "m": m, "a": as_db(a), "b": {"fp": b}}]
        if form in ("db-db", "dbarr-dbarr"):
            return [{"op": "met.dispatch", "m": m, "a": as_db(a), "b": as_db(b)}]
        if form == "single-db":
            b2 = dict(b, kind=a["kind"])
            if a["kind"] == "bit":
                b2["cnt"] = []
            elif b["kind"] == "bit":
                b2["cnt"] = [[i, "1"] for i in b["idx"]]
            elif a["kind"] == "count":
                b2["cnt"] = [[i, str(int(Fraction(v)))] for i, v in b["cnt"]]
            return [{"op": "met.dispatch", "m": m, "a": {"db": {"kind": a["kind"], "level": a["level"], "fps": [a, b2]}}, "b": None}]
        xa, xb = self.effective(case)
        if form == "single-db":
            xb = self.single_b(case)
            if m in BINARY:
                xb = {i: Fraction(1) for i, v in xb.items() if v != 0}
        elif form in ("fp-db", "db-fp", "db-db"):
            # rows are cast to their own database's dtype
            pass
        r = random.Random(case.get("seed", 0))
        ra = [[i, str(xa[i])] for i in sorted(xa)]
        rb = [[i, str(xb[i])] for i in sorted(xb)]
        if form == "sparse-zeros":
            for row, x in ((ra, xa), (rb, xb)):
                free = [i for i in range(min(a["bits"], 64)) if i not in x]
                for i in free[:2]:
                    row.append([i, "0"])
        if form in ("sparse-unsorted", "sparse-native-unsorted"):
            r.shuffle(ra)
            r.shuffle(rb)
        if form == "sparse-nojit":
            r.shuffle(ra)
            r.shuffle(rb)
        return [{"op": "met.arr", "m": m, "x": ra, "y": rb, "bits": a["bits"], "dense": form in ("dense", "dense-nojit")}]

    def model_answer(self, case, answers):
        if case["t"] == "csr":
            a = answers[0]
            return {"ok": [[float(Fraction(v)) for v in row] for row in a["ok"]]} if "ok" in a else a
        if case["t"] == "huge":
            return answers[0]
        if case["t"] == "matrix":
            return {"ok": "see prop"}
        if case["t"] == "mismatch":
            if case["form"] in ("fp-fp", "fp-db", "db-db"):
                return answers[0]
            return {"err": "rejected"}
        a = answers[0]
        if "ok" in a and "scalar" in a["ok"]:
            return {"ok": a["ok"]["scalar"]}
        if "ok" in a and "matrix" in a["ok"]:
            mat = a["ok"]["matrix"]
            return {"ok": mat[0][1] if case["form"] == "single-db" else mat[0][0]}
        return a

    def compare(self, case, a_impl, a_model):
        if case["t"] == "csr":
            if "ok" in a_impl and "ok" in a_model and len(a_impl["ok"]) == len(a_model["ok"]) and all(
                    len(r1) == len(r2) and all(close(x, y, 1e-12) for x, y in zip(r1, r2)) for r1, r2 in zip(a_impl["ok"], a_model["ok"])):
                return None
            return {"impl": a_impl, "model": a_model}
        if case["t"] == "huge":
            mv = model_value(a_model)
            if isinstance(mv, dict) or any(isinstance(v, str) or not close(v, mv) for v in a_impl["ok"].values()):
                return {"impl": a_impl, "model_value": mv, "model": a_model}
            return None
        if case["t"] == "matrix":
            return None
        if case["t"] == "mismatch":
            if case["form"] in ("fp-fp", "fp-db", "db-db") and ("err" in a_impl) != ("err" in a_model):
                return {"impl": a_impl, "model": a_model}
            return None     # otherwise decided by the property evaluation
        if "ok" not in a_impl:
            return {"impl": a_impl, "model": a_model}
        mv = model_value(a_model)
        if isinstance(mv, dict):
            return {"impl": a_impl, "model": a_model}
        if a_impl["ok"] == "nan" or not close(a_impl["ok"], mv):
            return {"impl": a_impl, "model_value": mv, "model": a_model}
        return None

    # ------------------------------------------------------------------ the property
    def prop(self, case):
        if case["t"] == "csr":
            # the definition on the rows the arrays denote
            def rows(m):
                return [{c: Fraction(v) for c, v in zip(m["indices"][m["indptr"][i]:m["indptr"][i + 1]], m["data"][m["indptr"][i]:m["indptr"][i + 1]])}
                        for i in range(len(m["indptr"]) - 1)]
            try:
                S = self._csr_call(case)
            except Exception as e:  # noqa: BLE001
                return {"key": "metric-raises:soergel:csr-kernel:" + type(e).__name__, "what": "_sparse_soergel raised %r" % e}
            for i, x in enumerate(rows(case["X"])):
                for j, y in enumerate(rows(case["Y"])):
                    want = definition("soergel", x, y, case["bits"])
                    if not close(S[i][j], want):
                        return {"key": "metric-wrong:soergel:csr-kernel", "what": "_sparse_soergel entry (%d, %d) is %r, the definition gives %r (indptr %s / %s)" % (
                            i, j, S[i][j], float(want), case["X"]["indptr"], case["Y"]["indptr"])}
            return None
        if case["t"] == "matrix":
            return self._matrix_prop(case)
        if case["t"] == "huge":
            return self._huge_prop(case)
        a, b, m, form = case["a"], case["b"], case["m"], case["form"]
        if case["t"] == "mismatch":
            r = self.impl(case)
            if "err" in r:
                return None
            return {"key": "length-mismatch-accepted:" + form, "what": "%s (%s) accepted operands of %d and %d bits" % (m, form, a["bits"], b["bits"])}
        try:
            v = self._call(case)
        except OperandChanged as e:
            return {"key": "metric-changes-operand:%s:%s" % (m, form), "what": str(e)}
        except Exception as e:  # noqa: BLE001
            return {"key": "metric-raises:%s:%s:%s" % (m, form, type(e).__name__), "what": "%s (%s) raised %r" % (m, form, e)}
        xa, xb = self.effective(case)
        if form == "single-db":
            xb = self.single_b(case)
            if m in BINARY:
                xb = {i: Fraction(1) for i, v2 in xb.items() if v2 != 0}
        want = definition(m, xa, xb, a["bits"])
        if math.isnan(v):
            return {"key": "metric-nan:%s:%s" % (m, form), "what": "%s (%s) returned NaN, definition gives %s" % (m, form, float(want))}
        if not close(v, want):
            return {"key": "metric-wrong:%s:%s" % (m, form), "what": "%s (%s) = %r, definition gives %r" % (m, form, v, float(want))}
        # consequences
        if m in ("tanimoto", "dice", "soergel") and not (-1e-12 <= v <= 1 + 1e-12):
            return {"key": "metric-range:%s" % m, "what": "%s outside [0,1]: %r" % (m, v)}
        if form in ("fp-fp", "db-db", "sparse", "dense", "fprint_metrics"):
            c2 = dict(case, a=b, b=a)
            try:
                v2 = self._call(c2)
                if not close(v2, v, 1e-9):
                    return {"key": "metric-asymmetric:%s:%s" % (m, form), "what": "%s(a,b)=%r but %s(b,a)=%r" % (m, v, m, v2)}
            except Exception as e:  # noqa: BLE001
                return {"key": "metric-raises:%s:%s:%s" % (m, form, type(e).__name__), "what": "swapped operands raised %r" % e}
        return None

    def nontrivial(self, case, a_impl):
        if case["t"] in ("matrix", "csr", "huge"):
            return vlib.canon(case)
        if case["t"] != "metric" or not case["a"]["idx"] or not case["b"]["idx"] or case["a"] == case["b"]:
            return None
        return vlib.canon([case["m"], case["form"], case["a"], case["b"]])


if __name__ == "__main__":
    sys.exit(vlib.run_check(C06))
