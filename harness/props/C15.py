"""C15 - batch runs are schedule-independent, isolate failures, and resume safely."""
from __future__ import annotations

import hashlib
import os
import shutil
import subprocess
import sys
import tempfile

from rdkit import Chem

from harness import vlib
from harness import molgen as MG
from harness.fpgen import attempt, dump_fp, fpm

from e3fp.fingerprint import generate as FG  # noqa: E402
from e3fp.fingerprint.db import FingerprintDatabase  # noqa: E402
from e3fp.conformer.util import mol_to_sdf  # noqa: E402


def sha(path):
    with open(path, "rb") as f:
        return hashlib.sha256(f.read()).hexdigest()


def db_rows(path):
    """name -> sorted list of row contents (a multiset of named rows)"""
    if not os.path.exists(path):
        return None
    db = FingerprintDatabase.load(path)
    rows = sorted((str(db.fp_names[i]), tuple(dump_fp(db[i])["idx"]), tuple(map(tuple, dump_fp(db[i])["cnt"]))) for i in range(len(db)))
    return rows


def sdf_domain(ref):
    try:
        return MG.in_domain(Chem.RemoveHs(MG.load_ref(ref)), {"exclude_floating": True})
    except Exception:  # noqa: BLE001
        return False


CONF_SMILES = ["CCO", "CC(=O)O", "CCCN", "CCOC", "OCCO", "CC(C)O", "NCC(=O)O", "CCCl"]


class C15(vlib.Check):
    id = "C15"
    props_modules = ["E3fpVerif.Props.C15", "E3fpVerif.Props.C15Db"]
    gen_items = ["fprinter_consts"]
    rule = ("real runs of e3fp.fingerprint.generate.run over 5-8 SDF files (first = 2) in serial / threads / processes with 1, 2, 4 "
            "workers, shuffled input lists, 1-2 inputs replaced by unreadable files; databases compared as multisets of named rows "
            "with the model's collection of the serial per-input results; interruption: the batch runs in a subprocess whose save "
            "is made to exit after the k-th completed output, for every k, then a plain re-run and an overwrite re-run, comparing "
            "SHA-256 of pre-existing outputs; an input replaced between two batches of one process by content of the same size and time stamp; and in-process resumption after some output files, then the whole output directory, were removed; the output files of save runs of BOTH batch routes (fingerprint.generate.run over SDF files, "
            "conformer.generate.run over a SMILES file) with pre-existing valid / stale outputs, overwrite on and off, a failing input, "
            "three modes, compared with the model's file-system fold (driver op batch.files). Non-trivial: >= 2 good inputs and a non-serial mode or a bad input or an interruption.")
    trusted_base = ["python_utilities.Parallelizer / concurrent.futures; the OS (files, processes, threads)"]
    assumptions = ["OS scheduling is sampled; a crash inside a write is outside the property; MPI mode cannot run here and is not claimed (partial by nature)"]

    def tmp(self):
        if not hasattr(self, "_tmp"):
            self._tmp = tempfile.mkdtemp(prefix="c15_", dir=vlib.WORK)
        return self._tmp

    def __del__(self):
        t = getattr(self, "_tmp", None)
        if t:
            shutil.rmtree(t, ignore_errors=True)

    def gen_cases(self):
        rng = self.rng
        n = 8 if self.tier == "quick" else 56
        refs = [r for r in MG.all_refs() if MG.in_domain(MG.load_ref(r), {"exclude_floating": True})]
        for k in range(n):
            nfiles = rng.randint(5, 8)
            files = rng.sample(refs, nfiles)
            bad = sorted(rng.sample(range(nfiles), rng.choice([0, 1, 2])))
            order = list(range(nfiles))
            rng.shuffle(order)
            o = {"bits": rng.choice([1024, 4096]), "level": rng.choice([2, 5]), "first": 2, "counts": rng.random() < 0.3}
            mode = [("serial", 1), ("threads", 2), ("serial", 1), ("processes", 2), ("serial", 1), ("threads", 4), ("processes", 4)][k % 7]
            if mode[0] == "serial":
                # in serial mode completion order = input order: put the failing input at a chosen position
                # (first / last / both ends / middle) - a collector may treat the last completed result specially
                where = ["last", "first", "both", "middle"][(k // 2) % 4]
                bad = {"last": [order[-1]], "first": [order[0]], "both": [order[0], order[-1]], "middle": [order[len(order) // 2]]}[where]
                bad = sorted(bad)
                self.count("serial-bad:" + where)
            self.count("mode:%s" % mode[0])
            # what makes an input fail: a file that is not an SDF, an empty file, a path that does not exist (removed since the
            # list was made), a dangling symbolic link
            badkinds = {str(i): rng.choice(["garbage", "missing", "missing", "empty", "dangling"]) for i in bad}
            for bk in badkinds.values():
                self.count("bad-input:" + bk)
            yield {"t": "batch", "files": files, "bad": bad, "order": order, "opts": o, "mode": mode[0], "workers": mode[1],
                   "names": ["plain", "proto", "mixed", "rotated"][k % 4], "badkinds": badkinds}
        # every input of the batch fails: nothing to collect - the run still ends normally and writes no database
        self.count("mode:all-inputs-fail")
        yield {"t": "batch", "files": rng.sample(refs, 3), "bad": [0, 1, 2], "order": [2, 0, 1], "opts": {"bits": 1024, "level": 2, "first": 2, "counts": False},
               "mode": "serial", "workers": 1, "names": "plain", "badkinds": {"0": "garbage", "1": "missing", "2": "empty"}}
        # output files under the save option, both batch routes (fingerprints from SDF files, conformers from a SMILES file):
        # some outputs exist before the run (valid or stale), overwrite on / off, one failing input
        for k in range(6 if self.tier == "quick" else 40):
            route = ["fp", "conf"][k % 2]
            n = rng.randint(3, 5)
            pre = {}
            for i in range(n):
                r = rng.random()
                if r < 0.3:
                    pre[str(i)] = "stale"
                elif r < 0.5:
                    pre[str(i)] = "clean"
            case = {"t": "files", "route": route, "n": n, "bad": rng.choice([None, rng.randrange(n)]), "pre": pre,
                    "overwrite": rng.random() < 0.4, "mode": rng.choice([("serial", 1), ("threads", 2), ("processes", 2)]),
                    "order": rng.sample(range(n), n)}
            if route == "fp":
                # inputs whose fingerprinting succeeds also after the SDF round trip (hydrogens are removed on reading, which
                # can leave a salt like [NH4+].[Cl-] without any bonded heavy atom): the failing input is the unreadable file
                case["files"] = rng.sample([r for r in refs if sdf_domain(r)], n)
                case["opts"] = {"bits": 1024, "level": 2, "first": 2, "counts": False}
            else:
                case["smiles"] = rng.sample(CONF_SMILES, n)
            self.count("files:" + route)
            yield case
        # the conformer batch dies (process killed) or fails (exception the library handles) WHILE one molecule's conformers are
        # being generated; the re-run without overwrite must complete every missing output
        for k in range(2 if self.tier == "quick" else 12):
            n = rng.randint(3, 5)
            self.count("conformer-batch-crash")
            yield {"t": "confcrash", "n": n, "smiles": rng.sample(CONF_SMILES, n), "victim": rng.randrange(n), "how": ["kill", "raise"][k % 2]}
        for k in range(2 if self.tier == "quick" else 10):
            nfiles = rng.randint(4, 6)
            files = rng.sample(refs, nfiles)
            o = {"bits": 1024, "level": 2, "first": 2, "counts": False}
            self.count("interrupt")
            self.count("in-process-resume")
            yield {"t": "interrupt", "files": files, "bad": sorted(rng.sample(range(nfiles), rng.choice([0, 1]))), "opts": o,
                   # "rotated": the title inside file i is the file stem of file i+1 (renamed / renumbered files)
                   "names": ["rotated", "proto", "mixed", "plain"][k % 4],
                   "ks": list(range(0, nfiles + 1)) if self.tier == "thorough" else sorted(rng.sample(range(0, nfiles), 2))}
        # an input file replaced between two batches of ONE process by other content of the same size and time stamp (restored from a
        # backup with its times kept, rsync -t, a coarse file-system clock): the second batch answers for the file as it is now
        import random
        r2 = random.Random(self.seed * 32452843 + 3)        # (own stream)
        for k in range(3 if self.tier == "quick" else 20):
            self.count("input-replaced-same-size-and-mtime")
            yield {"t": "replaced", "ref": r2.choice([r for r in refs if sdf_domain(r)]), "scale": r2.choice([1.25, 0.8, -1.0]),
                   "modes": [("serial", 1), ("threads", 2), ("processes", 2)][k % 3], "first_mode": [("serial", 1), ("threads", 2)][k % 2]}

    # ------------------------------------------------------------------
    def _inputs(self, case, d):
        paths = []
        for i, ref in enumerate(case["files"]):
            p = os.path.join(d, "in", "mol%02d.sdf.bz2" % i)
            os.makedirs(os.path.dirname(p), exist_ok=True)
            if i in case["bad"]:
                bk = case.get("badkinds", {}).get(str(i), "garbage")
                if bk == "missing":
                    pass
                elif bk == "dangling":
                    os.symlink(os.path.join(d, "in", "nowhere%02d.sdf.bz2" % i), p)
                else:
                    with open(p, "wb") as f:
                        f.write(b"this is not an sdf file" if bk == "garbage" else b"")
            else:
                src = MG.load_ref(ref)
                m = Chem.Mol(src)
                m.RemoveAllConformers()
                for j in range(min(3, src.GetNumConformers())):
                    m.AddConformer(Chem.Conformer(src.GetConformer(j)), assignId=True)
                m.SetProp("_Name", self._name(case, i))
                mol_to_sdf(m, p)
            paths.append(p)
        return paths

    @staticmethod
    def _name(case, i):
        """input names: plain, or protonation states / numbered variants of one parent (names that differ only in the suffix
        e3fp's MolItemName parses)"""
        scheme = case.get("names", "plain")
        if scheme == "rotated":
            return "mol%02d" % ((i + 1) % len(case["files"]))
        if scheme == "proto":
            return "LIG-%d" % i
        if scheme == "mixed":
            return ["LIG-0", "LIG-1", "LIG", "LIG_1", "LIG-1_1", "LIG_2", "OTHER-0", "OTHER"][i % 8]
        return "mol%02d" % i

    def _run(self, paths, o, mode, workers, db_file=None, out_dir_base=None, overwrite=False):
        FG.run(paths, bits=o["bits"], first=o["first"], level=o["level"], counts=o["counts"], db_file=db_file,
               out_dir_base=out_dir_base, overwrite=overwrite, parallel_mode=mode, num_proc=workers if mode != "serial" else None)

    def _per_input(self, paths, o):
        """the per-input outcomes of a clean serial evaluation: name -> rows, None for a failing input"""
        out = []
        for p in paths:
            r = FG.fprints_dict_from_sdf(p, bits=o["bits"], first=o["first"], level=o["level"], counts=o["counts"])
            try:
                fps = r.get(o["level"], r[max(r.keys())])
                out.append(sorted((str(f.name), tuple(dump_fp(f)["idx"]), tuple(map(tuple, dump_fp(f)["cnt"]))) for f in fps))
            except (AttributeError, ValueError):
                out.append(None)
        return out

    # ------------------------------------------------------------------ output files of a save run (both routes)
    def _files_run(self, case, d, out, overwrite, order=None, mode=("serial", 1)):
        """run the batch of `case` writing into directory `out`; returns {input index: file name}"""
        n = case["n"]
        order = list(range(n)) if order is None else order
        if case["route"] == "fp":
            c2 = {"files": case["files"], "bad": [] if case["bad"] is None else [case["bad"]], "names": "plain"}
            paths = self._inputs(c2, os.path.join(d, "inp"))
            o = case["opts"]
            FG.run([paths[i] for i in order], bits=o["bits"], first=o["first"], level=o["level"], counts=o["counts"],
                   out_dir_base=os.path.join(out, "L"), overwrite=overwrite, parallel_mode=mode[0], num_proc=mode[1] if mode[0] != "serial" else None)
            return {i: os.path.join("L%d" % o["level"], "mol%02d.fp.bz2" % i) for i in range(n)}
        from e3fp.conformer import generate as CG
        smi = os.path.join(d, "in_%s.smi" % "_".join(map(str, order)))
        os.makedirs(d, exist_ok=True)
        with open(smi, "w") as f:
            for i in order:
                f.write("%s m%02d\n" % ("C1CC" if i == case["bad"] else case["smiles"][i], i))
        CG.run(smiles=[smi], num_conf=3, seed=42, out_dir=out, overwrite=overwrite, parallel_mode=mode[0],
               num_proc=mode[1] if mode[0] != "serial" else None)
        return {i: "m%02d.sdf.bz2" % i for i in range(n)}

    def _files_state(self, case):
        """clean outputs, then the run under test on a directory prepared with the pre-existing files; returns
        ({index: 'clean'|'stale'|'other'|absent}, names)"""
        d = tempfile.mkdtemp(prefix="f_", dir=self.tmp())
        try:
            clean = os.path.join(d, "clean")
            names = self._files_run(case, d, clean, False)
            ref = {}
            for i, fn in names.items():
                p = os.path.join(clean, fn)
                ref[i] = open(p, "rb").read() if os.path.exists(p) else None
            out = os.path.join(d, "out")
            for i, kind in case["pre"].items():
                i = int(i)
                if ref[i] is None and kind == "clean":
                    continue
                p = os.path.join(out, names[i])
                os.makedirs(os.path.dirname(p), exist_ok=True)
                with open(p, "wb") as f:
                    f.write(b"stale" if kind == "stale" else ref[i])
            self._files_run(case, d, out, case["overwrite"], case["order"], tuple(case["mode"]))
            state = {}
            for i, fn in names.items():
                p = os.path.join(out, fn)
                if os.path.exists(p):
                    b = open(p, "rb").read()
                    state[str(i)] = "clean" if b == ref[i] else ("stale" if b == b"stale" else "other")
            extra = []
            for root, _dirs, fs in os.walk(out):
                for fn in fs:
                    rel = os.path.relpath(os.path.join(root, fn), out)
                    if rel not in names.values():
                        extra.append(rel)
            return {"state": state, "extra": sorted(extra), "clean_missing": sorted(str(i) for i in ref if ref[i] is None)}
        finally:
            shutil.rmtree(d, ignore_errors=True)

    def _confcrash(self, case):
        from e3fp.conformer import generate as CG
        d = tempfile.mkdtemp(prefix="cc_", dir=self.tmp())
        try:
            smi = os.path.join(d, "in.smi")
            with open(smi, "w") as f:
                for i, sm in enumerate(case["smiles"]):
                    f.write("%s m%02d\n" % (sm, i))
            clean, out = os.path.join(d, "clean"), os.path.join(d, "out")
            CG.run(smiles=[smi], num_conf=3, seed=42, out_dir=clean, parallel_mode="serial")
            ref = {fn: open(os.path.join(clean, fn), "rb").read() for fn in sorted(os.listdir(clean))}
            env = dict(os.environ, PYTHONPATH=vlib.VERIF)
            subprocess.run([sys.executable, "-m", "harness.props.C15", "--confchild", out, smi, "m%02d" % case["victim"], case["how"]],
                           cwd=vlib.VERIF, env=env, stdout=subprocess.DEVNULL, stderr=subprocess.DEVNULL, timeout=600)
            mid = sorted(os.listdir(out)) if os.path.isdir(out) else []
            CG.run(smiles=[smi], num_conf=3, seed=42, out_dir=out, overwrite=False, parallel_mode="serial")
            got = {fn: open(os.path.join(out, fn), "rb").read() for fn in sorted(os.listdir(out))}
            return {"ref": sorted(ref), "after_crash": mid, "equal": sorted(fn for fn in ref if got.get(fn) == ref[fn]),
                    "sizes": {fn: len(b) for fn, b in got.items()}}
        finally:
            shutil.rmtree(d, ignore_errors=True)

    def impl(self, case):
        if case["t"] == "confcrash":
            return {"ok": "see prop"}
        if case["t"] == "files":
            return attempt(lambda: self._files_state(case))
        if case["t"] != "batch":
            return {"ok": "see prop"}
        d = tempfile.mkdtemp(prefix="b_", dir=self.tmp())
        try:
            paths = self._inputs(case, d)
            ordered = [paths[i] for i in case["order"]]
            db = os.path.join(d, "out.fpz")
            self._run(ordered, case["opts"], case["mode"], case["workers"], db_file=db)
            rows = db_rows(db)
            return {"ok": [list(r) for r in rows] if rows is not None else None}
        finally:
            shutil.rmtree(d, ignore_errors=True)

    def model_ops(self, case):
        if case["t"] == "files":
            jobs = [[str(i), None if i == case["bad"] else "clean"] for i in case["order"]]
            pre = [[i, k] for i, k in sorted(case["pre"].items()) if not (k == "clean" and int(i) == case["bad"])]
            return [{"op": "batch.files", "overwrite": case["overwrite"], "jobs": jobs, "fs": pre}]
        if case["t"] != "batch":
            return [{"op": "fpr.hash", "words": []}]
        d = tempfile.mkdtemp(prefix="m_", dir=self.tmp())
        try:
            paths = self._inputs(case, d)
            outs = self._per_input(paths, case["opts"])
        finally:
            shutil.rmtree(d, ignore_errors=True)
        sched = case["order"]
        return [{"op": "batch.collect", "outcomes": [None if outs[i] is None else [vlib.canon(r) for r in outs[i]] for i in sched]}]

    def model_answer(self, case, answers):
        if case["t"] == "files":
            a = answers[0]
            if "ok" not in a:
                return a
            return {"ok": {"state": {p: c for p, c in a["ok"]}, "extra": [], "clean_missing": [] if case["bad"] is None else [str(case["bad"])]}}
        if case["t"] != "batch":
            return {"ok": "see prop"}
        import json
        a = answers[0]
        if "ok" not in a:
            return a
        rows = sorted(tuple(json.loads(x)) for x in a["ok"])
        rows = [[r[0], list(r[1]), [list(c) for c in r[2]]] for r in rows]
        return {"ok": rows if rows else None}

    def compare(self, case, a_impl, a_model):
        if case["t"] == "files":
            return vlib.Check.compare(self, case, a_impl, a_model)
        if case["t"] != "batch":
            return None
        if "ok" not in a_impl:
            return {"impl": a_impl}
        gi = a_impl["ok"]
        gi = None if gi is None else [[r[0], list(r[1]), [list(c) for c in r[2]]] for r in gi]
        if vlib.canon(gi) != vlib.canon(a_model.get("ok")):
            return {"impl": gi, "model": a_model.get("ok")}
        return None

    # ------------------------------------------------------------------ property
    def _prop_replaced(self, case):
        from rdkit import Chem
        from rdkit.Geometry import Point3D
        from e3fp.conformer.util import mol_from_sdf
        o = {"bits": 1024, "level": 3, "first": 3, "counts": False}
        d = tempfile.mkdtemp(prefix="r_", dir=self.tmp())
        try:
            src = MG.load_ref(case["ref"])
            m1 = Chem.Mol(src)
            m1.SetProp("_Name", "molA")
            m2 = Chem.Mol(m1)
            for c in m2.GetConformers():
                for i in range(c.GetNumAtoms()):
                    q = c.GetAtomPosition(i)
                    c.SetAtomPosition(i, Point3D(q.x * case["scale"], q.y * abs(case["scale"]), q.z * abs(case["scale"])))
            os.makedirs(os.path.join(d, "in"))
            P, tmp = os.path.join(d, "in", "molA.sdf"), os.path.join(d, "molA_new.sdf")
            mol_to_sdf(m1, P)
            mol_to_sdf(m2, tmp)
            if os.path.getsize(P) != os.path.getsize(tmp) or open(P, "rb").read() == open(tmp, "rb").read():
                self.count("input-replaced:sizes-differ-skipped")
                return None
            base = os.path.join(d, "out_")

            def outputs():
                odir = base + str(o["level"])
                return sorted((str(x.name), tuple(dump_fp(x)["idx"])) for f in sorted(os.listdir(odir)) for x in fpm.loadz(os.path.join(odir, f))) if os.path.isdir(odir) else []

            def direct():
                r = FG.fprints_dict_from_mol(mol_from_sdf(P), bits=o["bits"], first=o["first"], level=o["level"], counts=o["counts"])
                return sorted((str(x.name), tuple(dump_fp(x)["idx"])) for x in r[o["level"]])
            self._run([P], o, case["first_mode"][0], case["first_mode"][1], out_dir_base=base)
            if outputs() != direct():
                return None          # (the plain case belongs to the cases above)
            st = os.stat(P)
            os.replace(tmp, P)
            os.utime(P, ns=(st.st_atime_ns, st.st_mtime_ns))
            want = direct()
            db = os.path.join(d, "second.fpz")
            self._run([P], o, case["modes"][0], case["modes"][1], out_dir_base=base, overwrite=True, db_file=db)
            got = outputs()
            rows = db_rows(db)
            got_db = None if rows is None else sorted((r[0], tuple(r[1])) for r in rows)
            if got != want or got_db != want:
                return {"key": "batch-answers-for-earlier-file-content:%s" % case["modes"][0],
                        "what": "an input replaced (same size, same modification time, coordinates x %s) between two batches of one process: the second batch (%s, overwrite) wrote %s fingerprints equal to the file's current content in its outputs and %s in the database, of %d" % (
                            case["scale"], case["modes"][0], sum(1 for x in got if x in want), "none" if got_db is None else sum(1 for x in got_db if x in want), len(want))}
        except Exception as e:  # noqa: BLE001
            return {"key": "batch-raises:replaced:" + type(e).__name__, "what": "batch over a replaced input raised %r" % e}
        finally:
            shutil.rmtree(d, ignore_errors=True)
        return None

    def prop(self, case):
        if case["t"] == "replaced":
            return self._prop_replaced(case)
        if case["t"] == "confcrash":
            r = attempt(lambda: self._confcrash(case))
            if "err" in r:
                return {"key": "batch-raises:confcrash:" + r["err"], "what": "the conformer batch raised %s" % r["err"]}
            o = r["ok"]
            if o["equal"] != o["ref"]:
                bad = [fn for fn in o["ref"] if fn not in o["equal"]]
                return {"key": "resume-incomplete:conformers:after-%s" % case["how"],
                        "what": "conformer generation was %s while %s was being generated; after the re-run without overwrite the outputs %s are "
                                "not those of a clean run (sizes %s; files present after the interruption: %s)" % (
                                    "killed" if case["how"] == "kill" else "made to fail", "m%02d" % case["victim"], bad,
                                    {fn: o["sizes"].get(fn) for fn in bad}, o["after_crash"])}
            return None
        if case["t"] == "files":
            r = attempt(lambda: self._files_state(case))
            if "err" in r:
                return {"key": "batch-raises:files:%s:%s" % (case["route"], r["err"]), "what": "the %s batch raised %s" % (case["route"], r["err"])}
            st = r["ok"]["state"]
            for i in range(case["n"]):
                k = case["pre"].get(str(i))
                if i == case["bad"]:
                    want = k if k == "stale" else None          # a failing input writes nothing and touches nothing
                elif k is not None and not case["overwrite"]:
                    want = k                                    # existing outputs are left byte-for-byte untouched
                else:
                    want = "clean"                              # missing outputs are completed, overwrite regenerates
                if st.get(str(i)) != want:
                    return {"key": "save-run-files:%s:%s" % (case["route"], "overwrite" if case["overwrite"] else "resume"),
                            "what": "%s batch (%s x%d, overwrite=%s): output %d is %s, expected %s (pre-existing: %s)" % (
                                case["route"], case["mode"][0], case["mode"][1], case["overwrite"], i, st.get(str(i)), want, k)}
            if r["ok"]["extra"]:
                return {"key": "save-run-extra-files:" + case["route"], "what": "unexpected output files %s" % r["ok"]["extra"]}
            return None
        d = tempfile.mkdtemp(prefix="p_", dir=self.tmp())
        try:
            paths = self._inputs(case, d)
            o = case["opts"]
            good = [p for i, p in enumerate(paths) if i not in case["bad"]]
            if case["t"] == "batch":
                ref_db = os.path.join(d, "ref.fpz")
                self._run(good, o, "serial", 1, db_file=ref_db)
                want = db_rows(ref_db)
                db = os.path.join(d, "out.fpz")
                ordered = [paths[i] for i in case["order"]]
                try:
                    self._run(ordered, o, case["mode"], case["workers"], db_file=db)
                except Exception as e:  # noqa: BLE001
                    return {"key": "batch-raises:%s:%s" % (case["mode"], type(e).__name__), "what": "batch run raised %r" % e}
                got = db_rows(db)
                if got != want:
                    return {"key": "batch-differs:%s" % case["mode"],
                            "what": "mode %s x%d, order %s, bad %s: %s rows vs %s in the clean serial run of the good inputs" % (
                                case["mode"], case["workers"], case["order"], case["bad"], None if got is None else len(got), None if want is None else len(want))}
                return None
            # interruption
            clean = os.path.join(d, "clean_")
            self._run(paths, o, "serial", 1, out_dir_base=clean)
            cdir = clean + str(o["level"])
            clean_files = {f: [dump_fp(x) for x in fpm.loadz(os.path.join(cdir, f))] for f in sorted(os.listdir(cdir))}
            # one output per good input, holding exactly that input's fingerprints (computed without saving)
            per = [r for r in self._per_input(paths, o) if r is not None]
            want_sets = sorted(sorted(r) for r in per)
            got_sets = sorted(sorted((str(x.name), tuple(dump_fp(x)["idx"]), tuple(map(tuple, dump_fp(x)["cnt"]))) for x in fpm.loadz(os.path.join(cdir, f)))
                              for f in sorted(os.listdir(cdir)))
            if got_sets != want_sets:
                return {"key": "outputs-not-one-per-input", "what": "%d good inputs (names %s) gave %d output files %s whose contents are not the per-input fingerprints" % (
                    len(per), [self._name(case, i) for i in range(len(paths)) if i not in case["bad"]], len(clean_files), sorted(clean_files))}
            # the same process resumes a batch whose outputs were lost: first some files, then the whole output directory
            # (a cleaned scratch area); every re-run without overwrite must complete exactly the missing outputs
            victims = sorted(clean_files)[::2]
            for f in victims:
                os.remove(os.path.join(cdir, f))
            kept = {f: sha(os.path.join(cdir, f)) for f in sorted(os.listdir(cdir))}
            self._run(paths, o, "serial", 1, out_dir_base=clean)
            for f, h in kept.items():
                if sha(os.path.join(cdir, f)) != h:
                    return {"key": "resume-touches-existing", "what": "in-process re-run without overwrite changed existing output %s" % f}
            again = {f: [dump_fp(x) for x in fpm.loadz(os.path.join(cdir, f))] for f in sorted(os.listdir(cdir))}
            if again != clean_files:
                return {"key": "resume-incomplete:in-process:files-removed",
                        "what": "after removing %d output files, a re-run in the same process restored %d of %d outputs" % (len(victims), len(again), len(clean_files))}
            shutil.rmtree(cdir)
            for mode, workers in (("serial", 1), ("threads", 2)):
                self._run(paths, o, mode, workers, out_dir_base=clean)
                again = {f: [dump_fp(x) for x in fpm.loadz(os.path.join(cdir, f))] for f in sorted(os.listdir(cdir))} if os.path.isdir(cdir) else {}
                if again != clean_files:
                    return {"key": "resume-incomplete:in-process:directory-removed",
                            "what": "after the output directory was removed, a %s re-run in the same process wrote %d of %d outputs" % (mode, len(again), len(clean_files))}
                if mode == "serial":
                    shutil.rmtree(cdir)
            for k in case["ks"]:
                base = os.path.join(d, "run%d_" % k)
                env = dict(os.environ, PYTHONPATH=vlib.VERIF, C15_CRASH_AFTER=str(k))
                args = [sys.executable, "-m", "harness.props.C15", "--child", base, str(o["bits"]), str(o["first"]), str(o["level"]), str(int(o["counts"]))] + paths
                subprocess.run(args, cwd=vlib.VERIF, env=env, stdout=subprocess.DEVNULL, stderr=subprocess.DEVNULL, timeout=600)
                odir = base + str(o["level"])
                pre = {f: sha(os.path.join(odir, f)) for f in sorted(os.listdir(odir))} if os.path.isdir(odir) else {}
                if len(pre) != min(k, len(good)):
                    # the crash hook fires after the k-th completed save
                    if len(pre) > len(good):
                        return {"key": "interrupt-harness", "what": "unexpected number of outputs %d after crash at %d" % (len(pre), k)}
                self._run(paths, o, "serial", 1, out_dir_base=base)
                post = {f: sha(os.path.join(odir, f)) for f in sorted(os.listdir(odir))}
                for f, h in pre.items():
                    if post.get(f) != h:
                        return {"key": "resume-touches-existing", "what": "re-run without overwrite changed existing output %s (crash after %d)" % (f, k)}
                got_files = {f: [dump_fp(x) for x in fpm.loadz(os.path.join(odir, f))] for f in sorted(os.listdir(odir))}
                if got_files != clean_files:
                    missing = sorted(set(clean_files) - set(got_files))
                    return {"key": "resume-incomplete", "what": "after crash at %d and a re-run, outputs differ from the clean run (missing %s)" % (k, missing)}
                # overwrite regenerates
                for f in os.listdir(odir):
                    with open(os.path.join(odir, f), "wb") as fh:
                        fh.write(b"stale")
                self._run(paths, o, "serial", 1, out_dir_base=base, overwrite=True)
                got2 = {f: [dump_fp(x) for x in fpm.loadz(os.path.join(odir, f))] for f in sorted(os.listdir(odir))}
                if got2 != clean_files:
                    return {"key": "overwrite-does-not-regenerate", "what": "re-run with overwrite did not regenerate the outputs"}
                # and without overwrite stale files stay untouched
            return None
        finally:
            shutil.rmtree(d, ignore_errors=True)

    def nontrivial(self, case, a_impl):
        return vlib.canon(case)


def child(argv):
    """the batch, with an exit injected after the k-th completed save"""
    vlib.setup_env()
    base, bits, first, level, counts = argv[0], int(argv[1]), int(argv[2]), int(argv[3]), bool(int(argv[4]))
    paths = argv[5:]
    k = int(os.environ.get("C15_CRASH_AFTER", "-1"))
    import e3fp.fingerprint.fprint as F
    orig = F.savez
    state = {"n": 0}

    def savez(*a, **kw):
        if state["n"] >= k >= 0:
            os._exit(3)
        r = orig(*a, **kw)
        state["n"] += 1
        if state["n"] >= k >= 0:
            os._exit(3)
        return r
    F.savez = savez
    FG.fp.savez = savez
    FG.run(paths, bits=bits, first=first, level=level, counts=counts, out_dir_base=base, parallel_mode="serial")


def confchild(argv):
    """the conformer batch, dying (or failing) while the victim's conformers are being generated"""
    vlib.setup_env()
    out, smi, victim, how = argv[:4]
    from e3fp.conformer import generate as CG
    from e3fp.conformer.generator import ConformerGenerator
    orig = ConformerGenerator.generate_conformers

    def gen(self, mol):
        if mol.HasProp("_Name") and mol.GetProp("_Name") == victim:
            if how == "kill":
                os._exit(137)
            raise MemoryError("transient failure injected by the harness")
        return orig(self, mol)
    ConformerGenerator.generate_conformers = gen
    CG.run(smiles=[smi], num_conf=3, seed=42, out_dir=out, parallel_mode="serial")


if __name__ == "__main__":
    if "--confchild" in sys.argv:
        confchild(sys.argv[sys.argv.index("--confchild") + 1:])
        sys.exit(0)
    if "--child" in sys.argv:
        child(sys.argv[sys.argv.index("--child") + 1:])
        sys.exit(0)
    sys.exit(vlib.run_check(C15))
