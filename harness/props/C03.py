"""C03 - fingerprints do not depend on atom numbering or conformer storage order."""
from __future__ import annotations

import itertools
import sys

from rdkit import Chem

from harness import vlib
from harness import molgen as MG
from harness.fprcheck import FprCheck, build, observable


class C03(FprCheck):
    id = "C03"
    props_modules = ["E3fpVerif.Props.C03"]
    rule = ("seeded conformers x option draws, each with renumbered twins built by Chem.RenumberAtoms (all n! orders for "
            "molecules of <= 4 atoms, otherwise reversal, adjacent transpositions and seeded random permutations) and "
            "with the conformers of the molecule stored in shuffled order; one fingerprinter fed the molecule and then its renumbered copy in each "
            "calling form (run(conf, mol), run(conf), run(id, mol)); a 268-heavy-atom chain once per run. Non-trivial: >= 2 levels; distinct by "
            "(molecule, conformer, options, permutation).")

    def gen_cases(self):
        rng = self.rng
        n = 35 if self.tier == "quick" else 600
        for ref, ci in self.sample_confs(n):
            mol = MG.load_ref(ref)
            na = mol.GetNumAtoms()
            o = MG.cap_opts(ref, MG.gen_opts(rng))
            qs = MG.gen_queries(rng, o, 1)
            base = {"t": "perm", "ref": ref, "conf": ci, "tr": None, "perm": None, "opts": o, "queries": qs}
            yield base
            perms = []
            if na <= 4:
                perms = [list(p) for p in itertools.permutations(range(na))][1:]
            else:
                perms.append(list(reversed(range(na))))
                for _ in range(2):
                    i = rng.randrange(na - 1)
                    p = list(range(na))
                    p[i], p[i + 1] = p[i + 1], p[i]
                    perms.append(p)
                for _ in range(2 if self.tier == "quick" else 4):
                    p = list(range(na))
                    rng.shuffle(p)
                    perms.append(p)
                # a renumbering that leaves element and degree at every index unchanged (two like atoms swapped): the molecule
                # "looks the same" position by position, only bonds and coordinates tell the two numberings apart
                cls = {}
                for a in mol.GetAtoms():
                    cls.setdefault((a.GetAtomicNum(), a.GetDegree()), []).append(a.GetIdx())
                like = [v for k, v in cls.items() if len(v) >= 2 and k[0] > 1]
                if like:
                    v = rng.choice(like)
                    i, j = rng.sample(v, 2)
                    p = list(range(na))
                    p[i], p[j] = p[j], p[i]
                    perms.append(p)
                    self.count("renumbered:like-atoms-swapped")
                    if len(v) >= 3:
                        p = list(range(na))
                        w = list(v)
                        rng.shuffle(w)
                        for x, y in zip(v, w):
                            p[x] = y
                        perms.append(p)
            for p in perms:
                self.count("renumbered")
                yield dict(base, perm=p)
            if mol.GetNumConformers() > 1:
                self.count("conformer-order")
                yield dict(base, t="conforder", shuffle=rng.randrange(10 ** 6))

    def impl(self, case):
        if case["t"] == "conforder":
            return {"ok": "see prop"}
        return super().impl(case)

    def model_ops(self, case):
        if case["t"] == "conforder":
            return [{"op": "fpr.hash", "words": []}]
        return super().model_ops(case)

    def model_answer(self, case, answers):
        if case["t"] == "conforder":
            return {"ok": "see prop"}
        return super().model_answer(case, answers)

    def prop(self, case):
        o = case["opts"]
        if case["t"] == "conforder":
            import random
            mol = MG.load_ref(case["ref"])
            if not MG.in_domain(mol, o):
                return None
            order = list(range(mol.GetNumConformers()))
            random.Random(case["shuffle"]).shuffle(order)
            m2 = Chem.Mol(mol)
            m2.RemoveAllConformers()
            for j in order:
                m2.AddConformer(Chem.Conformer(mol.GetConformer(j)), assignId=True)
            qs = case.get("queries", [])
            for newpos, j in enumerate(order[:6]):
                a = MG.run_impl(mol, mol.GetConformer(j), o, qs)
                b = MG.run_impl(m2, m2.GetConformer(newpos), o, qs)
                if a != b:
                    return {"key": "conformer-order-changes-fingerprint", "what": "conformer %d gives a different fingerprint when stored at position %d" % (j, newpos)}
            # conformers addressed by their integer id (`run(conf_id, mol)`) in a molecule whose conformers were re-stored in another
            # order with their ids carried along (AddConformer(assignId=False)): id 0 need not be the first one stored
            m3 = Chem.Mol(mol)
            m3.RemoveAllConformers()
            for j in order[:6]:
                c = Chem.Conformer(mol.GetConformer(j))
                c.SetId(j)
                m3.AddConformer(c, assignId=False)
            from harness.fpgen import attempt as _attempt
            for j in order[:6]:
                a = MG.run_impl(mol, mol.GetConformer(j), o, qs)

                def by_id(j=j):
                    f = MG.make_fprinter(o)
                    f.run(j, m3)
                    return MG.dump_run(f, qs)
                b = _attempt(by_id)
                if a != b:
                    return {"key": "conformer-order-changes-fingerprint:addressed-by-id",
                            "what": "conformer id %d fingerprinted by id gives another result once the conformers are stored in the order %s (ids kept)" % (j, order[:6])}
            # the package's own multi-conformer route (one fingerprinter over the conformers in storage order), every level up
            # to one most conformers converge before; four conformers, in the original and in the shuffled relative order
            from e3fp.fingerprint.generate import fprints_dict_from_mol
            from harness.fpgen import dump_fp
            L = 14
            kw = dict(bits=o["bits"], level=L, radius_multiplier=max(o["radius_multiplier"], 1.718), first=-1, counts=o["counts"], stereo=o["stereo"],
                      include_disconnected=o["include_disconnected"], rdkit_invariants=o["rdkit_invariants"],
                      exclude_floating=o["exclude_floating"], remove_duplicate_substructs=True, all_iters=True)
            # prefer conformers that converge at different levels (scan of up to 12, one fresh fingerprinter each)
            import random as _r
            rr = _r.Random(case["shuffle"] + 1)
            kw["radius_multiplier"] = rr.choice([1.3, 1.5, 1.718, 1.718, 2.0, 2.3])
            scan = {}
            for j in order[:12]:
                f = MG.make_fprinter(dict(o, level=L, radius_multiplier=kw["radius_multiplier"], remove_duplicate_substructs=True))
                f.run(mol.GetConformer(j), mol)
                scan.setdefault(f.current_level, []).append(j)
            by_level = sorted(scan.items(), reverse=True)
            chosen = [js[0] for _, js in by_level] + [j for _, js in by_level for j in js[1:]]
            self.count("conformer-order:distinct-convergence-levels=%d" % len(scan))
            order = [j for j in order if j in chosen[:4]]
            rr.shuffle(order)
            pick = sorted(order)
            if order == pick:
                order = list(reversed(order))
            # conformer ids: sequential, all equal (what Mol.AddConformer(conf) does by default when a molecule is assembled
            # from single-conformer records), or arbitrary - a conformer is identified by its position, not by its id
            idmode = rr.choice(["sequential", "all-zero", "arbitrary"])
            self.count("conformer-ids:" + idmode)

            def sub(ids):
                m = Chem.Mol(mol)
                m.RemoveAllConformers()
                for j in ids:
                    c = Chem.Conformer(mol.GetConformer(j))
                    if idmode == "sequential":
                        m.AddConformer(c, assignId=True)
                    else:
                        c.SetId(0 if idmode == "all-zero" else 7 * j + 3)
                        m.AddConformer(c, assignId=False)
                return m
            mol, m2 = sub(pick), sub(order)
            order = [pick.index(j) for j in order]

            def strip(d):
                d = dict(d)
                d.pop("name", None)
                return d
            da, db = fprints_dict_from_mol(mol, **kw), fprints_dict_from_mol(m2, **kw)
            if sorted(da) != sorted(db):
                return {"key": "conformer-order-changes-levels", "what": "levels %s vs %s" % (sorted(da), sorted(db))}
            for lvl in sorted(da):
                for newpos, j in enumerate(order):
                    if strip(dump_fp(da[lvl][j])) != strip(dump_fp(db[lvl][newpos])):
                        return {"key": "conformer-order-changes-fingerprint:multi-conformer-route",
                                "what": "fprints_dict_from_mol(all_iters): level %d fingerprint of conformer %d differs when the conformers are stored in the order %s" % (lvl, j, order[:12])}
            return None
        if not case.get("perm"):
            return None
        base = dict(case, perm=None)
        mol0, _ = build(base)
        if not MG.in_domain(mol0, o):
            return None
        a = self.robust_impl(base)
        if a is None:
            return None
        mol, conf = build(case)
        b = MG.run_impl(mol, conf, o, case.get("queries", []))
        if "err" in a or "err" in b:
            return None if a == b else {"key": "renumbering-changes-error", "what": "%s vs %s" % (a, b)}
        perm = case["perm"]          # new index i holds old atom perm[i]
        oa = observable(a["ok"])
        ob = observable(b["ok"], relabel={i: perm[i] for i in range(len(perm))})
        if oa != ob:
            lvl = next((i for i, (x, y) in enumerate(zip(oa["levels"], ob["levels"])) if x != y), None)
            return {"key": "renumbering-changes-fingerprint", "what": "fingerprint changed under atom renumbering (first differing level %s; stop level %s vs %s)" % (
                lvl, oa["current"], ob["current"])}
        # one fingerprinter object fed the molecule and then its renumbered copy (a renumbered file of the same compound keeps
        # the molecule's name): the copy's fingerprint is that of a fresh fingerprinter
        mol0, conf0 = build(base)
        if mol0.HasProp("_Name"):
            mol.SetProp("_Name", mol0.GetProp("_Name"))
        # ... in each calling form: conformer and molecule, the conformer alone (its owning molecule is looked up), conformer id
        for form in ("conf+mol", "conf", "id+mol"):
            fpr = MG.make_fprinter(o)
            try:
                if form == "conf+mol":
                    fpr.run(conf0, mol0)
                    fpr.run(conf, mol)
                elif form == "conf":
                    fpr.run(conf0)
                    fpr.run(conf)
                else:
                    fpr.run(conf0.GetId(), mol0)
                    fpr.run(conf.GetId(), mol)
                c = {"ok": MG.dump_run(fpr, case.get("queries", []))}
            except Exception as e:  # noqa: BLE001
                c = {"err": type(e).__name__}
            if "ok" in c and vlib.canon(observable(c["ok"])) != vlib.canon(observable(b["ok"])):
                return {"key": "renumbering-changes-fingerprint:same-fingerprinter" + ("" if form == "conf+mol" else ":run(%s)" % form),
                        "what": "a fingerprinter that processed the molecule and then its renumbered copy (run(%s)) gives the copy another fingerprint than a fresh fingerprinter" % form}
        return None


if __name__ == "__main__":
    sys.exit(vlib.run_check(C03))
