"""C20 - configuration values round-trip and defaults are coherent."""
from __future__ import annotations

import ast
import configparser
import os
import re
import shutil
import sys
import tempfile

from harness import vlib

vlib.setup_env()

SECTIONS = ["preprocessing", "conformer_generation", "fingerprinting"]
KEYS = {"preprocessing": ["standardise", "protonate"],
        "conformer_generation": ["num_conf", "first", "pool_multiplier", "rmsd_cutoff", "max_energy_diff", "forcefield", "out_dir", "compress", "seed"],
        "fingerprinting": ["bits", "level", "first", "radius_multiplier", "stereo", "counts", "include_disconnected", "rdkit_invariants",
                           "remove_duplicate_substructs", "exclude_floating"]}


def looks_like_literal(s):
    try:
        ast.literal_eval(s)
        return True
    except (ValueError, SyntaxError):
        return False


def gen_value(rng):
    t = rng.choice(["int", "int", "float", "bool", "none", "str"])
    if t == "int":
        return rng.choice([0, 1, -1, 5, 1024, 2 ** 32, -7, 10 ** 12])
    if t == "float":
        return rng.choice([0.5, 1.718, 1e-07, 1e+22, 0.30000000000000004, -2.5, 100.0, 3.0])
    if t == "bool":
        return rng.random() < 0.5
    if t == "none":
        return None
    return rng.choice(["uff", "mmff94", "conformers", "out dir", "a_b-c", "path/to/x", "é", "x=1", "a:b", "#notcomment"])


def tag(v):
    return [type(v).__name__, repr(v)]


class C20(vlib.Check):
    id = "C20"
    props_modules = ["E3fpVerif.Props.C20", "E3fpVerif.Props.C20State"]
    gen_items = ["defaults"]
    rule = ("(a) coherence: the defaults table regenerated from /repo (123 declarations over 9 sources) is decided by the kernel, "
            "and cross-checked against live inspect.signature / argparse values; (b) round trip: seeded option dictionaries "
            "over the three sections with int / float / bool / None / non-literal string values, every subset written to a "
            "parameter file, read back with and without fill_defaults, through params_to_dicts; (c) fingerprints computed "
            "through a parameter file vs the same options passed directly. Non-trivial: at least 3 options of 2 types; distinct by case.")
    trusted_base = ["configparser, ast.literal_eval, repr(float) round-tripping (compared on every run)"]

    def tmp(self):
        if not hasattr(self, "_tmp"):
            self._tmp = tempfile.mkdtemp(prefix="c20_", dir=vlib.WORK)
        return self._tmp

    def __del__(self):
        t = getattr(self, "_tmp", None)
        if t:
            shutil.rmtree(t, ignore_errors=True)

    def gen_cases(self):
        rng = self.rng
        yield {"t": "coherence"}
        n = 120 if self.tier == "quick" else 2500
        for _ in range(n):
            d = {}
            for sec in SECTIONS:
                ks = [k for k in KEYS[sec] if rng.random() < 0.5]
                if rng.random() < 0.2:
                    ks.append("custom_opt")
                d[sec] = [[k, tag_val(gen_value(rng))] for k in ks]
            self.count("roundtrip")
            case = {"t": "roundtrip", "opts": d, "fill": rng.random() < 0.5}
            if rng.random() < 0.15:
                # earlier in the same process a variant was derived from the packaged-defaults object (documented usage:
                # update_params(..., params=default_params)); a later file read with fill_defaults still falls back to the *packaged* values
                case["derive_first"] = {"level": rng.choice([2, 7]), "counts": True, "stereo": False, "bits": 4096}
                case["fill"] = True
                self.count("roundtrip:after-deriving-from-default_params")
            yield case
        # histories on the parameter state (Model/ConfigState): variants derived from the live `default_params` object, files read
        # with and without fill_defaults, get_default_value - the packaged file is what a read falls back to, whatever came before
        for _ in range(25 if self.tier == "quick" else 500):
            ops = []
            for _k in range(rng.randint(2, 6)):
                c = rng.choice(["derive", "read", "read", "get_default"])
                sec = rng.choice(SECTIONS)
                if c == "derive":
                    ops.append({"o": "derive", "sec": sec, "kv": [[k, cval(gen_value(rng))] for k in rng.sample(KEYS[sec] + ["custom_opt"], rng.randint(1, 3))]})
                elif c == "read":
                    user = [[s2, k, cval(gen_value(rng))] for s2 in SECTIONS for k in KEYS[s2] if rng.random() < 0.25]
                    ops.append({"o": "read", "user": user, "fill": rng.random() < 0.6})
                else:
                    ops.append({"o": "get_default", "sec": sec, "opt": rng.choice(KEYS[sec])})
            self.count("parameter-state-history")
            yield {"t": "cfghist", "ops": ops}
        for k in range(6 if self.tier == "quick" else 30):
            self.count("file-vs-direct")
            yield {"t": "direct", "seed": rng.randrange(10 ** 6)}

    # ------------------------------------------------------------------
    def _roundtrip(self, case):
        from e3fp.config import params as P
        from e3fp.pipeline import params_to_dicts
        if case.get("derive_first"):
            P.update_params(dict(case["derive_first"]), params=P.default_params, section_name="fingerprinting")
        cp = configparser.ConfigParser()
        for sec in SECTIONS:
            P.update_params({k: untag(v) for k, v in case["opts"][sec]}, cp, section_name=sec)
        path = os.path.join(self.tmp(), "p%d.cfg" % (id(case) % 99999))
        try:
            P.write_params(cp, path)
            back = P.read_params(path, fill_defaults=case["fill"])
            secs = P.params_to_sections_dict(back, auto=True)
            confgen, fprint = params_to_dicts(path) if not case["fill"] else params_to_dicts(back)
        finally:
            if os.path.exists(path):
                os.remove(path)
        return secs, confgen, fprint

    def _cfghist(self, case):
        from e3fp.config import params as P
        P.default_params = P.read_params(fill_defaults=True)        # every history starts from the packaged defaults
        out = []
        for k, op in enumerate(case["ops"]):
            if op["o"] == "derive":
                P.update_params({a: uncv(b) for a, b in op["kv"]}, params=P.default_params, section_name=op["sec"])
                out.append(None)
            elif op["o"] == "read":
                cp = configparser.ConfigParser()
                for sec in SECTIONS:
                    d = {o2: uncv(v) for s2, o2, v in op["user"] if s2 == sec}
                    if d:
                        P.update_params(d, cp, section_name=sec)
                path = os.path.join(self.tmp(), "h%d_%d.cfg" % (id(case) % 99999, k))
                try:
                    P.write_params(cp, path)
                    secs = P.params_to_sections_dict(P.read_params(path, fill_defaults=op["fill"]), auto=True)
                finally:
                    if os.path.exists(path):
                        os.remove(path)
                out.append(sorted([s2, o2, cval(v)] for s2, d in secs.items() for o2, v in d.items()))
            else:
                v = P.get_value(P.default_params, op["sec"], op["opt"], auto=True, fallback="<fallback>")
                out.append(cval(v))
        P.default_params = P.read_params(fill_defaults=True)
        return out

    def impl(self, case):
        if case["t"] == "cfghist":
            try:
                return {"ok": self._cfghist(case)}
            except Exception as e:  # noqa: BLE001
                return {"err": type(e).__name__}
        if case["t"] in ("literal-string", "ini-boolean", "nonfinite-float"):
            return {"ok": "see prop"}
        if case["t"] == "roundtrip":
            try:
                secs, _, _ = self._roundtrip(case)
                return {"ok": {sec: sorted([k, tag(v)] for k, v in secs.get(sec, {}).items()) for sec in SECTIONS}}
            except Exception as e:  # noqa: BLE001
                return {"err": type(e).__name__}
        return {"ok": "see prop"}

    def model_ops(self, case):
        if case["t"] == "cfghist":
            return [{"op": "cfg.hist", "ops": case["ops"]}]
        if case["t"] == "roundtrip":
            vals = []
            for sec in SECTIONS:
                for k, v in case["opts"][sec]:
                    vals.append(cval(untag(v)))
            return [{"op": "cfg.roundtrip", "vals": vals}]
        return [{"op": "fpr.hash", "words": []}]

    def model_answer(self, case, answers):
        if case["t"] == "cfghist":
            a = answers[0]
            if "ok" not in a:
                return a
            return {"ok": [sorted(x) if isinstance(x, list) else x for x in a["ok"]]}
        if case["t"] != "roundtrip":
            return {"ok": "see prop"}
        from e3fp.config import params as P
        a = answers[0]
        if "ok" not in a:
            return a
        it = iter(a["ok"])
        out = {}
        defaults = packaged_defaults() if case["fill"] else {}
        for sec in SECTIONS:
            d = dict((k, tag(v)) for k, v in defaults.get(sec, {}).items())
            for k, v in case["opts"][sec]:
                d[k.lower()] = uncval(next(it))
            out[sec] = sorted([k, v] for k, v in d.items())
        return {"ok": out}

    # ------------------------------------------------------------------ property
    def prop(self, case):
        if case["t"] == "cfghist":
            # the fallback clause evaluated directly: every read with fill_defaults gives, for each option the user file lacks, the
            # value an independent parse of defaults.cfg gives - wherever in the history the read stands
            got = self._cfghist(case)
            d = packaged_defaults()
            for op, ans in zip(case["ops"], got):
                if op["o"] != "read" or not op["fill"]:
                    continue
                have = {(s2, o2): v for s2, o2, v in ans}
                given = {(s2, o2.lower()) for s2, o2, _ in op["user"]}
                for sec in SECTIONS:
                    for k, v in d.get(sec, {}).items():
                        if (sec, k) not in given and have.get((sec, k)) != cval(v):
                            return {"key": "fallback-missing:after-history", "what": "%s.%s absent from the user file reads %r, the packaged default is %r (history: %s)" % (
                                sec, k, have.get((sec, k)), v, [o["o"] for o in case["ops"]])}
            return None
        if case["t"] == "coherence":
            from harness import extract
            rows = extract.live_default_rows(vlib.REPO)
            for src, sec, opt, val, cfgval in rows:
                if norm(opt, val) != norm(opt, cfgval):
                    return {"key": "default-incoherent:%s:%s" % (opt, src),
                            "what": "%s declares %s = %r but defaults.cfg documents %r" % (src, opt, val, cfgval)}
            return None
        if case["t"] == "roundtrip":
            try:
                secs, confgen, fprint = self._roundtrip(case)
            except Exception as e:  # noqa: BLE001
                return {"key": "roundtrip-raises:" + type(e).__name__, "what": "write/read of a parameter file raised %r" % e}
            for sec in SECTIONS:
                for k, tv in case["opts"][sec]:
                    v = untag(tv)
                    got = secs.get(sec, {}).get(k.lower(), "<missing>")
                    if isinstance(v, str) and (looks_like_literal(v) or "%" in v or v != v.strip()):
                        continue
                    if type(got) is not type(v) or got != v:
                        return {"key": "roundtrip-differs:%s" % type(v).__name__, "what": "%s.%s written as %r reads back as %r" % (sec, k, v, got)}
            # the two dictionaries the pipeline works with: conformer generation (with the preprocessing options merged in) and fingerprinting
            want_conf = dict(secs.get("conformer_generation", {}))
            want_conf.update(secs.get("preprocessing", {}))
            if confgen != want_conf or fprint != secs.get("fingerprinting", {}):
                return {"key": "params-to-dicts-differs", "what": "params_to_dicts gives %r / %r, the sections hold %r / %r" % (confgen, fprint, want_conf, secs.get("fingerprinting", {}))}
            if case["fill"]:
                d = packaged_defaults()
                for sec in SECTIONS:
                    given = {k.lower() for k, _ in case["opts"][sec]}
                    for k, v in d.get(sec, {}).items():
                        if k not in given and secs.get(sec, {}).get(k, "<missing>") != v:
                            return {"key": "fallback-missing", "what": "%s.%s absent from the user file does not fall back to the packaged default" % (sec, k)}
            return None
        if case["t"] == "direct":
            return self._file_vs_direct(case)
        if case["t"] == "nonfinite-float":
            v = float(case["value"])
            c2 = {"t": "roundtrip", "fill": False, "opts": {"preprocessing": [], "fingerprinting": [],
                                                           "conformer_generation": [[case["key_name"], ["float", repr(v)]]]}}
            secs, _, _ = self._roundtrip(c2)
            got = secs["conformer_generation"][case["key_name"]]
            if type(got) is not float or (got != v and v == v):
                return {"key": case["key"], "what": "float option %s = %r reads back as %r (%s)" % (case["key_name"], v, got, type(got).__name__)}
            return None
        if case["t"] == "ini-boolean":
            # a hand-written parameter file using an INI spelling of a boolean, read by the two routes of the library: the batch /
            # command-line route (typed getters) and the pipeline route (params_to_dicts: automatic typing)
            from e3fp.pipeline import params_to_dicts
            from e3fp.config import params as P
            path = os.path.join(self.tmp(), "ini%d.cfg" % abs(hash(case["text"])) )
            open(path, "w").write("[fingerprinting]\n%s = %s\n" % (case["option"], case["text"]))
            try:
                typed = P.get_value(P.read_params(path), "fingerprinting", case["option"], bool)
                _, fp = params_to_dicts(path)
            finally:
                os.remove(path)
            if fp.get(case["option"]) is not typed and bool(fp.get(case["option"])) != typed:
                return {"key": case["key"], "what": "%s = %s in a parameter file is %r for the batch route and %r (truth value %s) for the pipeline route" % (
                    case["option"], case["text"], typed, fp.get(case["option"]), bool(fp.get(case["option"])))}
            return None
        if case["t"] == "literal-string":
            c2 = {"t": "roundtrip", "fill": False, "opts": {"preprocessing": [], "fingerprinting": [],
                                                           "conformer_generation": [[case["key_name"], tag(case["value"])]]}}
            secs, _, _ = self._roundtrip(c2)
            got = secs["conformer_generation"][case["key_name"]]
            if type(got) is not str or got != case["value"]:
                return {"key": case["key"], "what": "string option %s = %r reads back as %r (%s)" % (case["key_name"], case["value"], got, type(got).__name__)}
            return None

    def _file_vs_direct(self, case):
        import random
        from harness import molgen as MG
        from harness.fpgen import dump_fp
        from e3fp.config import params as P
        from e3fp.pipeline import params_to_dicts, fprints_from_mol
        rng = random.Random(case["seed"])
        o = MG.gen_opts(rng)
        o["first"] = rng.choice([1, 2, 3])
        ref = rng.choice(MG.all_refs()[:10])
        mol = MG.load_ref(ref)
        if not MG.in_domain(mol, o):
            return None
        cp = P.update_params(o, section_name="fingerprinting")
        path = os.path.join(self.tmp(), "d%d.cfg" % case["seed"])
        P.write_params(cp, path)
        try:
            _, fprint_params = params_to_dicts(path)
        finally:
            os.remove(path)
        a = [dump_fp(f) for f in fprints_from_mol(mol, fprint_params=fprint_params)]
        b = [dump_fp(f) for f in fprints_from_mol(mol, fprint_params=dict(o))]
        if a != b:
            return {"key": "file-vs-direct-differs", "what": "fingerprints from a parameter file differ from the same options passed directly", "opts": o}
        if not a:
            return {"key": "file-vs-direct-empty", "what": "no fingerprints"}
        # the batch route (what the command line runs) reading a parameter file - as the library writes it, and as a user writes
        # it by hand with the INI spellings of booleans (configparser: yes/no, on/off, true/false in any case, 1/0) - against the
        # same options passed as arguments
        from e3fp.fingerprint import generate as FG
        from e3fp.fingerprint.db import FingerprintDatabase
        sdfs = sorted(__import__("glob").glob(os.path.join(vlib.REPO, "tests", "data", "rand_sdf_files", "*.sdf.bz2")))[:3]
        bo = dict(o, bits=o["bits"] if o["bits"] <= 4096 else 1024, level=o["level"] if o["level"] != -1 else 5)
        style = rng.choice(["library", "hand", "hand"])
        spell = {True: ["True", "true", "yes", "on", "TRUE", "Yes", "1"], False: ["False", "false", "no", "off", "FALSE", "No", "0"]}
        lines = ["[fingerprinting]"]
        for k, v in bo.items():
            lines.append("%s = %s" % (k, (rng.choice(spell[v]) if style == "hand" else str(v)) if isinstance(v, bool) else v))
        path = os.path.join(self.tmp(), "b%d.cfg" % case["seed"])
        open(path, "w").write("\n".join(lines) + "\n")
        outs = []
        try:
            for kw in ({"params": path}, {k: v for k, v in bo.items()}):
                dbf = os.path.join(self.tmp(), "b%d_%d.fpz" % (case["seed"], len(outs)))
                try:
                    FG.run(sdfs, db_file=dbf, parallel_mode="serial", **kw)
                    db = FingerprintDatabase.load(dbf)
                    outs.append(sorted((f.name, vlib.canon(dump_fp(f))) for f in db))
                finally:
                    if os.path.exists(dbf):
                        os.remove(dbf)
        except Exception as e:  # noqa: BLE001
            return {"key": "batch-file-vs-direct-raises:" + type(e).__name__, "what": "generate.run raised %r" % e}
        finally:
            os.remove(path)
        if outs[0] != outs[1] or not outs[0]:
            return {"key": "batch-file-vs-direct-differs:" + style,
                    "what": "generate.run(params=<%s-written file>) gives other fingerprints than generate.run(**the same options)" % style, "file": lines}
        return None

    def nontrivial(self, case, a_impl):
        if case["t"] != "roundtrip":
            return vlib.canon(case)
        vals = [v for sec in SECTIONS for _, v in case["opts"][sec]]
        if len(vals) >= 3 and len({v[0] for v in vals}) >= 2:
            return vlib.canon(case)
        return None


def tag_val(v):
    return tag(v)


def packaged_defaults():
    """defaults.cfg parsed here, without going through e3fp.config.params (whose state a defect could pollute)"""
    cp = configparser.ConfigParser()
    cp.read(os.path.join(vlib.REPO, "src", "e3fp", "config", "defaults.cfg"))
    out = {}
    for sec in cp.sections():
        out[sec] = {}
        for k, raw in cp.items(sec):
            try:
                out[sec][k] = ast.literal_eval(raw)
            except (ValueError, SyntaxError):
                out[sec][k] = raw
    return out


def untag(t):
    name, r = t
    if name == "NoneType":
        return None
    if name == "bool":
        return r == "True"
    if name == "int":
        return int(r)
    if name == "float":
        return float(r)
    return ast.literal_eval(r)


def uncv(j):
    """model value -> Python value"""
    return untag(uncval(j))


def cval(v):
    if v is None:
        return {"none": True}
    if isinstance(v, bool):
        return {"bool": v}
    if isinstance(v, int):
        return {"int": v}
    if isinstance(v, float):
        return {"float": repr(v)}
    return {"str": v}


def uncval(j):
    if "none" in j:
        return tag(None)
    if "bool" in j:
        return tag(bool(j["bool"]))
    if "int" in j:
        return tag(int(j["int"]))
    if "float" in j:
        return tag(float(j["float"]))
    return tag(j["str"])


def norm(opt, v):
    if opt == "max_energy_diff" and (v is None or (isinstance(v, (int, float)) and not isinstance(v, bool) and v < 0)):
        return None
    if opt == "level" and v is None:
        return -1
    return (type(v).__name__, v)


if __name__ == "__main__":
    sys.exit(vlib.run_check(C20))
