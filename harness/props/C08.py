"""C08 - saving and loading a database is lossless."""
from __future__ import annotations

import bz2
import gzip
import os
import shutil
import sys
import tempfile
import warnings

import numpy as np
from scipy.sparse import csr_matrix

from harness import vlib
from harness.fpgen import CLS, KINDS, attempt, gen_fp
from harness.dbgen import (DTYPE, FingerprintDatabase, PROPTYPES, dump_db, gen_fpin, gen_pval, make_fpin, unpval)
from fractions import Fraction


def col_kind(arr):
    k = np.asarray(arr).dtype.kind
    return {"i": "i", "u": "i", "f": "f", "b": "b", "U": "s", "S": "s", "O": "o"}.get(k, k)


def full_dump(db):
    d = dump_db(db)
    d["prop_dtypes"] = sorted([[str(k), col_kind(v)] for k, v in db.props.items()])
    d["array_dtype"] = None if db.array is None else str(db.array.dtype)
    return d


class C08(vlib.Check):
    id = "C08"
    props_modules = ["E3fpVerif.Props.C08", "E3fpVerif.Props.C08Runs"]
    gen_items = ["fprint_fold", "db_io"]
    stateful_driver = True
    rule = ("seeded non-empty databases of the three kinds (bits 1..2^32, any level and name, str/None/duplicate fingerprint "
            "names, int/float/bool/str property columns), built by add_fingerprints or by from_array on sorted / unsorted CSR; "
            "savez+load and deprecated save+load (.fps.bz2 / .fps.gz / .fps) for 1-3 cycles compared field by field; savetxt "
            "(.txt / .gz / .bz2, names on/off) parsed line by line; text exports of up to 2^25 characters (thorough 2^26), save/load of 70 000 - 300 000 rows. Non-trivial: at least two rows, one non-empty; distinct by case.")
    trusted_base = ["NumPy savez/load (npz), pickle, gzip/bz2/smart_open, fixed-width unicode arrays (compared on every run)"]

    def tmp(self):
        if not hasattr(self, "_tmp"):
            self._tmp = tempfile.mkdtemp(prefix="c08_", dir=vlib.WORK)
        return self._tmp

    def __del__(self):
        t = getattr(self, "_tmp", None)
        if t:
            shutil.rmtree(t, ignore_errors=True)

    def gen_cases(self):
        rng = self.rng
        n = 150 if self.tier == "quick" else 2500
        for k in range(n):
            kind = rng.choice(KINDS)
            bits = rng.choice([1, 2, 8, 8, 64, 1024, 100, 99999, 2 ** 20, 2 ** 31, 2 ** 32])
            level = rng.choice([-1, 0, 5, 12])
            keys = rng.choice([[], ["pi"], ["pf", "pb"], ["pi", "pf", "pb", "ps"], ["_pi"], ["pi", "_pi", "__ps"]])
            nrows = rng.randint(1, 6)
            fps = [gen_fpin(rng, kind, bits, level, keys, none_names=True) for _ in range(nrows)]
            name_mode = rng.choice(["mixed", "all-str", "all-none", "dups", "empty-string"])
            for j, f in enumerate(fps):
                if name_mode == "all-str":
                    f["name"] = "n%d" % j
                elif name_mode == "all-none":
                    f["name"] = None
                elif name_mode == "dups":
                    f["name"] = "same"
                elif name_mode == "empty-string" and j % 2 == 0:
                    f["name"] = ""          # a name that is the empty string is a name, not a missing name
            t = rng.choice(["rt", "rt", "rt", "txt"])
            build = rng.choice(["add", "add", "from_array", "from_array_unsorted"])
            forced = k < 9        # stratified: every kind x both array builds with explicitly stored zeros through savez, on every run
            if forced:
                kind, t, build = KINDS[k % 3], "rt", ["from_array", "from_array_unsorted", "from_array"][k // 3]
                bits = bits if bits >= 8 else 64
                fps = [gen_fpin(rng, kind, bits, level, keys, none_names=True) for _ in range(nrows)]
            case = {"t": t, "kind": kind, "bits": bits, "level": level, "name": rng.choice([None, "DB", "x y"]),
                    "fps": fps, "build": build}
            if t == "rt":
                case["how"] = rng.choice(["savez", "savez", "save.fps.bz2", "save.fps.gz", "save.fps"])
                if forced:
                    case["how"] = "savez" if k < 6 else "save.fps.gz"
                case["basename"] = case["how"] == "savez" and rng.random() < 0.25
                case["cycles"] = rng.randint(1, 3)
            else:
                case["kind"] = "bit"
                tb = bits if bits <= 2 ** 14 else rng.choice([8, 64, 1024])
                for f in fps:
                    f["fp"] = gen_fp(rng, "bit", tb, level, maxn=8)
                case["bits"] = fps[0]["fp"]["bits"]
                case["with_names"] = rng.random() < 0.6
                if case["with_names"]:
                    for j, f in enumerate(fps):
                        if f["name"] is None:
                            f["name"] = "n%d" % j
                case["ext"] = rng.choice([".txt", ".txt.gz", ".txt.bz2"])
            if build == "from_array_unsorted":
                case["perm_seed"] = rng.randrange(10 ** 6)
            if build.startswith("from_array") and t == "rt" and (rng.random() < 0.35 or forced):
                # explicitly stored zeros (False in a bit matrix): legitimate CSR content - what a fold with cancelling weights, a
                # threshold `X.data[X.data < t] = 0` or a cast leaves behind; a stored zero is not an "on" position after a reload either
                case["zeros"] = rng.randrange(10 ** 6)
                self.count("explicit-zeros")
            if t == "rt" and rng.random() < 0.35:
                # columns given to the database itself with set_prop, under keys a save format might treat specially
                case["setprops"] = [[key, [{"s": "%s%d" % (key[:1] or "v", j)} for j in range(nrows)]]
                                    for key in rng.sample(["Name", "name", "array", "bits", "fp_names", "level", "_", "fp_type"], rng.randint(1, 2))]
                self.count("set_prop-special-keys")
            self.count("t:" + t)
            self.count("build:" + build)
            self.count("kind:" + case["kind"])
            yield case

        # exports of databases large enough that an implementation working block-wise meets several blocks
        # (a few MB), and one whose text is longer than 2^24 characters (thorough: 2^25)
        for rows, bits in ([(300, 16384), (4500, 1024), (1050, 16384), (2100, 16384)] if self.tier == "quick" else
                           [(300, 16384), (4500, 1024), (70000, 64), (9000, 1024), (40, 2 ** 17), (1050, 16384), (4200, 4096), (2100, 16384), (70000, 512), (4200, 16384)]):
            self.count("t:bigtxt")
            yield {"t": "bigtxt", "rows": rows + rng.randrange(50), "bits": bits, "seed": rng.randrange(10 ** 6), "ext": rng.choice([".txt", ".txt.gz"])}
        # a whole library: more than 2^16 / 2^17 rows of full-length fingerprints with a property column, saved and loaded twice
        for n_ in ([70000] if self.tier == "quick" else [70000, 140000, 300000]):
            self.count("t:bigrt")
            yield {"t": "bigrt", "rows": n_ + rng.randrange(100), "kind": rng.choice(KINDS), "bits": rng.choice([2 ** 32, 4096]), "seed": rng.randrange(10 ** 6),
                   "how": rng.choice(["savez", "savez", "save.fps.gz"])}
        # one path written several times with databases of different sizes (large, then small, then medium), each read back
        hows = ["savez", "save.fps.bz2", "save.fps", "savetxt", "savez"]
        for k in range(6 if self.tier == "quick" else 60):
            self.count("t:overwrite")
            yield {"t": "overwrite", "kind": rng.choice(KINDS), "seed": rng.randrange(10 ** 6), "how": hows[k] if k < len(hows) else rng.choice(hows),
                   "sizes": rng.choice([[400, 3, 60], [60, 2], [200, 1, 200, 5]])}

    def _random_db(self, kind, n, bits, seed, names=True):
        r = np.random.RandomState(seed)
        per = 4
        cols = r.randint(0, bits, size=(n, per))
        cols.sort(axis=1)
        indptr = np.arange(0, n * per + 1, per, dtype=np.int64)
        data = np.ones(n * per, dtype=DTYPE[kind]) if kind == "bit" else r.randint(1, 9, size=n * per).astype(DTYPE[kind])
        arr = csr_matrix((data, cols.ravel().astype(np.int64), indptr), shape=(n, bits))
        arr.sum_duplicates()
        fpn = ["m%05d_%d" % (i // 3, i % 3) for i in range(n)] if names else [None] * n
        return FingerprintDatabase.from_array(arr, fpn, fp_type=CLS[kind], level=5, name="big"), arr, fpn

    def _prop_bigtxt(self, case):
        db, arr, fpn = self._random_db("bit", case["rows"], case["bits"], case["seed"])
        p = os.path.join(self.tmp(), "big%d%s" % (case["seed"], case["ext"]))
        try:
            with warnings.catch_warnings():
                warnings.simplefilter("ignore")
                db.savetxt(p, with_names=True)
            with (gzip.open if case["ext"].endswith(".gz") else open)(p, "rt") as f:
                lines = f.read().split("\n")[:-1]
        except Exception as e:  # noqa: BLE001
            return {"key": "savetxt-raises:" + type(e).__name__, "what": "savetxt of %d rows x %d bits raised %r" % (case["rows"], case["bits"], e)}
        finally:
            if os.path.exists(p):
                os.remove(p)
        if len(lines) != case["rows"]:
            return {"key": "savetxt-wrong:line-count", "what": "%d lines for %d rows" % (len(lines), case["rows"])}
        for i, ln in enumerate(lines):
            bs, _, nm = ln.partition(" ")
            want = bytearray(b"0" * case["bits"])
            for j in arr.indices[arr.indptr[i]:arr.indptr[i + 1]].tolist():
                want[j] = 49
            if bs.encode("ascii", "replace") != bytes(want):
                return {"key": "savetxt-wrong:large:bits", "what": "line %d of %d is not row %d's bit string" % (i, len(lines), i)}
            if nm != fpn[i]:
                return {"key": "savetxt-wrong:large:name", "what": "line %d of a %d x %d export carries the name %r, row %d is named %r" % (i, case["rows"], case["bits"], nm, i, fpn[i])}
        return None

    def _prop_bigrt(self, case):
        db, arr, fpn = self._random_db(case["kind"], case["rows"], case["bits"], case["seed"])
        db.set_prop("row", np.arange(case["rows"]))
        db.set_prop("tag", np.array(["t%d" % (i % 7) for i in range(case["rows"])]))
        p = os.path.join(self.tmp(), "bigrt%d%s" % (case["seed"], ".fpz" if case["how"] == "savez" else case["how"][4:]))
        cur = db
        try:
            for k in range(2):
                try:
                    if case["how"] == "savez":
                        cur.savez(p)
                    else:
                        cur.save(p)
                    cur = FingerprintDatabase.load(p)
                except Exception as e:  # noqa: BLE001
                    return {"key": "saveload-raises:%s:large:%s" % (case["how"].split(".")[0], type(e).__name__), "what": "cycle %d of a %d-row database raised %r" % (k, case["rows"], e)}
                bad = None
                if cur.array.shape != db.array.shape or cur.array.dtype != db.array.dtype or (cur.array != db.array).nnz:
                    bad = "matrix"
                elif list(cur.fp_names) != list(db.fp_names):
                    bad = "names"
                elif {k_: [int(x) for x in v] for k_, v in cur.fp_names_to_indices.items() if len(v)} != {k_: [int(x) for x in v] for k_, v in db.fp_names_to_indices.items() if len(v)}:
                    bad = "name index"
                elif sorted(cur.props) != sorted(db.props) or any(cur.props[c].dtype.kind != db.props[c].dtype.kind or cur.props[c].tolist() != db.props[c].tolist() for c in db.props):
                    bad = "property columns"
                elif (cur.fp_type, cur.level, cur.name) != (db.fp_type, db.level, db.name):
                    bad = "type / level / name"
                if bad:
                    return {"key": "saveload-differs:%s:large" % case["how"].split(".")[0], "what": "cycle %d of a %d-row x %d-bit %s database: %s differ" % (k, case["rows"], case["bits"], case["kind"], bad)}
        finally:
            if os.path.exists(p):
                os.remove(p)
        return None

    def _prop_overwrite(self, case):
        p = os.path.join(self.tmp(), "ow%d%s" % (case["seed"], {"savez": ".fpz", "savetxt": ".txt"}.get(case["how"], case["how"][4:])))
        try:
            for k, n in enumerate(case["sizes"]):
                kind = "bit" if case["how"] == "savetxt" else case["kind"]
                db, arr, fpn = self._random_db(kind, n, 1024, case["seed"] + k)
                try:
                    with warnings.catch_warnings():
                        warnings.simplefilter("ignore")
                        if case["how"] == "savez":
                            db.savez(p)
                        elif case["how"] == "savetxt":
                            db.savetxt(p, with_names=True)
                        else:
                            db.save(p)
                    if case["how"] == "savetxt":
                        with open(p) as f:
                            got = f.read().split("\n")[:-1]
                        ok = len(got) == n and all(g.partition(" ")[2] == fpn[i] for i, g in enumerate(got))
                    else:
                        back = FingerprintDatabase.load(p)
                        ok = full_dump(back) == full_dump(db)
                except Exception as e:  # noqa: BLE001
                    return {"key": "saveload-raises:%s:rewritten-path:%s" % (case["how"].split(".")[0], type(e).__name__),
                            "what": "write %d (%d rows) to a path that held %s rows before, then load: %r" % (k, n, case["sizes"][:k], e)}
                if not ok:
                    return {"key": "saveload-differs:%s:rewritten-path" % case["how"].split(".")[0],
                            "what": "a database of %d rows saved to a path that held %s rows before does not load back as saved" % (n, case["sizes"][:k])}
        finally:
            if os.path.exists(p):
                os.remove(p)
        return None

    # ------------------------------------------------------------------ building the database
    def _rows(self, case):
        """rows in storage order [(col, val)], per build mode."""
        import random
        out = []
        r = random.Random(case.get("perm_seed", 0))
        for f in case["fps"]:
            fp = f["fp"]
            if fp["kind"] == "bit":
                ent = [[i, "1"] for i in fp["idx"]]
            else:
                ent = [[i, v] for i, v in fp["cnt"]]
            if case.get("zeros") is not None:
                rz = random.Random(case["zeros"] + len(out))
                free = [c for c in range(min(case["bits"], 64)) if c not in {e[0] for e in ent}]
                ent = ent + [[c, "0"] for c in rz.sample(free, min(len(free), rz.randint(1, 3)))]
                ent.sort()
            if case["build"] == "from_array_unsorted":
                r.shuffle(ent)
            out.append(ent)
        return out

    def _props_cols(self, case):
        keys = [k for k, _ in case["fps"][0]["props"]]
        return [[k, [dict(f["props"])[k] for f in case["fps"]]] for k in keys]

    def _build(self, case):
        db = self._build0(case)
        for key, vals in case.get("setprops", []):
            db.set_prop(key, np.array([unpval(v) for v in vals]))
        return db

    def _build0(self, case):
        kind = case["kind"]
        if case["build"] == "add":
            db = FingerprintDatabase(fp_type=CLS[kind], level=case["level"], name=case["name"])
            db.add_fingerprints([make_fpin(f) for f in case["fps"]])
            return db
        rows = self._rows(case)
        data, indices, indptr = [], [], [0]
        for ent in rows:
            for c, v in ent:
                indices.append(c)
                data.append(float(Fraction(v)))
            indptr.append(len(indices))
        arr = csr_matrix((np.array(data, dtype=DTYPE[kind]), np.array(indices, dtype=np.int64), np.array(indptr, dtype=np.int64)),
                         shape=(len(rows), case["bits"]))
        props = {k: np.array([unpval(v) for v in vals]) for k, vals in self._props_cols(case)}
        return FingerprintDatabase.from_array(arr, [f["name"] for f in case["fps"]], fp_type=CLS[kind], level=case["level"],
                                              name=case["name"], props=props)

    def _model_build(self, case):
        return self._model_build0(case) + [{"op": "db.set_prop", "id": "d", "key": key, "vals": vals} for key, vals in case.get("setprops", [])]

    def _model_build0(self, case):
        if case["build"] == "add":
            return [{"op": "db.reset"}, {"op": "db.new", "id": "d", "kind": case["kind"], "level": case["level"], "name": case["name"]},
                    {"op": "db.add", "id": "d", "fps": case["fps"]}]
        return [{"op": "db.reset"},
                {"op": "db.from_array", "id": "d", "rows": self._rows(case), "bits": case["bits"], "names": [f["name"] for f in case["fps"]],
                 "kind": case["kind"], "level": case["level"], "name": case["name"], "props": self._props_cols(case)},
                {"op": "db.dump", "id": "d"}]

    def _cycle(self, db, case, k):
        how = case["how"]
        if how == "savez":
            p = os.path.join(self.tmp(), "c%d_%d.fpz" % (id(case) % 99999, k))
            if case.get("basename"):
                # "filename or basename if extension is not '.fpz'": the file is written as <basename>.fpz
                db.savez(p[:-4])
                if os.path.exists(p[:-4]) and not os.path.exists(p):
                    os.remove(p[:-4])
                    raise FileNotFoundError("savez(<basename>) did not write <basename>.fpz")
            else:
                db.savez(p)
        else:
            p = os.path.join(self.tmp(), "c%d_%d%s" % (id(case) % 99999, k, how[4:]))
            with warnings.catch_warnings():
                warnings.simplefilter("ignore")
                db.save(p)
        try:
            return FingerprintDatabase.load(p)
        finally:
            if os.path.exists(p):
                os.remove(p)

    def _savetxt(self, db, case):
        p = os.path.join(self.tmp(), "t%d%s" % (id(case) % 99999, case["ext"]))
        try:
            with warnings.catch_warnings():
                warnings.simplefilter("ignore")
                db.savetxt(p, with_names=case["with_names"])
            op = {".txt": open, ".txt.gz": gzip.open, ".txt.bz2": bz2.open}[case["ext"]]
            with op(p, "rt") as f:
                return f.read().split("\n")[:-1]
        finally:
            if os.path.exists(p):
                os.remove(p)

    # ------------------------------------------------------------------ correspondence
    def impl(self, case):
        if case["t"] in ("bigtxt", "overwrite", "bigrt"):
            return {"ok": "see prop"}

        def go():
            db = self._build(case)
            if case["t"] == "txt":
                return {"lines": self._savetxt(db, case)}
            out = []
            for k in range(case["cycles"]):
                db = self._cycle(db, case, k)
                out.append(dump_db(db))
            return {"cycles": out}
        return attempt(go)

    def model_ops(self, case):
        if case["t"] in ("bigtxt", "overwrite", "bigrt"):
            return [{"op": "fpr.hash", "words": []}]
        ops = self._model_build(case)
        if case["t"] == "txt":
            return ops + [{"op": "db.savetxt", "id": "d", "with_names": case["with_names"]}]
        for k in range(case["cycles"]):
            ops.append({"op": "db.savez_load" if case["how"] == "savez" else "db.pickle", "id": "d", "out": "d"})
        return ops

    def model_answer(self, case, answers):
        if case["t"] in ("bigtxt", "overwrite", "bigrt"):
            return {"ok": "see prop"}
        nb = 3 + len(case.get("setprops", []))
        if any("err" in a or "driver_error" in a for a in answers[:nb]):
            return {"err": "build", "answers": answers[:nb]}
        if case["t"] == "txt":
            return {"ok": {"lines": answers[nb]["ok"]}} if "ok" in answers[nb] else answers[nb]
        outs = []
        for a in answers[nb:]:
            if "ok" not in a:
                return a
            outs.append(a["ok"])
        return {"ok": {"cycles": outs}}

    # ------------------------------------------------------------------ property
    def prop(self, case):
        if case["t"] == "bigtxt":
            return self._prop_bigtxt(case)
        if case["t"] == "overwrite":
            return self._prop_overwrite(case)
        if case["t"] == "bigrt":
            return self._prop_bigrt(case)
        try:
            db = self._build(case)
        except Exception as e:  # noqa: BLE001
            return {"key": "build-raises:" + type(e).__name__, "what": "building the database raised %r" % e}
        if case["t"] == "txt":
            try:
                lines = self._savetxt(db, case)
            except Exception as e:  # noqa: BLE001
                return {"key": "savetxt-raises:" + type(e).__name__, "what": "savetxt raised %r" % e}
            want = []
            for f in case["fps"]:
                s = "".join("1" if i in set(f["fp"]["idx"]) else "0" for i in range(case["bits"]))
                if case["with_names"]:
                    s += " " + f["name"]
                want.append(s)
            if lines != want:
                bad = [i for i, (a, b) in enumerate(zip(lines, want)) if a != b][:1]
                return {"key": "savetxt-wrong:" + case["build"], "what": "savetxt line %s is not the row's bit string (+name): got %d chars for %d bits" % (
                    bad, len(lines[bad[0]].split(" ")[0]) if bad else -1, case["bits"]), "got": lines[:3], "want": want[:3]}
            return None
        orig = full_dump(db)
        cur = db
        for k in range(case["cycles"]):
            try:
                cur = self._cycle(cur, case, k)
            except Exception as e:  # noqa: BLE001
                return {"key": "saveload-raises:%s:%s" % (case["how"], type(e).__name__), "what": "%s/load cycle %d raised %r" % (case["how"], k, e)}
            got = full_dump(cur)
            for field in ("rows", "kind", "level", "name", "fp_names", "props", "bits", "n", "names_map", "prop_dtypes", "array_dtype"):
                if got[field] != orig[field]:
                    return {"key": "saveload-differs:%s:%s" % (case["how"].split(".")[0], field),
                            "what": "after %s/load cycle %d the %s differs" % (case["how"], k + 1, field),
                            "orig": orig[field] if field != "rows" else None, "got": got[field] if field != "rows" else None}
        return None

    def nontrivial(self, case, a_impl):
        if case["t"] in ("bigtxt", "overwrite", "bigrt"):
            return vlib.canon(case)
        if len(case["fps"]) >= 2 and any(f["fp"]["idx"] for f in case["fps"]) and "ok" in a_impl:
            return vlib.canon(case)
        return None


if __name__ == "__main__":
    sys.exit(vlib.run_check(C08))
