"""C04 - fingerprinting is a pure function of (molecule, conformer, options)."""
from __future__ import annotations

import os
import subprocess
import sys

from harness import vlib
from harness import molgen as MG
from harness.fprcheck import FprCheck
from harness.fpgen import attempt

FORMS = ["conf_only", "id_mol", "obj_mol", "mol_only"]


class C04(FprCheck):
    id = "C04"
    props_modules = ["E3fpVerif.Props.C04"]
    stateful_driver = False
    rule = ("seeded histories of 3-12 run() calls on ONE Fingerprinter over a pool of 2-3 molecules and their conformers, "
            "mixing the call forms run(conf), run(conf_id, mol), run(conf_obj, mol), run(mol=mol), with repeated identical "
            "runs and queries at several levels / bits between runs; every run is compared with the model of the object and "
            "with a fresh Fingerprinter; mutable default arguments are inspected after every history; thorough tier adds "
            "PYTHONHASHSEED values, threads and worker processes; both tiers also drive the entry point fprints_dict_from_mol through "
            "successive calls with the molecule object edited in place between calls (vs fresh fingerprinters) and from 4 threads "
            "with a 1 us switch interval (vs serial), and fingerprint the same molecules - two of them carrying bond types outside "
            "BOND_TYPES - in two fresh processes in different orders. Non-trivial: history that revisits a molecule or conformer; "
            "distinct by history.")
    assumptions = FprCheck.assumptions + ["thread / process interleavings are sampled, not enumerated (partial: the theorems carry the object's logic, not RDKit/NumPy thread safety)"]

    def gen_cases(self):
        rng = self.rng
        n = 30 if self.tier == "quick" else 500
        refs = self.refs()
        for _ in range(n):
            pool = [rng.choice(refs) for _ in range(rng.randint(2, 3))]
            o = MG.gen_opts(rng)
            same_mol = rng.random() < 0.5
            if same_mol:
                # many conformers of ONE molecule object on one fingerprinter: conformers converge at different
                # iterations, so conformer-scoped state left over from an earlier run would be visible
                pool = [dict(rng.choice(refs), scales=[1.0, 0.55, 1.6, 2.4, 0.8])]
                o["level"] = rng.choice([2, 3, 4, 5, 8, -1])      # also levels between the levels at which the conformers converge
                if o["level"] == -1:
                    o["remove_duplicate_substructs"] = True
            elif rng.random() < 0.2:
                # molecules with bonds of types outside the BOND_TYPES table, in a random order, between ordinary ones: however
                # the library answers them (it refuses them), the answer may not depend on which of them came first
                kinds = rng.sample(["dative", "zero", "quadruple", "hydrogen"], 2)
                pool = [{"exotic": kinds[0]}, {"exotic": kinds[1]}, rng.choice(refs)]
                rng.shuffle(pool)
                self.count("exotic-bond-types")
            all_levels = [{"level": k, "bits": None, "mask": []} for k in list(range(0, 10)) + [-1]]
            runs = []
            last = None
            for _ in range(rng.randint(3, 12)):
                if last is not None and rng.random() < 0.35:
                    r = dict(last)                      # repeat the previous run exactly
                    self.count("repeat")
                else:
                    mi = rng.randrange(len(pool))
                    mol = MG.load_ref(pool[mi])
                    r = {"mol": mi, "conf": rng.randrange(mol.GetNumConformers()), "form": rng.choice(FORMS)}
                    if r["form"] == "mol_only":
                        r["conf"] = 0
                if same_mol and r["form"] == "conf_only":
                    r["form"] = rng.choice(["id_mol", "obj_mol"])
                r = dict(r, queries=all_levels if same_mol else MG.gen_queries(rng, o, 1))
                self.count("form:" + r["form"])
                runs.append(r)
                last = r
            yield {"t": "hist", "pool": pool, "opts": o, "runs": runs}
        # mirror-image conformers of ONE molecule object submitted directly one after the other to one fingerprinter: all interatomic
        # distances are equal, the stereo identifiers are not (scale -1 is the inversion through the origin)
        for _ in range(4 if self.tier == "quick" else 50):
            o = MG.gen_opts(rng)
            o["stereo"] = True
            o["level"] = rng.choice([2, 3, 5])
            pool = [dict(rng.choice([r_ for r_ in refs if "sdf" in r_ or "smiles" in r_]), scales=[1.0, -1.0, 0.8, -0.8])]
            all_levels = [{"level": k, "bits": None, "mask": []} for k in list(range(0, 10)) + [-1]]
            seq = rng.choice([[0, 1, 0], [1, 0, 1, 3, 2], [2, 3, 3, 2], [0, 1, 2, 3, 1]])
            form = rng.choice(["id_mol", "obj_mol"])
            self.count("mirror-image-conformers")
            yield {"t": "hist", "pool": pool, "opts": o, "runs": [{"mol": 0, "conf": c_, "form": form, "queries": all_levels} for c_ in seq]}
        # the entry point every pipeline function goes through: successive calls in one process, the molecule object
        # edited in place between calls (isotope label, formal charge), other molecules in between; plus two threads
        for _ in range(8 if self.tier == "quick" else 60):
            o = MG.gen_opts(rng)
            pool = [rng.choice(refs) for _ in range(2)]
            steps = []
            for _ in range(rng.randint(3, 6)):
                steps.append({"mol": rng.randrange(2), "edit": rng.choice([None, None, "isotope", "charge"]), "atom": rng.randrange(64),
                              "first": rng.choice([1, 2, -1])})
            self.count("entry")
            yield {"t": "entry", "pool": pool, "opts": o, "steps": steps}
        for _ in range(12 if self.tier == "quick" else 150):
            # one fingerprinter processes a molecule and then molecules *derived from that object afterwards* (copies made after
            # the run, then edited; renumbered copies keeping the name; copies with hydrogens removed / added) - objects that
            # share everything RDKit copies along (names, private properties) but are other molecules
            self.count("derived-after-run")
            yield {"t": "derived", "ref": rng.choice(refs), "opts": MG.gen_opts(rng), "seed": rng.randrange(10 ** 6),
                   "edits": [rng.choice(["isotope", "charge", "element", "renumber", "removehs", "copy", "rwmol"]) for _ in range(rng.randint(2, 4))]}
        for _ in range(10 if self.tier == "quick" else 120):
            # two fingerprinter objects alive in one process, their work interleaved (serially - no threads needed): what the first
            # one reports must not depend on what the second one did in between, also half-way through a run (iterator protocol)
            self.count("two-fingerprinters-interleaved")
            o = MG.gen_opts(rng)
            yield {"t": "interleaved", "a": rng.choice(refs), "b": rng.choice(refs), "opts": o,
                   "opts_b": rng.choice([o, dict(o, rdkit_invariants=not o["rdkit_invariants"]), MG.gen_opts(rng)]), "split": rng.choice([0, 1, 2])}
        for _ in range(1 if self.tier == "quick" else 6):
            # two fresh processes fingerprint the same molecules in different orders (process-global state - module-level tables,
            # class-level caches - would make the answer for a molecule depend on what the process met first)
            kinds = rng.sample(["dative", "zero", "quadruple", "hydrogen"], 2)
            mols = [{"exotic": kinds[0]}, {"exotic": kinds[1]}, rng.choice(refs), rng.choice(refs)]
            o = MG.gen_opts(rng)
            order2 = list(range(4))
            while order2.index(1) > order2.index(0):          # the two unusual molecules meet the process in the other order
                rng.shuffle(order2)
            self.count("process-order")
            yield {"t": "process-order", "mols": mols, "opts": o, "orders": [list(range(4)), order2]}
        for _ in range(1 if self.tier == "quick" else 4):
            yield {"t": "entry-threads", "sample": rng.randrange(10 ** 6), "n": 10 if self.tier == "quick" else 40}
        for _ in range(4 if self.tier == "quick" else 60):
            # a *chosen* interleaving of two threads: the first thread is pre-empted at seeded entries into the fingerprinting code
            # (a trace hook used purely as a scheduling point) and the second thread fingerprints another molecule to completion
            # each time - every such schedule is one the interpreter may produce by itself
            self.count("threads-preempted-at-chosen-points")
            yield {"t": "preempt", "sample": rng.randrange(10 ** 6), "points": 40 if self.tier == "quick" else 120}
        if self.tier == "thorough":
            for hs in ("0", "1", "12345"):
                yield {"t": "hashseed", "seed": hs, "sample": rng.randrange(10 ** 6)}
            for mode in ("threads", "processes"):
                yield {"t": "concurrent", "mode": mode, "sample": rng.randrange(10 ** 6)}

    # ------------------------------------------------------------------
    def _run_history(self, case, fresh=False):
        mols = [MG.load_ref(r) for r in case["pool"]]
        confobjs = {}
        fp = MG.make_fprinter(case["opts"])
        outs = []
        for r in case["runs"]:
            mol = mols[r["mol"]]
            if fresh:
                fp = MG.make_fprinter(case["opts"])

            def go():
                if r["form"] == "conf_only":
                    fp.run(mol.GetConformer(r["conf"]))
                elif r["form"] == "id_mol":
                    fp.run(r["conf"], mol)
                elif r["form"] == "obj_mol":
                    key = (r["mol"], r["conf"])
                    if key not in confobjs:
                        confobjs[key] = mol.GetConformer(r["conf"])
                    fp.run(confobjs[key], mol)
                else:
                    fp.run(mol=mol)
                return MG.dump_run(fp, r["queries"])
            outs.append(attempt(go))
        return outs

    def impl(self, case):
        if case["t"] != "hist":
            return {"ok": "see prop"}
        return {"ok": self._run_history(case)}

    def model_ops(self, case):
        if case["t"] != "hist":
            return [{"op": "fpr.hash", "words": []}]
        mols = [MG.load_ref(r) for r in case["pool"]]
        confs, cidx = [], {}
        for mi, m in enumerate(mols):
            for ci in range(m.GetNumConformers()):
                cidx[(mi, ci)] = len(confs)
                confs.append({"mol": mi, "coords": MG.coords_of(m.GetConformer(ci))})
        o = dict(case["opts"])
        mult = o.pop("radius_multiplier")
        runs = []
        for r in case["runs"]:
            # run(conf) derives a fresh molecule wrapper: identity nobody has seen
            # (the documented form run(conf_id) without a molecule raises AttributeError on the unchanged tree whatever the
            #  history - the int is never turned into a conformer - so it is not a call form the property can speak about)
            mid = None if r["form"] == "conf_only" else r["mol"]
            runs.append({"conf": cidx[(r["mol"], r["conf"])], "mid": mid, "queries": r["queries"]})
        return [{"op": "fpo.hist", "opts": o, "mols": [MG.mol_facts(m) for m in mols], "confs": confs, "mult": MG.fbits(mult), "runs": runs}]

    def model_answer(self, case, answers):
        if case["t"] != "hist":
            return {"ok": "see prop"}
        return answers[0]

    def compare(self, case, a_impl, a_model):
        return vlib.Check.compare(self, case, a_impl, a_model)

    # ------------------------------------------------------------------ property
    def prop(self, case):
        if case["t"] == "hist":
            import e3fp.fingerprint.structs as S
            import e3fp.fingerprint.fprint as F
            defaults_before = self._defaults()
            a = self._run_history(case)
            b = self._run_history(case, fresh=True)
            for k, (x, y) in enumerate(zip(a, b)):
                if x != y:
                    r = case["runs"][k]
                    prev = case["runs"][k - 1] if k else None
                    return {"key": "history-dependent:%s%s" % (r["form"], ":repeat" if prev and {**prev, "queries": 0} == {**r, "queries": 0} else ""),
                            "what": "run %d (%s on molecule %d conformer %d) differs from a fresh fingerprinter's result" % (k, r["form"], r["mol"], r["conf"]),
                            "step": k}
            if self._defaults() != defaults_before:
                return {"key": "mutable-default-mutated", "what": "a mutable default argument changed: %s" % self._defaults()}
            return None
        if case["t"] not in ("derived", "hist", "interleaved"):
            return self._prop_rest(case)
        if case["t"] == "interleaved":
            qs = [{"level": -1, "bits": None, "mask": []}, {"level": 1, "bits": None, "mask": []}]
            ma, mb = MG.load_ref(case["a"]), MG.load_ref(case["b"])
            oa, ob = case["opts"], case["opts_b"]
            if not (MG.in_domain(ma, oa) and MG.in_domain(mb, ob)):
                return None
            want = MG.run_impl(ma, ma.GetConformer(0), oa, qs)

            def go():
                f1, f2 = MG.make_fprinter(oa), MG.make_fprinter(ob)
                f1.reset_mol()
                f1.initialize_mol(ma)
                f1.initialize_conformer(ma.GetConformer(0))
                for _ in range(case["split"]):          # the first fingerprinter stops after `split` iterations ...
                    try:
                        next(f1)
                    except StopIteration:
                        break
                f2.run(mb.GetConformer(0), mb)          # ... the second one does a whole run ...
                for _ in f1:                            # ... and the first one finishes
                    pass
                return MG.dump_run(f1, qs)
            got = attempt(go)
            if got != want:
                return {"key": "fingerprinters-interfere:split-%d" % case["split"],
                        "what": "a fingerprinter interrupted after %d iterations while another fingerprinter object processed another molecule "
                                "reports another result than an undisturbed run" % case["split"]}
            return None
        if case["t"] == "derived":
            import random
            from rdkit import Chem
            rr = random.Random(case["seed"])
            o = case["opts"]
            parent = Chem.Mol(MG.load_ref(case["ref"]))
            if not MG.in_domain(parent, o):
                return None
            qs = [{"level": -1, "bits": None, "mask": []}]
            fp = MG.make_fprinter(o)
            cur = parent
            fp.run(0, cur)
            for k, e in enumerate(case["edits"]):
                heavy = [a.GetIdx() for a in cur.GetAtoms() if a.GetAtomicNum() > 1]
                try:
                    m = self._derive(cur, e, heavy, rr)
                except Exception:  # noqa: BLE001  (RDKit refuses the edit - e.g. cannot kekulize after it: not a molecule to fingerprint)
                    self.count("derived:edit-refused-by-rdkit")
                    continue
                if m.GetNumConformers() == 0 or not MG.in_domain(m, o):
                    continue

                def go(f):
                    f.run(0, m)
                    return MG.dump_run(f, qs)
                x, y = attempt(lambda: go(fp)), attempt(lambda: go(MG.make_fprinter(o)))
                if x != y:
                    return {"key": "history-dependent:derived-molecule:" + e,
                            "what": "step %d: a molecule derived (%s) from the one the fingerprinter just processed gets another fingerprint "
                                    "than from a fresh fingerprinter" % (k, e), "step": k}
                cur = m
            return None

    @staticmethod
    def _derive(cur, e, heavy, rr):
        from rdkit import Chem
        if True:
            if True:
                if e == "renumber":
                    p = list(range(cur.GetNumAtoms()))
                    rr.shuffle(p)
                    m = Chem.RenumberAtoms(cur, p)
                    if cur.HasProp("_Name"):
                        m.SetProp("_Name", cur.GetProp("_Name"))
                elif e == "removehs":
                    m = Chem.RemoveHs(cur)
                elif e == "rwmol":
                    rw = Chem.RWMol(cur)
                    rw.GetAtomWithIdx(rr.choice(heavy)).SetIsotope(15)
                    m = rw.GetMol()
                else:
                    m = Chem.Mol(cur)
                    a = m.GetAtomWithIdx(rr.choice(heavy))
                    if e == "isotope":
                        a.SetIsotope(0 if a.GetIsotope() else 13 + a.GetAtomicNum())
                    elif e == "charge":
                        a.SetFormalCharge(0 if a.GetFormalCharge() else 1)
                    elif e == "element":
                        a.SetAtomicNum({6: 14, 7: 15, 8: 16, 9: 17, 16: 8, 17: 9}.get(a.GetAtomicNum(), a.GetAtomicNum()))
                m.UpdatePropertyCache(strict=False)
                Chem.SanitizeMol(Chem.Mol(m))
                return m

    def _prop_rest(self, case):
        if case["t"] == "entry":
            from e3fp.fingerprint.generate import fprints_dict_from_mol
            from harness.fpgen import dump_fp
            mols = [MG.load_ref(r) for r in case["pool"]]
            o = case["opts"]
            for k, st in enumerate(case["steps"]):
                mol = mols[st["mol"]]
                heavy = [a for a in mol.GetAtoms() if a.GetAtomicNum() > 1]
                if st["edit"] and heavy:
                    a = heavy[st["atom"] % len(heavy)]
                    if st["edit"] == "isotope":
                        a.SetIsotope(0 if a.GetIsotope() else 13 + a.GetAtomicNum())
                    else:
                        a.SetFormalCharge(0 if a.GetFormalCharge() else 1)
                if not MG.in_domain(mol, o):
                    continue
                try:
                    d = fprints_dict_from_mol(mol, first=st["first"], **o)
                    got = [dump_fp(f) for f in d[o["level"]]]
                except Exception as e:  # noqa: BLE001
                    return {"key": "entry-raises:" + type(e).__name__, "what": "step %d: fprints_dict_from_mol raised %r" % (k, e)}
                n = mol.GetNumConformers() if st["first"] == -1 else min(st["first"], mol.GetNumConformers())
                want = []
                for ci in range(n):
                    fpr = MG.make_fprinter(o)
                    fpr.run(ci, mol)
                    want.append(dump_fp(fpr.get_fingerprint_at_level(level=o["level"])))
                if got != want:
                    return {"key": "entry-history-dependent" + (":after-edit" if st["edit"] else ""),
                            "what": "step %d: fprints_dict_from_mol on molecule %d (%s) differs from fresh fingerprinters on the same "
                                    "molecule object" % (k, st["mol"], "edited in place: %s" % st["edit"] if st["edit"] else "unedited"),
                            "step": k}
            return None
        if case["t"] == "process-order":
            import json
            outs = []
            for order in case["orders"]:
                env = dict(os.environ, PYTHONPATH=vlib.VERIF)
                arg = json.dumps({"mols": [case["mols"][i] for i in order], "opts": case["opts"]})
                p = subprocess.run([sys.executable, "-m", "harness.props.C04", "--order", arg], cwd=vlib.VERIF, env=env,
                                   stdout=subprocess.PIPE, stderr=subprocess.DEVNULL, text=True, timeout=600)
                try:
                    res = json.loads(p.stdout.strip().splitlines()[-1])
                except Exception:  # noqa: BLE001
                    return {"key": "process-order-harness", "what": "child produced no result: %r" % p.stdout[-300:]}
                outs.append({vlib.canon(case["mols"][i]): r for i, r in zip(order, res)})
            if outs[0] != outs[1]:
                bad = [k for k in outs[0] if outs[0][k] != outs[1].get(k)]
                return {"key": "process-history-dependent", "what": "fingerprinting %s in a fresh process gives different answers in the orders %s" % (bad[:2], case["orders"])}
            return None
        if case["t"] == "preempt":
            if sys.gettrace() is not None:
                return None       # a tracer (coverage measurement) is already installed
            jobs = [j for j in sample_jobs(case["sample"], 8) if MG.in_domain(MG.load_ref(j[0]), j[2])]
            if len(jobs) < 2:
                return None
            ja, jb = jobs[0], jobs[1]
            want = job_result(ja)
            job_result(jb)
            got, hits = preempted(ja, jb, case["points"], case["sample"])
            if got != want:
                return {"key": "concurrency-dependent:threads:chosen-schedule",
                        "what": "a fingerprinting thread pre-empted at %d entries into the fingerprinting code, while another thread fingerprinted "
                                "another molecule, returns another result than an undisturbed run" % hits}
            return None
        if case["t"] == "entry-threads":
            from concurrent.futures import ThreadPoolExecutor
            jobs = sample_jobs(case["sample"], case["n"])
            jobs = [(ref, ci, jobs[0][2]) for ref, ci, _o in jobs]     # one option set for the whole batch, as a batch run has
            serial = [entry_result(j) for j in jobs]
            old = sys.getswitchinterval()
            sys.setswitchinterval(1e-6)
            try:
                with ThreadPoolExecutor(4) as ex:
                    par = list(ex.map(entry_result, jobs))
            finally:
                sys.setswitchinterval(old)
            bad = [i for i, (x, y) in enumerate(zip(serial, par)) if x != y]
            if bad:
                return {"key": "entry-concurrency-dependent:threads",
                        "what": "%d of %d results of fprints_dict_from_mol computed in 4 threads differ from the serial results" % (len(bad), len(jobs))}
            return None
        if case["t"] == "hashseed":
            outs = []
            for hs in ("0", case["seed"]):
                env = dict(os.environ, PYTHONHASHSEED=hs, PYTHONPATH=vlib.VERIF)
                p = subprocess.run([sys.executable, "-m", "harness.props.C04", "--sample", str(case["sample"])], cwd=vlib.VERIF, env=env,
                                   stdout=subprocess.PIPE, stderr=subprocess.DEVNULL, text=True, timeout=900)
                outs.append(p.stdout)
            if outs[0] != outs[1] or not outs[0].strip():
                return {"key": "hash-seed-dependent", "what": "results differ between PYTHONHASHSEED=0 and %s" % case["seed"]}
            return None
        if case["t"] == "concurrent":
            import random
            from concurrent.futures import ThreadPoolExecutor, ProcessPoolExecutor
            jobs = sample_jobs(case["sample"], 24)
            serial = [job_result(j) for j in jobs]
            if case["mode"] == "threads":
                old = sys.getswitchinterval()
                sys.setswitchinterval(1e-6)
                try:
                    with ThreadPoolExecutor(8) as ex:
                        par = list(ex.map(job_result, jobs))
                finally:
                    sys.setswitchinterval(old)
            else:
                with ProcessPoolExecutor(4) as ex:
                    par = list(ex.map(job_result, jobs))
            if par != serial:
                return {"key": "concurrency-dependent:" + case["mode"], "what": "results under %s differ from serial results" % case["mode"]}
            return None

    def _defaults(self):
        import e3fp.fingerprint.structs as S
        import e3fp.fingerprint.fprint as F
        from e3fp.fingerprint.fprinter import Fingerprinter, get_first_unique_tuple_inds
        return repr([S.Shell.__init__.__defaults__, S.Substruct.__init__.__defaults__, Fingerprinter.get_shells_at_level.__defaults__,
                     Fingerprinter.get_fingerprint_at_level.__defaults__, F.Fingerprint.__init__.__defaults__,
                     F.CountFingerprint.__init__.__defaults__, get_first_unique_tuple_inds.__defaults__])

    def nontrivial(self, case, a_impl):
        if case["t"] != "hist":
            return vlib.canon(case)
        seen = set()
        for r in case["runs"]:
            if (r["mol"]) in seen:
                return vlib.canon(case)
            seen.add(r["mol"])
        return None


def sample_jobs(seed, n):
    import random
    rng = random.Random(seed)
    refs = MG.all_refs()
    return [(rng.choice(refs), rng.randrange(2), MG.gen_opts(rng)) for _ in range(n)]


def preempted(job_a, job_b, npoints, seed):
    """job_a in this thread, pre-empted at `npoints` seeded entries into e3fp's fingerprinting modules; at each of them another
    thread runs job_b to completion.  Returns (result of job_a, number of pre-emptions)."""
    import random
    import threading
    mods = ("fprinter.py", "array_ops.py", "structs.py")
    # dry run: count the entries
    n = [0]
    byname = {}

    def counter(frame, event, arg):
        if event == "call" and frame.f_code.co_filename.endswith(mods):
            byname.setdefault(frame.f_code.co_name, []).append(n[0])
            n[0] += 1
        return None
    sys.settrace(counter)
    try:
        job_result(job_a)
    finally:
        sys.settrace(None)
    rr = random.Random(seed)
    # stratified by function: every function of the fingerprinting code is pre-empted at (up to) two of its entries, plus a
    # uniform sample - a window that is open only around one particular call is hit whatever that call is
    chosen = set(rr.sample(range(n[0]), min(npoints // 4, n[0]))) if n[0] else set()
    for name in sorted(byname):
        chosen.update(rr.sample(byname[name], min(2, len(byname[name]))))
    go, done, stop = threading.Event(), threading.Event(), [False]

    def other():
        while True:
            go.wait()
            go.clear()
            if stop[0]:
                return
            try:
                job_result(job_b)
            finally:
                done.set()
    t = threading.Thread(target=other, daemon=True)
    t.start()
    k, hits = [0], [0]

    def tracer(frame, event, arg):
        if event == "call" and frame.f_code.co_filename.endswith(mods):
            if k[0] in chosen:
                hits[0] += 1
                go.set()
                done.wait()
                done.clear()
            k[0] += 1
        return None
    sys.settrace(tracer)
    try:
        res = job_result(job_a)
    finally:
        sys.settrace(None)
        stop[0] = True
        go.set()
    return res, hits[0]


def entry_result(job):
    from e3fp.fingerprint.generate import fprints_dict_from_mol
    from harness.fpgen import dump_fp
    ref, _ci, o = job
    mol = MG.load_ref(ref)
    if not MG.in_domain(mol, o):
        return "out-of-domain"
    d = fprints_dict_from_mol(mol, first=2, **o)
    return vlib.canon([dump_fp(f) for f in d.get(o["level"], [])])


def job_result(job):
    ref, ci, o = job
    mol = MG.load_ref(ref)
    ci = ci % mol.GetNumConformers()
    r = MG.run_impl(mol, mol.GetConformer(ci), o, [{"level": -1, "bits": None, "mask": []}])
    return vlib.canon(r)


def order_child(arg):
    import json
    vlib.setup_env()
    j = json.loads(arg)
    out = []
    for ref in j["mols"]:
        mol = MG.load_ref(ref)
        r = attempt(lambda: MG.run_impl(mol, mol.GetConformer(0), j["opts"], [{"level": -1, "bits": None, "mask": []}]))
        out.append(vlib.canon(r))
    print(json.dumps(out))


if __name__ == "__main__":
    if "--order" in sys.argv:
        order_child(sys.argv[sys.argv.index("--order") + 1])
        sys.exit(0)
    if "--sample" in sys.argv:
        vlib.setup_env()
        for j in sample_jobs(int(sys.argv[sys.argv.index("--sample") + 1]), 30):
            print(job_result(j))
        sys.exit(0)
    sys.exit(vlib.run_check(C04))
