"""C01 - fingerprints are invariant to rigid motion of the conformer."""
from __future__ import annotations

import sys

from harness import vlib
from harness import molgen as MG
from harness.fprcheck import FprCheck, build, observable


class C01(FprCheck):
    id = "C01"
    props_modules = ["E3fpVerif.Props.C01"]
    rule = ("seeded conformers (all shipped SDF conformers are in the pool, plus ~60 embedded SMILES molecules chosen for "
            "planarity, linearity, symmetry, chirality, salts) x seeded option draws from the full product, each with twins: "
            "proper rotations + translations (random unit quaternions and axis-aligned quarter turns), and one reflection "
            "when stereo is off; plus exact translations (conformer on the 2^-20 grid, one atom on the origin, moved by a grid vector: no round-off, equality required outright); plus twelve idealised, exactly symmetric planar conformers (2D depictions taken as 3D) under generic rotations, compared without the round-off filter. Non-trivial: at least two levels reached; distinct by (molecule, conformer, options, motion).")

    def gen_cases(self):
        rng = self.rng
        n = 40 if self.tier == "quick" else 700
        yield from self.umbrella_cases()
        yield from self.ideal_cases()
        for ref, ci in self.sample_confs(n):
            for _ in range(2 if self.tier == "quick" else 3):
                o = MG.gen_opts(rng)
                qs = MG.gen_queries(rng, o, 2)
                base = {"t": "twin", "ref": ref, "conf": ci, "tr": None, "opts": o, "queries": qs}
                self.count("base")
                yield base
                for _ in range(2):
                    self.count("rotation")
                    yield dict(base, tr=MG.gen_transform(rng))
                if not o["stereo"]:
                    self.count("reflection")
                    yield dict(base, tr=MG.gen_transform(rng, reflect=True))
            # exact translations: the conformer snapped to the 2^-20 A grid with one heavy atom put exactly on the lab origin,
            # against the same conformer moved by a grid vector.  Every coordinate difference is then computed exactly, so a
            # fingerprinter that only reads differences performs bit-identical arithmetic: no round-off band exists and the
            # two answers must be equal outright (no perturbation filter).
            o = MG.gen_opts(rng)
            o["stereo"] = True
            at = rng.randrange(64)
            b0 = {"t": "exact", "ref": ref, "conf": ci, "tr": {"quant": 20, "origin_atom": at}, "opts": o, "queries": MG.gen_queries(rng, o, 2)}
            self.count("exact-base-atom-on-origin")
            yield b0
            self.count("exact-translation")
            yield dict(b0, tr={"quant": 20, "origin_atom": at, "t": [rng.randrange(-2 ** 24, 2 ** 24) / 2.0 ** 20 for _ in range(3)]})
            # ... and far from the origin along all three axes (1e5 - 5e5 A: coordinates still need only 40 bits, every difference is
            # still exact): a tolerance that scales with the absolute position would show here
            self.count("exact-translation:far")
            yield dict(b0, tr={"quant": 20, "origin_atom": at,
                               "t": [rng.choice([-1, 1]) * rng.randrange(2 ** 37, 2 ** 39) / 2.0 ** 20 for _ in range(3)]})

    def umbrella_cases(self):
        """every synthetic AX_k conformer (mean neighbour vector 0.03-0.3 A around the 0.1 A guard of pick_y), default options
        with stereo on, against twins whose cone axis lies on a cube diagonal (where the components of the mean are smallest)"""
        rng = self.rng
        for ref in MG.all_refs():
            if "umbrella" not in ref:
                continue
            o = MG.gen_opts(rng)
            o.update(stereo=True, radius_multiplier=1.718, level=rng.choice([1, 2, 5]))
            base = {"t": "twin", "ref": ref, "conf": 0, "tr": None, "opts": o, "queries": MG.gen_queries(rng, o, 1)}
            self.count("umbrella-base")
            yield base
            for _ in range(2 if self.tier == "quick" else 6):
                self.count("umbrella-diagonal-rotation")
                yield dict(base, tr=MG.gen_transform(rng, kind="diagonal"))

    def ideal_cases(self):
        """idealised, exactly symmetric planar conformers (regular rings, equal bonds) against generic rotations.  The property
        names planar and symmetric conformers explicitly; none of these geometries puts an atom on a decision threshold of the
        algorithm (their angles are multiples of 30 / 36 / 45 / 60 / 72 / 90 degrees seen from ring atoms; right angles are snapped
        by the code's EPS), so the two fingerprints are compared without the round-off filter."""
        rng = self.rng
        for ref in MG.ideal_refs():
            for _ in range(1 if self.tier == "quick" else 4):
                o = MG.gen_opts(rng)
                o.update(stereo=True, radius_multiplier=rng.choice([1.718, 1.718, 2.5]), level=rng.choice([2, 3, 5]), bits=2 ** 32)
                base = {"t": "ideal", "ref": ref, "conf": 0, "tr": None, "opts": o, "queries": MG.gen_queries(rng, o, 1)}
                self.count("ideal-base")
                yield base
                for _ in range(2):
                    self.count("ideal-rotation")
                    yield dict(base, tr=MG.gen_transform(rng))

    def prop(self, case):
        if case.get("t") == "ideal":
            if not case.get("tr"):
                return None
            m0, c0 = build(dict(case, tr=None))
            m1, c1 = build(case)
            a = MG.run_impl(m0, c0, case["opts"], case.get("queries", []))
            b = MG.run_impl(m1, c1, case["opts"], case.get("queries", []))
            if "err" in a or "err" in b:
                return None if a == b else {"key": "motion-changes-error", "what": "base %s, moved %s" % (vlib.short(a, 100), vlib.short(b, 100))}
            oa, ob = observable(a["ok"]), observable(b["ok"])
            if oa != ob:
                lvl = next((i for i, (x, y) in enumerate(zip(oa["levels"], ob["levels"])) if x != y), None)
                return {"key": "rigid-motion-changes-fingerprint:ideal-symmetric",
                        "what": "idealised symmetric conformer of %s: fingerprint changed under rotation+translation (first differing level %s)" % (case["ref"]["ideal"], lvl)}
            return None
        if case.get("t") == "exact":
            if "t" not in case["tr"]:
                return None
            m0, c0 = build(dict(case, tr={k: v for k, v in case["tr"].items() if k != "t"}))
            m1, c1 = build(case)
            a = MG.run_impl(m0, c0, case["opts"], case.get("queries", []))
            b = MG.run_impl(m1, c1, case["opts"], case.get("queries", []))
            if a != b:
                return {"key": "exact-translation-changes-fingerprint",
                        "what": "conformer on the 2^-20 grid with a heavy atom on the origin vs the same moved by a grid vector (all differences exact): %s vs %s" % (
                            vlib.short(a, 120), vlib.short(b, 120))}
            return None
        if not case.get("tr"):
            return None
        base_case = dict(case, tr=None)
        a = self.robust_impl(base_case)
        if a is None:
            return None
        mol, conf = build(case)
        b = MG.run_impl(mol, conf, case["opts"], case.get("queries", []))
        if "err" in a or "err" in b:
            if a == b:
                return None
            return {"key": "motion-changes-error", "what": "base %s, moved %s" % (vlib.short(a, 100), vlib.short(b, 100))}
        oa, ob = observable(a["ok"]), observable(b["ok"])
        if oa != ob:
            lvl = next((i for i, (x, y) in enumerate(zip(oa["levels"], ob["levels"])) if x != y), None)
            return {"key": "rigid-motion-changes-fingerprint:%s" % ("reflection" if case["tr"].get("reflect") else "rotation"),
                    "what": "fingerprint changed under %s (first differing level %s, stop level %s vs %s)" % (
                        "reflection" if case["tr"].get("reflect") else "rotation+translation", lvl, oa["current"], ob["current"])}
        return None


if __name__ == "__main__":
    sys.exit(vlib.run_check(C01))
