"""C01 - fingerprints are invariant to rigid motion of the conformer."""
from __future__ import annotations

import sys

from harness import vlib
from harness import molgen as MG
from harness.fprcheck import FprCheck, build, observable


class C01(FprCheck):
    id = "C01"
    props_modules = ["E3fpVerif.Props.C01"]
    rule = ("seeded conformers (all shipped SDF conformers are in the pool, plus ~60 embedded SMILES molecules chosen for "
            "planarity, linearity, symmetry, chirality, salts) x seeded option draws from the full product, each with twins: "
            "proper rotations + translations (random unit quaternions and axis-aligned quarter turns), and one reflection "
            "when stereo is off. Non-trivial: at least two levels reached; distinct by (molecule, conformer, options, motion).")

    def gen_cases(self):
        rng = self.rng
        n = 40 if self.tier == "quick" else 700
        for ref, ci in self.sample_confs(n):
            for _ in range(2 if self.tier == "quick" else 3):
                o = MG.gen_opts(rng)
                qs = MG.gen_queries(rng, o, 2)
                base = {"t": "twin", "ref": ref, "conf": ci, "tr": None, "opts": o, "queries": qs}
                self.count("base")
                yield base
                for _ in range(2):
                    self.count("rotation")
                    yield dict(base, tr=MG.gen_transform(rng))
                if not o["stereo"]:
                    self.count("reflection")
                    yield dict(base, tr=MG.gen_transform(rng, reflect=True))

    def prop(self, case):
        if not case.get("tr"):
            return None
        base_case = dict(case, tr=None)
        a = self.robust_impl(base_case)
        if a is None:
            return None
        mol, conf = build(case)
        b = MG.run_impl(mol, conf, case["opts"], case.get("queries", []))
        if "err" in a or "err" in b:
            if a == b:
                return None
            return {"key": "motion-changes-error", "what": "base %s, moved %s" % (vlib.short(a, 100), vlib.short(b, 100))}
        oa, ob = observable(a["ok"]), observable(b["ok"])
        if oa != ob:
            lvl = next((i for i, (x, y) in enumerate(zip(oa["levels"], ob["levels"])) if x != y), None)
            return {"key": "rigid-motion-changes-fingerprint:%s" % ("reflection" if case["tr"].get("reflect") else "rotation"),
                    "what": "fingerprint changed under %s (first differing level %s, stop level %s vs %s)" % (
                        "reflection" if case["tr"].get("reflect") else "rotation+translation", lvl, oa["current"], ob["current"])}
        return None


if __name__ == "__main__":
    sys.exit(vlib.run_check(C01))
