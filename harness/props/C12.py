"""C12 - levels nest, truncate consistently, and level -1 means convergence."""
from __future__ import annotations

import sys

from harness import vlib
from harness import molgen as MG
from harness.fpgen import dump_fp
from harness.fprcheck import FprCheck, build


class C12(FprCheck):
    id = "C12"
    props_modules = ["E3fpVerif.Props.C12"]
    rule = ("seeded conformers x option draws; one run to L = 14 queried at 0..L+3 and -1, against separate runs limited to "
            "each k and a run with level -1; multipliers from 0.3 (early stop) over 1.25-1.5 (bond lengths of one molecule separated) to 4 (everything in one shell); duplicate removal off in ~45% of cases. "
            "Every level is also requested as a NumPy integer. Non-trivial: convergence level >= 2; distinct by (molecule, conformer, options).")

    L = 14

    def gen_cases(self):
        rng = self.rng
        n = 25 if self.tier == "quick" else 500
        for ref, ci in self.sample_confs(n):
            o = MG.gen_opts(rng, level=self.L)
            # 1.25-1.5 separate the bond lengths of one molecule (C=O 1.2, aromatic 1.39, C-N 1.47, C-C 1.54, C-Cl 1.77): some
            # atoms keep an empty shell at a level where others gain a neighbour
            o["radius_multiplier"] = rng.choice([0.3, 0.5, 1.0, 1.25, 1.4, 1.5, 1.718, 1.718, 2.5, 4.0])
            if rng.random() < 0.45:
                o["remove_duplicate_substructs"] = False
            o["bits"] = 2 ** 32
            qs = [{"level": k, "bits": None, "mask": []} for k in list(range(0, self.L + 4)) + [-1]]
            self.count("long-run")
            yield {"t": "long", "ref": ref, "conf": ci, "tr": None, "opts": o, "queries": qs}
            for k in rng.sample(range(0, self.L), 3):
                self.count("limited-run")
                yield {"t": "limited", "ref": ref, "conf": ci, "tr": None, "opts": dict(o, level=k),
                       "queries": [{"level": k, "bits": None, "mask": []}, {"level": -1, "bits": None, "mask": []}]}
            if o["remove_duplicate_substructs"]:
                self.count("converge-run")
                yield {"t": "converge", "ref": ref, "conf": ci, "tr": None, "opts": dict(o, level=-1),
                       "queries": [{"level": -1, "bits": None, "mask": []}, {"level": 3, "bits": None, "mask": []}]}

        for _ in range(8 if self.tier == "quick" else 150):
            ref = dict(rng.choice([r for r in self.refs() if "smiles" in r or "sdf" in r]), scales=[1.0, 0.55, 1.6, 2.4, 0.8])
            o = MG.gen_opts(rng, level=rng.choice([2, 3, 4, 5, 6]))
            o["radius_multiplier"] = rng.choice([1.0, 1.3, 1.718, 1.718, 2.0])
            o["remove_duplicate_substructs"] = True
            o["bits"] = 2 ** 32
            self.count("reused-fingerprinter-over-scaled-conformers")
            yield {"t": "shared", "ref": ref, "conf": 0, "tr": None, "opts": o, "queries": [], "order": [rng.randrange(15) for _ in range(rng.randint(3, 5))]}
        # shell radii that coincide bit for bit with an interatomic distance of the conformer (radius_multiplier = d / k for
        # k in {1, 2, 4}: k * (d / k) == d exactly): the pair lies *on* the level-k sphere, "within" means <=, and a run limited
        # to k must see it exactly as level k of a longer run does
        import numpy as np
        from scipy.spatial.distance import pdist
        for ref, ci in self.sample_confs(6 if self.tier == "quick" else 120):
            case0 = {"ref": ref, "conf": ci, "tr": None}
            try:
                mol, conf = build(case0)
            except Exception:  # noqa: BLE001
                continue
            heavy = [a.GetIdx() for a in mol.GetAtoms() if a.GetAtomicNum() > 1]
            if len(heavy) < 3:
                continue
            pos = conf.GetPositions()
            ds = [float(x) for x in pdist(np.array([pos[i] for i in heavy])) if 1.0 <= x <= 3.2]
            if not ds:
                continue
            d, k = rng.choice(ds), rng.choice([1, 1, 2, 4])
            o = MG.gen_opts(rng, level=self.L)
            o["radius_multiplier"] = d / k
            o["bits"] = 2 ** 32
            if rng.random() < 0.3:
                o["remove_duplicate_substructs"] = False
            self.count("long-run:radius-equals-a-distance")
            yield {"t": "long", "ref": ref, "conf": ci, "tr": None, "opts": o, "tie_level": k,
                   "queries": [{"level": q, "bits": None, "mask": []} for q in list(range(0, self.L + 4)) + [-1]]}

    def _shared(self, case):
        """one fingerprinter object reused over conformers of one molecule that converge at different levels (scaled copies), its
        level between those levels: every level of every run equals a fresh run limited to that level, -1 equals convergence"""
        o = case["opts"]
        mol = MG.load_ref(case["ref"])
        if not MG.in_domain(mol, o):
            return None
        L = o["level"]
        shared = MG.make_fprinter(o)
        order = case["order"]
        for step, ci in enumerate(order):
            ci = ci % mol.GetNumConformers()
            conf = mol.GetConformer(ci)
            shared.run(conf, mol)
            for k in list(range(0, L + 1)) + [-1]:
                f2 = MG.make_fprinter(dict(o, level=L if k == -1 else k))
                f2.run(conf, mol)
                a, b = dump_fp(shared.get_fingerprint_at_level(k)), dump_fp(f2.get_fingerprint_at_level(k))
                if a != b:
                    return {"key": "truncation-differs:reused-fingerprinter",
                            "what": "conformer %d (step %d of one fingerprinter run to level %d over conformers %s): level %d has %d set positions, a fresh run limited to it %d" % (
                                ci, step, L, order, k, len(a["idx"]), len(b["idx"]))}
        return None

    def _watched(self, o, mol, conf, fp):
        """the same run driven step by step through the iterator protocol, asked for fingerprints between the steps"""
        w = MG.make_fprinter(o)
        w.reset_mol()
        w.initialize_mol(mol)
        w.initialize_conformer(conf)
        while True:
            try:
                next(w)
            except StopIteration:
                break
            w.get_fingerprint_at_level()
            for k in range(0, 6):
                w.get_fingerprint_at_level(k)
            w.get_shells_at_level(2)
        lv = list(range(0, min(self.L, fp.current_level + 3) + 1)) + [-1]
        for k in lv:
            a, b = dump_fp(w.get_fingerprint_at_level(k)), dump_fp(fp.get_fingerprint_at_level(k))
            if a != b:
                return {"key": "watched-run-differs", "what": "a run driven with next() and asked for fingerprints between the steps reports "
                        "another level-%d fingerprint (%d set positions) than a plain run (%d)" % (k, len(a["idx"]), len(b["idx"]))}
        return None

    def prop(self, case):
        if case["t"] == "shared":
            return self._shared(case)
        if case["t"] != "long":
            return None
        o = case["opts"]
        mol, conf = build(case)
        if not MG.in_domain(mol, o):
            return None
        fp = MG.make_fprinter(o)
        fp.run(conf, mol)
        L = self.L

        def ids(f, k):
            return sorted(int(s.identifier) for s in f.get_shells_at_level(k))
        reached = fp.current_level
        r = self._watched(o, mol, conf, fp)
        if r:
            return r
        prev = None
        for k in range(0, reached + 1):
            cur = ids(fp, k)
            if prev is not None:
                rest = list(cur)
                for x in prev:
                    if x in rest:
                        rest.remove(x)
                    else:
                        return {"key": "not-nested", "what": "identifier %d of level %d is missing at level %d" % (x, k - 1, k)}
            prev = cur
        for k in range(0, L + 1):
            f2 = MG.make_fprinter(dict(o, level=k))
            f2.run(conf, mol)
            a = dump_fp(fp.get_fingerprint_at_level(k))
            b = dump_fp(f2.get_fingerprint_at_level(k))
            if a != b:
                return {"key": "truncation-differs", "what": "level %d of a run to %d differs from a run limited to %d" % (k, L, k), "long": a, "limited": b}
            if a["level"] != k:
                return {"key": "label-wrong", "what": "fingerprint requested at level %d is labelled %r" % (k, a["level"])}
            # the level given as a NumPy integer (an element of np.arange or of an int array) is the same request
            import numpy as np
            kn = (np.int64, np.int32, np.uint8, np.int16)[k % 4](k)
            try:
                an = dump_fp(fp.get_fingerprint_at_level(kn))
            except Exception as e:  # noqa: BLE001
                return {"key": "truncation-raises:numpy-int-level:" + type(e).__name__, "what": "get_fingerprint_at_level(%s(%d)) raised %r" % (type(kn).__name__, k, e)}
            if an != b:
                return {"key": "truncation-differs:numpy-int-level", "what": "level %s(%d) of a run to %d differs from a run limited to %d" % (type(kn).__name__, k, L, k), "long": an, "limited": b}
        # the same through the per-level dictionary of the entry point (all iterations): the list under key k holds
        # fingerprints labelled k that equal a run limited to k, also for k beyond the level at which the conformer converged
        from e3fp.fingerprint.generate import fprints_dict_from_mol
        Lq = min(L, reached + 3)
        m1 = type(mol)(mol)
        m1.RemoveAllConformers()
        m1.AddConformer(type(conf)(conf), assignId=True)
        try:
            d = fprints_dict_from_mol(m1, all_iters=True, **dict(o, level=Lq))
        except Exception as e:  # noqa: BLE001
            return {"key": "entry-raises:" + type(e).__name__, "what": "fprints_dict_from_mol(all_iters) raised %r" % e}
        if sorted(d) != list(range(Lq + 1)):
            return {"key": "alliters-keys", "what": "all-iterations keys %s for level %d" % (sorted(d), Lq)}
        for k in range(Lq + 1):
            got = dump_fp(d[k][0])
            if got["level"] != k:
                return {"key": "label-wrong:all-iters", "what": "the fingerprint under key %d of the all-iterations dictionary is labelled %r (the conformer converges at %d)" % (k, got["level"], reached)}
            if got != dump_fp(fp.get_fingerprint_at_level(k)):
                return {"key": "truncation-differs:all-iters", "what": "the all-iterations list of level %d differs from the level-%d fingerprint of the long run" % (k, k)}
        if o["remove_duplicate_substructs"]:
            f3 = MG.make_fprinter(dict(o, level=-1))
            f3.run(conf, mol)
            c = f3.current_level
            conv = dump_fp(f3.get_fingerprint_at_level(-1))
            if reached < L and c != reached:
                return {"key": "convergence-level-differs", "what": "level -1 stopped at %d, the long run at %d" % (c, reached)}
            for k in range(c, L + 4):
                f4 = MG.make_fprinter(dict(o, level=k))
                f4.run(conf, mol)
                got = dump_fp(f4.get_fingerprint_at_level(k))
                if got["idx"] != conv["idx"] or got["cnt"] != conv["cnt"]:
                    return {"key": "minus-one-differs", "what": "level -1 (converged at %d) differs from a run to level %d" % (c, k)}
        return None


if __name__ == "__main__":
    sys.exit(vlib.run_check(C12))
