"""Prints the round tables of DESIGN.md section 11 from seeded/*/meta.json (fields round, first_run, strengthened, verified)."""
import glob, json, os, sys
V = os.path.dirname(os.path.dirname(os.path.abspath(__file__)))
rnd = int(sys.argv[1]) if len(sys.argv) > 1 else 5
print("| seeded change | reported by (failure keys) | first run | how the check was strengthened |")
print("|---|---|---|---|")
for f in sorted(glob.glob(os.path.join(V, "seeded", "C*", "meta.json"))):
    m = json.load(open(f))
    if m.get("round") != rnd:
        continue
    v = m.get("verified") or {}
    cell = "; ".join(v.get("checks", [])).replace("|", "/")
    print("| %s (%s) | %s | %s | %s |" % (os.path.basename(os.path.dirname(f)), m.get("summary", "").replace("|", "/").replace("\n", " ")[:160] + "…",
                                      cell[:260], m.get("first_run", "caught") or "caught", m.get("strengthened") or "–"))
