"""Database histories: generator, implementation executor, model-op emitter, list-of-rows oracle.

Shared by C05 (faithful container), C16 (atomic refusal), C08 (save/load), C17 (kind views) and the
database route of C07.  A *history* is a list of op dicts over a pool of live databases named
d0, d1, …  The generator is driven by the oracle state (a plain list of rows per database), never by
the implementation, so that a defect in the implementation cannot steer generation.
"""
from __future__ import annotations

import copy
import os
import pickle
import shutil
import tempfile
from fractions import Fraction

import numpy as np
from scipy.sparse import csr_matrix

from harness import vlib
from harness.fpgen import (CLS, KINDS, attempt, dump_fp, exc_enum, gen_fp, gen_indices, gen_value, kind_of, make_fp, rat, to_num)

from e3fp.fingerprint.db import FingerprintDatabase, concat  # noqa: E402
from e3fp.fingerprint import metrics as fpmetrics  # noqa: E402

DTYPE = {"bit": np.bool_, "count": np.uint16, "float": np.float64}


# --------------------------------------------------------------------------------------
# dumps
# --------------------------------------------------------------------------------------

def pval(v):
    if isinstance(v, (bool, np.bool_)):
        return {"b": bool(v)}
    if isinstance(v, (int, np.integer)):
        return {"i": int(v)}
    if isinstance(v, (float, np.floating)):
        return {"f": rat(v)}
    if isinstance(v, (str, np.str_, bytes)):
        return {"s": str(v)}
    return {"s": "<%s>" % type(v).__name__}


def unpval(p):
    if "b" in p:
        return bool(p["b"])
    if "i" in p:
        return int(p["i"])
    if "f" in p:
        return float(Fraction(p["f"]))
    return p["s"]


def name_of(x):
    return None if x is None else str(x)


def dump_fpin(fp):
    props = sorted([[str(k), pval(v)] for k, v in fp.props.items() if k != "Name"])
    return {"fp": dump_fp(fp), "name": name_of(fp.name), "props": props}


def dump_db(db):
    arr = db.array
    rows = []
    if arr is not None:
        for i in range(arr.shape[0]):
            lo, hi = arr.indptr[i], arr.indptr[i + 1]
            ent = sorted(zip(arr.indices[lo:hi].tolist(), arr.data[lo:hi].tolist()), key=lambda p: p[0])
            rows.append([[int(c), rat(v)] for c, v in ent])
    nm = []
    for k, v in db.fp_names_to_indices.items():
        nm.append([name_of(k), [int(x) for x in v]])
    nm.sort(key=lambda p: ("\x00none" if p[0] is None else "s:" + p[0]))
    props = sorted([[str(k), [pval(x) for x in np.asarray(v).tolist()] if np.asarray(v).dtype.kind not in "iufb"
                     else [pval(x) for x in np.asarray(v)]] for k, v in db.props.items()])
    return {"kind": {CLS[k]: k for k in CLS}.get(db.fp_type, str(db.fp_type)), "level": int(db.level),
            "name": name_of(db.name), "bits": None if arr is None else int(arr.shape[1]),
            "n": 0 if arr is None else int(arr.shape[0]), "rows": rows,
            "fp_names": [name_of(x) for x in db.fp_names], "names_map": nm, "props": props}


def make_fpin(spec):
    f = make_fp(spec["fp"])
    if spec.get("name") is not None:
        f.name = spec["name"]
    for k, v in spec.get("props", []):
        f.set_prop(k, unpval(v))
    return f


# --------------------------------------------------------------------------------------
# oracle: a database is a list of rows
# --------------------------------------------------------------------------------------

def cast_fp(spec, kind, level=None):
    """Content of `spec` seen as a fingerprint of `kind` (lossless directions only)."""
    out = {"kind": kind, "bits": spec["bits"], "level": spec["level"] if level is None else level, "idx": list(spec["idx"])}
    if kind == "bit":
        out["cnt"] = []
    elif spec["kind"] == "bit":
        out["cnt"] = [[i, "1"] for i in spec["idx"]]
    else:
        out["cnt"] = [[i, v] for i, v in spec["cnt"]]
    return out


def lossless(src_kind, dst_kind):
    return dst_kind == "bit" or src_kind == "bit" or src_kind == dst_kind or (src_kind == "count" and dst_kind == "float")


def fold_content(spec, bits):
    idx = sorted({i % bits for i in spec["idx"]})
    out = dict(spec, bits=bits, idx=idx)
    if spec["kind"] == "bit":
        out["cnt"] = []
    else:
        acc = {}
        for i, v in spec["cnt"]:
            acc[i % bits] = acc.get(i % bits, 0) + Fraction(v)
        out["cnt"] = [[j, str(acc[j]) if acc[j].denominator != 1 else str(acc[j].numerator)] for j in idx]
    return out


class ODb:
    """Oracle database: kind, level, name, bits (None while empty), rows = [{fp, name, props{}}], prop keys."""

    def __init__(self, kind, level, name):
        self.kind, self.level, self.name = kind, level, name
        self.bits = None
        self.rows = []
        self.keys = []

    def clone(self):
        return copy.deepcopy(self)

    def fault_in(self, fps):
        """None when the batch is acceptable, else the kind of fault."""
        if not fps:
            return "empty"
        bits = self.bits if self.rows else fps[0]["fp"]["bits"]
        keys = self.keys if (self.rows or self.keys) else [k for k, _ in fps[0].get("props", [])]
        for f in fps:
            if f["fp"]["level"] != self.level:
                return "level"
            if f["fp"]["bits"] != bits:
                return "bits"
            have = {k for k, _ in f.get("props", [])}
            if any(k not in have for k in keys):
                return "missing-prop"
        return None

    def add(self, fps):
        if not self.rows:
            self.bits = fps[0]["fp"]["bits"]
            if not self.keys:
                self.keys = [k for k, _ in fps[0].get("props", [])]
        for f in fps:
            d = dict(f.get("props", []))
            self.rows.append({"fp": cast_fp(f["fp"], self.kind, self.level), "name": f.get("name"),
                              "props": {k: d[k] for k in self.keys}})

    def names(self):
        out = []
        for r in self.rows:
            if r["name"] is not None and r["name"] not in out:
                out.append(r["name"])
        return out

    def rows_named(self, nm):
        return [r for r in self.rows if r["name"] == nm]

    def expected_row(self, r):
        return {"fp": r["fp"], "name": r["name"], "props": sorted([[k, v] for k, v in r["props"].items()])}



def oracle_step(live, op):
    """Expected effect of one op on the oracle state (the property's own reading)."""
    o = op["op"]
    if op.get("fault"):
        return
    if o == "new":
        live[op["id"]] = ODb(op["kind"], op["level"], op["name"])
    elif o == "from_array":
        db = ODb(op["kind"], op["level"], op["name"])
        db.bits = op["bits"]
        db.keys = [k for k, _ in op["props"]]
        for j, ent in enumerate(op["rows"]):
            ent = sorted(ent, key=lambda p: p[0])
            fp = {"kind": op["kind"], "bits": op["bits"], "level": op["level"], "idx": [c for c, _ in ent],
                  "cnt": [] if op["kind"] == "bit" else [[c, v] for c, v in ent]}
            db.rows.append({"fp": fp, "name": op["names"][j], "props": {k: vals[j] for k, vals in op["props"]}})
        live[op["id"]] = db
    elif o == "add":
        db = live[op["id"]]
        if db.fault_in(op["fps"]) is None:
            db.add(op["fps"])
    elif o == "subset":
        db = live[op["id"]]
        nd = ODb(db.kind, db.level, op["name"])
        nd.bits, nd.keys = db.bits, list(db.keys)
        for s in op["names"]:
            nd.rows.extend(copy.deepcopy(db.rows_named(s)))
        live[op["out"]] = nd
    elif o == "as_type":
        nd = live[op["id"]].clone()
        nd.kind = op["kind"]
        for r in nd.rows:
            r["fp"] = cast_fp(r["fp"], op["kind"])
        live[op["out"]] = nd
    elif o in ("copy", "pickle", "savez"):
        live[op["out"]] = live[op["id"]].clone()
    elif o == "fold":
        db = live[op["id"]]
        nd = db.clone()
        nd.bits = op["bits"]
        nd.kind = op["kind"] or db.kind
        nd.name = op["name"] if op["name"] is not None else db.name
        for r in nd.rows:
            r["fp"] = cast_fp(fold_content(r["fp"], op["bits"]), nd.kind)
        live[op["out"]] = nd
    elif o == "concat":
        d0 = live[op["ids"][0]]
        nd = ODb(d0.kind, d0.level, None)
        nd.bits, nd.keys = d0.bits, list(d0.keys)
        for j in op["ids"]:
            nd.rows.extend(copy.deepcopy(live[j].rows))
        live[op["out"]] = nd
    elif o == "set_prop":
        db = live[op["id"]]
        if op["key"] not in db.keys:
            db.keys.append(op["key"])
        for r, v in zip(db.rows, op["vals"]):
            r["props"][op["key"]] = v
    elif o == "update_props":
        db = live[op["id"]]
        for k, vals in op["props"]:
            if k not in db.keys:
                db.keys.append(k)
            for r, v in zip(db.rows, vals):
                r["props"][k] = v


READ_OPS = {"get_index", "get_name", "iter", "density", "metric", "eq", "subset", "as_type", "copy", "fold", "pickle", "savez", "concat"}

# --------------------------------------------------------------------------------------
# history generation
# --------------------------------------------------------------------------------------

NAMES = ["a", "b", "mol_1", "mol_2", "x", "a"]   # duplicates on purpose
# property names: ordinary ones, and names that begin with the character(s) the npz format uses as its key prefix
PROPTYPES = {"pi": "i", "pf": "f", "pb": "b", "ps": "s", "_pi": "i", "__ps": "s"}


def gen_pval(rng, t):
    if t == "i":
        return {"i": rng.choice([0, 1, -3, 7, 10 ** 6])}
    if t == "f":
        return {"f": rng.choice(["1/2", "3", "-5/4", "0", "1/1024"])}
    if t == "b":
        return {"b": rng.random() < 0.5}
    return {"s": rng.choice(["u", "vw", "xyz"])}


def gen_fpin(rng, kind, bits, level, keys, none_names=True):
    f = gen_fp(rng, kind, bits, level, maxn=8)
    if kind == "count":      # database vectors are uint16: keep sums of colliding counts far below the dtype limit
        f["cnt"] = [[i, v if int(v) <= 255 else "255"] for i, v in f["cnt"]]
    nm = rng.choice(NAMES + ([None] if none_names else []))
    props = [[k, gen_pval(rng, PROPTYPES[k])] for k in keys]
    return {"fp": f, "name": nm, "props": props}


class HistGen:
    def __init__(self, rng, faults=False, ops=None, maxlen=14, kinds=KINDS, none_names=True, save_ops=True, from_array=True):
        self.from_array = from_array
        self.rng = rng
        self.faults = faults
        self.maxlen = maxlen
        self.kinds = kinds
        self.none_names = none_names
        self.save_ops = save_ops
        self.allowed = ops

    def gen(self):
        rng = self.rng
        live = {}
        ops = []
        nid = [0]

        def fresh():
            nid[0] += 1
            return "d%d" % (nid[0] - 1)

        def emit(op):
            ops.append(op)
            oracle_step(live, op)

        bits = rng.choice([8, 8, 64, 1024, 2 ** 32, 96, 1000])     # also lengths with an odd factor (fold 1000 -> 250)
        level = rng.choice([-1, 0, 5])
        keys = rng.choice([[], [], ["pi"], ["pi", "ps"], ["pf", "pb", "ps"]])
        for _ in range(rng.randint(1, 2)):
            k = rng.choice(self.kinds)
            emit({"op": "new", "id": fresh(), "kind": k, "level": level, "name": rng.choice([None, "db", "T"])})
        if self.from_array and rng.random() < 0.35:
            # a database handed over as a CSR matrix whose rows are stored in arbitrary column order (legitimate CSR)
            k = rng.choice(self.kinds)
            # SciPy's binary operators on non-canonical CSR allocate per-column work arrays: keep unsorted rows narrow
            # (db == db on an unsorted 2^32-column matrix asks for 32 GB)
            b = bits if bits <= 1024 else 1024
            fps = [gen_fpin(rng, k, b, level, keys, self.none_names) for _ in range(rng.randint(1, 4))]
            rows = []
            for f in fps:
                ent = [[c, "1"] for c in f["fp"]["idx"]] if k == "bit" else [[c, v] for c, v in f["fp"]["cnt"]]
                rng.shuffle(ent)
                rows.append(ent)
            emit({"op": "from_array", "id": fresh(), "kind": k, "level": level, "name": rng.choice([None, "arr"]), "bits": b, "infer_kind": rng.random() < 0.3,
                  "rows": rows, "names": [f["name"] for f in fps],
                  "props": [[kk, [dict(f["props"])[kk] for f in fps]] for kk in keys]})
        n = rng.randint(2, self.maxlen)
        for _ in range(n):
            i = rng.choice(sorted(live))
            db = live[i]
            choices = ["add", "add", "add"]
            if db.rows:
                choices += ["get_index", "get_name", "get_name_absent", "subset", "as_type", "copy", "fold", "concat",
                            "set_prop", "update_props", "eq", "iter", "density", "metric", "get_index_oob", "subset_absent"]
                if self.save_ops:
                    choices += ["pickle", "savez"]
                if self.faults:
                    choices += ["add_fault", "add_fault", "add_fault", "set_prop_fault", "update_props_fault", "concat_fault", "subset_absent"]
            else:
                # property updates on a database that has no rows yet (columns of length 0): the columns declared here
                # must stay aligned with the rows added afterwards
                choices += ["set_prop", "update_props"]
                if self.faults:
                    choices += ["add_fault"]
            if self.allowed:
                choices = [c for c in choices if c in self.allowed] or ["add"]
            c = rng.choice(choices)
            if c == "add":
                src_kinds = [k for k in KINDS if k == db.kind or db.kind == "bit" or k == "bit"]
                b = db.bits if db.rows else bits
                ks = db.keys if db.rows else keys
                if not db.rows and db.keys and rng.random() < 0.5:
                    ks = db.keys     # columns declared on the still empty database: provide them
                fps = [gen_fpin(rng, rng.choice(src_kinds) if rng.random() < 0.3 else db.kind, b, db.level, ks, self.none_names)
                       for _ in range(rng.randint(1, 4))]
                if rng.random() < 0.2 and db.rows:     # extra props on a fingerprint are ignored by the database
                    fps[0]["props"] = fps[0]["props"] + [["extra", {"i": 1}]]
                op = {"op": "add", "id": i, "fps": fps}
                fk = db.fault_in(fps)
                if fk is not None:       # e.g. a column declared on the empty database that the batch does not provide
                    op["fault"] = fk
                    op["pos"] = 0
                emit(op)
            elif c == "add_fault":
                b = db.bits if db.rows else bits
                ks = db.keys if db.rows else keys
                fps = [gen_fpin(rng, db.kind, b, db.level, ks, self.none_names) for _ in range(rng.randint(1, 4))]
                pos = rng.choice([0, len(fps) // 2, len(fps) - 1])
                fk = rng.choice(["level", "bits"] + (["missing-prop"] if ks else []))
                if fk == "level":
                    fps[pos]["fp"]["level"] = db.level + 1
                elif fk == "bits":
                    nb = b * 2 if rng.random() < 0.5 or b < 2 else b // 2
                    fps[pos]["fp"] = gen_fp(rng, db.kind, nb, db.level, maxn=6)
                else:
                    fps[pos]["props"] = fps[pos]["props"][1:]
                op = {"op": "add", "id": i, "fps": fps}
                if db.fault_in(fps) is not None:
                    op["fault"] = fk
                    op["pos"] = pos
                emit(op)
            elif c == "get_index":
                emit({"op": "get_index", "id": i, "i": rng.randrange(-len(db.rows), len(db.rows))})
            elif c == "get_index_oob":
                emit({"op": "get_index", "id": i, "i": rng.choice([len(db.rows), len(db.rows) + 3, -len(db.rows) - 1])})
            elif c == "get_name":
                nms = db.names()
                if nms:
                    emit({"op": "get_name", "id": i, "nm": rng.choice(nms)})
            elif c == "get_name_absent":
                emit({"op": "get_name", "id": i, "nm": "absent%d" % rng.randrange(3)})
            elif c in ("subset", "subset_absent"):
                nms = db.names()
                if nms:
                    sel = [rng.choice(nms) for _ in range(rng.randint(1, 3))]
                    if c == "subset_absent":
                        sel.insert(rng.randrange(len(sel) + 1), "absent")
                        emit({"op": "subset", "id": i, "out": None, "names": sel, "name": None, "fault": "absent-name"})
                    else:
                        emit({"op": "subset", "id": i, "out": fresh(), "names": sel, "name": rng.choice([None, "sub"])})
            elif c == "as_type":
                emit({"op": "as_type", "id": i, "out": fresh(), "kind": rng.choice([k for k in KINDS if lossless(db.kind, k)])})
            elif c == "copy":
                emit({"op": "copy", "id": i, "out": fresh(), "kind": db.kind})
            elif c == "fold":
                bs = []
                b = db.bits
                while b >= 1:
                    bs.append(b)
                    if b % 2:
                        break
                    b //= 2
                emit({"op": "fold", "id": i, "out": fresh(), "bits": rng.choice(bs[:6] + bs[-2:]),
                      "kind": rng.choice([None, None] + [k for k in KINDS if lossless(db.kind, k)]),
                      "name": rng.choice([None, "folded"])})
            elif c == "concat":
                comp = [j for j in sorted(live) if live[j].rows and live[j].kind == db.kind and live[j].bits == db.bits
                        and live[j].level == db.level and sorted(live[j].keys) == sorted(db.keys)]
                emit({"op": "concat", "ids": [i] + [rng.choice(comp) for _ in range(rng.randint(0, 2))], "out": fresh()})
            elif c == "concat_fault":
                bad = [j for j in sorted(live) if live[j].rows and (live[j].kind != db.kind or live[j].bits != db.bits
                                                                   or live[j].level != db.level or sorted(live[j].keys) != sorted(db.keys))]
                if bad:
                    ids = [i, rng.choice(bad)]
                    rng.shuffle(ids)
                    emit({"op": "concat", "ids": ids, "out": None, "fault": "incompatible"})
            elif c in ("set_prop", "set_prop_fault"):
                k = rng.choice(list(PROPTYPES))
                nlen = len(db.rows) if c == "set_prop" else rng.choice([len(db.rows) + 1, max(0, len(db.rows) - 1)])
                op = {"op": "set_prop", "id": i, "key": k, "vals": [gen_pval(rng, PROPTYPES[k]) for _ in range(nlen)]}
                if nlen != len(db.rows):
                    op["fault"] = "length"
                emit(op)
            elif c in ("update_props", "update_props_fault"):
                ks = rng.sample(list(PROPTYPES), rng.randint(1, 3))
                cols = [[k, [gen_pval(rng, PROPTYPES[k]) for _ in range(len(db.rows))]] for k in ks]
                op = {"op": "update_props", "id": i, "props": cols}
                if c == "update_props_fault":
                    pos = rng.randrange(len(cols))
                    cols[pos][1] = cols[pos][1] + [gen_pval(rng, PROPTYPES[cols[pos][0]])]
                    op["fault"] = "length"
                    op["pos"] = pos
                emit(op)
            elif c in ("pickle", "savez"):
                emit({"op": c, "id": i, "out": fresh()})
            elif c == "eq":
                emit({"op": "eq", "a": i, "b": rng.choice(sorted(live))})
            else:
                emit({"op": c, "id": i})
        return {"t": "hist", "ops": ops}


def gen_colorder(rng, kinds=KINDS):
    """A directed history: databases holding the same property columns declared in different orders (the fingerprints of one
    batch had their properties set in another order than those of the other batch, or the columns were set on the databases in
    different orders), then concatenated in every order, subset and copied."""
    live, ops = {}, []

    def emit(op):
        ops.append(op)
        oracle_step(live, op)
    kind = rng.choice(kinds)
    bits, level = rng.choice([8, 64, 1024]), rng.choice([-1, 5])
    keys = rng.choice([["pi", "pf"], ["pi", "ps"], ["pf", "pb", "ps"], ["pi", "pf", "pb", "ps"]])
    via_set = rng.random() < 0.4
    for j in range(2):
        emit({"op": "new", "id": "d%d" % j, "kind": kind, "level": level, "name": rng.choice([None, "db"])})
        order = list(keys)
        if j == 1:
            while order == keys:
                rng.shuffle(order)
        fps = [gen_fpin(rng, kind, bits, level, [] if via_set else order) for _ in range(rng.randint(1, 3))]
        emit({"op": "add", "id": "d%d" % j, "fps": fps})
        if via_set:
            for k in order:
                emit({"op": "set_prop", "id": "d%d" % j, "key": k, "vals": [gen_pval(rng, PROPTYPES[k]) for _ in fps]})
    n = 2
    for ids in (["d0", "d1"], ["d1", "d0"], rng.choice([["d0", "d1", "d0"], ["d1", "d1", "d0"]])):
        emit({"op": "concat", "ids": ids, "out": "d%d" % n})
        n += 1
    src = "d%d" % rng.randrange(2, n)
    nms = live[src].names()
    if nms:
        emit({"op": "subset", "id": src, "out": "d%d" % n, "names": [rng.choice(nms) for _ in range(2)], "name": None})
        n += 1
    emit({"op": "concat", "ids": [src, rng.choice(["d0", "d1"])], "out": "d%d" % n})
    emit({"op": "get_index", "id": src, "i": len(live[src].rows) - 1})
    return {"t": "hist", "ops": ops}


def gen_subsetpat(rng, kinds=KINDS):
    """A directed history: one database of 6-9 uniquely named rows (one name may occur twice) and a series of get_subset requests
    in every shape - names repeated, rows skipped, both at once (as many repeats as skipped rows, ascending), descending,
    contiguous runs, one name many times - each followed by a lookup in the subset."""
    live, ops = {}, []

    def emit(op):
        ops.append(op)
        oracle_step(live, op)
    kind = rng.choice(kinds)
    bits, level = rng.choice([8, 64, 1024, 2 ** 32]), rng.choice([-1, 5])
    keys = rng.choice([[], ["pi"], ["pi", "ps"]])
    n = rng.randint(6, 9)
    emit({"op": "new", "id": "d0", "kind": kind, "level": level, "name": None})
    fps = [gen_fpin(rng, kind, bits, level, keys, none_names=False) for _ in range(n)]
    for j, f in enumerate(fps):
        f["name"] = "r%d" % j
    if rng.random() < 0.3:
        fps[rng.randrange(1, n)]["name"] = "r0"
    emit({"op": "add", "id": "d0", "fps": fps})
    nm = [f["name"] for f in fps]
    k = 1
    for shape in rng.sample(["repeat+skip", "repeat+skip", "repeat+skip", "descending", "contiguous", "same", "scattered", "all"], 5):
        i = rng.randrange(0, n - 3)
        L = rng.randint(3, min(5, n - i))
        if shape == "repeat+skip":
            # L requests inside rows i .. i+L-1, ascending, first and last row present, at least one row named twice
            inner = sorted(rng.choice(range(i, i + L)) for _ in range(L - 2))
            pos = sorted([i] + inner + [i + L - 1])
            if len(set(pos)) == L:
                pos[1] = pos[0]
        elif shape == "descending":
            pos = list(range(i + L - 1, i - 1, -1))
        elif shape == "contiguous":
            pos = list(range(i, i + L))
        elif shape == "same":
            pos = [i] * L
        elif shape == "scattered":
            pos = rng.sample(range(n), L)
        else:
            pos = list(range(n))
        emit({"op": "subset", "id": "d0", "out": "d%d" % k, "names": [nm[p_] for p_ in pos], "name": rng.choice([None, "sub"])})
        emit({"op": "get_index", "id": "d%d" % k, "i": len(live["d%d" % k].rows) - 1})
        k += 1
    return {"t": "hist", "ops": ops}


# --------------------------------------------------------------------------------------
# executing a history on the implementation
# --------------------------------------------------------------------------------------

EMPTY_DTYPE = {"i": np.int64, "f": np.float64, "b": np.bool_, "s": "<U1"}


def col_array(key, vals):
    """A property column as the NumPy array a caller would pass; an empty column is typed like the key's values
    (NumPy would otherwise make it float64 and coerce whatever is appended later)."""
    if not vals and key in PROPTYPES:
        return np.array([], dtype=EMPTY_DTYPE[PROPTYPES[key]])
    return np.array([unpval(v) for v in vals])


class ImplRun:
    def __init__(self, tmpdir):
        self.live = {}
        self.tmp = tmpdir
        self.k = 0

    def dump_all(self):
        return {i: dump_db(d) for i, d in sorted(self.live.items())}

    def step(self, op):
        """Returns the canonical answer of one op."""
        o = op["op"]
        L = self.live
        if o == "new":
            L[op["id"]] = FingerprintDatabase(fp_type=CLS[op["kind"]], level=op["level"], name=op["name"])
            return {"ok": None}
        if o == "from_array":
            data, indices, indptr = [], [], [0]
            for ent in op["rows"]:
                for c, v in ent:
                    indices.append(c)
                    data.append(float(Fraction(v)))
                indptr.append(len(indices))
            arr = csr_matrix((np.array(data, dtype=DTYPE[op["kind"]]), np.array(indices, dtype=np.int64),
                              np.array(indptr, dtype=np.int64)), shape=(len(op["rows"]), op["bits"]))
            props = {k: col_array(k, vals) for k, vals in op["props"]}
            # `fp_type` is optional: left out, the kind is the one of the matrix dtype (bool / integer / floating)
            kw = {} if op.get("infer_kind") else {"fp_type": CLS[op["kind"]]}
            L[op["id"]] = FingerprintDatabase.from_array(arr, list(op["names"]), level=op["level"], name=op["name"], props=props, **kw)
            return {"ok": None}
        if o == "add":
            fps = [make_fpin(s) for s in op["fps"]]
            return attempt(lambda: L[op["id"]].add_fingerprints(fps))
        if o == "get_index":
            return attempt(lambda: L[op["id"]][op["i"]], dump_fpin)
        if o == "get_name":
            return attempt(lambda: L[op["id"]][op["nm"]], lambda l: [dump_fpin(x) for x in l])
        if o == "subset":
            r = attempt(lambda: L[op["id"]].get_subset(op["names"], name=op["name"]), lambda d: d)
            return self._put(op, r)
        if o == "as_type":
            return self._put(op, attempt(lambda: L[op["id"]].as_type(CLS[op["kind"]], copy=True)))
        if o == "copy":
            return self._put(op, attempt(lambda: copy.copy(L[op["id"]])))
        if o == "fold":
            return self._put(op, attempt(lambda: L[op["id"]].fold(op["bits"], fp_type=None if op["kind"] is None else CLS[op["kind"]], name=op["name"])))
        if o == "concat":
            return self._put(op, attempt(lambda: concat([L[j] for j in op["ids"]])))
        if o == "set_prop":
            return attempt(lambda: L[op["id"]].set_prop(op["key"], col_array(op["key"], op["vals"])))
        if o == "update_props":
            return attempt(lambda: L[op["id"]].update_props({k: col_array(k, vals) for k, vals in op["props"]}))
        if o == "pickle":
            return self._put(op, attempt(lambda: pickle.loads(pickle.dumps(L[op["id"]]))))
        if o == "savez":
            def go():
                self.k += 1
                p = os.path.join(self.tmp, "db%d.fpz" % self.k)
                try:
                    L[op["id"]].savez(p)
                    return FingerprintDatabase.load(p)
                finally:
                    if os.path.exists(p):
                        os.remove(p)
            return self._put(op, attempt(go))
        if o == "eq":
            return attempt(lambda: bool(L[op["a"]] == L[op["b"]]))
        if o == "iter":
            return attempt(lambda: [dump_fpin(x) for x in L[op["id"]]] and None)
        if o == "density":
            return attempt(lambda: (L[op["id"]].get_density(), L[op["id"]].get_density(0)) and None)
        if o == "metric":
            d = L[op["id"]]
            if d.bits > 2 ** 16:      # X * Y.T over 2^32 columns takes scipy ~20 s (csc->csr of a 2^32-row matrix)
                return attempt(lambda: (fpmetrics.soergel(d),) and None)
            return attempt(lambda: (fpmetrics.tanimoto(d, d), fpmetrics.soergel(d), fpmetrics.cosine(d, d[0])) and None)
        raise ValueError(o)

    def _put(self, op, r):
        if "ok" in r:
            if op.get("out"):
                self.live[op["out"]] = r["ok"]
            return {"ok": None}
        return r


def model_op(op):
    """The driver line(s) for one history op."""
    o = op["op"]
    if o == "new":
        return [{"op": "db.new", "id": op["id"], "kind": op["kind"], "level": op["level"], "name": op["name"]}]
    if o == "from_array":
        return [{"op": "db.from_array", "id": op["id"], "rows": op["rows"], "bits": op["bits"], "names": op["names"],
                 "kind": op["kind"], "level": op["level"], "name": op["name"], "props": op["props"]}]
    if o == "add":
        return [{"op": "db.add", "id": op["id"], "fps": op["fps"]}]
    if o == "get_index":
        return [{"op": "db.get_index", "id": op["id"], "i": op["i"]}]
    if o == "get_name":
        return [{"op": "db.get_name", "id": op["id"], "nm": op["nm"]}]
    if o == "subset":
        return [{"op": "db.subset", "id": op["id"], "out": op["out"] or "_", "names": op["names"], "name": op["name"]}]
    if o in ("as_type",):
        return [{"op": "db.as_type", "id": op["id"], "out": op["out"], "kind": op["kind"]}]
    if o == "copy":
        return [{"op": "db.as_type", "id": op["id"], "out": op["out"], "kind": op["kind"]}]
    if o == "fold":
        return [{"op": "db.fold", "id": op["id"], "out": op["out"], "bits": op["bits"], "kind": op["kind"], "name": op["name"]}]
    if o == "concat":
        return [{"op": "db.concat", "ids": op["ids"], "out": op["out"] or "_"}]
    if o == "set_prop":
        return [{"op": "db.set_prop", "id": op["id"], "key": op["key"], "vals": op["vals"]}]
    if o == "update_props":
        return [{"op": "db.update_props", "id": op["id"], "props": op["props"]}]
    if o == "pickle":
        return [{"op": "db.pickle", "id": op["id"], "out": op["out"]}]
    if o == "savez":
        return [{"op": "db.savez_load", "id": op["id"], "out": op["out"]}]
    if o == "eq":
        return [{"op": "db.eq", "a": op["a"], "b": op["b"]}]
    return [{"op": "db.dump", "id": op["id"]}]      # read-only ops: the model state does not move


def model_result(op, ans):
    """Reduce a driver answer to the shape ImplRun.step returns."""
    o = op["op"]
    if "driver_error" in ans:
        return ans
    if o in ("get_index", "get_name", "eq"):
        return ans
    if "err" in ans:
        return {"err": ans["err"]}
    return {"ok": None}
