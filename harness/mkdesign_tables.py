"""Prints the summary table of DESIGN.md section 13 from the evidence files of the last runs."""
import glob, json, os
V = os.path.dirname(os.path.dirname(os.path.abspath(__file__)))
man = {c["property_id"]: c for c in json.load(open(os.path.join(V, "MANIFEST.json")))["checks"]}
seeded = {}
for f in glob.glob(os.path.join(V, "seeded", "*", "meta.json")):
    m = json.load(open(f))
    seeded.setdefault(m["property"], []).append(os.path.basename(os.path.dirname(f)))
print("| id | theorems audited | obligations (discharged) | correspondence cases / non-trivial (quick, seed 0) | quick wall s | seeded changes caught |")
print("|---|---|---|---|---|---|")
tot = 0
for f in sorted(glob.glob(os.path.join(V, "evidence", "C*.json"))):
    e = json.load(open(f))
    c = e["coverage"]
    tot += len(c["theorems"])
    print("| %s | %d | %d (%d) | %d / %d | %d | %s |" % (e["property_id"], len(c["theorems"]), c["obligations"], c["discharged"], c["evaluations"],
                                                   c["distinct_nontrivial"], round(e["wall_s"]), ", ".join(sorted(seeded.get(e["property_id"], []))) or "-"))
print()
print("Total property theorems audited on every run: %d (plus the lemmas they depend on under Lemmas/)." % tot)
