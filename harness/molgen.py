"""Molecules, conformers, option draws and the implementation runner for the fingerprinter properties
(C01-C04, C12, C17, C18).  A molecule is referred to by a small JSON *ref* from which the RDKit
object is rebuilt deterministically, so every case replays exactly."""
from __future__ import annotations

import bz2
import glob
import math
import os
import struct

import numpy as np

from harness import vlib

vlib.setup_env()

from rdkit import Chem, RDLogger  # noqa: E402
from rdkit.Chem import AllChem  # noqa: E402
from rdkit.Geometry import Point3D  # noqa: E402

RDLogger.DisableLog("rdApp.*")

from e3fp.fingerprint import fprinter as FPR  # noqa: E402
from e3fp.fingerprint.fprinter import Fingerprinter  # noqa: E402
from harness.fpgen import attempt, dump_fp, exc_enum  # noqa: E402

DATA = os.path.join(vlib.REPO, "tests", "data")

SMILES = [
    # planar / aromatic
    "c1ccccc1", "Cn1cnc2c1c(=O)n(C)c(=O)n2C", "c1ccncc1", "c1ccc2ccccc2c1", "O=C1C=CC(=O)C=C1",
    # linear
    "O=C=O", "C#N", "CC#CC", "N#CC#N", "C=C=C",
    # symmetric
    "CC(C)(C)C", "ClC(Cl)(Cl)Cl", "C1CCCCC1", "FS(F)(F)(F)(F)F", "C1CC1", "CC", "C", "O", "N",
    # chiral centres
    "C[C@H](N)C(=O)O", "C[C@@H](N)C(=O)O", "F[C@](Cl)(Br)I", "F[C@@](Cl)(Br)I", "C[C@H](O)[C@@H](O)C", "OC[C@H]1OC(O)[C@H](O)[C@@H](O)[C@@H]1O",
    "C/C=C/C", "C/C=C\\C",
    # salts, hydrates, counter-ions (floating atoms)
    "[Na+].[Cl-]", "CC(=O)[O-].[Na+]", "C[NH3+].[Cl-]", "O.CCO", "[K+].[O-]C(=O)c1ccccc1", "O.O.CC(=O)O", "[Ca+2].[Cl-].[Cl-].CCO",
    "[Na+].CCO", "[Cl-].C[N+](C)(C)C", "[NH4+].[Cl-]", "C.[Na+].O", "O.[Na+]", "[NH4+].[NH4+].[O-]S(=O)(=O)[O-]",
    # drug-like
    "CC(C)Cc1ccc(cc1)C(C)C(=O)O", "CC(=O)Oc1ccccc1C(=O)O", "CN1CCC[C@H]1c1cccnc1", "COC(=O)C(c1ccccc1)C1CCCCN1",
    "CC(=O)Nc1ccc(O)cc1", "NC(=O)c1cccnc1", "OC(=O)CCC(=O)O", "CCN(CC)CC", "CS(=O)C", "OP(=O)(O)O", "CC(C)=O", "C1COCCO1",
    "c1ccc(cc1)-c1ccccc1", "FC(F)(F)c1ccccc1", "CCOC(=O)C", "NCCO", "SCCS", "BrCCBr", "c1csc(n1)N", "C1=CCC=CC1", "CC1=CC(=O)CC(C)(C)C1",
    "N[C@@H](Cc1ccccc1)C(=O)O", "C[S+](C)C.[I-]",
    # isotopically labelled hydrogens (RDKit keeps them as explicit atoms): hydrogens all the same
    "[2H]C([2H])([2H])C(=O)Nc1ccccc1", "[2H]Oc1ccccc1[3H]", "[2H]C([2H])([2H])O.[Na+]", "[2H]N([2H])CCO",
]

_cache = {}


def sdf_paths():
    return sorted(glob.glob(os.path.join(DATA, "*.sdf.bz2")) + glob.glob(os.path.join(DATA, "rand_sdf_files", "*.sdf.bz2")))


def load_ref(ref):
    """ref -> RDKit Mol with conformers.  {"sdf": relpath} | {"smiles": s, "nconf": n, "seed": k, "hs": bool}"""
    key = vlib.canon(ref)
    if key in _cache:
        return _cache[key]
    if "exotic" in ref:
        # a molecule carrying one bond of a type outside e3fp's BOND_TYPES table (dative, zero-order, quadruple ...): the
        # unchanged library refuses it (KeyError); it must refuse it - or treat it - the same way whatever was processed before
        base = Chem.AddHs(Chem.MolFromSmiles("OCC(N)CO"))
        AllChem.EmbedMolecule(base, randomSeed=11)
        rw = Chem.RWMol(base)
        bt = {"dative": Chem.BondType.DATIVE, "zero": Chem.BondType.ZERO, "quadruple": Chem.BondType.QUADRUPLE, "hydrogen": Chem.BondType.HYDROGEN}[ref["exotic"]]
        rw.GetBondBetweenAtoms(0, 1).SetBondType(bt)      # the O-C bond: neighbours from the first iteration on
        mol = rw.GetMol()
        mol.UpdatePropertyCache(strict=False)
        mol.SetProp("_Name", "exotic-" + ref["exotic"])
        _cache[key] = mol
        return mol
    if "overlap" in ref:
        # a conformer with heavy atoms at exactly identical coordinates (a record without coordinates: everything at the
        # origin; an atom placed on another one).  The library warns and continues; distance 0 lies within every positive radius.
        import random as _r
        rr = _r.Random(ref.get("seed", 1))
        base = load_ref(ref["overlap"])
        mol = Chem.Mol(base)
        mol.RemoveAllConformers()
        c = Chem.Conformer(base.GetConformer(0))
        heavy = [a.GetIdx() for a in mol.GetAtoms() if a.GetAtomicNum() > 1]
        if ref.get("mode") == "allzero" or len(heavy) < 2:
            for i in range(c.GetNumAtoms()):
                c.SetAtomPosition(i, Point3D(0.0, 0.0, 0.0))
        else:
            i, j = rr.sample(heavy, 2)
            c.SetAtomPosition(j, c.GetAtomPosition(i))
        mol.AddConformer(c, assignId=True)
        mol.SetProp("_Name", "overlap")
        _cache[key] = mol
        return mol
    if "ideal" in ref:
        # an idealised, exactly symmetric conformer: RDKit's 2D depiction (regular polygons, equal bond lengths) taken as a planar
        # 3D conformer - what idealised builders, depiction-derived inputs and symmetric crystal positions look like
        mol = Chem.MolFromSmiles(ref["ideal"])
        AllChem.Compute2DCoords(mol)
        mol.GetConformer().Set3D(True)
        mol.SetProp("_Name", "ideal")
        _cache[key] = mol
        return mol
    if "umbrella" in ref:
        # synthetic conformer of a symmetric AX_k centre: k identical neighbours on a cone whose mean vector has a chosen
        # length (the fingerprinter's mean-vector guard is at 0.1 A), slightly distorted so that it is in general position
        import random as _r
        rr = _r.Random(ref.get("seed", 1))
        mol = Chem.MolFromSmiles(ref["umbrella"])
        k = max(a.GetDegree() for a in mol.GetAtoms())
        centre = [a.GetIdx() for a in mol.GetAtoms() if a.GetDegree() == k][0]
        nbrs = [n.GetIdx() for n in mol.GetAtomWithIdx(centre).GetNeighbors()]
        r0 = ref.get("r", 1.35)
        cosT = min(0.99, ref["mean"] / r0)
        sinT = math.sqrt(1 - cosT * cosT)
        conf = Chem.Conformer(mol.GetNumAtoms())
        conf.SetAtomPosition(centre, Point3D(0.0, 0.0, 0.0))
        for j, a in enumerate(nbrs):
            phi = 2 * math.pi * j / k + ref.get("twist", 0.07) * (j % 2)
            conf.SetAtomPosition(a, Point3D(r0 * sinT * math.cos(phi) + rr.uniform(-1e-3, 1e-3),
                                            r0 * sinT * math.sin(phi) + rr.uniform(-1e-3, 1e-3),
                                            r0 * cosT + rr.uniform(-1e-3, 1e-3)))
        for a in mol.GetAtoms():
            if a.GetIdx() != centre and a.GetIdx() not in nbrs:       # further atoms (e.g. the oxygens' partners): far away
                conf.SetAtomPosition(a.GetIdx(), Point3D(3.0 + a.GetIdx(), 2.0, 1.0))
        mol.AddConformer(conf, assignId=True)
        mol.SetProp("_Name", "umbrella")
        _cache[key] = mol
        return mol
    if "sdf" in ref:
        path = os.path.join(vlib.REPO, ref["sdf"])
        with bz2.open(path, "rb") as f:
            block = f.read().decode()
        sup = Chem.SDMolSupplier()
        sup.SetData(block, removeHs=False)
        mol = None
        for m in sup:
            if m is None:
                continue
            if mol is None:
                mol = Chem.Mol(m)
                mol.RemoveAllConformers()
            c = Chem.Conformer(m.GetConformer(0))
            mol.AddConformer(c, assignId=True)
        if ref.get("addhs"):
            # the same conformers with explicit hydrogens (placed by RDKit): molecules of 60-90 atoms, so that after a
            # renumbering heavy atoms carry indices beyond 63
            mol = Chem.AddHs(mol, addCoords=True)
    else:
        mol = Chem.MolFromSmiles(ref["smiles"])
        if ref.get("hs", True):
            mol = Chem.AddHs(mol)
        ids = AllChem.EmbedMultipleConfs(mol, numConfs=ref.get("nconf", 2), randomSeed=ref.get("seed", 7))
        if len(ids) == 0:
            # tiny molecules: fall back to a deterministic layout
            AllChem.EmbedMolecule(mol, randomSeed=ref.get("seed", 7), useRandomCoords=True)
        if mol.GetNumConformers() == 0:
            conf = Chem.Conformer(mol.GetNumAtoms())
            for i in range(mol.GetNumAtoms()):
                conf.SetAtomPosition(i, Point3D(1.3 * i, 0.37 * (i % 3), 0.11 * (i % 2)))
            mol.AddConformer(conf, assignId=True)
        mol.SetProp("_Name", "smi")
    if ref.get("scales"):
        # extra conformers of the SAME molecule object: scaled copies of its first conformers.  Their shells fill at
        # different iterations, so runs on them stop at different levels - what a history check needs.
        base = mol
        mol = Chem.Mol(base)
        mol.RemoveAllConformers()
        for j in range(min(3, base.GetNumConformers())):
            for sc in ref["scales"]:
                c = Chem.Conformer(base.GetConformer(j))
                for i in range(c.GetNumAtoms()):
                    p = c.GetAtomPosition(i)
                    c.SetAtomPosition(i, Point3D(p.x * sc, p.y * sc, p.z * sc))
                mol.AddConformer(c, assignId=True)
    _cache[key] = mol
    return mol


IDEAL_SMILES = ["c1ccccc1", "Oc1ccc2ccccc2c1", "C1CCCCC1", "Cc1ccccc1", "c1ccncc1", "Cc1ccc(C)cc1", "C1CCC1", "c1ccc2ccccc2c1", "CC(C)C",
                "C1CCCC1", "O=C1C=CC(=O)C=C1", "Clc1cc(Cl)cc(Cl)c1"]


def ideal_refs():
    return [{"ideal": s} for s in IDEAL_SMILES]


# a chain of 268 heavy atoms: atom indices beyond 255.  Not part of all_refs(): the model of the fingerprinter is far too slow on
# it for deep runs; C02 and C03 take it once per run with few levels (cap_opts)
HUGE_REF = {"smiles": "OC(=O)" + "CCO" * 88 + "C", "nconf": 1, "seed": 5, "hs": False}


def all_refs():
    refs = [{"sdf": os.path.relpath(p, vlib.REPO)} for p in sdf_paths()]
    refs += [{"smiles": s, "nconf": 2, "seed": 7, "hs": True} for s in SMILES]
    # large molecules: shipped conformers with explicit hydrogens added (60-90 atoms), a chain of more than 64 heavy atoms
    big = [p for p in sdf_paths() if "rand_sdf_files" not in p] + sdf_paths()[-3:]
    refs += [{"sdf": os.path.relpath(p, vlib.REPO), "addhs": True} for p in big[:6]]
    refs.append({"smiles": "OC(=O)" + "CCO" * 22 + "C", "nconf": 1, "seed": 5, "hs": False})
    # symmetric centres whose mean neighbour vector straddles the 0.1 A guard of pick_y
    for smi in ("FB(F)F", "O=S(=O)=O", "CB(C)C", "FP(F)F", "ClC(Cl)(Cl)Cl", "CN(C)C"):
        for mean in (0.03, 0.085, 0.115, 0.16, 0.3):
            refs.append({"umbrella": smi, "mean": mean, "seed": 3})
    return refs


# --------------------------------------------------------------------------------------
# facts handed to the model (read with direct RDKit calls, not through e3fp's helpers)
# --------------------------------------------------------------------------------------

def bond_code(bond):
    t = bond.GetBondType()
    return {Chem.BondType.SINGLE: 1, Chem.BondType.DOUBLE: 2, Chem.BondType.TRIPLE: 3, Chem.BondType.AROMATIC: 4}.get(t, 0)


def mol_facts(mol):
    pt = Chem.GetPeriodicTable()
    atoms = []
    for a in mol.GetAtoms():
        nh = a.GetTotalNumHs()
        inv_d = [a.GetTotalDegree() - nh, a.GetTotalValence() - nh, a.GetAtomicNum(), int(a.GetMass()), a.GetFormalCharge(), nh, int(a.IsInRing())]
        inv_r = [a.GetAtomicNum(), a.GetTotalDegree(), nh, a.GetFormalCharge(), int(a.GetMass() - pt.GetAtomicWeight(a.GetAtomicNum())), int(a.IsInRing())]
        atoms.append({"idx": a.GetIdx(), "z": a.GetAtomicNum(), "deg": a.GetDegree(), "invD": inv_d, "invR": inv_r})
    bonds = [[b.GetBeginAtomIdx(), b.GetEndAtomIdx(), bond_code(b)] for b in mol.GetBonds()]
    return {"atoms": atoms, "bonds": bonds}


def fbits(x):
    return struct.unpack("<Q", struct.pack("<d", float(x)))[0]


def coords_of(conf):
    out = []
    for i in range(conf.GetNumAtoms()):
        p = conf.GetAtomPosition(i)
        out.append([i, fbits(p.x), fbits(p.y), fbits(p.z)])
    return out


# --------------------------------------------------------------------------------------
# transformed twins
# --------------------------------------------------------------------------------------

def quat_matrix(q):
    w, x, y, z = q
    n = math.sqrt(w * w + x * x + y * y + z * z)
    w, x, y, z = w / n, x / n, y / n, z / n
    return np.array([[1 - 2 * (y * y + z * z), 2 * (x * y - z * w), 2 * (x * z + y * w)],
                     [2 * (x * y + z * w), 1 - 2 * (x * x + z * z), 2 * (y * z - x * w)],
                     [2 * (x * z - y * w), 2 * (y * z + x * w), 1 - 2 * (x * x + y * y)]])


def transformed(mol, conf_id, tr):
    """Copy of `mol` holding one conformer: conformer `conf_id` moved by tr = {"q": quat, "t": vec, "reflect": bool,
    "perturb": [seed, scale], "quant": k (snap to the 2^-k grid first), "origin_atom": i (then put atom i on the origin)};
    returns (mol, conf)."""
    m = Chem.Mol(mol)
    conf = Chem.Conformer(mol.GetConformer(conf_id))
    X = np.array([list(conf.GetAtomPosition(i)) for i in range(conf.GetNumAtoms())], dtype=float)
    if tr:
        if tr.get("displace"):
            r = np.random.RandomState(tr["displace"]["seed"])
            mode = tr["displace"].get("mode", "near")
            for i in tr["displace"]["atoms"]:
                if mode == "near":
                    X[i] = X[i] + r.uniform(-3, 3, 3)
                elif mode == "far":
                    X[i] = X[i] + r.uniform(-1, 1, 3) * 1e6
                elif mode == "onto":
                    X[i] = X[r.randint(len(X))]                  # exactly onto another atom
                elif mode == "origin":
                    X[i] = 0.0
                else:                                            # coordinates that are not numbers at all (a file without them)
                    X[i] = np.array([float("nan"), float("inf"), -float("inf")])[r.permutation(3)] if r.rand() < 0.5 else float("nan")
        if tr.get("quant"):
            # snap to the grid 2^-quant: with |x| < 2^10 every difference and every sum with a grid vector is exact in double
            g = float(2 ** tr["quant"])
            X = np.round(X * g) / g
        if tr.get("perturb"):
            r = np.random.RandomState(tr["perturb"][0])
            X = X + r.uniform(-1, 1, X.shape) * tr["perturb"][1]
        if tr.get("reflect"):
            X = X * np.array([1.0, 1.0, -1.0])
        if tr.get("q"):
            X = X @ quat_matrix(tr["q"]).T
        if tr.get("origin_atom") is not None:
            heavy = [a.GetIdx() for a in mol.GetAtoms() if a.GetAtomicNum() > 1] or [0]
            X = X - X[heavy[tr["origin_atom"] % len(heavy)]]
        if tr.get("t"):
            X = X + np.array(tr["t"], dtype=float)
    for i in range(conf.GetNumAtoms()):
        conf.SetAtomPosition(i, Point3D(float(X[i, 0]), float(X[i, 1]), float(X[i, 2])))
    m.RemoveAllConformers()
    m.AddConformer(conf, assignId=True)
    return m, m.GetConformer(0)


def gen_transform(rng, reflect=False, kind=None):
    q = [rng.gauss(0, 1) for _ in range(4)]
    u = 0.3 if kind == "diagonal" else rng.random()
    if u < 0.2:       # axis-aligned quarter turns
        q = rng.choice([[1, 1, 0, 0], [1, 0, 1, 0], [1, 0, 0, 1], [0, 1, 0, 0], [1, 1, 1, 1]])
    elif u < 0.4:     # an axis onto a cube diagonal (all components of an axial vector become equal), after a spin about it
        a = math.acos(1 / math.sqrt(3)) / 2
        d = [math.cos(a), -math.sin(a) / math.sqrt(2), math.sin(a) / math.sqrt(2), 0.0]
        sp = rng.uniform(0, math.pi)
        z = [math.cos(sp), 0.0, 0.0, math.sin(sp)]
        # quaternion product d * z  (first spin about z, then tilt z onto the diagonal)
        q = [d[0] * z[0] - d[1] * z[1] - d[2] * z[2] - d[3] * z[3],
             d[0] * z[1] + d[1] * z[0] + d[2] * z[3] - d[3] * z[2],
             d[0] * z[2] - d[1] * z[3] + d[2] * z[0] + d[3] * z[1],
             d[0] * z[3] + d[1] * z[2] - d[2] * z[1] + d[3] * z[0]]
    return {"q": q, "t": [rng.uniform(-20, 20) for _ in range(3)], "reflect": reflect}


# --------------------------------------------------------------------------------------
# options
# --------------------------------------------------------------------------------------

def gen_opts(rng, level=None):
    o = {"bits": rng.choice([2 ** 32, 2 ** 32, 4096, 1024, 64]),
         "level": rng.choice([0, 1, 2, 3, 5, 5, 8, -1]) if level is None else level,
         "radius_multiplier": rng.choice([0.5, 1.0, 1.718, 1.718, 2.5]),
         "stereo": rng.random() < 0.7, "counts": rng.random() < 0.4,
         "include_disconnected": rng.random() < 0.8, "rdkit_invariants": rng.random() < 0.25,
         "exclude_floating": rng.random() < 0.75, "remove_duplicate_substructs": rng.random() < 0.8}
    if o["level"] == -1:
        o["remove_duplicate_substructs"] = True
    return o


def cap_opts(ref, o):
    """the 268-heavy-atom chain is there for its atom indices, not for deep runs: few levels, moderate radius"""
    if ref == HUGE_REF:
        o["level"] = 2 if o["level"] in (0, 1, 2) else 3
        o["radius_multiplier"] = 1.718
        o["remove_duplicate_substructs"] = True
    return o


def make_fprinter(o):
    return Fingerprinter(bits=o["bits"], level=o["level"], radius_multiplier=o["radius_multiplier"], stereo=o["stereo"],
                         counts=o["counts"], include_disconnected=o["include_disconnected"], rdkit_invariants=o["rdkit_invariants"],
                         exclude_floating=o["exclude_floating"], remove_duplicate_substructs=o["remove_duplicate_substructs"])


def dump_shell(s):
    return [int(s.center_atom), int(s.identifier), sorted(int(a) for a in s.substruct.atoms)]


def dump_run(fp, queries):
    """Everything observable after a run, in the model's output format."""
    levels = []
    for k in sorted(fp.level_shells):
        levels.append(sorted((dump_shell(s) for s in fp.level_shells[k]), key=lambda t: (t[0], t[1])))
    qs = []
    for qi, q in enumerate(queries):
        kw = {}
        if q.get("mask"):
            kw["atom_mask"] = set(q["mask"])
        lvl = q.get("level")
        if qi % 2 == 1 and isinstance(lvl, int):
            # every second query asks with a NumPy integer (a level taken from np.arange or an int array is one), alternating widths
            lvl = (np.int64, np.int32, np.int16)[(qi // 2) % 3](lvl)
        r = attempt(lambda: fp.get_fingerprint_at_level(lvl, bits=q.get("bits"), **kw), dump_fp)
        try:
            sh = sorted((dump_shell(s) for s in fp.get_shells_at_level(lvl, **kw)), key=lambda t: (t[0], t[1]))
        except Exception as e:  # noqa: BLE001
            sh = {"err": exc_enum(e)}
        qs.append({"fp": r, "shells": sh})
    return {"current": fp.current_level, "levels": levels, "queries": qs, "atoms": [int(a) for a in fp.atoms]}


def run_impl(mol, conf, o, queries):
    def go():
        fp = make_fprinter(o)
        fp.run(conf, mol)
        return dump_run(fp, queries)
    return attempt(go)


def model_run_op(mol, conf, o, queries):
    oo = dict(o)
    mult = oo.pop("radius_multiplier")
    return {"op": "fpr.run", "opts": oo, "mol": mol_facts(mol), "coords": coords_of(conf), "mult": fbits(mult), "queries": queries}


def gen_queries(rng, o, n=3):
    qs = [{"level": -1, "bits": None, "mask": []}]
    for _ in range(n):
        qs.append({"level": rng.choice([-1, 0, 1, 2, 3, 5, 9]), "bits": rng.choice([None, None, 1024, 32, 2 ** 32]), "mask": []})
    return qs


def in_domain(mol, o):
    """The properties quantify over molecules that retain at least one heavy atom (and whose bond types the
    BOND_TYPES table knows)."""
    heavy = [a for a in mol.GetAtoms() if a.GetAtomicNum() > 1]
    if o.get("exclude_floating", True) and len(heavy) > 1:
        heavy = [a for a in heavy if a.GetDegree() > 0]
    return len(heavy) > 0 and all(bond_code(b) != 0 for b in mol.GetBonds())
