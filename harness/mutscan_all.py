"""Runs harness.mutscan over a sample of the mutation sites of every mapped file, N worktrees in parallel; appends JSON lines."""
import json, os, subprocess, sys, queue, threading
from harness.mutscan import CHECKS
N = int(sys.argv[1]); STEP = int(sys.argv[2]); OUT = sys.argv[3]
OFF = int(sys.argv[4]) if len(sys.argv) > 4 else 0
jobs = queue.Queue()
for rel in CHECKS:
    n = int(subprocess.run(["/venv/bin/python", "-m", "harness.mutscan", "list", rel], cwd="/verif", env=dict(os.environ, PYTHONPATH="/verif", E3FP_REPO="/repo"),
                           capture_output=True, text=True).stdout.strip() or 0)
    for i in range(OFF, n, STEP):
        jobs.put((rel, i))
lock = threading.Lock()
def worker(k):
    wt = "/tmp/ms/w%d" % k
    subprocess.run(["git", "-C", "/repo", "worktree", "remove", "--force", wt], capture_output=True)
    subprocess.run(["git", "-C", "/repo", "worktree", "add", "-q", "--detach", wt, "HEAD"], capture_output=True)
    while True:
        try:
            rel, i = jobs.get_nowait()
        except queue.Empty:
            break
        p = subprocess.run(["/venv/bin/python", "-m", "harness.mutscan", "run", rel, str(i), wt], cwd="/verif", env=dict(os.environ, PYTHONPATH="/verif"),
                           capture_output=True, text=True)
        line = (p.stdout.strip().splitlines() or [json.dumps({"file": rel, "i": i, "skip": p.stderr[-200:]})])[-1]
        with lock:
            open(OUT, "a").write(line + "\n")
    subprocess.run(["git", "-C", "/repo", "worktree", "remove", "--force", wt], capture_output=True)
ts = [threading.Thread(target=worker, args=(k,)) for k in range(N)]
[t.start() for t in ts]; [t.join() for t in ts]
print("done")
