"""Generators, dumps and helpers for fingerprint objects (shared by C05-C11, C16, C17)."""
from __future__ import annotations

from fractions import Fraction

import numpy as np

from harness import vlib

vlib.setup_env()

from e3fp.fingerprint import fprint as fpm  # noqa: E402
from e3fp.fingerprint.fprint import Fingerprint, CountFingerprint, FloatFingerprint  # noqa: E402
from e3fp.fingerprint.util import (  # noqa: E402
    E3FPBitsValueError, E3FPCountsError, E3FPInvalidFingerprintError, E3FPOptionError,
)

CLS = {"bit": Fingerprint, "count": CountFingerprint, "float": FloatFingerprint}
KINDS = ["bit", "count", "float"]
POW2_BITS = [1, 2, 4, 8, 16, 32, 64, 256, 1024, 4096, 2 ** 16, 2 ** 20, 2 ** 31, 2 ** 32]
ODD_BITS = [3, 7, 12, 100, 1000, 1023, 99999, 100000, 2 ** 31 - 1]


def kind_of(fp):
    c = fp.__class__
    if c is Fingerprint:
        return "bit"
    if c is CountFingerprint:
        return "count"
    if c is FloatFingerprint:
        return "float"
    return "other:" + c.__name__


def rat(v):
    """Exact rational text of a Python / NumPy number."""
    if isinstance(v, (bool, np.bool_)):
        v = int(v)
    if isinstance(v, (int, np.integer)):
        return str(int(v))
    fr = Fraction(float(v))
    return str(fr.numerator) if fr.denominator == 1 else "%d/%d" % (fr.numerator, fr.denominator)


def key(k):
    """A dictionary key that should be an integer index."""
    if isinstance(k, (int, np.integer)):
        return int(k)
    if isinstance(k, (float, np.floating)) and float(k).is_integer():
        return {"float_key": float(k)}
    return {"bad_key": repr(k)}


def dump_fp(fp):
    """Content of a real fingerprint object, in the model's format."""
    k = kind_of(fp)
    d = {"kind": k, "bits": int(fp.bits), "level": None if fp.level is None else int(fp.level),
         "idx": [int(i) for i in fp.indices.tolist()]}
    if k == "bit":
        d["cnt"] = []
    else:
        items = [(key(a), rat(b)) for a, b in fp.counts.items()]
        try:
            items.sort(key=lambda p: p[0])
        except TypeError:
            items.sort(key=lambda p: repr(p[0]))
        d["cnt"] = [[a, b] for a, b in items]
    return d


def exc_enum(e):
    if isinstance(e, E3FPBitsValueError):
        return "BitsValueError"
    if isinstance(e, E3FPCountsError):
        return "CountsError"
    if isinstance(e, E3FPInvalidFingerprintError):
        return "InvalidFingerprintError"
    if isinstance(e, E3FPOptionError):
        return "OptionError"
    for cls, name in ((ZeroDivisionError, "ZeroDivisionError"), (KeyError, "KeyError"), (IndexError, "IndexError"),
                      (ValueError, "ValueError"), (TypeError, "TypeError"), (RecursionError, "RecursionError"),
                      (AttributeError, "AttributeError"), (AssertionError, "AssertionError")):
        if isinstance(e, cls):
            return name
    return "Other:" + type(e).__name__


def attempt(fn, dump=lambda x: x):
    """{"ok": dump(result)} or {"err": enum}."""
    try:
        return {"ok": dump(fn())}
    except RecursionError:
        return {"err": "RecursionError"}
    except Exception as e:  # noqa: BLE001
        return {"err": exc_enum(e)}


def to_num(s):
    """Rational text -> Python number (int when integral, float otherwise; exact for dyadics)."""
    fr = Fraction(s)
    return int(fr) if fr.denominator == 1 else float(fr)


def make_fp(spec):
    """Real object from a spec {"kind","bits","level","idx","cnt"} (a model-format dump)."""
    k = spec["kind"]
    if k == "bit":
        # "raw_idx": the index list as the caller hands it over (repeats, any order); the content is its set
        return Fingerprint(np.array(spec.get("raw_idx", spec["idx"]), dtype=np.int64), bits=spec["bits"], level=spec["level"])
    counts = {int(i): to_num(v) for i, v in spec["cnt"]}
    return CLS[k](np.array(spec["idx"], dtype=np.int64), counts=counts, bits=spec["bits"], level=spec["level"])


# --------------------------------------------------------------------------------------
# generators (every random choice comes from the rng handed in)
# --------------------------------------------------------------------------------------

def gen_indices(rng, bits, maxn=24, style=None):
    if bits <= 0:
        return []
    style = style or rng.choice(["empty", "sparse", "sparse", "low", "high", "collide", "dense"])
    n = rng.randint(0, min(maxn, bits))
    if style == "empty":
        return []
    if style == "dense" and bits <= 64:
        return sorted(rng.sample(range(bits), rng.randint(bits // 2, bits)))
    if style == "low":
        pool = range(min(bits, 4 * maxn))
    elif style == "high":
        pool = range(max(0, bits - 4 * maxn), bits)
    elif style == "collide":
        m = rng.choice([b for b in (2, 4, 8, 32, 1024) if b <= bits] or [1])
        base = [rng.randrange(m) for _ in range(3)]
        s = set()
        for _ in range(n):
            s.add((rng.choice(base) + m * rng.randrange(max(1, bits // m))) % bits)
        return sorted(s)
    else:
        pool = None
    if pool is not None:
        return sorted(rng.sample(pool, min(n, len(pool))))
    s = set()
    for _ in range(n):
        s.add(rng.randrange(bits))
    return sorted(s)


def gen_value(rng, kind):
    if kind == "count":
        return str(rng.choice([1, 1, 2, 3, 5, 17, 100, 255, 65535]))
    num = rng.choice([1, 2, 3, 5, 7, 12, 40])
    den = rng.choice([1, 1, 2, 4, 8])
    fr = Fraction(num, den)
    return str(fr.numerator) if fr.denominator == 1 else "%d/%d" % (fr.numerator, fr.denominator)


def gen_fp(rng, kind=None, bits=None, level=None, style=None, maxn=24):
    """A well-formed fingerprint in model format."""
    kind = kind or rng.choice(KINDS)
    if bits is None:
        bits = rng.choice(POW2_BITS + [1024, 1024, 32, 8])
    if level is None:
        level = rng.choice([-1, 0, 2, 5, 5])
    idx = gen_indices(rng, bits, maxn, style)
    cnt = [] if kind == "bit" else [[i, gen_value(rng, kind)] for i in idx]
    return {"kind": kind, "bits": bits, "level": level, "idx": idx, "cnt": cnt}
