"""Writes MANIFEST.json from the table below (kept in one place so it never drifts)."""
import json, os
VERIF = os.path.dirname(os.path.dirname(os.path.abspath(__file__)))
BASELINE = ("cd /repo && NUMBA_CACHE_DIR=/verif/.work/numba /venv/bin/python -m pytest -ra -q -p no:cacheprovider "
            "--timeout=900 --continue-on-collection-errors")

# id -> (technique, level text, level note, design ref)
CHECKS = {
 "C07": ("Lean 4 theorems on the fold model (generated index expressions) + differential correspondence",
         "Machine-checked theorems (Props/C07.lean) about Fp.fold, whose index expressions are regenerated from "
         "fprint.py/db.py on every run: folded positions are i % b (resp. i / ratio), OR / sum of collisions, "
         "rejection iff not b*2^n, total conserved, two-step = one-step. Tied to the code by running model and "
         "implementation on the same seeded folds (all kinds, lengths to 2^32, both methods, options). Props/C07Route.lean: the fingerprint requested from the fingerprinter at b bits is the 2^32-bit fingerprint folded to b, whatever length the fingerprinter was built with; fold_guard / dbFold_guard: the model refuses exactly when the refusal guards translated statement by statement from the source (Gen.foldGuard) do. Props/C09Heap.lean (object model): a fold returns a new object (or the cached one), leaves the source's content unchanged, shares no container.",
         "Trusted: Lean kernel; extract.py's expression translation; harness canonicalisation; NumPy unique/int64 casts; "
         "IEEE exactness of log2 on exact powers of two.", "DESIGN.md section 5 (C07)"),
 "C01": ("Lean 4 invariance theorems over the real-number instance of the polymorphic geometry + differential correspondence of the Float instance on rigid-motion twins",
         "The fingerprinter model takes geometry only through a Geo record (shell membership tests, stereo codes) built by Geo.ofCoords from the polymorphic functions of Model/Geom.lean; "
         "Props/C01.lean proves (fully, no partial lemma) that over the real-number instance Geo.ofCoords is invariant under every proper rigid motion (rigid_invariant: orthogonal R, det R = 1, any translation, every molecule, option set and level) and, with stereo off, under every isometry (isometry_invariant_nostereo). "
         "Tied to the code by running the implementation and the Float instance on the same conformers and on rotated / translated / reflected twins (round-off band filtered by a 3e-14 A perturbation test and counted).",
         "Trusted: Lean kernel; extract.py; IEEE double vs real arithmetic (the band the property excludes); SciPy pdist, NumPy arccos; RDKit coordinates.",
         "DESIGN.md section 5 (C01)"),
 "C02": ("Lean 4 executable specification of E3FP (own MurmurHash3, own geometry) with refinement / range / mask theorems + differential correspondence + model-produced golden corpus",
         "Props/C02.lean: identifier range and the signed->unsigned bijection, level-0 and level-k identifier equations, duplicate removal order, mask exactness, totality. The Lean model is the "
         "executable specification; the implementation is compared with it at every level (centre, substructure, identifier), with atom masks, over the full option product, and against a golden corpus of identifiers.",
         "Trusted: Lean kernel; extract.py; the reading of the published algorithm in Model/Fprinter.lean; RDKit atom facts; mmh3 (compared). Known finding: bond types outside BOND_TYPES (dative) raise KeyError.",
         "DESIGN.md section 5 (C02)"),
 "C03": ("Lean 4 relabelling-invariance theorem of the whole iteration (simulation proof) and order-independence theorems on the tie-breaks + differential correspondence on renumbered twins",
         "Props/C03.lean: runFp_relabel / fingerprint_relabel - for every bijection of atom indices, every option set and every molecule with distinct atom indices, the renumbered run stops at the same level with the same multiset of "
         "(identifier, substructure mapped back) at every level and an equal fingerprint for every level, folding and mask, given geometries related by Geo.Relabels; runFpE_fingerprint - Python's set iteration order never reaches the fingerprint; "
         "first-unique selection depends only on key multiplicities. Tied to the code by Chem.RenumberAtoms twins (all n! for <= 4 atoms, reversal / transpositions / random otherwise) and shuffled conformer storage order; the model is compared with the "
         "implementation on each renumbered molecule.",
         "Trusted: Lean kernel; IEEE double vs real arithmetic (float summation order in the mean vector; round-off band filtered). The stereo tie hypothesis (S) of Geo.Relabels is derived from coordinates over the reals (runFp_relabel_coords / fingerprint_relabel_coords) "
         "under the general-position predicate GenPos (retained atoms >= 1e-6 A apart, none within 1e-6 A of the line through two others unless on it), needed only with stereo on and proved necessary by counter-examples.",
         "DESIGN.md section 5 (C03)"),
 "C04": ("Lean 4 history-irrelevance theorem on the model of the Fingerprinter object (identity-driven resets, molecule-scoped caches) + differential correspondence on run() histories",
         "Props/C04.lean: CacheValid is an invariant of every history and a run from any state with valid caches equals a fresh fingerprinter's run (run_eq_fresh). Tied to the code by histories of 3-12 run() calls in four call forms "
         "compared with the object model and with fresh objects; mutable defaults inspected; thorough tier samples hash seeds, threads, worker processes.",
         "Trusted: Lean kernel; partial by nature: thread/process interleavings are sampled, RDKit/NumPy thread safety is not modelled.",
         "DESIGN.md section 5 (C04)"),
 "C12": ("Lean 4 theorems on the iteration (labels, truncation, termination) + differential correspondence of long vs limited runs",
         "Props/C12.lean on the discrete fingerprinter model: the label is the requested level; (growing) nesting, truncation and convergence theorems. Tied to the code by one run to L=14 per conformer queried at every level "
         "against separate runs limited to each k and a level -1 run.",
         "Trusted: Lean kernel; extract.py; harness.", "DESIGN.md section 5 (C12)"),
 "C18": ("Lean 4 frame and deletion theorems (coordinates of non-retained atoms are never read; hydrogens never retained; deleting ignored atoms leaves the fingerprint equal) + differential correspondence on displaced / deleted atoms",
         "Props/C18.lean: retained atoms are heavy (and bonded under exclusion); Geo.ofCoords is only evaluated at retained atoms; deleting the non-retained atoms (a strictly monotone renumbering of the retained ones, MonoRel) leaves every fingerprint equal (delete_floating_fingerprint_coords). Tied to the code by displacing hydrogens and floating atoms, deleting floating atoms, and checking floating atoms contribute when exclusion is off.",
         "Trusted: Lean kernel; RDKit invariants under atom deletion (assumed, exercised).", "DESIGN.md section 5 (C18)"),
 "C05": ("Lean 4 model of the CSR+names+props database with refinement theorems to a list of rows + differential correspondence on histories",
         "Machine-checked theorems (Props/C05.lean, Props/C05Hist.lean, Props/C05Cols.lean: a concatenation aligns property columns by name whatever order they were declared in) over the database model (matrix rows, names, separately maintained name index, property "
         "columns): history_refines / faithful_container - EVERY history of operations (new, add, from_array, subset, as_type, fold, concat, set_prop, update_props, pickle, savez+load) run on the "
         "operational model yields, step by step, the same answers and the same abstract pool as the list-of-rows specification, the representation invariant holds in every reachable pool, and db[i] / db[name] "
         "answer as the specification's rows do; the compiled driver runs model and specification side by side on every generated history. "
         "Tied to the code by dumping every live database after every step of seeded histories and comparing with the model, and by observing "
         "db[i], db[name], the name index and iteration against a plain list-of-rows oracle.",
         "Trusted: Lean kernel; SciPy CSR vstack/slicing/sum_duplicates, NumPy savez/load and pickle enter as their meaning and are compared on every run.",
         "DESIGN.md section 5 (C05)"),
 "C13": ("Lean 4 theorems on the model of filter_conformers (selection contract for every energy list and RMSD oracle) + differential correspondence with recorded energies/RMSDs",
         "Props/C13.lean: for all energies, all RMSD oracles and all options the accepted conformers are pairwise at least the cutoff apart, no more than `first`, reported energies and the reported "
         "RMSD matrix are those of the returned conformers in the returned order; targets are resolved per molecule. Tied to the code by recording the pool energies and every RMSD the real loop asks for, "
         "feeding them to the model, and re-measuring the returned molecule independently (pairwise GetBestRMS, SMILES, input unmodified, seed repeat, generator reuse). The generator object (CGen): runMols_eq_fresh - over any history of molecules each one gets the pool size, target and `first` a fresh generator resolves; the automatic target is Gen.genNumConf, translated statement by statement from get_num_conformers (genNumConf_spec); tied by driver op conf.gen_hist against embed_molecule over histories of molecules of every rotatable-bond class.",
         "Trusted: Lean kernel; RDKit embedding / force fields / GetBestRMS (numerical engines). Partial by nature: seed reproducibility and 'same molecule' are observed, not proved.",
         "DESIGN.md section 5 (C13)"),
 "C14": ("Lean 4 refinement theorem: the conformer loop of fprints_dict_from_mol on ONE reused fingerprinter object equals direct (fresh) fingerprinting of the first N conformers (composing the C04 history theorem and the C12 truncation theorem) + theorems on naming / first-N / level keys + differential correspondence of the whole returned dictionary",
         "Props/C14Entry.lean: entry_eq_direct (for every option set, molecule, conformer list, name, `first` and all_iters the model of the entry point returns, key by key and conformer by conformer, the fingerprint a fresh fingerprinter computes, named <molecule>_<index>), entry_count, entry_names(_nodup), entry_prefix, entry_alliters_eq_limited (each level's list equals a separate run limited to that level). "
         "Props/C14.lean: the loop processes all conformers for first = -1 or >= n and exactly `first` otherwise; suffix-free names get `_<index>` (and the exclusion is necessary: example); level keys. "
         "Props/C14Save.lean (the save step): a call that returns fingerprints has written exactly the returned list under each level key (save_consistent), also when only some of the molecule's files existed before (save_partial_rewrites_all); skip, other files untouched, idempotence. "
         "Tied to the code by running fprints_from_mol / fprints_dict_from_mol (all_iters) / fprints_from_sdf / fprints_from_smiles / save+reload (also into directories holding files of earlier runs; file states compared with the save-run model) and comparing with per-conformer Fingerprinter runs.",
         "Trusted: Lean kernel; extract.py; RDKit SDF I/O, pickle/compression.", "DESIGN.md section 5 (C14)"),
 "C15": ("Lean 4 theorems on the batch model (collection is permutation-invariant, failures contribute nothing, existing files are never rewritten without overwrite) + real batch runs in three parallel modes with injected crashes",
         "Props/C15.lean: schedule_free (List.Perm of collected rows under any completion order), isolation, resume_safe (a path present before the run keeps its content when overwrite is off). Tied to the code by real runs of "
         "fingerprint.generate.run (serial / threads / processes x workers x shuffled inputs x unreadable inputs) compared with the model's collection of per-input results, and by killing the batch after the k-th save, re-running, and comparing SHA-256 of pre-existing outputs.",
         "Trusted: Lean kernel; Parallelizer / concurrent.futures / the OS. Partial by nature: OS scheduling and crash timing are sampled; MPI mode cannot run here and is not claimed.",
         "DESIGN.md section 5 (C15)"),
 "C19": ("Lean 4 theorems on the SDF write/read model (order, limits, 4-decimal energies) + differential correspondence",
         "Props/C19.lean: reading back what was written gives the first min(wlim, rlim) conformers in order; energies are rounded once (idempotent). Tied to the code by write/read cycles over three compressions, all limit pairs, "
         "sequential and non-sequential conformer ids, with the molecule's state compared before/after, and SMILES tables.",
         "Trusted: Lean kernel; extract.py; RDKit SDF record format and coordinate precision, codecs. Partial by nature: SDF text precision and codecs are observed, not proved.",
         "DESIGN.md section 5 (C19)"),
 "C20": ("kernel-decided coherence of the defaults table regenerated from the source (translator) + Lean round-trip theorems on the str()/literal_eval model + differential correspondence",
         "Props/C20.lean: defaults_coherent and defaults_cover are decided by `decide` over the complete table of 123 default declarations regenerated from /repo on every run (signatures, *_DEF constants, argparse parsers, generator class vs defaults.cfg); "
         "round-trip theorems for bool/None/int; Props/C20State.lean: the packaged file, the live default_params object and user files as a state machine - read_fallback, read_user_wins and read_history_free (a read with fill_defaults is a function of the packaged file and the user file only, after any history of the process). Tied to the code by writing/reading seeded option dictionaries of every scalar type through parameter files, by histories of derive / read / get_default on the real module (driver op cfg.hist), and by comparing fingerprints from a parameter file (pipeline route and batch route, library-written and hand-written) with the same options passed directly.",
         "Trusted: Lean kernel; extract.py (cross-checked against live inspect/argparse values); configparser, literal_eval, repr(float). Known findings: string options whose text is a Python literal change type; INI boolean spellings on the pipeline route; non-finite floats.",
         "DESIGN.md section 5 (C20)"),
 "C16": ("Lean 4 atomic-refusal theorems on the database model + differential correspondence with injected faults",
         "Machine-checked theorems (Props/C16.lean): add/set_prop/update_props refuse exactly the batches carrying a wrong level, wrong length, "
         "missing property or wrong column length at any position, and a refusal returns the database unchanged in every component. Tied to the code "
         "by histories with one injected fault per batch (kind x position) and full state dumps before/after.",
         "Trusted: Lean kernel; harness dumps; SciPy/NumPy primitives compared on every run.", "DESIGN.md section 5 (C16)"),
 "C06": ("Lean 4 theorems relating the three metric routes to the definitions (generated ratio expressions, merge-kernel induction) + differential correspondence",
         "Machine-checked theorems (Props/C06.lean, Props/C06Real.lean) about the model of fprint_metrics / array_metrics / the public dispatch in metrics/__init__ (routes_agree: fingerprint-vs-fingerprint, fingerprint-vs-database, database-vs-database and single-database forms give the same value, the one of the definition; ratio expressions regenerated from the source; the sparse "
         "Soergel kernel as the two-pointer merge it is): each route equals the definition, zero denominators score 0, symmetry, range, Soergel = Tanimoto on binary data. "
         "Tied to the code by evaluating five measures x eleven calling forms (fp/fp, fp/db, db/fp, db/db, single, fprint_metrics, dense, CSR canonical / shuffled / explicit zeros, assume_binary) "
         "on seeded operand pairs and comparing with the model's exact rationals (or num/sqrt(rad)); the index walk of _sparse_soergel on raw CSR arrays (Props/C06Csr.lean); 0/1 rows sharing more than 2^24 on-bits against the closed forms in |A|, |B|, |A&B| proved equal to the definitions (Props/C06Counts.lean).",
         "Trusted: Lean kernel; extract.py; SciPy sparse product/norms, np.corrcoef, cdist, nan_to_num, Numba's compilation of the kernels enter as their meaning and are compared on every run; float results compared to 1e-9.",
         "DESIGN.md section 5 (C06)"),
 "C08": ("Lean 4 round-trip / key-set theorems on the database model (generated npz key table) + differential correspondence",
         "Machine-checked theorems (Props/C08.lean): the npz key set written equals the one read, no reserved key carries the property prefix and stripping inverts prefixing "
         "(decided over the table regenerated from db.py), pickle and savez/load are the identity on databases satisfying the invariant and idempotent. Tied to the code by "
         "savez/load and save/load cycles (1-3) on seeded databases compared field by field, and savetxt output parsed line by line.",
         "Trusted: Lean kernel; extract.py; NumPy npz (de)serialisation, pickle, gzip/bz2/smart_open compared on every run. Names ending in NUL are outside (NumPy U dtype strips them).",
         "DESIGN.md section 5 (C08)"),
 "C17": ("Lean 4 theorems on conversions between kinds + differential correspondence",
         "Machine-checked theorems (Props/C17.lean) on fromFingerprint / Db.asType: support preserved in all six directions, values preserved where representable; bit and count fingerprints "
         "built from the same identifier list have the same support and the counts are multiplicities; Props/C17Db.lean: a database conversion re-casts every stored entry in place (asType_rows) and preserves the non-zero columns of every row for the bit and float kinds, negative entries included (asType_support). Tied to the code by converting generated and derived (a-b) fingerprints and whole databases in every direction, mixed-kind batches, float databases with negative entries.",
         "Trusted: Lean kernel; NumPy astype casts compared on every run. Negative counts in *fingerprint objects* (a-b with b>a) are outside the quantifier (documented class invariant: counts > 0); negative entries of float databases are inside.",
         "DESIGN.md section 5 (C17)"),
 "C09": ("Lean 4 theorems on the equality model + differential correspondence",
         "Machine-checked theorems (Props/C09.lean): == decides content equality on the model of Fingerprint.__eq__/CountFingerprint.__eq__ "
         "(hence reflexive, symmetric, transitive, != its negation, never an error within a kind family); copies equal. Tied to the code "
         "by running ==/!= both ways on seeded near-variant pairs/triples and by mutating copies through every public setter. Props/C09Heap.lean on the object model (Model/FpHeap: a heap of containers, ownership, the linked fold cache): in every reachable heap no container is referred to by two objects (run_inv), an operation changes nothing observable about any object it is not applied to (step_frame), results are built from newly allocated containers, and protected_history / copy_independent / original_independent: whatever is done to a copy and to anything made after it never changes an older object, and vice versa. Tied to the code by histories of operations on live objects with every object and the sharing relation (is / np.shares_memory) compared after every step, and by observers that must answer like a fresh object of the same content.",
         "Trusted: Lean kernel; harness canonicalisation; pickle/deepcopy. Copy independence of caller-supplied mutable prop values is not claimed.",
         "DESIGN.md section 5 (C09)"),
 "C10": ("Lean 4 round-trip theorems on the representation model + differential correspondence",
         "Machine-checked round-trip theorems (Props/C10.lean) for index array, dense/sparse vector, bit string, RDKit bit vector, pickle state "
         "under the class invariant WF; tied to the code by running each route (incl. save/load files with all extensions) on seeded fingerprints "
         "with bits up to 2^32.",
         "Trusted: Lean kernel; RDKit bit vectors, pickle, gzip/bz2/smart_open, SciPy CSR construction are abstract injective encodings compared on every run.",
         "DESIGN.md section 5 (C10)"),
 "C11": ("Lean 4 set-algebra / pointwise-arithmetic theorems + differential correspondence (exhaustive for small lengths)",
         "Machine-checked theorems (Props/C11.lean): the five set operators denote union / intersection / difference / symmetric difference of the "
         "operands' bits, count + and - are pointwise, scalars scale, batch sum/mean are pointwise sums/means, results well-formed, length mismatch rejected. "
         "Tied to the code by exhaustive enumeration of all operand pairs for lengths <= 3 (4 in thorough) x 5 operators x plain/reflected/in-place forms and seeded samples to 2^32, operands read back from databases / narrow-dtype vectors, NumPy scalar factors, mixed-kind expressions; operands-unchanged is the frame theorem of the object model (Props/C09Heap.lean: step_frame, builds_new) over operator, scalar and batch operations in object histories.",
         "Trusted: Lean kernel; NumPy set routines; float arithmetic exact on generated dyadic values.", "DESIGN.md section 5 (C11)"),
}
NOT_YET = {}

def main():
    props = [json.loads(l) for l in open(os.path.join(VERIF, "properties.jsonl"))]
    checks = []
    na = []
    for p in props:
        pid = p["id"]
        if pid in CHECKS:
            tech, text, note, ref = CHECKS[pid]
            checks.append({
                "property_id": pid,
                "quick_cmd": "bin/check %s --tier quick" % pid,
                "thorough_cmd": "bin/check %s --tier thorough" % pid,
                "evidence_file": "evidence/%s.json" % pid,
                "replay_cmd_template": "bin/check %s --replay {path}" % pid,
                "engine": "lean4-model+correspondence",
                "level_claimed": {"category": "proof", "text": text, "design_ref": ref},
                "level_note": note,
                "technique": tech,
            })
        else:
            na.append({"property_id": pid, "reason": NOT_YET.get(pid, "check not built yet in this round (the design claims it; see DESIGN.md section 13); nothing is claimed for it until its model, theorems and correspondence exist")})
    m = {
        "version": 1,
        "setup_cmd": "bin/setup",
        "hooks": {"guard": "E3FP_VERIF", "enable": "no source hooks: the harness reaches everything from outside (monkey-patching inside its own process, wrappers, subprocesses)",
                  "baseline_off_cmd": BASELINE, "source_commits": [], "add_only": True},
        "engines": [{"name": "lean4-model+correspondence", "path": "lean/ , harness/",
                     "serves_properties": sorted(CHECKS),
                     "kind_free_text": "Lean 4 executable model + machine-checked theorems; translator (harness/extract.py) regenerates Gen/*.lean from /repo; compiled driver compared with the implementation on seeded inputs"}],
        "checks": checks,
        "not_applicable": na,
        "notes": "bin/check <ID> regenerates lean/E3fpVerif/Gen from /repo, rebuilds and audits the property theorems, replays corpus/<ID>, runs the correspondence and the direct property evaluation; see DESIGN.md.",
    }
    json.dump(m, open(os.path.join(VERIF, "MANIFEST.json"), "w"), indent=1)

if __name__ == "__main__":
    main()
