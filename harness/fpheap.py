"""Histories of operations on fingerprint *objects* (identity, ownership, fold cache) - the implementation side of
Model/FpHeap.lean (driver op `fph.run`).

A history is a list of JSON operations; objects are named by creation number.  After every step every live object is
dumped: value, properties, fold cache (keys and the objects they name), parent link, both index maps, and the *sharing
relation* - which containers (index arrays, counts / property / cache / map dictionaries) of which objects are one and
the same piece of memory.  The model predicts all of it (the sharing relation from cell identities).
"""
from __future__ import annotations

from fractions import Fraction

import numpy as np

from harness.fpgen import CLS, KINDS, dump_fp, exc_enum, gen_fp, gen_value, rat, to_num

CM = {"sum": sum, "max": max, "min": min}


# ----------------------------------------------------------------------------------------------------------------
# running a history on the real objects
# ----------------------------------------------------------------------------------------------------------------

def pval(v):
    if isinstance(v, (str, int)) and not isinstance(v, bool):
        return v
    return {"other": repr(v)}


class Impl:
    def __init__(self):
        self.objs = []

    def num(self, o):
        for i, x in enumerate(self.objs):
            if x is o:
                return i
        return None

    def register(self, o):
        n = self.num(o)
        if n is None:
            self.objs.append(o)
            n = len(self.objs) - 1
        return n

    def do(self, op):
        o = op["o"]
        g = lambda k: self.objs[op[k]]  # noqa: E731
        if o == "new":
            kw = {"bits": op["bits"], "level": op["level"], "name": op.get("name"), "props": dict((k, v) for k, v in op["props"])}
            ix = None if op.get("indices") is None else np.array(op["indices"], dtype=np.int64)
            if op["kind"] == "bit":
                return self.register(CLS["bit"](ix if ix is not None else [], **kw))
            cn = None if op.get("counts") is None else {int(i): to_num(v) for i, v in op["counts"]}
            return self.register(CLS[op["kind"]](ix, counts=cn, **kw))
        if o == "from_fp":
            return self.register(CLS[op["kind"]].from_fingerprint(g("src")))
        if o == "fold":
            src = g("src")
            kw = {}
            if op.get("counts_method") is not None:
                kw["counts_method"] = CM[op["counts_method"]]
            return self.register(src.fold(op["bits"], op["method"], op["linked"], **kw))
        if o == "set_prop":
            g("obj").set_prop(op["key"], op["val"])
            return None
        if o == "set_name":
            g("obj").name = op["name"]
            return None
        if o == "set_level":
            g("obj").level = op["level"]
            return None
        if o == "poke_idx":
            g("obj").indices[op["pos"]] = op["val"]
            return None
        if o == "poke_count":
            g("obj").counts[op["key"]] = to_num(op["val"])
            return None
        if o == "set_counts":
            g("obj").counts = {int(i): to_num(v) for i, v in op["counts"]}
            return None
        if o == "setop":
            a, b = g("a"), g("b")
            f = {"or": lambda: a | b, "and": lambda: a & b, "xor": lambda: a ^ b, "add": lambda: a + b, "sub": lambda: a - b}[op["op"]]
            return self.register(f())
        if o == "addsub":
            a, b = g("a"), g("b")
            return self.register(a + b if op["sign"] == 1 else a - b)
        if o == "scalar":
            import operator
            a = g("a")
            x = to_num(op["x"])
            return self.register({"mul": operator.mul, "div": operator.truediv, "floordiv": operator.floordiv}[op["op"]](a, x))
        if o == "batch":
            from e3fp.fingerprint import fprint as fpm
            fps = [self.objs[i] for i in op["objs"]]
            w = None if op.get("weights") is None else [float(Fraction(x)) for x in op["weights"]]
            r = (fpm.mean if op["mean"] else fpm.add)(fps, weights=w)
            return None if r is None else self.register(r)
        raise ValueError("bad op " + o)

    def containers(self, i, o):
        out = [("%d.indices" % i, o.indices), ("%d.props" % i, o.props), ("%d.cache" % i, o.folded_fingerprint)]
        if hasattr(o, "_counts"):
            out.append(("%d.counts" % i, o._counts))
        if o.index_to_folded_index_dict is not None:
            out.append(("%d.i2f" % i, o.index_to_folded_index_dict))
        if o.index_to_unfolded_index_dict is not None:
            out.append(("%d.i2u" % i, o.index_to_unfolded_index_dict))
        return out

    def sharing(self):
        """groups (size > 1) of containers that are one piece of memory"""
        cs = [c for i, o in enumerate(self.objs) for c in self.containers(i, o)]
        groups = []
        used = set()
        for a in range(len(cs)):
            if a in used:
                continue
            grp = [cs[a][0]]
            for b in range(a + 1, len(cs)):
                if b in used:
                    continue
                x, y = cs[a][1], cs[b][1]
                same = x is y
                if not same and isinstance(x, np.ndarray) and isinstance(y, np.ndarray) and x.size and y.size:
                    same = bool(np.shares_memory(x, y))
                if same:
                    grp.append(cs[b][0])
                    used.add(b)
            if len(grp) > 1:
                groups.append(sorted(grp))
        return sorted(groups)

    def dump_obj(self, o):
        d = {"fp": dump_fp(o),
             "props": sorted([k, pval(v)] for k, v in o.props.items()),
             "cache": sorted([int(k[0]), int(k[1]), self.num(v)] for k, v in o.folded_fingerprint.items()),
             "unfolded": None if o.unfolded_fingerprint is None else self.num(o.unfolded_fingerprint)}
        m = o.index_to_folded_index_dict
        d["i2f"] = None if m is None else sorted([int(a), int(b)] for a, b in m.items())
        m = o.index_to_unfolded_index_dict
        d["i2u"] = None if m is None else sorted([int(a), sorted(int(x) for x in b)] for a, b in m.items())
        return d

    def run(self, ops):
        steps = []
        for op in ops:
            try:
                r = self.do(op)
                ans = {"ok": r}
            except RecursionError:
                ans = {"err": "RecursionError"}
            except Exception as e:  # noqa: BLE001
                ans = {"err": exc_enum(e)}
            steps.append({"ans": ans, "objs": [self.dump_obj(o) for o in self.objs], "shared": self.sharing()})
        return steps


def canon_model(answer):
    """the driver's answer to `fph.run`, in the shape Impl.run produces"""
    if "ok" not in answer:
        return answer
    steps = []
    for st in answer["ok"]:
        objs = []
        by_ref = {}
        for i, o in enumerate(st["objs"]):
            if "broken" in o:
                objs.append(o)
                continue
            fp = dict(o["fp"])
            fp["cnt"] = sorted(fp["cnt"], key=lambda p: p[0])
            d = {"fp": fp, "props": sorted(o["props"]), "cache": sorted(o["cache"]), "unfolded": o["unfolded"],
                 "i2f": None if o["i2f"] is None else sorted(o["i2f"]),
                 "i2u": None if o["i2u"] is None else sorted([a, sorted(b)] for a, b in o["i2u"])}
            objs.append(d)
            for name, ref in o["slots"]:
                by_ref.setdefault(ref, []).append("%d.%s" % (i, name))
        shared = sorted(sorted(g) for g in by_ref.values() if len(g) > 1)
        steps.append({"ans": st["ans"], "objs": objs, "shared": shared})
    return steps


# ----------------------------------------------------------------------------------------------------------------
# generating histories (the generator runs the real objects to know what is live and which positions exist)
# ----------------------------------------------------------------------------------------------------------------

def gen_history(rng, nops):
    im = Impl()
    ops = []

    def emit(op):
        ops.append(op)
        try:
            im.do(op)
        except Exception:  # noqa: BLE001
            pass

    def new_op():
        bits = rng.choice([16, 64, 64, 1024, 2 ** 20, 2 ** 32])
        f = gen_fp(rng, bits=bits, maxn=8, style=rng.choice(["sparse", "low", "collide", "collide", "empty"]))
        op = {"o": "new", "kind": f["kind"], "bits": bits, "level": f["level"],
              "name": rng.choice([None, None, "m1", "", "x_0"]),
              "props": rng.choice([[], [], [["tag", 1]], [["tag", "a"], ["Name", "fromprops"]]])}
        if f["kind"] == "bit":
            op["indices"] = f["idx"] + (rng.sample(f["idx"], 1) if f["idx"] and rng.random() < 0.3 else [])
            op["counts"] = None
            if rng.random() < 0.08:
                op["indices"] = op["indices"] + [rng.choice([bits, bits, bits + 1, 2 * bits])]     # a position beyond the last one: refused
        else:
            how = rng.choice(["both", "counts", "indices"])
            op["indices"] = None if how == "counts" else (f["idx"] + (rng.sample(f["idx"], 1) if f["idx"] and how == "indices" else []))
            if how == "indices" and rng.random() < 0.1:
                op["indices"] = op["indices"] + [rng.choice([bits, bits + 1])]
            op["counts"] = None if how == "indices" else f["cnt"]
            if how == "counts" and rng.random() < 0.1:
                op["counts"] = op["counts"] + [[rng.choice([bits, bits + 3]), "2"]]      # a count at a position beyond the last one: refused
        return op

    emit(new_op())
    while len(ops) < nops:
        n = len(im.objs)
        if n == 0:
            emit(new_op())
            continue
        i = rng.randrange(n)
        o = im.objs[i]
        kind = "bit" if o.__class__ is CLS["bit"] else ("count" if o.__class__ is CLS["count"] else "float")
        c = rng.choice(["new", "from_fp", "from_fp", "fold", "fold", "fold", "fold", "set_prop", "set_name", "set_level",
                        "poke_idx", "poke_count", "set_counts", "setop", "addsub", "scalar", "batch"])
        if c == "new":
            emit(new_op())
        elif c == "from_fp":
            to = rng.choice([kind, kind] + KINDS)
            if to == "count" and kind == "float" and any(v < 1 for v in o.counts.values()):
                # int() of a count below 1 is 0: a stored zero count is outside the class invariant (counts > 0) the value model covers
                to = "float"
            emit({"o": "from_fp", "kind": to, "src": i})
        elif c == "fold":
            b = int(o.bits)
            cands = [b // (2 ** k) for k in range(0, 6) if b % (2 ** k) == 0 and b // (2 ** k) >= 1]
            bits = rng.choice(cands + cands + [b * 2, 3, max(1, b // 3)])
            if o.folded_fingerprint and rng.random() < 0.4:        # return to a cached folding
                bits, method = rng.choice(list(o.folded_fingerprint))
                bits, method = int(bits), int(method)
            else:
                method = rng.choice([0, 0, 1, 2])
            op = {"o": "fold", "src": i, "bits": bits, "method": method, "linked": rng.random() < 0.75}
            if kind != "bit" and rng.random() < 0.5:
                op["counts_method"] = rng.choice(["sum", "max", "min"])
            emit(op)
        elif c == "set_prop":
            emit({"o": "set_prop", "obj": i, "key": rng.choice(["tag", "new", "Name"]), "val": rng.choice([1, 2, "v", "w"])})
        elif c == "set_name":
            emit({"o": "set_name", "obj": i, "name": rng.choice(["a", "b", "mol_3"])})
        elif c == "set_level":
            emit({"o": "set_level", "obj": i, "level": rng.choice([0, 1, 7, -1])})
        elif c == "poke_idx":
            # an in-place write into the index buffer; for count / float objects the content is the counts dictionary and an
            # index array that disagrees with it is outside every constructor's class invariant (poke_count is their in-place write)
            a = [int(x) for x in o.indices.tolist()]
            if not a or kind != "bit":
                continue
            pos = rng.randrange(len(a))
            lo = a[pos - 1] + 1 if pos > 0 else 0
            hi = a[pos + 1] - 1 if pos + 1 < len(a) else int(o.bits) - 1
            if lo > hi:
                continue
            emit({"o": "poke_idx", "obj": i, "pos": pos, "val": rng.randint(lo, min(hi, lo + 50))})
        elif c == "poke_count":
            if kind == "bit":
                continue
            keys = [int(k) for k in o.counts]
            if not keys:
                continue
            emit({"o": "poke_count", "obj": i, "key": rng.choice(keys), "val": gen_value(rng, kind)})
        elif c == "set_counts":
            if kind == "bit":
                continue
            keys = [int(k) for k in o.indices.tolist()]
            emit({"o": "set_counts", "obj": i, "counts": [[k, gen_value(rng, kind if kind == "count" else rng.choice(["count", "float"]))] for k in keys]})
        elif c == "setop":
            j = rng.randrange(n)
            p = im.objs[j]
            if o.__class__ is CLS["bit"] and p.__class__ is CLS["bit"]:
                emit({"o": "setop", "op": rng.choice(["or", "and", "xor", "add", "sub"]), "a": i, "b": j})
            elif o.__class__ is not CLS["bit"] and p.__class__ is not CLS["bit"]:
                emit({"o": "setop", "op": rng.choice(["or", "and", "xor"]), "a": i, "b": j})
        elif c == "scalar":
            if kind == "bit":
                continue
            sop = rng.choice(["mul", "div", "floordiv"])
            emit({"o": "scalar", "op": sop, "a": i, "x": str(rng.choice([1, 2, 4, 8]) if sop == "div" else rng.randint(1, 9))})
        elif c == "batch":
            # fingerprints of one length (the batch functions take the length from the first): 1, 2 or 4 members, dyadic weights
            same = [j for j, p in enumerate(im.objs) if int(p.bits) == int(o.bits)]
            k = rng.choice([1, 2, 2, 4])
            members = [i] + [rng.choice(same) for _ in range(k - 1)]
            w = rng.choice([None, None, ["1"] * k, (["1/2", "3/2", "1", "1"] * 1)[:k] if k != 1 else ["2"]])
            if w is not None and sum(Fraction(x) for x in w).numerator & (sum(Fraction(x) for x in w).numerator - 1):
                w = ["1"] * k
            emit({"o": "batch", "mean": rng.random() < 0.5, "objs": members, "weights": w})
        elif c == "addsub":
            j = rng.randrange(n)
            p = im.objs[j]
            if kind != "bit" and p.__class__ is not CLS["bit"]:
                # differences that would leave negative counts are outside the fingerprint model (class invariant counts > 0)
                sign = 1
                if all(p.counts.get(k, 0) <= v for k, v in o.counts.items()) and all(k in o.counts for k in p.counts):
                    sign = rng.choice([1, -1])
                emit({"o": "addsub", "sign": sign, "a": i, "b": j})
    return ops


def first_difference(a_impl, a_model):
    """(step number, what) of the first step where the two runs differ, else None"""
    if not isinstance(a_model, list):
        return (0, "model: %r" % (a_model,))
    for k, (x, y) in enumerate(zip(a_impl, a_model)):
        if x != y:
            for f in ("ans", "shared"):
                if x[f] != y[f]:
                    return (k, "%s: impl %r model %r" % (f, x[f], y[f]))
            for i, (p, q) in enumerate(zip(x["objs"], y["objs"])):
                if p != q:
                    for f in p:
                        if p[f] != q.get(f):
                            return (k, "object %d %s: impl %r model %r" % (i, f, p[f], q.get(f)))
            return (k, "object count: impl %d model %d" % (len(x["objs"]), len(y["objs"])))
    if len(a_impl) != len(a_model):
        return (min(len(a_impl), len(a_model)), "number of steps")
    return None


def frame_oracle(ops):
    """Direct evaluation, without the model: no two objects ever share a container, and a step changes nothing about
    any object other than the one it is applied to (for a fold: the source and the child cached for that key)."""
    im = Impl()
    prev = []
    for k, op in enumerate(ops):
        cached_child = None
        if op["o"] == "fold" and op["src"] < len(im.objs):
            c = im.objs[op["src"]].folded_fingerprint.get((op["bits"], op["method"]))
            cached_child = im.num(c) if c is not None else None
        try:
            im.do(op)
        except Exception:  # noqa: BLE001
            pass
        now = [im.dump_obj(o) for o in im.objs]
        if op["o"] == "new" and now:
            d = now[-1]["fp"]
            beyond = [i for i in d["idx"] + [c[0] for c in d["cnt"]] if not isinstance(i, int) or i >= d["bits"]]
            if beyond and len(now) > len(prev):
                return {"key": "position-beyond-length-accepted:" + d["kind"],
                        "what": "a %s fingerprint of length %d was constructed with a position %s" % (d["kind"], d["bits"], beyond[:3]), "step": k}
        sh = im.sharing()
        if sh:
            return {"key": "objects-share-state:%s:%s" % (op["o"], "+".join(sorted({x.split(".")[1] for g in sh for x in g}))),
                    "what": "after step %d (%s) containers are shared between objects: %r" % (k, op["o"], sh[:3]), "step": k}
        may = {op.get("obj"), op.get("src") if op["o"] == "fold" else None, cached_child}
        for i, (a, b) in enumerate(zip(prev, now)):
            if i not in may and a != b:
                f = [x for x in a if a[x] != b[x]]
                return {"key": "step-changes-other-object:%s:%s" % (op["o"], "+".join(f)),
                        "what": "step %d (%s) changed %s of object %d, which it was not applied to" % (k, op["o"], f, i), "step": k}
            if i in may and op["o"] == "fold" and i == op.get("src") and (a["fp"], a["props"]) != (b["fp"], b["props"]):
                return {"key": "fold-changes-source", "what": "step %d: folding changed the source's content or properties" % k, "step": k}
        prev = now
    return None


# ----------------------------------------------------------------------------------------------------------------
# observers: an object with a history must behave exactly like a fresh object with the same content
# ----------------------------------------------------------------------------------------------------------------

def _fresh(o):
    from harness.fpgen import make_fp
    f = make_fp(dump_fp(o))
    for k, v in o.props.items():
        f.set_prop(k, v)
    return f


def _sparse(v):
    v = v.tocsr()
    v.sort_indices()
    return [[int(i) for i in v.indices.tolist()], [rat(x) for x in v.data.tolist()], list(v.shape)]


def observers(which):
    from e3fp.fingerprint.metrics import fprint_metrics as fm
    import pickle
    obs = {}
    if "repr" in which:
        obs.update({
            "to_vector(sparse)": lambda o, f: _sparse(o.to_vector(sparse=True)),
            "to_vector(dense)": lambda o, f: [rat(x) for x in o.to_vector(sparse=False).tolist()] if o.bits <= 4096 else None,
            "to_bitstring": lambda o, f: o.to_bitstring() if o.bits <= 4096 else None,
            "to_rdkit": lambda o, f: sorted(o.to_rdkit().GetOnBits()) if o.bits < 2 ** 31 else None,
            "pickle": lambda o, f: dump_fp(pickle.loads(pickle.dumps(o))),
            "from_fingerprint": lambda o, f: dump_fp(o.__class__.from_fingerprint(o)),
            "from_vector(to_vector)": lambda o, f: dump_fp(o.__class__.from_vector(o.to_vector(sparse=True), level=o.level)),
            "bit_count": lambda o, f: int(o.bit_count),
            "counts": lambda o, f: sorted((int(k), rat(v)) for k, v in o.counts.items()),
            "get_count": lambda o, f: [rat(o.get_count(int(i))) for i in list(o.indices[:3]) + [0]],
            "getitem": lambda o, f: [bool(o[int(i)]) for i in list(o.indices[:3]) + [0]],
            "len": lambda o, f: len(o),
        })
    if "eq" in which:
        obs.update({
            "==fresh": lambda o, f: [bool(o == f), bool(f == o), bool(o != f), bool(f != o)] if o is not f else [True, True, False, False],
            "==copy": lambda o, f: (lambda c: [bool(o == c), bool(c == o), bool(o != c)])(o.__class__.from_fingerprint(o)),
        })
    if "metric" in which:
        obs.update({
            "mean": lambda o, f: rat(o.mean()),
            "std": lambda o, f: rat(o.std()),
        })
        for name in ("tanimoto", "dice", "cosine", "pearson", "soergel"):
            fn = getattr(fm, name)
            obs["%s(o,o)" % name] = (lambda fn: lambda o, f: rat(fn(o, o) if o is not f else fn(f, _fresh(f))))(fn)
            obs["%s(o,fresh)" % name] = (lambda fn: lambda o, f: rat(fn(o, f) if o is not f else fn(f, _fresh(f))))(fn)
    return obs


def observer_oracle(ops, which=("repr", "eq", "metric")):
    """After every step every live object answers every observer exactly as a fresh object built from its content does."""
    im = Impl()
    obs = observers(which)
    for k, op in enumerate(ops):
        try:
            im.do(op)
        except Exception:  # noqa: BLE001
            pass
        for i, o in enumerate(im.objs):
            try:
                f = _fresh(o)
            except Exception:  # noqa: BLE001   (content outside the constructors' domain after a poke)
                continue
            for name, fn in obs.items():
                def ev(x):
                    try:
                        return {"ok": fn(x, f)}
                    except Exception as e:  # noqa: BLE001
                        return {"err": type(e).__name__}
                a, b = ev(o), ev(f)
                if a != b:
                    return {"key": "object-differs-from-its-content:%s:after-%s" % (name, op["o"]),
                            "what": "after step %d (%s) object %d answers %s with %r, a fresh object with the same content with %r"
                                    % (k, op["o"], i, name, a, b), "step": k, "object": i}
    return None


# ----------------------------------------------------------------------------------------------------------------
# plugging object histories into a check
# ----------------------------------------------------------------------------------------------------------------

def with_heap_cases(which, n_quick=60, n_thorough=1500, label=""):
    """Class decorator: the check additionally runs object histories (correspondence with Model/FpHeap through `fph.run`,
    the frame oracle, and the observers named in `which`)."""
    def deco(cls):
        o_gen, o_impl, o_ops, o_ans, o_prop, o_non, o_cmp = (cls.gen_cases, cls.impl, cls.model_ops, cls.model_answer, cls.prop,
                                                             cls.nontrivial, cls.compare)

        def gen_cases(self):
            yield from o_gen(self)
            import random
            rng = random.Random(self.rng.random())     # own stream: the check's older cases keep their seeds
            for _ in range(n_quick if self.tier == "quick" else n_thorough):
                ops = gen_history(rng, rng.randint(4, 14))
                for op in ops:
                    self.count("heap:" + op["o"])
                yield {"t": "heap", "ops": ops}

        def impl(self, case):
            if case.get("t") == "heap":
                return {"steps": Impl().run(case["ops"])}
            return o_impl(self, case)

        def model_ops(self, case):
            if case.get("t") == "heap":
                return [{"op": "fph.run", "ops": case["ops"]}]
            return o_ops(self, case)

        def model_answer(self, case, answers):
            if case.get("t") == "heap":
                return {"steps": canon_model(answers[0])}
            return o_ans(self, case, answers)

        def compare(self, case, a_impl, a_model):
            if case.get("t") == "heap":
                d = first_difference(a_impl["steps"], a_model["steps"])
                return None if d is None else {"step": d[0], "what": d[1]}
            return o_cmp(self, case, a_impl, a_model)

        def prop(self, case):
            if case.get("t") == "heap":
                return frame_oracle(case["ops"]) or observer_oracle(case["ops"], which)
            return o_prop(self, case)

        def nontrivial(self, case, a_impl):
            if case.get("t") == "heap":
                import json
                return json.dumps(case["ops"], sort_keys=True)
            return o_non(self, case, a_impl)

        cls.gen_cases, cls.impl, cls.model_ops, cls.model_answer = gen_cases, impl, model_ops, model_answer
        cls.prop, cls.nontrivial, cls.compare = prop, nontrivial, compare
        cls.rule = cls.rule + (" Object histories%s: seeded sequences of 4-14 operations on live fingerprint objects (constructors, copies / "
                               "conversions, linked and unlinked folds with returns to a cached folding and other counts_method, setters, in-place "
                               "writes, binary operators); after every step every object and the sharing relation are compared with Model/FpHeap, "
                               "no step changes an object it was not applied to, and every object answers the observers (%s) like a fresh object "
                               "of the same content." % (label, ", ".join(which)))
        return cls
    return deco
